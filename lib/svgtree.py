"""Parsing of the implementation's outputs for the oracles: SVG documents (expat, a conforming
XML parser) and the harness's fragment dumps."""
import re, xml.parsers.expat
from fractions import Fraction as F

class Elem:
    __slots__ = ('tag', 'attrs', 'kids', 'parent')
    def __init__(self, tag, attrs):
        self.tag = tag; self.attrs = attrs; self.kids = []; self.parent = None
    def get(self, k, d=None):
        for a, v in self.attrs:
            if a == k: return v
        return d
    def text(self):
        return ''.join(k for k in self.kids if isinstance(k, str))
    def elems(self):
        return [k for k in self.kids if isinstance(k, Elem)]
    def walk(self):
        yield self
        for k in self.kids:
            if isinstance(k, Elem):
                yield from k.walk()
    def __repr__(self):
        return '<%s %s>' % (self.tag, ' '.join('%s="%s"' % a for a in self.attrs))

def unesc(s):
    return re.sub(r'\\u\{([0-9a-f]+)\}', lambda m: chr(int(m.group(1), 16)), s)

def parse_xml(text):
    """returns (root, None) or (None, error message).  Character data is kept as str children."""
    p = xml.parsers.expat.ParserCreate()
    p.ordered_attributes = True
    p.buffer_text = True
    root = []; stack = []
    def start(tag, attrs):
        e = Elem(tag, [(attrs[i], attrs[i + 1]) for i in range(0, len(attrs), 2)])
        if stack: e.parent = stack[-1]; stack[-1].kids.append(e)
        else: root.append(e)
        stack.append(e)
    def end(tag): stack.pop()
    def chars(data):
        if stack: stack[-1].kids.append(data)
    p.StartElementHandler = start; p.EndElementHandler = end; p.CharacterDataHandler = chars
    try:
        p.Parse(text.encode('utf-8', 'surrogatepass'), True)
    except xml.parsers.expat.ExpatError as e:
        return None, str(e)
    except Exception as e:
        return None, 'encode: ' + str(e)
    if len(root) != 1: return None, 'no single root'
    return root[0], None

def svg_of(result):
    """harness/driver result 'S <escaped>' -> text, or None"""
    if result is None or not result.startswith('S '): return None
    return unesc(result[2:])

def ticks(v, scale):
    """a user-unit number (string) at the given scale (Fraction) -> ticks as a Fraction snapped to 1/64 tick;
    returns None when it is not near the grid"""
    x = F(v) if not isinstance(v, F) else v
    t = x * 40 / scale
    s = round(t * 64)
    if abs(t * 64 - s) > F(3, 2): return None
    return F(s, 64)

NUMRE = re.compile(r'-?\d+(?:\.\d+)?(?:e[-+]?\d+)?')

def numbers(s):
    return [F(m.group(0)) if 'e' not in m.group(0) else F(float(m.group(0))) for m in NUMRE.finditer(s)]

# ---------------------------------------------------------------- dumps
def parse_q(s):
    if s.startswith('~'): return None
    if '/' in s:
        a, b = s.split('/'); return F(int(a), int(b))
    return F(int(s))

def parse_fragment(s):
    """'L(0,40,40,40,0)@span' -> dict"""
    span = None
    if '@' in s: s, span = s.split('@', 1)
    i = s.index('('); kind = s[:i]; body = s[i + 1:-1]
    if kind == 'P':
        parts = body.split(';')
        pts = [tuple(parse_q(v) for v in p.split(',')) for p in parts[1:-1]]
        return {'k': 'P', 'filled': parts[0] == '1', 'pts': pts, 'tags': [t for t in parts[-1].split(',') if t], 'span': span}
    f = body.split(',')
    if kind == 'L':
        return {'k': 'L', 'a': (parse_q(f[0]), parse_q(f[1])), 'b': (parse_q(f[2]), parse_q(f[3])), 'broken': f[4] == '1', 'span': span}
    if kind == 'ML':
        return {'k': 'ML', 'a': (parse_q(f[0]), parse_q(f[1])), 'b': (parse_q(f[2]), parse_q(f[3])), 'broken': f[4] == '1',
                'm1': f[5], 'm2': f[6], 'span': span}
    if kind == 'C':
        return {'k': 'C', 'c': (parse_q(f[0]), parse_q(f[1])), 'r': parse_q(f[2]), 'filled': f[3] == '1', 'span': span}
    if kind == 'A':
        return {'k': 'A', 'a': (parse_q(f[0]), parse_q(f[1])), 'b': (parse_q(f[2]), parse_q(f[3])), 'r': parse_q(f[4]),
                'major': f[5] == '1', 'sweep': f[6] == '1', 'span': span}
    if kind == 'R':
        return {'k': 'R', 'a': (parse_q(f[0]), parse_q(f[1])), 'b': (parse_q(f[2]), parse_q(f[3])), 'filled': f[4] == '1',
                'radius': None if f[5] == '-' else parse_q(f[5]), 'broken': f[6] == '1', 'span': span}
    if kind in ('CT', 'T'):
        content = ''.join(chr(int(t)) for t in (f[2] if len(f) > 2 else '').split('.') if t)
        return {'k': kind, 'cell': (parse_q(f[0]), parse_q(f[1])), 'text': content, 'span': span}
    raise ValueError('fragment ' + s)

def sections(dump):
    """'A .. | G .. | E .. | L .. | B ..' -> dict with lists"""
    out = {'A': [], 'G': [], 'E': '', 'L': '', 'B': None, 'cells': '', 'esc': '', 'css': ''}
    for sec in dump.split(' | '):
        sec = sec.strip()
        if not sec: continue
        tag, _, rest = sec.partition(' ')
        if tag == 'A': out['A'] = [parse_fragment(w) for w in rest.split()]
        elif tag == 'G': out['G'].append([parse_fragment(w) for w in rest.split()])
        elif tag in ('E', 'L', 'cells', 'esc', 'css'): out[tag] = rest
        elif tag == 'B': out['B'] = tuple(int(v) for v in rest.split(','))
    return out

def cut(dump, tags):
    """keep only the sections with the given tags, in order"""
    keep = []
    for sec in dump.split(' | '):
        t = sec.strip().partition(' ')[0]
        if t in tags: keep.append(sec.strip())
    return ' | '.join(keep)
