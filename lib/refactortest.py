"""applies a behaviour-preserving patch (/verif/refactors/<set>/<name>.diff) to /repo, runs every quick check, undoes the patch.
A check that exits non-zero or prints VIOLATION here is a false alarm of the machinery.
usage: refactortest.py <set>/<name> [Cxx ...]"""
import sys, subprocess, os, json, time
name = sys.argv[1]; props = sys.argv[2:] or ['C%02d' % i for i in range(1, 21)]
patch = '/verif/refactors/%s.diff' % name
assert subprocess.run(['git', '-C', '/repo', 'status', '--porcelain', '--untracked-files=no'], capture_output=True, text=True).stdout.strip() == '', '/repo is dirty'
r = subprocess.run(['git', '-C', '/repo', 'apply', patch], capture_output=True, text=True)
if r.returncode != 0: print('APPLY FAILED', r.stderr); sys.exit(2)
res = {}
try:
    for p in props:
        t0 = time.time()
        q = subprocess.run(['./check', p, 'quick'], cwd='/verif', capture_output=True, text=True)
        vio = [l for l in q.stdout.split('\n') if l.startswith('VIOLATION')]
        res[p] = {'exit': q.returncode, 'violations': vio[:2], 'summary': q.stdout.strip().split('\n')[-1], 'wall_s': round(time.time() - t0, 1)}
        print(name, p, 'exit', q.returncode, vio[:1], '|', res[p]['summary'], flush=True)
finally:
    subprocess.run(['git', '-C', '/repo', 'checkout', '--', '.'])
json.dump(res, open('/verif/refactors/%s.result.json' % name, 'w'), indent=1)
bad = [p for p in res if res[p]['exit'] != 0]
print(name, 'FALSE ALARMS:' if bad else 'quiet', bad)
