"""writes seeded/INDEX.json from the per-seed files (meta.json, verified.json, result_<Cxx>.json)"""
import json, glob, os
out = []
for d in sorted(glob.glob('/verif/seeded/C*-m*')):
    name = os.path.basename(d); prop = name.split('-')[0]
    def load(f):
        try: return json.load(open(os.path.join(d, f)))
        except Exception: return {}
    meta = load('meta.json'); ver = load('verified.json'); res = load('result_%s.json' % prop).get(prop, {})
    out.append({'seed': name, 'property': prop, 'round': {'1': 1, '2': 1, '3': 2, '4': 2, '5': 3, '6': 3, '7': 4, '8': 4}.get(name[-1], 0),
                'summary': (meta.get('summary') or '')[:200], 'needs': (meta.get('needs_to_manifest') or '')[:200],
                'confirmed': bool(ver.get('applies') and ver.get('suite_passes_with_change') and ver.get('demo_fails_with_change') and ver.get('demo_passes_without_change')),
                'still_a_violation': bool(ver.get('demo_fails_with_change')),     # false: a later fix made the change harmless (its demonstration passes with it)
                'reported_by_check': res.get('exit') == 1 and bool(res.get('violations')),
                'violation_line': (res.get('violations') or [''])[0], 'check_summary': res.get('summary', '')})
json.dump(out, open('/verif/seeded/INDEX.json', 'w'), indent=1, ensure_ascii=False)
print(len(out), 'seeds;', sum(1 for o in out if o['confirmed']), 'confirmed;', sum(1 for o in out if o['reported_by_check']), 'reported;', [o['seed'] for o in out if o['confirmed'] and not o['reported_by_check']], 'confirmed but not reported;', [o['seed'] for o in out if not o['confirmed']], 'not (or no longer) a violation')
