"""writes MANIFEST.json from the property modules that exist (lib/props/Cxx.py)"""
import os, sys, json
VERIF = os.path.dirname(os.path.dirname(os.path.abspath(__file__)))
sys.path.insert(0, os.path.join(VERIF, 'lib')); sys.path.insert(0, os.path.join(VERIF, 'gen'))
import importlib
props = [json.loads(l) for l in open(os.path.join(VERIF, 'properties.jsonl'))]
checks = []; na = []
for p in props:
    pid = p['id']
    if os.path.exists(os.path.join(VERIF, 'lib', 'props', pid + '.py')) and os.path.exists(os.path.join(VERIF, 'coq', 'Props', pid + '.v')):
        mod = importlib.import_module('props.' + pid)
        P = mod.PROP
        checks.append({
            'property_id': pid,
            'quick_cmd': './check %s quick' % pid,
            'thorough_cmd': './check %s thorough' % pid,
            'evidence_file': 'evidence/%s.json' % pid,
            'replay_cmd_template': './check %s --replay {path}' % pid,
            'engine': 'rocq',
            'level_claimed': {'category': 'proof', 'text': getattr(P, 'level_text', ''), 'design_ref': 'DESIGN.md section 6, %s' % pid},
            'level_note': getattr(P, 'level_note', ''),
            'technique': getattr(P, 'technique', 'machine-checked proof in Rocq (Coq 8.16) about an executable Gallina model, tied to the code by a translator for the tables and a stage-wise differential correspondence check'),
        })
    else:
        na.append({'property_id': pid, 'reason': 'check not built yet (framework under construction); will be claimed once its theorem and correspondence exist'})
m = {
    'version': 1,
    'setup_cmd': 'python3 lib/build.py',
    'hooks': {
        'guard': 'verif-hooks',
        'enable': 'cargo feature: the harness crate depends on svgbob with features = ["verif-hooks"] (off by default)',
        'baseline_off_cmd': 'cd /repo && cargo test --workspace --no-fail-fast --offline',
        'source_commits': ['89e38d8', 'a0ea107'],
        'add_only': True,
    },
    'engines': [{'name': 'rocq', 'path': 'coq/', 'serves_properties': [c['property_id'] for c in checks],
                 'kind_free_text': 'Coq 8.16.1 development (Model, Gen regenerated from /repo, Theory, Props) + extracted OCaml model driver + Rust harness crate linked to /repo/crates/svgbob'}],
    'checks': checks,
    'notes': 'every check: regenerate Gen/*.v from /repo, make Props/Cxx.vo, Print Assumptions audit, stage-wise correspondence of the extracted model against the implementation, oracle on the implementation outputs; see DESIGN.md',
    'not_applicable': na,
}
json.dump(m, open(os.path.join(VERIF, 'MANIFEST.json'), 'w'), indent=1)
print('claimed', [c['property_id'] for c in checks])
