"""confirms every seeded change in a scratch worktree: (a) the existing suite passes with it, (b) its demonstration
fails with it, (c) the demonstration passes without it.  Writes verified.json next to each seed."""
import os, sys, subprocess, json, shutil, glob
WT = '/tmp/wt_verify'
ENV = dict(os.environ, CARGO_NET_OFFLINE='true', CARGO_TARGET_DIR='/tmp/wt_verify_target')
def sh(cmd, cwd=WT, timeout=3000):
    p = subprocess.run(cmd, cwd=cwd, env=ENV, stdout=subprocess.PIPE, stderr=subprocess.STDOUT, timeout=timeout)
    return p.returncode, p.stdout.decode('utf-8', 'replace')
def main(names):
    if not os.path.exists(WT): subprocess.run(['git', '-C', '/repo', 'worktree', 'add', '-q', WT, 'HEAD'], check=True)
    for name in names:
        d = '/verif/seeded/' + name
        out = {'seed': name}
        sh(['git', 'checkout', '--', '.']); sh(['git', 'clean', '-fdq', 'crates'])
        demo_rs = os.path.join(d, 'demo.rs'); demo_sh = os.path.join(d, 'demo.sh'); demo_py = os.path.join(d, 'demo.py')
        def run_demo():
            if os.path.exists(demo_rs):
                shutil.copy(demo_rs, os.path.join(WT, 'crates/svgbob/tests/seed_demo.rs'))
                rc, o = sh(['cargo', 'test', '--offline', '-p', 'svgbob', '--test', 'seed_demo'])
                os.remove(os.path.join(WT, 'crates/svgbob/tests/seed_demo.rs'))
                return rc, o[-1500:]
            for f in (demo_sh, demo_py):
                if os.path.exists(f):
                    txt = open(f).read().replace('/tmp/wt_' + name.split('-')[0], WT).replace('/tmp/s2_' + name.split('-')[0], WT).replace('/tmp/s3_' + name.split('-')[0], WT).replace('/tmp/s4_' + name.split('-')[0], WT)
                    tmp = os.path.join(WT, 'seed_demo' + os.path.splitext(f)[1]); open(tmp, 'w').write(txt)
                    rc, o = sh((['bash'] if f.endswith('.sh') else ['python3']) + [tmp, WT]); os.remove(tmp); return rc, o[-1500:]
            return None, 'no demo'
        rc, o = run_demo(); out['demo_passes_without_change'] = (rc == 0); out['demo_clean_tail'] = o[-400:]
        rc, o = sh(['git', 'apply', os.path.join(d, 'patch.diff')]); out['applies'] = (rc == 0)
        if rc == 0:
            rc, o = sh(['cargo', 'test', '--workspace', '--offline', '--no-fail-fast'])
            out['suite_passes_with_change'] = (rc == 0); out['suite_tail'] = '\n'.join(l for l in o.split('\n') if l.startswith('test result'))[-600:]
            rc, o = run_demo(); out['demo_fails_with_change'] = (rc not in (0, None)); out['demo_changed_tail'] = o[-400:]
        sh(['git', 'checkout', '--', '.'])
        json.dump(out, open(os.path.join(d, 'verified.json'), 'w'), indent=1)
        print(name, {k: v for k, v in out.items() if isinstance(v, bool)}, flush=True)
if __name__ == '__main__':
    names = sys.argv[1:] or sorted(os.path.basename(p) for p in glob.glob('/verif/seeded/*'))
    main(names)
