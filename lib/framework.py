"""./check <Cxx> quick|thorough [--replay file]

1 regenerate (translator, dumps, anchors)   2 prove (make Props/Cxx.vo, audit)
3 correspond (model vs implementation, stage by stage, on the property's own streams)
4 oracle on the implementation's outputs    5 verdict    6 evidence
See DESIGN.md section 5."""
import os, sys, json, time, random, re, hashlib, glob, subprocess, collections, traceback

VERIF = os.path.dirname(os.path.dirname(os.path.abspath(__file__)))
sys.path.insert(0, os.path.join(VERIF, 'lib')); sys.path.insert(0, os.path.join(VERIF, 'gen'))
import build, proto, svgtree

COQ = os.path.join(VERIF, 'coq')
EVID = os.path.join(VERIF, 'evidence')
REPLAYS = os.path.join(VERIF, 'build', 'replays')
WORK = os.path.join(VERIF, 'build', 'work')

ENTRIES = ('to_svg', 'pretty', 'compressed', 'settings', 'override')

class Run:
    """one conversion: input text, settings spec, entry point"""
    def __init__(self, text, spec='', entry='settings'):
        self.text = text; self.spec = spec; self.entry = entry
        self.impl = {}; self.model = {}; self.div = []
    def key(self): return (self.text, self.spec, self.entry)
    def svg(self): return svgtree.svg_of(self.impl.get('svg'))
    def panicked(self):
        return [k for k, v in self.impl.items() if v is None or v.startswith('PANIC')]
    def to_json(self):
        return {'input_scalars': [ord(c) for c in self.text], 'input_preview': self.text[:300], 'settings': self.spec,
                'entry': self.entry}

class Item:
    """one test of a property: one or more related runs plus what the oracle needs"""
    def __init__(self, gen, runs, meta=None, factory=None):
        self.gen = gen; self.runs = runs; self.meta = meta or {}; self.factory = factory
        self.failures = []; self.known = []
    def to_json(self):
        return {'generator': self.gen, 'runs': {k: r.to_json() for k, r in self.runs.items()}, 'meta': self.meta}

class Prop:
    id = 'C00'
    stages = ('S1', 'S25', 'S6')
    needs = ('cells', 'frags', 'svg')      # implementation outputs the oracle or the tie uses
    coq_targets = None
    coq_targets_thorough = ()        # further targets built by the thorough tier only (long sweeps; setup builds them too)
    bins = False
    partial = ''
    def items(self, rng, tier): return []
    def oracle(self, item): return []
    def known(self, item, failure): return None
    def nontrivial(self, item): return True
    def extra(self, ctx): return {}
    def targets(self, tier='quick'):
        return list(self.coq_targets or ['Props/%s.vo' % self.id]) + (list(self.coq_targets_thorough) if tier == 'thorough' else [])

# ------------------------------------------------------------------ execution
SINGLE_TIMEOUT = 30     # one conversion of one generated input never legitimately takes this long (debug build)

def execute(items, stages, needs, tag, jobs=16, timeout=900, impl_timeout=300):
    """fills run.impl / run.model / run.div for every run of every item"""
    runs = {}
    for it in items:
        for r in it.runs.values():
            k = r.key()
            if k in runs: continue
            runs[k] = r
    uniq = list(runs.values())
    texts = {}
    for r in uniq: texts.setdefault(r.text, []).append(r)
    tlist = list(texts.keys())
    tid = {t: i for i, t in enumerate(tlist)}
    # --- implementation
    cases = []
    want_cells = 'S1' in stages or 'S25' in stages or 'cells' in needs
    want_frags = 'S25' in stages or 'S6' in stages or 'frags' in needs
    for t in tlist:
        if want_cells: cases.append(proto.Case('c%d' % tid[t], 'cells', '', t))
        if want_frags: cases.append(proto.Case('f%d' % tid[t], 'frags', '', t))
    for i, r in enumerate(uniq):
        r._i = i
        if 'S6' in stages or 'svg' in needs:
            cases.append(proto.Case('s%d' % i, 'svg:' + r.entry, r.spec, r.text))
    wd = os.path.join(WORK, tag)
    impl, _, nondet, problems = proto.run_both(cases, os.path.join(wd, 'impl'), jobs=jobs, want_model=False, impl_timeout=impl_timeout)
    # a shard that died (abort, stack overflow, timeout) leaves results missing: rerun its cases one by one
    missing = [c for c in cases if c.id not in impl]
    crashed = {}
    if missing:
        t_single = time.time()
        for c in missing[:200]:
            if len(crashed) >= 8 or time.time() - t_single > 600: break      # enough evidence; do not spend the run on hangs
            i2, _, _, pr = proto.run_both([c], os.path.join(wd, 'impl1'), jobs=1, want_model=False, impl_timeout=min(impl_timeout, SINGLE_TIMEOUT))
            if c.id in i2: impl[c.id] = i2[c.id]
            else: crashed[c.id] = 'PANIC process died: %s' % (pr[0][2:] if pr else '?',); impl[c.id] = crashed[c.id]
    for t in tlist:
        for r in texts[t]:
            if want_cells: r.impl['cells'] = impl.get('c%d' % tid[t])
            if want_frags: r.impl['frags'] = impl.get('f%d' % tid[t])
    for r in uniq:
        if 'S6' in stages or 'svg' in needs: r.impl['svg'] = impl.get('s%d' % r._i)
    # --- model, stage by stage, fed with the implementation's own intermediate results
    mcases = []
    for t in tlist:
        r0 = texts[t][0]
        if 'S1' in stages: mcases.append(proto.Case('c%d' % tid[t], 'cells', '', t))
        if 'S25' in stages:
            c = r0.impl.get('cells') or ''
            if c.startswith('cells '):
                cells = svgtree.sections(c)['cells']
                mcases.append(proto.Case('e%d' % tid[t], 'endorse', '', cells))
    for r in uniq:
        if 'S6' in stages:
            f = r.impl.get('frags') or ''
            if f.startswith('A'):
                mcases.append(proto.Case('s%d' % r._i, 'emit:' + r.entry, r.spec, f))
    _, model, _, mproblems = proto.run_both(mcases, os.path.join(wd, 'model'), jobs=jobs, want_impl=False)
    ndiv = collections.Counter()
    for t in tlist:
        for r in texts[t]:
            if 'S1' in stages:
                m = model.get('c%d' % tid[t]); r.model['S1'] = m
                if m != r.impl.get('cells'): r.div.append('S1')
            if 'S25' in stages:
                m = model.get('e%d' % tid[t]); r.model['S25'] = m
                a = r.impl.get('frags') or ''
                if (r.impl.get('cells') or '').startswith('cells '):
                    if m is None or svgtree.cut(m, ('A', 'G')) != svgtree.cut(a, ('A', 'G')): r.div.append('S25')
                elif 'S1' not in stages: r.div.append('S25')
    for r in uniq:
        if 'S6' in stages:
            m = model.get('s%d' % r._i); r.model['S6'] = m
            if (r.impl.get('frags') or '').startswith('A'):
                if not proto.same_result('svg:', r.impl.get('svg'), m): r.div.append('S6')
            elif 'S25' not in stages and 'S1' not in stages: r.div.append('S6')
    # runs with the same input, settings and entry point are executed once: every copy gets the results
    shared = 0
    for it in items:
        for r in it.runs.values():
            rep = runs[r.key()]
            if r is not rep: r.impl = rep.impl; r.model = rep.model; r.div = list(rep.div); shared += 1
    return {'impl_cases': len(cases), 'model_cases': len(mcases), 'shared_runs': shared, 'problems': [str(p)[:300] for p in (problems + mproblems)][:5],
            'crashed': len(crashed), 'unique_runs': len(uniq), 'unique_texts': len(tlist)}

# ------------------------------------------------------------------ shrinking
def shrink_text(text, still_fails, budget=120, wall=240):
    """delete rows, delete columns, blank cells while the failure persists (bounded in attempts and in time)"""
    best = text; tries = 0; t_start = time.time()
    def attempt(t):
        nonlocal best, tries
        if tries >= budget or t == best or time.time() - t_start > wall: return False
        tries += 1
        try:
            if still_fails(t): best = t; return True
        except Exception: pass
        return False
    changed = True
    while changed and tries < budget:
        changed = False
        rows = best.split('\n')
        for i in range(len(rows)):
            if len(rows) > 1 and attempt('\n'.join(rows[:i] + rows[i + 1:])): changed = True; break
        if changed: continue
        rows = best.split('\n'); w = max(len(r) for r in rows) if rows else 0
        for x in range(w):
            if attempt('\n'.join(r[:x] + r[x + 1:] for r in rows)): changed = True; break
        if changed: continue
        for i, ch in enumerate(best):
            if ch not in ' \n' and attempt(best[:i] + ' ' + best[i + 1:]): changed = True; break
    return best

# ------------------------------------------------------------------ proofs
FORBIDDEN = re.compile(r'\b(Admitted|admit|Axiom|Axioms|Parameter|Parameters|Conjecture|Conjectures|Hypothesis|Hypotheses|Variable|Variables)\b|Unset\s+Guard|bypass_check|type-in-type|impredicative-set|Admit Obligations|Unset\s+Positivity|Unset\s+Universe')
ALLOWED_AXIOMS = set()   # no axiom is expected under any property theorem

def strip_coq_comments(s):
    out = []; depth = 0; i = 0
    while i < len(s):
        if s.startswith('(*', i): depth += 1; i += 2
        elif s.startswith('*)', i) and depth: depth -= 1; i += 2
        else:
            if depth == 0: out.append(s[i])
            i += 1
    return ''.join(out)

def static_audit():
    """forbidden vernacular anywhere in the development (Context/Variable inside sections are accepted)"""
    bad = []
    for f in sorted(glob.glob(os.path.join(COQ, '**', '*.v'), recursive=True)):
        src = strip_coq_comments(open(f).read())
        # section tracking for Variable/Hypothesis/Context
        depth = 0
        for ln, line in enumerate(src.split('\n'), 1):
            if re.match(r'\s*Section\b', line): depth += 1
            if re.match(r'\s*End\b', line) and depth: depth -= 1
            for m in FORBIDDEN.finditer(line):
                w = m.group(0)
                if re.match(r'(Variable|Variables|Hypothesis|Hypotheses)$', w) and depth > 0: continue
                bad.append('%s:%d: %s' % (os.path.relpath(f, COQ), ln, w))
    return bad

def deps_of(target):
    """the .v files a target transitively depends on (from coqdep's .Makefile.d)"""
    d = os.path.join(COQ, '.Makefile.d')
    dep = {}
    if os.path.exists(d):
        for line in open(d):
            if ':' not in line: continue
            lhs, rhs = line.split(':', 1)
            for t in lhs.split():
                if t.endswith('.vo'):
                    dep[t] = [x for x in rhs.split() if x.endswith('.vo')]
    seen = set(); todo = [target]
    while todo:
        t = todo.pop()
        if t in seen: continue
        seen.add(t)
        todo += dep.get(t, [])
    return sorted(x[:-1] for x in seen if os.path.exists(os.path.join(COQ, x[:-1])))

STMT = re.compile(r'^\s*(Theorem|Lemma|Example|Corollary|Fact|Remark|Proposition)\s+([A-Za-z0-9_\']+)', re.M)

def count_obligations(vfiles):
    per = {}
    for f in vfiles:
        src = strip_coq_comments(open(os.path.join(COQ, f)).read())
        per[f] = [m.group(2) for m in STMT.finditer(src)]
    return per

def assumptions_audit(prop_id, status, files=None):
    """Print Assumptions under every Theorem of Props/Cxx.v (and of the further Props files among the targets), in a fresh coqc run"""
    names = []; body = ''
    for pfn in (files or [prop_id]):
        pf = os.path.join(COQ, 'Props', pfn + '.v')
        src = strip_coq_comments(open(pf).read())
        ns = [m.group(2) for m in STMT.finditer(src) if m.group(1) == 'Theorem']
        body += 'Require Import SB.Props.%s.\n' % pfn + ''.join('Print Assumptions %s.\n' % n for n in ns)
        names += ns
    d = os.path.join(VERIF, 'build', 'audit'); os.makedirs(d, exist_ok=True)
    f = os.path.join(d, 'Audit_%s.v' % prop_id); open(f, 'w').write(body)
    rc, out, dt = build.sh(['coqc', '-R', COQ, 'SB', '-noglob', f], cwd=d, timeout=600)
    res = {'theorems': names, 'rc': rc, 'axioms': [], 'closed': out.count('Closed under the global context')}
    if rc != 0:
        res['log'] = out[-2000:]
    else:
        # anything that is not the "Closed" line is an axiom listing
        for blk in out.split('\n'):
            m = re.match(r'^([A-Za-z_][A-Za-z0-9_\.\']*)\s*:', blk)
            if m and m.group(1) not in ('Axioms',): res['axioms'].append(m.group(1))
    res['ok'] = rc == 0 and res['closed'] == len(names) and not [a for a in res['axioms'] if a not in ALLOWED_AXIOMS]
    return res

# ------------------------------------------------------------------ findings
def load_known():
    p = os.path.join(VERIF, 'known_findings.json')
    if not os.path.exists(p): return []
    return json.load(open(p)).get('findings', [])

# ------------------------------------------------------------------ main
def write_replay(prop, tier, seed, k, payload):
    os.makedirs(REPLAYS, exist_ok=True)
    p = os.path.join(REPLAYS, '%s_%s_%d.json' % (prop.id, tier, k))
    payload = dict(payload, property=prop.id, tier=tier, seed=seed)
    json.dump(payload, open(p, 'w'), indent=1, ensure_ascii=False, default=str)
    return p

def main(prop, argv):
    t0 = time.time()
    tier = os.environ.get('VERIF_TIER') or (argv[0] if argv and argv[0] in ('quick', 'thorough') else 'quick')
    if argv and argv[0] in ('quick', 'thorough'): tier = argv[0]
    seed = int(os.environ.get('VERIF_SEED', '20260926'))
    replay = None
    if '--replay' in argv: replay = argv[argv.index('--replay') + 1]
    rng = random.Random(seed * 1000003 + int(prop.id[1:]))
    os.makedirs(EVID, exist_ok=True)
    ev_path = os.path.join(EVID, prop.id + '.json')
    for old in glob.glob(os.path.join(REPLAYS, '%s_%s_*.json' % (prop.id, tier))):
        try: os.remove(old)
        except OSError: pass
    out_lines = []
    violations = []     # (replay path, suffix)
    broken = []         # what no longer checks
    # 1, 2: regenerate and prove
    st = build.ensure(prop.targets(tier), release=getattr(prop, 'release', False) and tier == 'thorough', bins=prop.bins)
    if not st.get('harness', {}).get('ok'):
        # the implementation does not build: nothing can be run
        print('harness build failed:\n' + st.get('harness', {}).get('log', ''))
        p = write_replay(prop, tier, seed, 0, {'broken': 'the harness (and therefore /repo) does not build', 'log': st.get('harness', {}).get('log', '')[-2000:]})
        print('VIOLATION property=%s replay=%s no-failing-input-found' % (prop.id, p))
        return 1
    if not st.get('ok_translate'):
        for k in ('tables', 'gen_unicode', 'rs2v', 'gen_tables', 'anchors'):
            if k in st and not st[k].get('ok'): broken.append('translator step %s: %s' % (k, st[k].get('log', '')[-400:]))
    anchors = []
    try:
        anchors = json.load(open(os.path.join(VERIF, 'build', 'anchors.json')))
    except Exception: pass
    for a in anchors:
        if not a['ok'] and prop.id in a['props']: broken.append('anchor: %s %s' % (a['name'], a.get('detail', '')))
    if not st.get('ok_model'): broken.append('the model no longer compiles against the regenerated tables: ' + st.get('coq_model', {}).get('log', '')[-600:])
    proofs_ok = bool(st.get('coq_props', {}).get('ok'))
    if not proofs_ok:
        log = st.get('coq_props', {}).get('log', '')
        m = re.search(r'File "([^"]+)", line (\d+)', log)
        broken.append('proof: make %s failed%s: %s' % (' '.join(prop.targets(tier)), (' at %s:%s' % (m.group(1), m.group(2))) if m else '', log[-500:]))
    audit = static_audit()
    if audit: broken.append('static audit: ' + '; '.join(audit[:5]))
    assum = {'ok': False, 'theorems': []}
    if proofs_ok:
        assum = assumptions_audit(prop.id, st, [t[6:-3] for t in prop.targets(tier) if t.startswith('Props/')])
        if not assum['ok']: broken.append('Print Assumptions: %s' % json.dumps({k: assum[k] for k in ('axioms', 'closed', 'rc')}))
    vfiles = sorted({f for t in prop.targets(tier) for f in deps_of(t)}) if os.path.exists(os.path.join(COQ, '.Makefile.d')) else []
    per = count_obligations(vfiles)
    obligations = sum(len(v) for f, v in per.items() if f.startswith(('Theory/', 'Props/')))
    failed_files = set()
    if not proofs_ok:
        for m in re.finditer(r'File "\./([^"]+)"', st.get('coq_props', {}).get('make_output', '')): failed_files.add(m.group(1))
        for f in per:
            if not os.path.exists(os.path.join(COQ, f + 'o')) or os.path.getmtime(os.path.join(COQ, f + 'o')) < os.path.getmtime(os.path.join(COQ, f)):
                failed_files.add(f)
    discharged = sum(len(v) for f, v in per.items() if f.startswith(('Theory/', 'Props/')) and f not in failed_files)

    # 3, 4: correspondence and oracle
    if replay:
        rp = json.load(open(replay))
        items = [prop.item_from_json(rp['item'])] if 'item' in rp else []
    else:
        items = prop.items(rng, tier)
    stats = execute(items, prop.stages, prop.needs, prop.id + '_' + tier) if items else {}
    extra = prop.extra({'tier': tier, 'rng': rng, 'seed': seed, 'status': st}) or {}
    known = load_known()
    div_items = []; fail_items = []; kf_lines = collections.OrderedDict()
    for it in items:
        it.div = sorted({s for r in it.runs.values() for s in r.div})
        try:
            fs = prop.oracle(it)
        except Exception as e:
            fs = ['oracle crashed: %s' % traceback.format_exc()[-600:]]
        for f in fs:
            k = prop.known(it, f)
            if k and any(x.get('id') == k and x.get('status') == 'known' and x.get('property') == prop.id for x in known):
                it.known.append((k, f)); kf_lines.setdefault(k, f)
            else:
                it.failures.append(f)
        if it.failures: fail_items.append(it)
        if it.div: div_items.append(it)
    for f in extra.get('failures', []):
        fail_items.append(f)
    for b in extra.get('broken', []): broken.append(b)
    nk = 0
    # oracle failures on the implementation: violations with a failing input
    for it in fail_items[:5]:
        nk += 1
        if isinstance(it, Item):
            small = it
            if it.factory and len(it.runs) >= 1:
                def still(t, it=it):
                    cand = it.factory(t)
                    execute([cand], (), prop.needs, prop.id + '_shrink', jobs=1, impl_timeout=SINGLE_TIMEOUT)
                    return bool([f for f in prop.oracle(cand) if not prop.known(cand, f)])
                try:
                    t0s = it.meta.get('text', next(iter(it.runs.values())).text)
                    ts = shrink_text(t0s, still)
                    if ts != t0s:
                        small = it.factory(ts); execute([small], prop.stages, prop.needs, prop.id + '_shrink', jobs=1, impl_timeout=SINGLE_TIMEOUT)
                        small.failures = [f for f in prop.oracle(small) if not prop.known(small, f)]
                except Exception: small = it
            payload = {'kind': 'failing-input', 'item': small.to_json(), 'failures': small.failures[:5], 'original_item': it.to_json(),
                       'stages_diverging_from_model': it.div,
                       'implementation_outputs': {k: {o: (v or '')[:4000] for o, v in r.impl.items()} for k, r in small.runs.items()}}
        else:
            payload = {'kind': 'failing-input', 'detail': it}
        p = write_replay(prop, tier, seed, nk, payload)
        out_lines.append('VIOLATION property=%s replay=%s' % (prop.id, p)); violations.append(p)
    # broken tie or proof without a failing input
    if not fail_items:
        if div_items:
            it = div_items[0]
            r = next(r for r in it.runs.values() if r.div)
            stg = r.div[0]
            a = {'S1': r.impl.get('cells'), 'S25': svgtree.cut(r.impl.get('frags') or '', ('A', 'G')), 'S6': r.impl.get('svg')}[stg]
            payload = {'kind': 'correspondence', 'no_longer_checks': 'correspondence stage %s (model vs implementation) on %d of %d items' % (stg, len(div_items), len(items)),
                       'item': it.to_json(), 'stage': stg, 'first_difference': proto.first_diff(a, r.model.get(stg)),
                       'note': 'the oracle of %s found no failing input among %d items' % (prop.id, len(items))}
            nk += 1; p = write_replay(prop, tier, seed, nk, payload)
            out_lines.append('VIOLATION property=%s replay=%s no-failing-input-found' % (prop.id, p)); violations.append(p)
        elif broken:
            payload = {'kind': 'proof-or-tie', 'no_longer_checks': broken, 'note': 'the oracle of %s found no failing input among %d items' % (prop.id, len(items))}
            nk += 1; p = write_replay(prop, tier, seed, nk, payload)
            out_lines.append('VIOLATION property=%s replay=%s no-failing-input-found' % (prop.id, p)); violations.append(p)
    for k, f in kf_lines.items():
        out_lines.append('KNOWN-FINDING: property=%s %s: %s' % (prop.id, k, f[:200].replace('\n', ' ')))

    # 6: evidence
    nontriv = set()
    gens_count = collections.Counter(); sizes = collections.Counter()
    for it in items:
        gens_count[it.gen.split(':')[0] if not it.gen.startswith(('shape', 'text')) else it.gen] += 1
        t = next(iter(it.runs.values())).text if it.runs else ''
        sizes['%s chars' % ('0-9' if len(t) < 10 else '10-49' if len(t) < 50 else '50-199' if len(t) < 200 else '200+')] += 1
        try:
            if prop.nontrivial(it):
                nontriv.add(hashlib.sha1(json.dumps([r.key() for r in it.runs.values()], ensure_ascii=True).encode()).hexdigest())
        except Exception: pass
    samples = [it.to_json() for it in items[:3]]
    for s in extra.get('samples', []): samples.append(s)
    thm_samples = [{'theorem': n, 'file': 'coq/Props/%s.v' % prop.id} for n in assum.get('theorems', [])][:6]
    ev = {
        'property_id': prop.id, 'tier': tier, 'seed': seed, 'level': 'proof',
        'coverage': {
            'obligations': max(obligations, 1), 'discharged': discharged if proofs_ok else min(discharged, max(obligations - 1, 0)),
            'checker_cmd': 'cd /verif/coq && make -j16 %s  (coqc 8.16.1, full .vo build) ; coqc build/audit/Audit_%s.v (Print Assumptions)' % (' '.join(prop.targets(tier)), prop.id),
            'trusted_base': TRUSTED_BASE,
            'theorems': assum.get('theorems', []), 'assumptions_closed': assum.get('closed', 0), 'axioms': assum.get('axioms', []),
            'proof_files': {f: len(v) for f, v in per.items() if f.startswith(('Theory/', 'Props/'))},
            'evaluations': len(items) + int(extra.get('evaluations', 0)), 'distinct_nontrivial': len(nontriv) + int(extra.get('distinct_nontrivial', 0)),
            'rule': getattr(prop, 'rule', '') or 'items come from the generators named in generator_distribution (gen/gens.py, seeded); an item is non-trivial when the property-specific predicate nontrivial() holds (see lib/props) and distinct by the hash of its inputs and settings',
            'samples': samples + thm_samples,
            'correspondence': dict(stats, stages=list(prop.stages), items_diverging=len(div_items)),
            'generator_distribution': dict(gens_count), 'input_sizes': dict(sizes),
            'oracle_failures': len(fail_items), 'known_findings_seen': list(kf_lines.keys()),
            'broken': broken,
        },
        'assumptions': ASSUMPTIONS + ([prop.partial] if prop.partial else []),
        'wall_s': round(time.time() - t0, 2),
        'violations': len(violations),
    }
    for k, v in extra.get('coverage', {}).items(): ev['coverage'][k] = v
    if st.get('rs2v', {}).get('tied_by'):
        # the behaviour table could not be translated from its source text this time: it is tied by running both sides instead
        ev['coverage']['table_tie'] = dict(st.get('table_tie', {}), note='ascii_map.rs is written outside the translator\'s subset (%s); Gen/AsciiMap.v is the last translation, compared with the implementation\'s table on %d neighbourhoods' % (st['rs2v'].get('log', '').strip()[-200:], st.get('table_tie', {}).get('cases', 0)))
        out_lines.append('NOTE: table tied by behaviour (%d neighbourhoods): the translator cannot read the current ascii_map.rs' % st.get('table_tie', {}).get('cases', 0))
    json.dump(ev, open(ev_path, 'w'), indent=1, ensure_ascii=False)
    for l in out_lines: print(l)
    print('%s %s: %d items, %d diverging, %d oracle failures, proofs %s, %d/%d obligations, %.1fs' % (
        prop.id, tier, len(items), len(div_items), len(fail_items), 'ok' if proofs_ok and assum.get('ok') else 'BROKEN', ev['coverage']['discharged'], ev['coverage']['obligations'], time.time() - t0))
    return 1 if violations else 0

TRUSTED_BASE = [
    'Coq 8.16.1 kernel (coqc full .vo builds; vm_compute used for finite sweeps; no native_compute)',
    'axioms: none (Print Assumptions under every property theorem must print "Closed under the global context")',
    'translator /verif/translator/rs2v.py (ascii_map.rs -> Gen/AsciiMap.v) and the harness table dumps behind Gen/{UnicodeMap,CircleTables,Width,White,Style,Defaults}.v, regenerated on every run; when the table source is rewritten outside the translator\'s subset, the last translation is compared with the implementation\'s table on some 37,000 neighbourhoods instead (coverage.table_tie)',
    'source anchors /verif/translator/anchors.py',
    'extraction to OCaml with ExtrOcamlBasic only (Extract Inductive bool, option, unit, list, prod, sumbool, sumor; Extract Inlined Constant andb, orb); Z/N/positive/nat stay inductive',
    'OCaml driver /verif/driver/driver.ml (UTF-8, case framing, dump parsing) and Rust harness /verif/harness (dumps, catch_unwind)',
    'the differential correspondence is sampling: its generators bound what it can see',
    'modelled rather than verified: f32 predicates by their exact meaning on the 1/40-cell grid, Rust Display for f32 (numbers compared to 1e-3), sauron-core rendering, pom combinators, unicode-width table, HashMap order as a parameter, Lazy statics as constants',
]
ASSUMPTIONS = [
    'inputs shorter than 2^31-2 rows, columns and bytes (machine-integer overflow out of scope)',
    'drawings below 512 x 512 cells for the exactness of the f32 geometry',
    'the Python oracle run on the implementation outputs transcribes the Coq statement; it decides only whether a failing input is reported, never whether the theorem holds',
]

def run(prop_id, argv):
    import importlib
    mod = importlib.import_module('props.' + prop_id)
    return main(mod.PROP, argv)

if __name__ == '__main__':
    if len(sys.argv) < 2:
        print(__doc__); sys.exit(2)
    import framework
    sys.exit(framework.run(sys.argv[1], sys.argv[2:]))
