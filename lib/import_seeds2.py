"""copies round-2 seeds from /tmp/seeds2/Cxx/mK to /verif/seeded/Cxx-mK (patch.diff, demo.*, meta.json)"""
import os, shutil, glob, sys
for d in sorted(glob.glob('/tmp/seeds2/C*/m*') + glob.glob('/tmp/seeds3/C*/m*') + glob.glob('/tmp/seeds4/C*/m*')):
    prop = d.split('/')[-2]; k = d.split('/')[-1]
    dst = '/verif/seeded/%s-%s' % (prop, k)
    if os.path.exists(os.path.join(dst, 'patch.diff')): continue
    if not (os.path.exists(os.path.join(d, 'patch.diff')) and os.path.exists(os.path.join(d, 'meta.json'))): continue
    os.makedirs(dst, exist_ok=True)
    for f in os.listdir(d):
        if f in ('patch.diff', 'meta.json') or f.startswith('demo'):
            shutil.copy(os.path.join(d, f), os.path.join(dst, f))
    print(os.path.basename(dst))
