"""Rebuilds everything a check needs from /repo's current working tree: harness (hooks on),
table dumps, generated Coq files, anchors, proofs for the requested property, extraction and
the model driver.  Serialised by a lock file so that checks may run concurrently."""
import os, sys, subprocess, fcntl, json, time, hashlib, shutil, re, glob

VERIF = os.path.dirname(os.path.dirname(os.path.abspath(__file__)))
REPO = '/repo'
BUILD = os.path.join(VERIF, 'build')
COQ = os.path.join(VERIF, 'coq')
ENV = dict(os.environ, CARGO_NET_OFFLINE='true', CARGO_TARGET_DIR=os.path.join(BUILD, 'cargo'))

def sh(cmd, cwd=None, timeout=1800, env=None):
    t0 = time.time()
    try:
        p = subprocess.run(cmd, cwd=cwd, env=env or ENV, stdout=subprocess.PIPE, stderr=subprocess.STDOUT, timeout=timeout)
        return p.returncode, p.stdout.decode('utf-8', 'replace'), time.time() - t0
    except subprocess.TimeoutExpired as e:
        return 124, (e.stdout or b'').decode('utf-8', 'replace') + '\nTIMEOUT', time.time() - t0

class Lock:
    def __enter__(self):
        os.makedirs(BUILD, exist_ok=True)
        self.f = open(os.path.join(BUILD, '.lock'), 'w'); fcntl.flock(self.f, fcntl.LOCK_EX); return self
    def __exit__(self, *a):
        fcntl.flock(self.f, fcntl.LOCK_UN); self.f.close()

def copy_if_changed(src, dst):
    if os.path.exists(dst) and open(src, 'rb').read() == open(dst, 'rb').read(): return
    shutil.copyfile(src, dst)

def build_harness(status, release=False, bins=False):
    copy_if_changed(os.path.join(REPO, 'Cargo.lock'), os.path.join(VERIF, 'harness', 'Cargo.lock'))
    cmd = ['cargo', 'build', '--offline'] + (['--release'] if release else [])
    rc, out, dt = sh(cmd, cwd=os.path.join(VERIF, 'harness'))
    status['harness' + ('_release' if release else '')] = {'ok': rc == 0, 'wall_s': round(dt, 1), 'log': out[-3000:] if rc else ''}
    if bins:
        # the CLI and the server, from the working tree, into a separate target dir (their own workspace lock file)
        env = dict(ENV, CARGO_TARGET_DIR=os.path.join(BUILD, 'cargo-ws'))
        rc2, out2, dt2 = sh(['cargo', 'build', '--offline', '-p', 'svgbob_cli', '-p', 'svgbob_server'], cwd=REPO, env=env)
        status['bins'] = {'ok': rc2 == 0, 'wall_s': round(dt2, 1), 'log': out2[-3000:] if rc2 else ''}
    return rc == 0

def dump_tables(status):
    exe = os.path.join(BUILD, 'cargo', 'debug', 'svgbob-verif-harness')
    rc, out, dt = sh([exe, 'tables', os.path.join(BUILD, 'tables')], timeout=300)
    status['tables'] = {'ok': rc == 0, 'log': out[-2000:] if rc else ''}
    return rc == 0

def regenerate(status):
    ok = True
    for name, cmd in [('gen_unicode', [sys.executable, os.path.join(VERIF, 'translator', 'gen_unicode.py'), os.path.join(BUILD, 'tables'), os.path.join(COQ, 'Gen')]),
                      ('rs2v', [sys.executable, os.path.join(VERIF, 'translator', 'rs2v.py'), REPO, os.path.join(COQ, 'Gen')]),
                      ('gen_tables', [sys.executable, os.path.join(VERIF, 'translator', 'gen_tables.py'), REPO, os.path.join(BUILD, 'tables'), os.path.join(COQ, 'Gen')]),
                      ('anchors', [sys.executable, os.path.join(VERIF, 'translator', 'anchors.py'), REPO, os.path.join(BUILD, 'anchors.json')])]:
        rc, out, dt = sh(cmd, timeout=300)
        status[name] = {'ok': rc == 0, 'log': out[-3000:] if rc else out[-300:]}
        if name == 'rs2v' and rc == 3 and os.path.exists(os.path.join(COQ, 'Gen', 'AsciiMap.v')):
            # the table source is written in a form outside the translator's subset: the last translation stays in
            # place and is tied to the code by running both on the same neighbourhoods instead (table_behaviour_tie)
            status[name]['unreadable'] = True
            continue
        ok = ok and rc == 0
    return ok

def table_behaviour_tie(status, seed=20260926):
    """The second way of tying the behaviour table to the source, used when rs2v cannot read it: the implementation's
    table and the model's (the last translation) are evaluated on the same neighbourhoods - every table character
    alone, beside every table character in each of the eight positions, and in random fuller neighbourhoods - and
    must agree on which behaviours fire and with which fragments."""
    import random
    sys.path.insert(0, os.path.join(VERIF, 'lib')); sys.path.insert(0, os.path.join(VERIF, 'gen'))
    import proto, gens
    def sha(path): return hashlib.sha256(open(path, 'rb').read()).hexdigest()
    key = [sha(os.path.join(REPO, 'crates/svgbob/src/map/ascii_map.rs')), sha(os.path.join(COQ, 'Gen', 'AsciiMap.v')),
           sha(os.path.join(REPO, 'crates/svgbob/src/buffer/property_buffer/property.rs')), sha(os.path.join(COQ, 'Model', 'Property.v'))]
    cache = os.path.join(BUILD, 'table_tie.json')
    try:
        c = json.load(open(cache))
        if c.get('key') == key: status['table_tie'] = c['result']; return c['result']['ok']
    except Exception: pass
    rng = random.Random(seed)
    a, u = gens.keys()
    allc = list(a) + list(u)
    Z = '\x00'
    cases = []
    def add(ch, ns): cases.append(proto.Case('t%d' % len(cases), 'behav', '', ch + ''.join(ns)))
    for ch in a:
        add(ch, [Z] * 8)
        for pos in range(8):
            for nb in allc:
                ns = [Z] * 8; ns[pos] = nb; add(ch, ns)
        for _ in range(400):
            k = rng.choice([2, 2, 2, 3, 4, 8])
            ns = [Z] * 8
            for pos in rng.sample(range(8), k): ns[pos] = rng.choice(a if rng.random() < 0.8 else allc)
            add(ch, ns)
    for ch in rng.sample(list(u), min(40, len(u))):
        add(ch, [Z] * 8)
    impl, model, nd, pr = proto.run_both(cases, os.path.join(BUILD, 'work', 'table_tie'), jobs=16)
    bad = [c for c in cases if impl.get(c.id) is None or impl.get(c.id) != model.get(c.id)]
    status['table_tie'] = {'ok': not bad and not pr, 'cases': len(cases), 'disagreements': len(bad), 'problems': [str(x)[:200] for x in pr][:3],
                           'first': ({'centre': ord(bad[0].text[0]), 'neighbours': [ord(c) for c in bad[0].text[1:]],
                                      'implementation': (impl.get(bad[0].id) or '')[:600], 'model': (model.get(bad[0].id) or '')[:600]} if bad else None)}
    json.dump({'key': key, 'result': status['table_tie']}, open(cache, 'w'))
    return status['table_tie']['ok']

def coq_files():
    fs = []
    for d in ('Model', 'Gen', 'Theory', 'Props', 'Extract', 'Float'):
        fs += sorted(glob.glob(os.path.join(COQ, d, '*.v')))
    return [os.path.relpath(f, COQ) for f in fs]

def coq_makefile():
    files = coq_files()
    listing = '\n'.join(files)
    stamp = os.path.join(COQ, '.filelist')
    if not os.path.exists(os.path.join(COQ, 'Makefile')) or not os.path.exists(stamp) or open(stamp).read() != listing:
        rc, out, dt = sh(['coq_makefile', '-f', '_CoqProject', '-o', 'Makefile'] + files, cwd=COQ)
        if rc != 0: return False, out
        open(stamp, 'w').write(listing)
    return True, ''

def coq_make(targets, status, key, timeout=3000):
    ok, out = coq_makefile()
    if not ok:
        status[key] = {'ok': False, 'log': out[-3000:]}; return False
    rc, out, dt = sh(['make', '-j16', '-k'] + targets, cwd=COQ, timeout=timeout)
    status[key] = {'ok': rc == 0, 'wall_s': round(dt, 1), 'log': out[-6000:] if rc else '', 'targets': targets}
    # per-target result
    status[key]['built'] = {t: os.path.exists(os.path.join(COQ, t)) and rc == 0 or
                            (os.path.exists(os.path.join(COQ, t)) and os.path.getmtime(os.path.join(COQ, t)) >= os.path.getmtime(os.path.join(COQ, t[:-1])))
                            for t in targets}
    if rc == 0:
        status[key]['make_output'] = out
    else:
        status[key]['make_output'] = out
    return rc == 0

def build_driver(status):
    ml = os.path.join(COQ, 'Extract', 'model.ml')
    exe = os.path.join(BUILD, 'driver', 'model_driver')
    need = (not os.path.exists(exe)) or os.path.getmtime(ml) > os.path.getmtime(exe) or \
        os.path.getmtime(os.path.join(VERIF, 'driver', 'driver.ml')) > os.path.getmtime(exe)
    if need:
        rc, out, dt = sh(['sh', os.path.join(VERIF, 'driver', 'build.sh')], timeout=600)
        status['driver'] = {'ok': rc == 0, 'wall_s': round(dt, 1), 'log': out[-2000:] if rc else ''}
        return rc == 0
    status['driver'] = {'ok': True, 'cached': True}
    return True

def ensure(prop_targets, release=False, bins=False):
    """returns the status dict; status['ok_*'] say which parts of the tie are intact"""
    status = {}
    with Lock():
        h = build_harness(status, bins=bins)
        if release: build_harness(status, release=True)
        t = h and dump_tables(status)
        g = t and regenerate(status)
        status['ok_translate'] = bool(g)
        # model + extraction first (no proofs in these), then the proofs of this property
        m = coq_make(['Extract/Extract.vo'], status, 'coq_model')
        d = m and build_driver(status)
        status['ok_model'] = bool(m and d) or os.path.exists(os.path.join(BUILD, 'driver', 'model_driver'))
        if status.get('rs2v', {}).get('unreadable') and g and m and d:
            if table_behaviour_tie(status):
                status['rs2v'] = {'ok': True, 'log': status['rs2v'].get('log', ''), 'tied_by': 'behaviour (%d neighbourhoods)' % status['table_tie']['cases']}
            else:
                g = False
                status['rs2v'] = {'ok': False, 'log': 'the table source is outside the translator\'s subset (%s) and its behaviour differs from the last translation: %s'
                                  % (status['rs2v'].get('log', '').strip()[-300:], json.dumps(status['table_tie'].get('first'))[:1200])}
            status['ok_translate'] = bool(g)
        status['model_fresh'] = bool(m and d and g)
        p = coq_make(prop_targets, status, 'coq_props') if prop_targets else True
        status['ok_proofs'] = bool(p and g)
    return status

if __name__ == '__main__':
    # setup: build everything once
    targets = [f[:-2] + '.vo' for f in coq_files() if f.startswith('Props/') or f.startswith('Float/')]
    st = ensure(targets, release=True, bins=True)
    for k, v in st.items():
        if isinstance(v, dict):
            print(k, 'ok' if v.get('ok') else 'FAILED', v.get('wall_s', ''))
            if not v.get('ok'): print(v.get('log', ''))
    bad = [k for k, v in st.items() if isinstance(v, dict) and not v.get('ok')]
    sys.exit(1 if bad else 0)
