"""applies /verif/seeded/<name>/patch.diff to /repo, runs the given checks, undoes the patch.
usage: seedtest.py <seed-name> <Cxx> [<Cxx> ...]"""
import sys, subprocess, os, json, time
name = sys.argv[1]; props = sys.argv[2:]
d = '/verif/seeded/' + name
assert subprocess.run(['git', '-C', '/repo', 'status', '--porcelain', '--untracked-files=no'], capture_output=True, text=True).stdout.strip() == '', '/repo is dirty'
r = subprocess.run(['git', '-C', '/repo', 'apply', os.path.join(d, 'patch.diff')], capture_output=True, text=True)
if r.returncode != 0: print('APPLY FAILED', r.stderr); sys.exit(2)
res = {}
try:
    for p in props:
        t0 = time.time()
        q = subprocess.run(['./check', p, 'quick'], cwd='/verif', capture_output=True, text=True)
        vio = [l for l in q.stdout.split('\n') if l.startswith('VIOLATION')]
        res[p] = {'exit': q.returncode, 'violations': vio[:2], 'summary': q.stdout.strip().split('\n')[-1], 'wall_s': round(time.time() - t0, 1)}
        print(name, p, 'exit', q.returncode, vio[:1], '|', res[p]['summary'])
finally:
    subprocess.run(['git', '-C', '/repo', 'checkout', '--', '.'])
json.dump(res, open(os.path.join(d, 'result_%s.json' % '_'.join(props)), 'w'), indent=1)
