"""Case files, running the implementation harness and the model driver, comparing results."""
import os, re, subprocess, math, tempfile, time

VERIF = os.path.dirname(os.path.dirname(os.path.abspath(__file__)))
BUILD = os.path.join(VERIF, 'build')
HARNESS = os.path.join(BUILD, 'cargo', 'debug', 'svgbob-verif-harness')
HARNESS_REL = os.path.join(BUILD, 'cargo', 'release', 'svgbob-verif-harness')
DRIVER = os.path.join(BUILD, 'driver', 'model_driver')

def enc(s):
    """text -> space separated decimal scalars"""
    return ' '.join(str(ord(c)) if isinstance(c, str) else str(c) for c in s)
def dots(s):
    return '.'.join(str(ord(c)) for c in s)
def dec(scalars):
    return ''.join(chr(int(t)) for t in scalars.split() if t)

def unesc(s):
    return re.sub(r'\\u\{([0-9a-f]+)\}', lambda m: chr(int(m.group(1), 16)), s)

class Case:
    __slots__ = ('id', 'op', 'spec', 'text', 'meta')
    def __init__(self, id, op, spec, text, meta=None):
        self.id = str(id); self.op = op; self.spec = spec; self.text = text; self.meta = meta or {}
    def line(self):
        return '\t'.join([self.id, self.op, self.spec, enc(self.text)])
    def to_json(self):
        return {'id': self.id, 'op': self.op, 'settings': self.spec, 'input_scalars': [ord(c) for c in self.text],
                'input_preview': self.text[:400], 'meta': self.meta}

def write_cases(cases, path):
    with open(path, 'w') as f:
        for c in cases: f.write(c.line() + '\n')

def _run(cmd, timeout):
    t0 = time.time()
    try:
        p = subprocess.run(cmd, stdout=subprocess.PIPE, stderr=subprocess.PIPE, timeout=timeout)
    except subprocess.TimeoutExpired as e:
        return 124, (e.stdout or b'').decode('utf-8', 'replace'), 'TIMEOUT after %ss' % timeout, time.time() - t0
    return p.returncode, p.stdout.decode('utf-8', 'replace'), p.stderr.decode('utf-8', 'replace'), time.time() - t0

def parse_results(out):
    res = {}
    extra = []
    for l in out.split('\n'):
        if not l: continue
        i = l.find('\t')
        if i < 0: continue
        k, v = l[:i], l[i+1:]
        if v.startswith('NONDET'): extra.append((k, v)); continue
        res[k] = v
    return res, extra

def run_impl(path, threads=1, timeout=300, release=False):
    exe = HARNESS_REL if release else HARNESS
    rc, out, err, dt = _run([exe, 'run', path, str(threads)], timeout)
    res, extra = parse_results(out)
    return {'rc': rc, 'results': res, 'nondet': extra, 'stderr': err[-2000:], 'wall_s': dt}

def run_model(path, timeout=1200):
    rc, out, err, dt = _run([DRIVER, path], timeout)
    res, _ = parse_results(out)
    return {'rc': rc, 'results': res, 'stderr': err[-2000:], 'wall_s': dt}

def shard(cases, n):
    k = max(1, (len(cases) + n - 1) // n)
    return [cases[i:i+k] for i in range(0, len(cases), k)]

def run_both(cases, workdir, jobs=16, threads=1, want_model=True, want_impl=True, release=False, impl_timeout=300):
    """run implementation and model on the cases, sharded over processes; returns (impl, model) dicts id->result"""
    from concurrent.futures import ThreadPoolExecutor
    os.makedirs(workdir, exist_ok=True)
    shards = shard(cases, jobs)
    paths = []
    for i, sh in enumerate(shards):
        p = os.path.join(workdir, 'cases_%d.txt' % i); write_cases(sh, p); paths.append(p)
    impl = {}; model = {}; nondet = []; problems = []
    def one(p):
        r = {}
        if want_impl: r['impl'] = run_impl(p, threads=threads, release=release, timeout=impl_timeout)
        if want_model: r['model'] = run_model(p)
        return r
    with ThreadPoolExecutor(max_workers=jobs) as ex:
        for p, r in zip(paths, ex.map(one, paths)):
            if want_impl:
                impl.update(r['impl']['results']); nondet += r['impl']['nondet']
                if r['impl']['rc'] != 0: problems.append(('impl', p, r['impl']['rc'], r['impl']['stderr']))
            if want_model:
                model.update(r['model']['results'])
                if r['model']['rc'] != 0: problems.append(('model', p, r['model']['rc'], r['model']['stderr']))
    return impl, model, nondet, problems

NUM_ATTR = re.compile(r'\b(x|y|x1|y1|x2|y2|cx|cy|r|rx|width|height|d|points)="([^"]*)"')
NUM = re.compile(r'-?\d+(?:\.\d+)?(?:e[-+]?\d+)?')
def split_numbers(s):
    """(skeleton, numbers): numbers inside numeric attribute values are replaced by '#'"""
    nums = []
    def attr(m):
        def num(n): nums.append(float(n.group(0))); return '#'
        return '%s="%s"' % (m.group(1), NUM.sub(num, m.group(2)))
    return NUM_ATTR.sub(attr, s), nums

def close(a, b):
    return abs(a - b) <= 1e-3 + 2e-5 * max(abs(a), abs(b))

def same_result(op, a, b):
    """compare an implementation result with a model result"""
    if a is None or b is None: return False
    if a == b: return True
    if op.startswith('svg:') and a.startswith('S ') and b.startswith('S '):
        sa, na = split_numbers(a); sb, nb = split_numbers(b)
        return sa == sb and len(na) == len(nb) and all(close(x, y) for x, y in zip(na, nb))
    return False

def first_diff(a, b):
    if a is None or b is None: return 'missing result: impl=%r model=%r' % (a and a[:80], b and b[:80])
    n = min(len(a), len(b)); i = 0
    while i < n and a[i] == b[i]: i += 1
    return 'at %d: impl ...%s | model ...%s' % (i, a[max(0, i-60):i+100], b[max(0, i-60):i+100])
