"""C03: diagrams of - | + and labels render exactly the strokes the characters denote"""
import itertools
from props.common import *

LAB = list('abxyAB019') + ['é', 'ж']

def spec(rows):
    """(set of atoms, set of (col,row,char) texts).  An atom is ('h', x, y) = segment (x,y)-(x+20,y) or ('v', x, y) = (x,y)-(x,y+40), ticks."""
    def at(x, y):
        if y < 0 or y >= len(rows) or x < 0 or x >= len(rows[y]): return ' '
        return rows[y][x]
    atoms = set(); texts = set()
    for y, r in enumerate(rows):
        for x, ch in enumerate(r):
            X = x * 40; Y = y * 80
            if ch == '-':
                atoms |= {('h', X, Y + 40), ('h', X + 20, Y + 40)}
            elif ch == '|':
                atoms |= {('v', X + 20, Y), ('v', X + 20, Y + 40)}
                if at(x + 1, y) == '-': atoms.add(('h', X + 20, Y + 40))
                if at(x - 1, y) == '-': atoms.add(('h', X, Y + 40))
            elif ch == '+':
                n = 0
                if at(x - 1, y) in '-+': atoms.add(('h', X, Y + 40)); n += 1
                if at(x + 1, y) in '-+': atoms.add(('h', X + 20, Y + 40)); n += 1
                if at(x, y - 1) in '|+': atoms.add(('v', X + 20, Y)); n += 1
                if at(x, y + 1) in '|+': atoms.add(('v', X + 20, Y + 40)); n += 1
                if n == 0: texts.add((x, y, '+'))
            elif ch != ' ':
                texts.add((x, y, ch))
    return atoms, texts

def seg_atoms(x1, y1, x2, y2):
    """atoms of an axis-parallel segment given in ticks (Fractions); None if it is not on the atom lattice"""
    if y1 == y2:
        a, b = sorted((x1, x2))
        if a.denominator != 1 or b.denominator != 1 or a % 20 or b % 20 or y1.denominator != 1: return None
        return {('h', int(x), int(y1)) for x in range(int(a), int(b), 20)}
    if x1 == x2:
        a, b = sorted((y1, y2))
        if a.denominator != 1 or b.denominator != 1 or a % 40 or b % 40 or x1.denominator != 1: return None
        return {('v', int(x1), int(y)) for y in range(int(a), int(b), 40)}
    return None

class C03(Prop):
    id = 'C03'
    stages = ('S1', 'S25', 'S6')
    rule = 'grids over {space,-,|,+}: every grid up to 3x3, 2x4, 4x2 (thorough; quick: every grid up to 2x3/3x2 and a sample of 3x3), 1x8 and 8x1 rows/columns, random grids up to 14x8 at densities 0.2-0.9, with and without label characters; non-trivial when the grid has at least one drawing character'
    coq_targets_thorough = ('Props/C03Big.vo',)
    level_text = ('Theorem C03_table_matches_spec: for the three characters - | + and every 8-neighbourhood over {space,-,|,+,label} (5^8 x 3 cases, swept inside Coq on the translated table) the fragments the table emits are exactly the strokes of the specification transcribed from the property text, all axis-parallel, no arcs/circles/polygons; '
                  'C03_small_grids_whole_recognition (and, in the thorough tier and at setup, C03_grids_whole_recognition): for EVERY grid of the stated shapes (2x2 with labels, 4x1, 1x4; 3x2, 2x3, 5x1, 1x5) the text stage reads the grid as its cells and the whole recognition (grouping, tables, three merge loops, contact groups, rectangle endorsement, catalogue lookups) yields only solid lattice lines, plain rectangles and text whose half-cell strokes are exactly the union of the per-character strokes of the specification; '
                  'with the merge theorems of C09 (merging keeps the union of collinear touching segments, every length) and the rectangle lemma (an endorsed rect is the outline of its four edge lines). Larger grids are decided by correspondence and oracle (exact atom sets).')
    level_note = 'partial: per-cell table equality and the whole recognition on the stated small grids are proved by exhaustive sweeps inside Coq; larger grids rely on the merge/rectangle theorems plus correspondence and oracle'
    def make(self, gen, text):
        return Item(gen, {'main': Run(text, '', 'settings')}, {'text': text}, lambda t: self.make(gen, t))
    def items(self, rng, tier):
        out = []
        A = ' -|+'
        sizes = [(1, 1), (2, 1), (1, 2), (2, 2), (3, 1), (1, 3), (3, 2), (2, 3)]
        if tier == 'thorough': sizes += [(3, 3), (2, 4), (4, 2)]
        for w, h in sizes:
            for g, t in gens.g_exhaustive(A, w, h): out.append(self.make('exh%dx%d' % (w, h), t))
        if tier == 'quick':
            for _ in range(1500):
                out.append(self.make('exh3x3-sample', '\n'.join(''.join(rng.choice(A) for _ in range(3)) for _ in range(3))))
        for n in (8,):
            for cells in itertools.product(A, repeat=n) if tier == 'thorough' else [tuple(rng.choice(A) for _ in range(n)) for _ in range(300)]:
                out.append(self.make('row8', ''.join(cells))); out.append(self.make('col8', '\n'.join(cells)))
        for _ in range(1500 if tier == 'quick' else 50000):
            w = rng.randint(1, 14); h = rng.randint(1, 8); d = rng.choice([0.2, 0.4, 0.6, 0.9])
            alpha = list(A[1:]) + (LAB if rng.random() < 0.5 else [])
            weights = [3] * 3 + [1] * (len(alpha) - 3)
            rows = [''.join(rng.choices(alpha, weights)[0] if rng.random() < d else ' ' for _ in range(w)) for _ in range(h)]
            out.append(self.make('grid', '\n'.join(rows)))
        # a box with a line that crosses one of its edges (through a '+' in the edge, or a wall with '-' on both sides):
        # every cell keeps its strokes, the crossing cell too
        for _ in range(300 if tier == 'quick' else 6000):
            w = rng.randint(1, 6); h = rng.randint(1, 4)
            rows = [list(' ' * (w + 6)) for _ in range(h + 6)]
            x0, y0 = 2, 2
            for x in range(x0, x0 + w + 2):
                rows[y0][x] = '-'; rows[y0 + h + 1][x] = '-'
            for y in range(y0, y0 + h + 2):
                rows[y][x0] = '|'; rows[y][x0 + w + 1] = '|'
            for x, y in ((x0, y0), (x0 + w + 1, y0), (x0, y0 + h + 1), (x0 + w + 1, y0 + h + 1)): rows[y][x] = '+'
            for _k in range(rng.randint(1, 2)):
                if rng.random() < 0.5:
                    x = rng.randint(x0 + 1, x0 + w); y = rng.choice([y0, y0 + h + 1])
                    rows[y][x] = rng.choice('+|'); L = rng.randint(1, 2)
                    for d in range(1, L + 1):
                        if rows[y - d][x] == ' ': rows[y - d][x] = '|'
                        if rows[y + d][x] == ' ': rows[y + d][x] = '|'
                else:
                    y = rng.randint(y0 + 1, y0 + h); x = rng.choice([x0, x0 + w + 1])
                    rows[y][x] = rng.choice('+|'); L = rng.randint(1, 2)
                    for d in range(1, L + 1):
                        if rows[y][x - d] == ' ': rows[y][x - d] = '-'
                        if rows[y][x + d] == ' ': rows[y][x + d] = '-'
            text = '\n'.join(''.join(r).rstrip() for r in rows)
            out.append(self.make('crossing', text))
        return out
    def item_from_json(self, j): return item_from_json(None, j)
    def oracle(self, it):
        root, _ = root_of(it.runs['main'])
        if root is None: return []
        rows = it.meta['text'].split('\n')
        want, wtexts = spec(rows)
        got = set(); out = []
        for e in root.walk():
            if e.get('class') == 'backdrop' or e.tag in ('svg', 'style', 'defs', 'marker', 'g'): continue
            p = e.parent; indefs = False
            while p is not None:
                if p.tag == 'defs': indefs = True
                p = p.parent
            if indefs: continue
            if e.tag == 'line':
                c = [F(e.get(k)) * 5 for k in ('x1', 'y1', 'x2', 'y2')]
                a = seg_atoms(*c)
                if a is None: out.append('line %s is not an axis-parallel stroke on the half-cell lattice' % (c,)); continue
                got |= a
            elif e.tag == 'rect':
                x, y, w, h = [F(e.get(k)) * 5 for k in ('x', 'y', 'width', 'height')]
                for s in ((x, y, x + w, y), (x, y + h, x + w, y + h), (x, y, x, y + h), (x + w, y, x + w, y + h)):
                    a = seg_atoms(*s)
                    if a is None: out.append('rect outline off the lattice'); continue
                    got |= a
            elif e.tag == 'text': pass
            else: out.append('unexpected <%s> element for a grid of - | + and labels' % e.tag)
        if got != want:
            extra = sorted(got - want)[:3]; missing = sorted(want - got)[:3]
            out.append('stroked points differ from the specification: extra %s, missing %s' % (extra, missing))
        # texts: every label character and every lone + is shown in its own cell
        shown = {}
        for e in root.walk():
            if e.tag != 'text' or e.parent is None or e.parent.tag == 'defs': continue
            try:
                col = (F(e.get('x')) - 2) / 8; row = (F(e.get('y')) - 12) / 16
            except Exception: continue
            if col.denominator != 1 or row.denominator != 1: out.append('text %r is not anchored in a cell' % e.text()); continue
            for i, ch in enumerate(e.text()):
                key = (int(col) + i, int(row))
                if key in shown: out.append('cell %s is shown by two text elements' % (key,))
                shown[key] = ch
        wt = {(x, y): ch for x, y, ch in wtexts}
        if shown != wt:
            a = sorted(set(shown.items()) - set(wt.items()))[:3]; b = sorted(set(wt.items()) - set(shown.items()))[:3]
            out.append('text cells differ from the specification: shown but not expected %s, expected but not shown %s' % (a, b))
        return out
    def nontrivial(self, it):
        return any(c in '-|+' for c in it.meta.get('text', ''))

PROP = C03()
