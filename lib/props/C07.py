"""C07: deterministic and stateless"""
import os, subprocess
from props.common import *
import proto, framework

class C07(Prop):
    id = 'C07'
    stages = ('S1', 'S25', 'S6')
    partial = 'partial: race freedom of once_cell and the memory model are runtime behaviour; the theorem covers order independence and statelessness of the logic, the harness samples schedules (fresh processes with fresh hash seeds, warm histories, 16 threads racing on first use)'
    rule = 'every input is converted (i) in one warm process in file order, (ii) in 8 fresh processes that see the file rotated differently (fresh RandomState seeds, different first use of the lazy tables), (iii) by 16 threads released on a barrier in a fresh process; all byte strings must coincide; non-trivial when the input has at least two drawing characters'
    level_text = ('Theorem C07_hash_order_irrelevant: for every enumeration of the iterated hash map (any permutation of its entries, chosen per buffer) the fragment buffer of every span equals the one of the reference order, by commutation of insertions into the sorted map with distinct keys; '
                  'C07_stateless: the conversion has no state argument and the tables are closed terms. Anchors check that PropertyBuffer is the only iterated hash container and that all statics are Lazy.')
    level_note = 'partial: thread interleavings and once_cell are runtime; anchors (source patterns) carry the claim that no other hash container is iterated'
    def make(self, gen, text):
        return single(gen, text, '', 'settings', factory=lambda t: self.make(gen, t))
    def items(self, rng, tier):
        return [self.make(g, t) for g, t in texts(rng, tier, 400, 5000)]
    def item_from_json(self, j): return item_from_json(None, j)
    def oracle(self, it):
        return []      # the cross-process comparison is in extra(); per-item failures are attached there
    def nontrivial(self, it):
        return len([c for c in it.meta.get('text', '') if not c.isspace()]) >= 2
    def extra(self, ctx):
        rng = ctx['rng']; tier = ctx['tier']
        n = 250 if tier == 'quick' else 3000
        ts = [t for _, t in gens.corpus() + gens.mixed(rng, n)]
        specs = ['', '', 'fs=11', 'fs=20', 'ff=65.66', 'fill=114.101.100', 'sw=1/2', 'scale=3', 'bg=35.102.102.102', 'sc=98.108.117.101', 'st=0', 'bd=0;df=0']
        cases = [proto.Case('d%d' % i, 'svg:settings', rng.choice(specs), t) for i, t in enumerate(ts)]
        wd = os.path.join(framework.WORK, 'C07_det'); os.makedirs(wd, exist_ok=True)
        failures = []
        ref = None
        def run(path, threads):
            p = subprocess.run([proto.HARNESS, 'run', path, str(threads)], capture_output=True, text=True, timeout=900)
            res, nondet = proto.parse_results(p.stdout)
            return res, nondet, p.returncode
        base = os.path.join(wd, 'all.txt'); proto.write_cases(cases, base)
        ref, nd, rc = run(base, 1)
        procs = 8 if tier == 'quick' else 16
        compared = 0
        for k in range(procs):
            rot = cases[(k * 37 + 1) % len(cases):] + cases[:(k * 37 + 1) % len(cases)]
            if k % 2: rot = list(reversed(rot))
            path = os.path.join(wd, 'rot%d.txt' % k); proto.write_cases(rot, path)
            res, nd, rc = run(path, 1)
            for c in cases:
                compared += 1
                if res.get(c.id) != ref.get(c.id):
                    failures.append({'failure': 'a fresh process (rotation %d) returned a different document than the warm process' % k,
                                     'input_scalars': [ord(ch) for ch in c.text], 'a': (ref.get(c.id) or '')[:600], 'b': (res.get(c.id) or '')[:600]})
                    break
        # threads racing on first use
        for k in range(2 if tier == 'quick' else 6):
            res, nd, rc = run(base, 16)
            for cid, what in nd[:3]:
                c = next(c for c in cases if c.id == cid)
                failures.append({'failure': 'threads disagree: ' + what, 'input_scalars': [ord(ch) for ch in c.text]})
            for c in cases:
                compared += 1
                if res.get(c.id) != ref.get(c.id):
                    failures.append({'failure': 'a thread of a 16-thread run returned a different document than the sequential run',
                                     'input_scalars': [ord(ch) for ch in c.text]}); break
            if rc != 0: failures.append({'failure': '16-thread run exited with %d' % rc})
        return {'failures': failures[:5], 'evaluations': compared, 'distinct_nontrivial': len(set(ts)),
                'coverage': {'processes': procs + 1, 'threads': 16, 'documents_compared': compared}}

PROP = C07()
