"""C02: the output is one well-formed XML document that round-trips the text"""
from props.common import *

NONXML = lambda c: (ord(c) < 32 and c not in '\t\n\r') or c in '￾￿'
SVGNS = 'http://www.w3.org/2000/svg'
CLASSES = [' ', 'a', 'é', '一', '<', '>', '&', '"', "'", '\x01', '\x0b', '\x1f', '\x7f', '\x85', '￾', '￿', '\U0001F600', '́', ']', '\t', '\\']

def boxed(content, corners='++++'):
    """a closed box exactly wide enough for one row of content (columns counted as the grid does)"""
    w = row_cols(content) + 2
    return '\n'.join([corners[0] + '-' * w + corners[1], '| ' + content + ' |', corners[2] + '-' * w + corners[3]])

def channels(rng, payload):
    """the payload in each input channel"""
    q = payload.replace('"', '').replace('\\', '')
    b = payload.replace('{', '').replace('}', '')
    one = payload.replace('\n', ' ')
    qt = q.replace('{', '').replace('}', '').replace('\n', ' ')
    return [
        ('plain', 'x ' + payload + ' y'),
        ('plain-in-box', boxed(one)),
        ('quoted', 'a "' + q.replace('\n', ' ') + '" b'),
        ('quoted-in-box', boxed('"' + q.replace('\n', ' ') + '"', "..''")),
        ('legend-decl', '+--+\n|{a}\n+--+\n# Legend:\na = {' + b + '}'),
        ('legend-name', '{a}\n# Legend:\n' + one + ' = {fill:red}'),
        ('tag', boxed('{' + one + '}')),
        # a list of tag names in which only some are names, bare and inside a quoted string, within a closed shape
        ('tag-list', boxed('{ok_1,' + b.replace('\n', ' ') + '}')),
        ('tag-list-quoted', boxed('"{' + qt + ',ok_2}"')),
        ('tag-list-quoted2', boxed('"{ok_3,' + qt + '}"', "..''")),
        ('tag-quoted', boxed('"{' + qt + '}"')),
    ]

class C02(Prop):
    id = 'C02'
    stages = ('S6',)
    needs = ('frags', 'svg')
    rule = 'every scalar class (ASCII, multi-byte, double width, markup characters, quotes, C0/C1 controls, U+FFFE/FFFF, non-BMP, combining) in every channel (plain text, text in a box, quoted, legend name, legend declaration, tag) x pretty/compressed x switch combinations, plus mixed generator inputs; non-trivial when the document has a text or style element with input characters'
    level_text = ('Theorems C02_render_is_xml (for every safe tree, in pretty and compressed mode, the rendered string is a serialisation of that tree according to the XML 1.0 grammar for elements, attributes, character data and references), C02_document_is_safe (for every input and settings value the document the model builds is safe: fixed element/attribute names, attribute values without quote/</&, character data escaped), '
                  'C02_text_round_trips (unescape (escape_html_text s) = s minus the characters XML cannot represent; a carriage return is written as &#13; because a parser turns a literal one into a line feed, repair F12).')
    level_note = 'the XML grammar is the inductive relation of Theory/Xml.v (elements, double-quoted attributes, character data, the five predefined references and &#39; / &#13;; a literal CR is not accepted as character data, nor TAB/LF/CR in attribute values, since a parser would replace them); expat re-parses every implementation output in this check'
    def make(self, gen, text, spec, entry, meta=None):
        return Item(gen, {'main': Run(text, spec, entry)}, dict(meta or {}, text=text), lambda t: self.make(gen, t, spec, entry))
    def items(self, rng, tier):
        out = []
        specs = ['', 'bd=0', 'st=0;df=0', 'ff=60.97.62;fill=38.34;bg=39.60.47.115.116.121.108.101.62;sc=1.65534', 'scale=1/2']
        for c in CLASSES:
            for pl in (c, 'a' + c + 'b', c * 3):
                for ch, t in channels(rng, pl):
                    entry = rng.choice(['settings', 'compressed', 'pretty'])
                    out.append(self.make('class:' + ch, t, rng.choice(specs) if entry == 'settings' else '', entry))
        for g, t in texts(rng, tier, 500, 10000) + gens.g_text(rng, 300 if tier == 'quick' else 5000):
            entry = rng.choice(['settings', 'compressed', 'pretty', 'to_svg', 'override'])
            spec = rng.choice(specs) if entry in ('settings', 'override') else ''
            if entry == 'override': spec = (spec + ';' if spec else '') + 'w=100;h=50'
            out.append(self.make(g, t, spec, entry))
        return out
    def item_from_json(self, j): return item_from_json(None, j)
    def oracle(self, it):
        r = it.runs['main']
        s = r.svg()
        if s is None: return []          # C01's business
        root, err = svgtree.parse_xml(s)
        if root is None: return ['the output is not well-formed XML: %s' % err]
        out = []
        if root.tag != 'svg': out.append('root element is <%s>' % root.tag)
        if root.get('xmlns') != SVGNS: out.append('root xmlns is %r' % root.get('xmlns'))
        for k in ('width', 'height'):
            try: F(root.get(k))
            except Exception: out.append('root %s=%r is not a number' % (k, root.get(k)))
        # text round trip: every fragment text that is emitted shows its characters (minus those XML cannot represent)
        d = svgtree.sections(r.impl.get('frags') or '')
        want = []
        for f in d['A']:
            if f['k'] == 'CT': want.append(f['text'])
        for e in [x for x in d['E'].split(';') if x]:
            parts = e.split(',')
            want.append(''.join(chr(int(t)) for t in (parts[2] if len(parts) > 2 else '').split('.') if t))
        for g in d['G']:
            for f in g:
                if f['k'] == 'CT': want.append(f['text'])
        want = [''.join(c for c in w if c != '\x00' and not NONXML(c)) for w in want]
        got = [e.text() for e in root.walk() if e.tag == 'text']
        import collections
        cw = collections.Counter(want); cg = collections.Counter(got)
        extra = cg - cw
        if extra: out.append('text elements whose content is not the text of any fragment: %r (fragment texts %r)' % (list(extra)[:3], want[:5]))
        return out
    def nontrivial(self, it):
        return bool(it.meta.get('text', '').strip())

PROP = C02()
