"""C10: separated sub-diagrams render independently of each other"""
from props.common import *
from props import geom

def clean(t):
    """tag-free, and quotes only when balanced within a row (a quoted segment never spans two parts)"""
    rows = []
    for r in ''.join(c for c in t if c not in '{}\r').split('\n'):
        if r.count('"') % 2: r = r.replace('"', '')
        if '"' in r: r = r.replace('\\', '')        # a backslash may escape a quote: keep backslashes only on rows without quotes
        rows.append(r)
    return '\n'.join(rows)

def width(rows): return max([row_cols(r) for r in rows] + [0])
def pad(r, w): return r + ' ' * (w - row_cols(r))

def bigtext(rng):
    words = 'lorem ipsum dolor sit amet consectetur elit sed do eiusmod tempor'.split()
    rows = []
    for _ in range(rng.randint(8, 16)):
        rows.append('  '.join(rng.choice(words) for _ in range(rng.randint(3, 7))))
        rows.append('')          # double spaced: words of consecutive lines stay separate groups
    return rows

class C10(Prop):
    id = 'C10'
    stages = ('S1', 'S25', 'S6')
    rule = 'pairs (and triples) of legend-free, tag-free, quote-free diagrams from the grid / example / shape generators placed side by side or stacked with gaps 1..3 (plus tall shapes beside many-word paragraphs); each item renders A, B and the juxtaposition; non-trivial when both parts have at least one element'
    level_text = ('Theorems C10_loop_commutes_with_restriction (M3 for the whole merge loop, relative to an invariant), C10_a_blank_column_separates / C10_a_blank_row_separates, C10_groups_of_a_part (the groups of cells of one part are exactly the groups of the whole that lie in it), '
                  'C10_fragments_come_from_their_group (provenance through the whole recognition pipeline), C10_a_part_is_the_restriction_of_the_whole (for every separated drawing the accepted fragments and contact groups of a part are those of the whole coming from its cells, in the same order), C10_parts_succeed_together, '
                  'C10_stacked_drawings / C10_stacked_document / C10_stacked_canvas (from the text: a drawing stacked on another, g blank lines apart, is recognised as the two drawings, with order; for g >= 2 its drawing nodes are those of the upper drawing and those of the lower one moved, on a canvas covering both), C10_side_by_side (from the cell map: two parts with two blank columns between them are drawn as the two parts, the right one moved; generic form parts_drawing), C10_a_part_renders_the_same_anywhere (C06), C10_enclosure_stays_inside_a_part / C10_nodes_of_the_parts (the enclosure pass, given that no fragment of one part fits in the bounds of a fragment of the other). For all drawings.')
    level_note = 'the text stage of side-by-side placement and gaps of one line or one column are covered by correspondence plus oracle'
    def make(self, gen, A, B, gap, how, C=None, indent=0):
        A = A or ['']; B = B or ['']
        if how == 'stack' and indent:
            # the lower part moved to the right: its first cell may sit one column right of the upper part's last cell
            rows = list(A) + [''] * gap + [' ' * indent + r for r in B]; off = (indent, len(A) + gap)
            runs = {'A': Run('\n'.join(A), '', 'settings'), 'B': Run('\n'.join(B), '', 'settings'), 'AB': Run('\n'.join(rows), '', 'settings')}
            return Item(gen, runs, {'text': '\n'.join(rows), 'offset': list(off), 'how': how, 'gap': gap})
        if how == 'side':
            wa = width(A); h = max(len(A), len(B))
            rows = [pad(A[i] if i < len(A) else '', wa + gap) + (B[i] if i < len(B) else '') for i in range(h)]
            off = (wa + gap, 0)
        else:
            rows = list(A) + [''] * gap + list(B); off = (0, len(A) + gap)
        runs = {'A': Run('\n'.join(A), '', 'settings'), 'B': Run('\n'.join(B), '', 'settings'), 'AB': Run('\n'.join(rows), '', 'settings')}
        return Item(gen, runs, {'text': '\n'.join(rows), 'offset': list(off), 'how': how, 'gap': gap})
    def items(self, rng, tier):
        out = [self.make('nul-column', [' \x00|', ' +-'], ['+-+', '| |'], 1, 'side'), self.make('nul-column', ['\x00\x00 o-'], ['*--', '|'], 2, 'side')]   # a literal NUL takes a column
        n = 350 if tier == 'quick' else 6000
        pool = [clean(t).split('\n') for _, t in gens.g_grid(rng, n) + gens.snippets(rng, n // 3) + gens.g_shape(rng, n // 2) + gens.g_text(rng, n // 3)]
        pool = [[r.rstrip() for r in p] for p in pool if any(r.strip() for r in p)]
        pool = [p for p in pool if '# Legend:' not in '\n'.join(p)]
        for _ in range(n):
            A = rng.choice(pool); B = rng.choice(pool)
            out.append(self.make('pair', A, B, rng.randint(1, 3), rng.choice(['side', 'stack'])))
        # the same drawing twice (whatever is remembered about the first must not leak into the second), shapes with something inside them
        inner = [[' ,-.', '( a )', " `-'"], ['  _', ' (b)'], ['+----+', '| ab |', '+----+'], ['  .--.', ' ( xy )', "  `--'"], [' ,-.', '(   )-- c', " `-'"]]
        for P in inner + [rng.choice(pool) for _ in range(20 if tier == 'quick' else 300)]:
            out.append(self.make('twice', P, P, rng.randint(1, 3), rng.choice(['side', 'stack'])))
        # stacked with the lower part moved right by every small amount around the width of the upper part's last row
        arcs = [['  ,--.', ' (    )'], [' ,-.', '(   )', " `-'"], ['   __', ' ,\'  `.', '(      )'], ['.--', '|']]
        for _ in range(40 if tier == 'quick' else 600):
            A = rng.choice(pool); B = rng.choice(arcs if rng.random() < 0.6 else pool)
            last = row_cols((A[-1] if A else '').rstrip())
            first_blank = len(B[0]) - len(B[0].lstrip(' ')) if B and B[0].strip() else 0
            for d in (-1, 0, 1):
                ind = last + d - first_blank
                if ind >= 0: out.append(self.make('stack-indent', A, B, rng.randint(1, 3), 'stack', indent=ind))
        for _ in range(40 if tier == 'quick' else 600):
            body = ''.join(rng.choice(gens.LABELS + gens.LATIN2 + gens.CJK + gens.COMBINING + ['\t', ' ']) for _ in range(rng.randint(1, 6)))
            A = [rng.choice(['', ' ', 'ab ']) + '"' + body + '"' for _ in range(rng.randint(1, 3))]
            out.append(self.make('quoted+box', A, gens.box(rng.randint(1, 4), rng.randint(1, 2)), rng.randint(1, 3), 'side'))
        # a part with backslashes (diamonds, down-right diagonals) to the left of a part with quoted labels on the same rows: what a
        # row of the left part contains must not change how the quotes of the right part pair up
        for _ in range(40 if tier == 'quick' else 600):
            k = rng.randint(1, 3)
            A = rng.choice([[' ' * (k - 1 - i) + '/' + ' ' * (2 * i) + '\\' for i in range(k)] + [' ' * i + '\\' + ' ' * (2 * (k - 1 - i)) + '/' for i in range(k)],
                            [' ' * i + '\\' for i in range(2 * k)], ['\\  /', ' \\/'], ['a\\b', 'c\\\\d']])
            B = [rng.choice(['', ' ', '-- ']) + '"' + rng.choice(['in|out', 'a-b', 'x', '+--+', 'é一']) + '"' + rng.choice(['', ' |', '--']) for _ in range(len(A))]
            out.append(self.make('backslash+quoted', A, B, rng.randint(1, 3), 'side'))
        for _ in range(12 if tier == 'quick' else 200):
            tall = gens.box(rng.randint(2, 8), rng.randint(18, 40))
            out.append(self.make('tall+text', tall, bigtext(rng) + bigtext(rng), rng.choice([1, 3]), 'side'))
            out.append(self.make('text+tall', bigtext(rng) + bigtext(rng), tall, rng.choice([1, 2]), 'side'))
        return out
    def item_from_json(self, j): return item_from_json(None, j)
    def oracle(self, it):
        ra, _ = root_of(it.runs['A']); rb, _ = root_of(it.runs['B']); rab, _ = root_of(it.runs['AB'])
        if ra is None or rb is None or rab is None: return []
        k, n = it.meta['offset']
        dx, dy = F(8 * k), F(16 * n)
        def els(root, ddx, ddy):
            return [geom.translate_elem(e, ddx, ddy) for e in root.elems() if e.tag not in ('style', 'defs') and e.get('class') != 'backdrop']
        ea = els(ra, 0, 0); eb = els(rb, 0, 0); eab = els(rab, 0, 0)
        ebt = [geom.translate_elem(e, -dx, -dy) for e in rb.elems() if e.tag not in ('style', 'defs') and e.get('class') != 'backdrop']
        import collections
        want = collections.Counter(map(repr, ea)) + collections.Counter(map(repr, ebt))
        got = collections.Counter(map(repr, eab))
        out = []
        if want != got:
            extra = list((got - want).elements())[:2]; missing = list((want - got).elements())[:2]
            out.append('the juxtaposition (%s, gap %d) is not the union of the parts: only in the juxtaposition %s; only in the parts %s' % (it.meta['how'], it.meta['gap'], extra, missing))
        return out
    def nontrivial(self, it):
        ra, _ = root_of(it.runs['A']); rb, _ = root_of(it.runs['B'])
        return ra is not None and rb is not None and len(elements(ra)) > 1 and len(elements(rb)) > 1

PROP = C10()
