"""C01: conversion is total"""
import subprocess, os, time
from props.common import *
import proto

def ladder(kind, n):
    if kind == 'plus': return '\n'.join('+' * n for _ in range(n))
    if kind == 'text': return '\n'.join('a' * n for _ in range(n))
    if kind == 'bars': return '\n'.join('|' * n for _ in range(n))
    if kind == 'bullets': return '\n'.join(' '.join('*' for _ in range(n // 2)) if i % 2 == 0 else '' for i in range(n))
    if kind == 'nest':
        rows = [[' '] * (2 * n) for _ in range(2 * n)]
        for k in range(0, n, 2):
            for x in range(k, 2 * n - k): rows[k][x] = '-'; rows[2 * n - 1 - k][x] = '-'
            for y in range(k, 2 * n - k): rows[y][k] = '|'; rows[y][2 * n - 1 - k] = '|'
            for (x, y) in [(k, k), (2 * n - 1 - k, k), (k, 2 * n - 1 - k), (2 * n - 1 - k, 2 * n - 1 - k)]: rows[y][x] = '+'
        return '\n'.join(''.join(r) for r in rows)
    if kind == 'diag': return '\n'.join(' ' * i + '\\' for i in range(n * 4))
    if kind == 'quotes': return '\n'.join('"a" ' * n for _ in range(n))
    if kind == 'braces': return '\n'.join('{a}' * n for _ in range(n))
    if kind == 'circles': return '\n'.join(' .-.  ' * (n // 2) if i % 3 == 0 else '(   ) ' * (n // 2) if i % 3 == 1 else " `-'  " * (n // 2) for i in range(n))
    raise ValueError(kind)
KINDS = ['plus', 'text', 'bars', 'bullets', 'nest', 'diag', 'quotes', 'braces', 'circles']

class C01(Prop):
    id = 'C01'
    stages = ('S1', 'S25', 'S6')
    release = True
    partial = 'partial: real stack depth and wall-clock time are runtime behaviour; the theorems bound passes and exclude every modelled panic site, the harness measures time on size ladders and runs debug and release builds with overflow checks on an 8 MiB stack'
    rule = 'mixed generator streams (grids over the full alphabet incl. controls, zero/double width, non-BMP; mutated examples; shapes; text channels; malformed quotes/braces/legends), each under one of the five entry points with random settings; non-trivial when the input has at least one non-blank character'
    level_text = ('Theorems C01_*_total: for every list of scalars and every settings value each of the five entry points of the model returns Ok: no modelled panic site (expect/unwrap/slice/index/panic!) is reachable and no loop runs out of fuel; '
                  'C01_merge_loop_terminates bounds the passes of the generic merge loop by the list length for every merge function, and C01_merge_loop_cost bounds the number of applications of merge by (n+1)*n^2 for a list of n items (counted along the very definitions of the loop, for every merge function: the loop is polynomial, not merely terminating). Proved by induction (M1 fuel, M2 invariant transport for non-empty spans, selector lemmas for as_line/as_arc, position lemmas for the escape slices).')
    level_note = 'partial: stack depth, wall-clock time and arithmetic overflow are runtime; overflow beyond 2^31 cells excluded by assumption; the model is tied to the code stage by stage on every run'
    def make(self, gen, text, spec, entry):
        return single(gen, text, spec, entry, factory=lambda t: self.make(gen, t, spec, entry))
    def items(self, rng, tier):
        out = []
        specs = ['', 'scale=1', 'scale=1/2', 'bd=0;st=0;df=0', 'scale=20;fs=3', 'ff=60.38.62;fill=34.39', 'sw=1/2;w=100;h=50']
        for g, t in texts(rng, tier, 1500, 40000):
            entry = rng.choice(ENTRIES)
            spec = rng.choice(specs) if entry in ('settings', 'override') else ''
            out.append(self.make(g, t, spec, entry))
        for g, t in gens.g_groups(rng, None):
            out.append(self.make(g, t, '', 'settings'))
        for g, t in gens.g_malformed(rng, 300 if tier == 'quick' else 5000):
            out.append(self.make(g, t, '', rng.choice(ENTRIES)))
        return out
    def item_from_json(self, j): return item_from_json(None, j)
    def oracle(self, it):
        out = []
        for k, r in it.runs.items():
            for o, v in r.impl.items():
                if v is None: out.append('%s: no result (process died or timed out)' % o)
                elif v.startswith('PANIC'): out.append('%s: %s' % (o, v[:300]))
            if r.impl.get('svg') is not None and not r.impl['svg'].startswith(('S ', 'PANIC')): out.append('no document returned: %r' % r.impl['svg'][:100])
        return out
    def nontrivial(self, it):
        return bool(next(iter(it.runs.values())).text.strip())
    def extra(self, ctx):
        """size ladders, timed, debug and (thorough) release build"""
        sizes = [10, 20, 40] if ctx['tier'] == 'quick' else [10, 20, 40, 80, 160]
        cases = []
        for kind in KINDS:
            for n in sizes:
                cases.append(proto.Case('%s:%d' % (kind, n), 'svg:settings', '', ladder(kind, n)))
        wd = os.path.join(VERIF_WORK, 'C01_ladder'); os.makedirs(wd, exist_ok=True)
        path = os.path.join(wd, 'ladder.txt'); proto.write_cases(cases, path)
        failures = []; rows = []
        exes = [('debug', proto.HARNESS)] + ([('release', proto.HARNESS_REL)] if ctx['tier'] == 'thorough' and os.path.exists(proto.HARNESS_REL) else [])
        for name, exe in exes:
            try:
                p = subprocess.run([exe, 'timed', path], capture_output=True, text=True, timeout=900)
                lines = [l.split('\t') for l in p.stdout.split('\n') if l]
            except subprocess.TimeoutExpired:
                failures.append({'ladder': name, 'failure': 'size ladder did not finish within 900 s'}); continue
            seen = set()
            for f in lines:
                if len(f) < 4: continue
                cid, us, ln, status = f[0], int(f[1]), int(f[2]), f[3]
                seen.add(cid)
                c = next(c for c in cases if c.id == cid)
                N = len(c.text)
                bound = 500000 + 0.05 * N * N
                rows.append({'build': name, 'case': cid, 'chars': N, 'micros': us, 'bound_micros': int(bound)})
                if status != 'OK': failures.append({'ladder': cid, 'build': name, 'failure': 'panic on the size ladder', 'input_scalars': [ord(ch) for ch in c.text][:2000]})
                elif us > bound: failures.append({'ladder': cid, 'build': name, 'failure': 'took %d us for %d characters, above the bound 0.5 s + 0.05 us * n^2 = %d us' % (us, N, bound)})
            for c in cases:
                if c.id not in seen: failures.append({'ladder': c.id, 'build': name, 'failure': 'no result on the size ladder (process died: %s)' % p.stderr[-200:]})
        return {'failures': failures, 'evaluations': len(rows), 'distinct_nontrivial': len(rows), 'coverage': {'size_ladders': rows}}

import framework
VERIF_WORK = framework.WORK
PROP = C01()
