"""C06: moving a drawing only translates its rendering"""
from props.common import *
from props import geom

def shift(text, k, n):
    return '\n' * n + '\n'.join(' ' * k + l for l in text.split('\n'))

def junction(rng):
    """a long diagonal with a horizontal branch (touching at an interior point)"""
    L = rng.randint(3, 30); ch = rng.choice('/\\'); row = rng.randint(1, L - 1)
    rows = gens.run_rows(ch, L, 'd2' if ch == '/' else 'd1')
    r = rows[row]
    rows[row] = r + '-' * rng.randint(1, 4) if rng.random() < 0.6 else '-' * 0 + r.replace(' ' * min(3, len(r) - 1) + ch, '-' * min(3, len(r) - 1) + ch, 1)
    return rows

class C06(Prop):
    id = 'C06'
    stages = ('S1', 'S25', 'S6')
    level_text = ('Theorem C06_translation: for every legend-free input with a non-empty cell map, every settings value and every offset (k,n), the document of the moved text is the original with the canvas enlarged by (k,n) cells and exactly the drawing nodes of the original translated by (k*scale, 2*n*scale): same elements, same order, same classes, same text. '
                  'Proved through every stage for all inputs: lines/rows/escape_line under indentation, the three merge loops (M4 equivariance), fragment buffer (sorted map, per-cell sort), contacts, rect/rounded-rect endorsement, circle/arc matching on localised spans, the enclosure pass (under the table invariant that polygons are non-empty, re-proved on regenerated tables), node emission in exact rationals.')
    level_note = 'the float code can depend on position only through rounding (parry epsilons); exactness below 512 cells is an assumption that the correspondence samples at offsets up to 399 x 199; hypothesis: no legend header before or after the move; the empty drawing is the stated exception'
    rule = 'each item renders a legend-free input at the origin and shifted by (k spaces, n line feeds), offsets from {0,1,2,7,50,399} x {0,1,3,20,199} (thorough: random up to 400 x 200), scales {8, 2.5, 1.5, 0.5}; a far stream of small arc-heavy drawings always moved by 260-399 columns and/or 130-199 rows; non-trivial when the drawing has at least one cell'
    def make(self, gen, text, k, n, sc='8'):
        spec = '' if sc == '8' else 'scale=%s' % sc
        return Item(gen, {'base': Run(text, spec, 'settings'), 'moved': Run(shift(text, k, n), spec, 'settings')}, {'text': text, 'offset': [k, n], 'scale': sc},
                    lambda t: self.make(gen, t, k, n, sc))
    def items(self, rng, tier):
        out = []
        src = texts(rng, tier, 500, 8000)
        for _ in range(60 if tier == 'quick' else 2000): src.append(('junction', '\n'.join(junction(rng))))
        # every diagonal of 3..29 cells with a horizontal branch at every interior row (float exactness of point-on-segment)
        for L in range(3, 30):
            for row in range(1, L):
                for ch in '/\\':
                    rows = gens.run_rows(ch, L, 'd2' if ch == '/' else 'd1')
                    rows[row] = rows[row] + '---'
                    src.append(('junction-sweep', '\n' + '\n'.join(rows)))
        for g, t in gens.g_shape(rng, 150 if tier == 'quick' else 3000):
            if g == 'shape:arc': src.append((g, t))
        # far from the origin: small arc-heavy drawings (round corners, parentheses next to walls: end points a quarter cell apart)
        # always moved by hundreds of cells, where a comparison with a relative tolerance starts to confuse neighbouring grid points
        far = []
        for _ in range(150 if tier == 'quick' else 3000):
            w = rng.randint(2, 6); h = rng.randint(1, 3)
            inner = [''.join(rng.choice("  ()-'.,`|") for _ in range(w)) for _ in range(h)]
            c = rng.choice(["..''", ",.`'", "++++"])
            rows = [c[0] + '-' * w + c[1]] + ['|' + r + '|' for r in inner] + [c[2] + '-' * w + c[3]]
            far.append(('far-arcs', '\n'.join(rows)))
        for _ in range(100 if tier == 'quick' else 2000):
            far.append(('far-grid', '\n'.join(''.join(rng.choice("  ()-'.,`|/\\_~+*ov^<>") for _ in range(rng.randint(2, 6))) for _ in range(rng.randint(2, 5)))))
        for g, t in src:
            if '# Legend:' in t or '\r' in t: continue
            if tier == 'quick' or rng.random() < 0.5: k = rng.choice([0, 1, 2, 7, 50, 399]); n = rng.choice([0, 1, 3, 20, 199])
            else: k = rng.randint(0, 400); n = rng.randint(0, 200)
            if g.startswith('junction'): k = rng.choice([2, 5]); n = rng.choice([0, 1, 2])
            if k == 0 and n == 0: k = 1
            out.append(self.make(g, t, k, n, rng.choice(['8', '8', '8', '8', '5/2', '3/2', '1/2'])))      # the canvas and the elements move by whole cells at any scale
        for g, t in far:
            k, n = rng.choice([(399, 199), (260, 130), (300, 0), (0, 199), (399, 0)])
            out.append(self.make(g, t, k, n))
        return out
    def item_from_json(self, j): return item_from_json(None, j)
    def oracle(self, it):
        rb, _ = root_of(it.runs['base']); rm, _ = root_of(it.runs['moved'])
        if rb is None or rm is None: return []
        k, n = it.meta['offset']
        cells = svgtree.sections(it.runs['base'].impl.get('cells') or '').get('cells', '')
        if not cells.strip(): return []        # an empty drawing has the constant minimal canvas
        out = []
        sc = F(it.meta.get('scale', '8'))
        dx, dy = sc * k, 2 * sc * n
        try:
            if F(rm.get('width')) - dx != F(rb.get('width')) or F(rm.get('height')) - dy != F(rb.get('height')):
                out.append('canvas %sx%s at the origin, %sx%s after moving by (%d,%d)' % (rb.get('width'), rb.get('height'), rm.get('width'), rm.get('height'), k, n))
        except Exception as e: out.append('canvas unreadable: %s' % e)
        eb = [geom.translate_elem(e, 0, 0) for e in rb.elems() if e.tag not in ('style', 'defs') and e.get('class') != 'backdrop']
        em = [geom.translate_elem(e, dx, dy) for e in rm.elems() if e.tag not in ('style', 'defs') and e.get('class') != 'backdrop']
        # at the default scale every coordinate is printed exactly and the comparison is exact; at other scales the
        # binary32 product with the scale is rounded at the position, and the property's tolerance (1e-3 cell) applies
        tol = F(0) if sc == 8 else sc / 1000
        same = eb == em if tol == 0 else (len(eb) == len(em) and all(geom.near_elem(x, y, tol) for x, y in zip(eb, em)))
        if not same:
            a = [e for e in eb if e not in em][:2]; b = [e for e in em if e not in eb][:2]
            out.append('after moving by (%d,%d) the elements are not the translated ones: only at origin %r; only moved (shift removed) %r%s' % (
                k, n, a, b, '' if a or b else ' (same elements, different order)'))
        return out
    def nontrivial(self, it):
        return bool(it.meta.get('text', '').strip())

PROP = C06()
