"""C09: straight runs become one line; no two output lines are collinear and touching"""
from props.common import *

RUNS = {'-': 'h', '~': 'h', '_': 'h', '=': 'h', '─': 'h', '═': 'h', '┄': 'h',
        '|': 'v', ':': 'v', '!': 'v', '│': 'v', '║': 'v', '┆': 'v',
        '/': 'd2', '╱': 'd2', '\\': 'd1', '╲': 'd1'}
DOUBLE = {'=': 2, '═': 2, '║': 2}

def plain_lines(root):
    out = []
    for e in root.walk():
        if e.tag != 'line': continue
        cls = (e.get('class') or '').split()
        if any(c.startswith(('start_marked', 'end_marked')) for c in cls): continue
        try:
            out.append(((F(e.get('x1')), F(e.get('y1'))), (F(e.get('x2')), F(e.get('y2'))), 'broken' in cls, e))
        except Exception: pass
    return out

def cross(a, b, c): return (b[0] - a[0]) * (c[1] - a[1]) - (b[1] - a[1]) * (c[0] - a[0])
def on_seg(a, b, p):
    return cross(a, b, p) == 0 and min(a[0], b[0]) <= p[0] <= max(a[0], b[0]) and min(a[1], b[1]) <= p[1] <= max(a[1], b[1])

class C09(Prop):
    id = 'C09'
    coq_targets = ['Props/C09.vo', 'Float/FloatExact.vo']   # the exactness of the float cross product on the grid (supporting lemma)
    stages = ('S1', 'S25', 'S6')
    rule = 'runs of length 1..400 of every run character in its direction at offsets (quick: all lengths 1..64 plus a sample up to 400), and random grids over the full alphabet with all pairs of plain line elements examined; non-trivial when the output has at least one line element'
    level_text = ('Theorems C09_no_two_mergeable_lines (at the fixpoint of the merge loop no line can merge with a later one, for every span), C09_can_merge_means_collinear_and_touching, '
                  'C09_run_of_any_length_is_one_line (a chain of n >= 1 collinear touching unit segments in any of the four directions merges to the one line from first to last point, for every n, by induction), C09_dashed_if_any_part_dashed, '
                  'C09_runs_from_characters (from the characters: a straight run of 1..40 cells of - _ ~ = | : ! \\ / or the box-drawing bars is recognised by the whole recognition of the model as exactly one line spanning the run - two for = -, dashed for ~ : !, and nothing else; sweep inside Coq on the regenerated tables) and C09_runs_anywhere_in_context (at any offset, next to anything that does not touch the run; by C06 and C10). '
                  'Longer runs through the tables and lines of different groups of cells are decided by correspondence and oracle.')
    level_note = 'float cross product: exact on the grid below 512 columns / 512 rows by Float/FloatExact.v (Flocq; standard real-number axioms); partial: runs longer than 40 cells through the tables and cross-span lines by correspondence plus oracle; exact integer geometry in the model, f32 in the code'
    def make(self, gen, text, meta=None):
        return Item(gen, {'main': Run(text, '', 'settings')}, dict(meta or {}, text=text), lambda t: self.make(gen, t))
    def items(self, rng, tier):
        out = []
        lens = list(range(1, 65)) + [rng.randint(65, 400) for _ in range(12)] if tier == 'quick' else list(range(1, 401))
        for ch, d in RUNS.items():
            for L in lens:
                if tier == 'quick' and L > 20 and (L * 7 + ord(ch)) % 3: continue
                rows = gens.run_rows(ch, L, d)
                x = rng.choice([0, 0, 1, 3]); y = rng.choice([0, 0, 1, 2])
                out.append(self.make('run', gens.place(rows, x, y), {'run': [ch, L, d]}))
        # gaps bridged by a neighbour: runs with a one-cell gap and a connector next to the gap
        for ch in '_-':
            for a in range(1, 5):
                for b in range(1, 5):
                    for conn in '|+.\'/\\':
                        for where in (0, 1):
                            top = ch * a + ' ' + ch * b
                            other = ' ' * a + conn
                            out.append(self.make('gap', (other + '\n' + top) if where else (top + '\n' + other)))
        # small free-standing pieces between two long parallel strokes (their bounds overlap; the piece must be drawn once)
        for ch in '/\\':
            for L in (5, 7, 9):
                for gap in (3, 4, 6):
                    for piece in ('-', '|', '--', '_', 'x'):
                        a = gens.run_rows(ch, L, 'd2' if ch == '/' else 'd1')
                        rows = gens.overlay(a, a, gap + len(piece) + 1, 0)
                        mid = L // 2
                        col = (L - 1 - mid if ch == '/' else mid) + 2 + (gap - 2) // 2
                        rows = gens.overlay(rows, [piece], col, mid)
                        out.append(self.make('between', gens.place(rows, rng.choice([0, 1]), rng.choice([0, 1]))))
        for g, t in texts(rng, tier, 600, 10000): out.append(self.make(g, t))
        return out
    def item_from_json(self, j): return item_from_json(None, j)
    def oracle(self, it):
        root, _ = root_of(it.runs['main'])
        if root is None: return []
        out = []
        ls = plain_lines(root)
        for i in range(len(ls)):
            a1, a2, ba, _ = ls[i]
            for j in range(i + 1, len(ls)):
                b1, b2, bb, _ = ls[j]
                if (a1, a2, ba) == (b1, b2, bb) or (a1, a2) == (b2, b1): out.append('the same line is emitted twice: %s-%s' % (a1, a2)); continue
                if a1 == a2 or b1 == b2: continue
                if cross(a1, a2, b1) == 0 and cross(a1, a2, b2) == 0:
                    if on_seg(a1, a2, b1) or on_seg(a1, a2, b2) or on_seg(b1, b2, a1) or on_seg(b1, b2, a2):
                        out.append('two plain lines are collinear and touching: %s-%s and %s-%s' % (a1, a2, b1, b2))
            if len(out) > 3: break
        if 'run' in it.meta and not out:
            ch, L, d = it.meta['run']
            want = DOUBLE.get(ch, 1)
            if ch in ':!' and L < 2: return out
            els = [e for _, e in elements(root) if e.get('class') != 'backdrop']
            if len(ls) != want or len(els) != want:
                out.append('a run of %d %r is emitted as %d line elements (%d elements) instead of %d' % (L, ch, len(ls), len(els), want))
        return out
    def nontrivial(self, it):
        root, _ = root_of(it.runs['main'])
        return root is not None and any(e.tag == 'line' for e in root.walk())

PROP = C09()
