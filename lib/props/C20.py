"""C20: the HTTP server returns the library's conversion and survives any request"""
import os, subprocess, socket, time, threading, http.client
from props.common import *
import proto, framework

SERVER = os.path.join(framework.VERIF, 'build', 'cargo-ws', 'debug', 'svgbob_server')

def free_port():
    s = socket.socket(); s.bind(('127.0.0.1', 0)); p = s.getsockname()[1]; s.close(); return p

def request(port, method, path, body, timeout=120):
    c = http.client.HTTPConnection('127.0.0.1', port, timeout=timeout)
    try:
        c.request(method, path, body=body, headers={'Content-Type': 'text/plain'} if body is not None else {})
        r = c.getresponse(); data = r.read(); return r.status, data
    finally:
        c.close()

def raw(port, payload, timeout=5):
    s = socket.create_connection(('127.0.0.1', port), timeout=timeout)
    try:
        s.sendall(payload)
        try: return s.recv(4096)
        except Exception: return b''
    finally:
        s.close()

class C20(Prop):
    id = 'C20'
    stages = ()
    needs = ()
    bins = True
    partial = 'partial: tokio scheduling, sockets and axum routing/limits are runtime; the theorems cover the handler logic, its independence of history and totality; the harness runs the built server sequentially and from 16 concurrent clients'
    rule = 'request sequences mixing GET, POST of diagrams from all generators (empty, up to 20 kB, hostile markup), invalid UTF-8 bodies (random bytes, overlong forms, surrogates, truncated sequences), an oversized body, other methods and paths, malformed request lines, issued sequentially and from 16 concurrent clients against one server process; liveness probed after every malformed request; non-trivial always'
    level_text = ('Theorems C20_post_returns_the_conversion (for every text: 200 and exactly the default conversion), C20_bad_utf8_is_400, C20_every_post_is_answered (totality via C01), C20_get_says_hello, '
                  'C20_answers_do_not_depend_on_history (serve is a map of a stateless handler), C20_utf8_round_trip (decode o encode = id on scalar values, by arithmetic). The built server is compared with the extracted handler on every run.')
    level_note = 'partial: tokio, sockets, axum limits are runtime; UTF-8 validity is the decoder of Model/Server.v compared with String::from_utf8 through the running server'
    def items(self, rng, tier): return []
    def oracle(self, it): return []
    def extra(self, ctx):
        rng = ctx['rng']; tier = ctx['tier']
        port = free_port()
        env = dict(os.environ, PORT=str(port))
        proc = subprocess.Popen([SERVER], env=env, stdout=subprocess.DEVNULL, stderr=subprocess.PIPE)
        failures = []; broken = []; reqs = []
        try:
            for _ in range(100):
                try:
                    socket.create_connection(('127.0.0.1', port), timeout=0.2).close(); break
                except Exception: time.sleep(0.1)
            n = 120 if tier == 'quick' else 1500
            texts_ = [t for _, t in gens.mixed(rng, n)] + ['', '+--+', '<script>alert(1)</script>', '\ufffd', '+-----+\n| a\ufffdb |--> b\n+-----+\n', '\ufeffab', 'a\u2028b', '\U0010ffff', '\ud7ff\ue000']
            # the same labelled shapes at different places, and legends with several classes, in one server life
            history = []
            for (dx, dy) in [(0, 0), (9, 3), (2, 0), (0, 5), (30, 1)]:
                for lab in 'ab':
                    history.append('\n' * dy + '\n'.join(' ' * dx + r for r in [' ,-.', '( %s )' % lab, " `-'"]))
                    history.append('\n' * dy + '\n'.join(' ' * dx + r for r in ['  _', ' (%s)' % lab]))
            texts_ += history
            texts_ += ['{a}\n# Legend:\na = {fill:red}\nb = {stroke:blue}\nc = {x:y}\nd = {z:w}\ne = {q:r}', '{b}\n# Legend:\nb = {fill:green}', 'plain --> text'] * 3
            big = ['a' * 20000, ('+-' * 40 + '\n') * 200, '\n'.join('| ' * 30 for _ in range(300))]
            bad = [b'\xff', b'+\xc0\xaf', b'\xed\xa0\x80', b'ab\xe4\xb8', b'\xf5\x80\x80\x80', b'\xf0\x8f\xbf\xbf', b'\x80', bytes(rng.randrange(256) for _ in range(40))]
            for i in range(n):
                k = rng.random()
                if k < 0.03: reqs.append(('POST', '/', rng.choice(big).encode()))
                elif k < 0.6: reqs.append(('POST', '/', rng.choice(texts_).encode('utf-8', 'surrogatepass') if rng.random() < 0.97 else rng.choice(bad)))
                elif k < 0.7: reqs.append(('POST', '/', rng.choice(bad)))
                elif k < 0.8: reqs.append(('GET', '/', None))
                elif k < 0.87: reqs.append((rng.choice(['PUT', 'DELETE', 'PATCH']), '/', b'x'))
                elif k < 0.94: reqs.append((rng.choice(['GET', 'POST']), rng.choice(['/x', '/svg', '//', '/index.html']), b'+--+'))
                else: reqs.append(('RAW', '', rng.choice([b'GARBAGE\r\n\r\n', b'GET\r\n\r\n', b'POST / HTTP/1.1\r\nContent-Length: 10\r\n\r\nab', b'\x00\x01\x02', b'GET / HTTP/9.9\r\n\r\n'])))
            # a fixed opening: every answer is the conversion of its own body, whatever was asked before
            # ... including three bodies whose answers are large (80 kB and more): whatever a worker keeps between requests must not leak into the next
            wordy = '\n'.join(' '.join('w%d' % (j % 7) for j in range(18)) for _ in range(120))
            reqs = [('POST', '/', t.encode()) for t in history] + [('POST', '/', b'{a}\n# Legend:\na = {fill:red}\nb = {stroke:blue}\nc = {x:y}'), ('POST', '/', b'{b}\n# Legend:\nb = {fill:green}'), ('POST', '/', b'plain')] \
                + [('POST', '/', wordy.encode()), ('POST', '/', big[1].encode()), ('POST', '/', wordy.encode())] + reqs
            # the model's answers
            cases = []
            for i, (m, pth, body) in enumerate(reqs):
                if m == 'RAW': continue
                mm = m if m in ('GET', 'POST') else 'OTHER'
                cases.append(proto.Case('h%d' % i, 'http', 'm=%s;root=%d' % (mm, 1 if pth == '/' else 0), ''))
                cases[-1].text = ''
            # body bytes go in the scalar field
            lines = []; bigcases = []
            for c, (m, pth, body) in zip(cases, [r for r in reqs if r[0] != 'RAW']):
                if body is not None and len(body) > 3000 and m == 'POST' and pth == '/':
                    bigcases.append(proto.Case(c.id, 'svg:to_svg', '', body.decode('utf-8'))); continue
                lines.append('\t'.join([c.id, 'http', c.spec, ' '.join(str(b) for b in (body or b''))]))
            wd = os.path.join(framework.WORK, 'C20'); os.makedirs(wd, exist_ok=True)
            open(os.path.join(wd, 'http.txt'), 'w').write('\n'.join(lines) + '\n')
            p = subprocess.run([proto.DRIVER, os.path.join(wd, 'http.txt')], capture_output=True, text=True, timeout=300)
            model = {}
            for l in p.stdout.split('\n'):
                f = l.split('\t')
                if len(f) == 2 and f[1].startswith('HTTP '):
                    parts = f[1].split(' ')
                    model[f[0]] = (int(parts[1]), bytes(int(t) for t in (parts[2] if len(parts) > 2 else '').split('.') if t))
            if bigcases:
                impl, _, _, _ = proto.run_both(bigcases, os.path.join(wd, 'big'), want_model=False)
                for c in bigcases:
                    v = framework.svgtree.svg_of(impl.get(c.id))
                    if v is not None: model[c.id] = (200, v.encode('utf-8'))
            def check(i, status, data, how):
                m, pth, body = reqs[i]
                exp = model.get('h%d' % i)
                if exp is None: broken.append('no model answer for request %d' % i); return
                es, eb = exp
                if m == 'GET' and pth == '/' and body is None: pass
                if status != es:
                    failures.append({'failure': '%s: %s %s answered %d, the model says %d' % (how, m, pth, status, es), 'body_bytes': list(body or b'')[:400]}); return
                if es == 200:
                    a = 'S ' + data.decode('utf-8', 'replace'); b = 'S ' + eb.decode('utf-8', 'replace')
                    if not proto.same_result('svg:', a, b):
                        failures.append({'failure': '%s: %s %s returned a different document than the library conversion: %s' % (how, m, pth, proto.first_diff(a, b)[:300]), 'body_bytes': list(body or b'')[:400]})
            # sequentially
            for i, (m, pth, body) in enumerate(reqs):
                if m == 'RAW':
                    raw(port, body)
                    try:
                        st, data = request(port, 'GET', '/', None)
                        if st != 200: failures.append({'failure': 'after a malformed request the server answers GET with %d' % st})
                    except Exception as e:
                        failures.append({'failure': 'after the malformed request %r the server no longer answers: %s' % (body, e)}); break
                    continue
                try:
                    st, data = request(port, m, pth, body)
                    check(i, st, data, 'sequential')
                except Exception as e:
                    failures.append({'failure': 'no answer to %s %s: %s' % (m, pth, e), 'body_bytes': list(body or b'')[:400]}); break
                if len(failures) > 5: break
            # an oversized body is refused, and the server goes on answering
            try:
                st, data = request(port, 'POST', '/', b'+' * (3 << 20), timeout=60)
                if st != 413: failures.append({'failure': 'a 3 MiB body answered %d instead of 413' % st})
            except Exception as e:
                pass   # the connection may be reset while the body is still being sent
            try:
                st, data = request(port, 'GET', '/', None)
                if st != 200: failures.append({'failure': 'after an oversized request GET answers %d' % st})
            except Exception as e:
                failures.append({'failure': 'after an oversized request the server no longer answers: %s' % e})
            # concurrently
            idx = [i for i, r in enumerate(reqs) if r[0] != 'RAW']
            lock = threading.Lock()
            def worker(t):
                r2 = random.Random(ctx['seed'] * 31 + t)
                for _ in range(len(idx) // 8):
                    i = r2.choice(idx); m, pth, body = reqs[i]
                    try:
                        try:
                            st, data = request(port, m, pth, body)
                        except (socket.timeout, TimeoutError):
                            # a busy machine is not a silent server: ask again and wait much longer before calling it unanswered
                            st, data = request(port, m, pth, body, timeout=600)
                        with lock: check(i, st, data, 'concurrent (16 clients)')
                    except Exception as e:
                        with lock: failures.append({'failure': 'concurrent: no answer to %s %s: %s' % (m, pth, e)})
            ths = [threading.Thread(target=worker, args=(t,)) for t in range(16)]
            for t in ths: t.start()
            for t in ths: t.join()
            if proc.poll() is not None: failures.append({'failure': 'the server process exited with %s' % proc.returncode})
        finally:
            proc.kill()
        return {'failures': failures[:5], 'broken': broken[:3], 'evaluations': len(reqs) * 3, 'distinct_nontrivial': len({(m, pth, body) for m, pth, body in reqs}),
                'samples': [{'method': m, 'path': pth, 'body_preview': (body or b'')[:60].decode('utf-8', 'replace')} for m, pth, body in reqs[:3]],
                'coverage': {'requests': len(reqs), 'concurrent_clients': 16, 'kinds': {k: sum(1 for r in reqs if r[0] == k) for k in ('GET', 'POST', 'PUT', 'DELETE', 'PATCH', 'RAW')}}}

import random
PROP = C20()
