"""C15: quoted text is verbatim, draws nothing, displaces nothing"""
from props.common import *

def dump(e):
    if e.tag == 'text': return (e.tag, tuple(e.attrs), tuple([e.text()]) if e.text() != '' else ())
    return (e.tag, tuple(e.attrs), tuple(k if isinstance(k, str) else dump(k) for k in e.kids if not (isinstance(k, str) and not k.strip())))

BODY = list('abcXY019 ') + list('-|+/\\*<>&.\'`_~:=oO#^v()[]') + gens.LATIN2 + gens.CJK + ['́', '\t', '{', '}']
BODY = [c for c in BODY if c not in '"\\{}'] + ['├', '─', '┤', 'α', '°', '±', '×', '§', '│', '═']
OUT = list(' -|+abc*>') + ['一', 'é']

class C15(Prop):
    id = 'C15'
    stages = ('S1', 'S6')
    needs = ('cells', 'svg')
    rule = 'rows of drawing content with 0..3 quoted segments at arbitrary columns (segment content over drawing, markup, multi-byte and double-width characters, no quote or backslash) on multi-row diagrams; each item also renders the input with every quoted region overwritten by spaces of its column width; non-trivial when there is at least one segment'
    level_text = ('Theorems C15_quoted_segment (for every line pre "body" post the text is lifted out verbatim at the opening quote and the drawn row is pre ++ spaces ++ post), C15_rest_as_if_blanked (cells equal those of the blanked line), '
                  'C15_blank_width_is_region_width (for every line, double-width included), C15_any_number_of_segments / C15_everything_else_as_if_blanked (a line with any number of quoted segments: every body lifted out verbatim, in order, at the column of its opening quote; the cells drawn are those of the line with every region overwritten by blanks of its column width). For all lines whose bodies have no backslash.')
    level_note = 'bodies with an escaped quote (backslash) and unbalanced quotes are covered by the text-stage correspondence and the oracle'
    def make(self, gen, rows_spec):
        """rows_spec: list of rows; a row is a list of ('t', text) / ('q', body) pieces"""
        main = []; blank = []; quoted = []
        for y, row in enumerate(rows_spec):
            m = ''; b = ''; col = 0
            for kind, s in row:
                if kind == 't':
                    m += s; b += s; col += text_cols(s)
                else:
                    quoted.append((col, y, s))
                    m += '"' + s + '"'; w = text_cols(s) + 2; b += ' ' * w; col += w
            main.append(m); blank.append(b)
        text = '\n'.join(main)
        return Item(gen, {'main': Run(text, '', 'settings'), 'blank': Run('\n'.join(blank), '', 'settings')},
                    {'text': text, 'quoted': quoted, 'rows': rows_spec})
    def items(self, rng, tier):
        out = []
        n = 500 if tier == 'quick' else 8000
        for _ in range(n):
            rows = []
            for _ in range(rng.randint(1, 4)):
                row = []
                for _ in range(rng.randint(0, 3)):
                    row.append(('t', ''.join(rng.choice(OUT) for _ in range(rng.randint(0, 5)))))
                    if rng.random() < 0.75:
                        row.append(('q', ''.join(rng.choice(BODY) for _ in range(rng.randint(0, 7)))))
                row.append(('t', ''.join(rng.choice(OUT) for _ in range(rng.randint(0, 5)))))
                rows.append(row)
            if rng.random() < 0.3: rows.append([('t', rng.choice(['+----------+', 'xxxxxxx', '---------']))])
            if rows and rng.random() < 0.25:
                # the same row again, directly below (and sometimes once more): each copy keeps its own texts
                j = rng.randrange(len(rows)); rows = rows[:j + 1] + [rows[j]] * rng.randint(1, 2) + rows[j + 1:]
            out.append(self.make('quoted', rows))
        # a box around a quoted text
        for _ in range(n // 5):
            body = ''.join(rng.choice(BODY) for _ in range(rng.randint(1, 6)))
            w = text_cols(body) + 2 + rng.randint(0, 3)
            rows = [[('t', '+' + '-' * w + '+')], [('t', '|'), ('q', body), ('t', ' ' * (w - text_cols(body) - 2) + '|')], [('t', '+' + '-' * w + '+')]]
            out.append(self.make('quoted-in-box', rows))
        return out
    def item_from_json(self, j):
        it = item_from_json(None, j); return it
    def oracle(self, it):
        rm, _ = root_of(it.runs['main']); rb, _e2 = root_of(it.runs['blank'])
        if rm is None and rb is not None and it.meta.get('quoted'):
            return ['the document of the input with quoted text is not well-formed (%s) while the one of the blanked input is: the quoted text is not shown verbatim' % str(_)[:80]]
        if rm is None or rb is None: return []
        out = []
        if dict(rm.attrs) != dict(rb.attrs): out.append('the canvas differs from the one of the blanked input: %s vs %s' % (dict(rm.attrs), dict(rb.attrs)))
        nm = [dump(e) for _, e in elements(rm)]; nb = [dump(e) for _, e in elements(rb)]
        for col, y, s in it.meta.get('quoted', []):
            want = ''.join(c for c in s if not (ord(c) < 32 and c not in '\t\n\r'))
            x = F(col * 8 + 2); yy = F(y * 16 + 12)
            hit = None
            for i, d in enumerate(nm):
                if d[0] == 'text' and len(d[2]) <= 1:
                    a = dict(d[1]); content = d[2][0] if d[2] else ''
                    try:
                        if F(a.get('x')) == x and F(a.get('y')) == yy and content == want: hit = i; break
                    except Exception: pass
            if hit is None: out.append('quoted text %r at column %d row %d is not emitted verbatim as one text element at (%s,%s)' % (s, col, y, x, yy))
            else: del nm[hit]
        if not out and nm != nb:
            extra = [d for d in nm if d not in nb][:2]; missing = [d for d in nb if d not in nm][:2]
            out.append('outside the quoted regions the rendering differs from the blanked input: only with quotes %r, only blanked %r' % (extra, missing))
        return out
    def nontrivial(self, it):
        return bool(it.meta.get('quoted'))

PROP = C15()
