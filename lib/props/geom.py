"""geometry of parsed SVG elements for the oracles: coordinates as Fractions in user units"""
import math, re
from fractions import Fraction as F
import svgtree

def nums(s): return svgtree.numbers(s)

def translate_elem(e, dx, dy):
    """canonical dump of an element with (dx,dy) subtracted from every coordinate (not from lengths)"""
    attrs = []
    for a, v in e.attrs:
        try:
            if a in ('x', 'x1', 'x2', 'cx'): v = str(F(v) - dx)
            elif a in ('y', 'y1', 'y2', 'cy'): v = str(F(v) - dy)
            elif a == 'points':
                ns = nums(v); v = ' '.join('%s,%s' % (ns[i] - dx, ns[i + 1] - dy) for i in range(0, len(ns) - 1, 2))
            elif a == 'd':
                ns = nums(v)
                if len(ns) == 9: v = 'M %s,%s A %s,%s %s,%s,%s %s,%s' % (ns[0] - dx, ns[1] - dy, ns[2], ns[3], ns[4], ns[5], ns[6], ns[7] - dx, ns[8] - dy)
            elif a in ('width', 'height', 'r', 'rx'): v = str(F(v))
        except Exception:
            pass
        attrs.append((a, v))
    kids = tuple(k if isinstance(k, str) else translate_elem(k, dx, dy) for k in e.kids if not (isinstance(k, str) and not k.strip() and e.tag != 'text'))
    return (e.tag, tuple(attrs), kids)

QRE = re.compile(r'-?\d+(?:/\d+)?(?:\.\d+)?')
COORD_ATTRS = ('x', 'x1', 'x2', 'cx', 'y', 'y1', 'y2', 'cy', 'points', 'd', 'width', 'height', 'r', 'rx')

def near_elem(a, b, tol):
    """two canonical dumps (translate_elem) are the same element up to tol in every number of a geometric attribute;
    everything else (tags, attribute names and order, classes, text, number of numbers) exactly"""
    if a[0] != b[0] or len(a[1]) != len(b[1]) or len(a[2]) != len(b[2]): return False
    for (ka, va), (kb, vb) in zip(a[1], b[1]):
        if ka != kb: return False
        if va == vb: continue
        if ka not in COORD_ATTRS: return False
        if QRE.sub('#', va) != QRE.sub('#', vb): return False
        na, nb = nums_q(va), nums_q(vb)
        if len(na) != len(nb) or any(abs(x - y) > tol for x, y in zip(na, nb)): return False
    for x, y in zip(a[2], b[2]):
        if isinstance(x, str) or isinstance(y, str):
            if x != y: return False
        elif not near_elem(x, y, tol): return False
    return True

def nums_q(s):
    """numbers of a canonical dump: Fractions are printed as p/q"""
    return [F(m.group(0)) for m in QRE.finditer(s)]

def arc_bbox(x1, y1, r, large, sweep, x2, y2):
    """bounding box of a circular SVG arc (floats)"""
    x1, y1, x2, y2, r = map(float, (x1, y1, x2, y2, r))
    dx, dy = (x2 - x1) / 2, (y2 - y1) / 2
    d = math.hypot(dx, dy)
    if d == 0 or r <= 0: return min(x1, x2), min(y1, y2), max(x1, x2), max(y1, y2)
    if r < d: r = d
    h = math.sqrt(max(r * r - d * d, 0.0))
    mx, my = (x1 + x2) / 2, (y1 + y2) / 2
    # unit normal
    nx, ny = -dy / d, dx / d
    sign = 1 if (large != sweep) else -1
    cx, cy = mx + sign * h * nx, my + sign * h * ny
    a1 = math.atan2(y1 - cy, x1 - cx); a2 = math.atan2(y2 - cy, x2 - cx)
    def on_arc(a):
        # sweep=1: angle increases (clockwise on screen, y down)
        if sweep:
            t = (a - a1) % (2 * math.pi); tot = (a2 - a1) % (2 * math.pi)
        else:
            t = (a1 - a) % (2 * math.pi); tot = (a1 - a2) % (2 * math.pi)
        return t <= tot + 1e-9
    xs = [x1, x2]; ys = [y1, y2]
    for a, (px, py) in ((0, (cx + r, cy)), (math.pi / 2, (cx, cy + r)), (math.pi, (cx - r, cy)), (-math.pi / 2, (cx, cy - r))):
        if on_arc(a): xs.append(px); ys.append(py)
    return min(xs), min(ys), max(xs), max(ys)

def bbox(e, scale=F(8)):
    """(x0,y0,x1,y1) of an element in user units, or None"""
    t = e.tag
    try:
        if t == 'line':
            x1, y1, x2, y2 = (F(e.get(k)) for k in ('x1', 'y1', 'x2', 'y2'))
            return min(x1, x2), min(y1, y2), max(x1, x2), max(y1, y2)
        if t == 'rect':
            x, y, w, h = (F(e.get(k)) for k in ('x', 'y', 'width', 'height'))
            return x, y, x + w, y + h
        if t == 'circle':
            cx, cy, r = (F(e.get(k)) for k in ('cx', 'cy', 'r'))
            return cx - r, cy - r, cx + r, cy + r
        if t == 'polygon':
            ns = nums(e.get('points'))
            xs = ns[0::2]; ys = ns[1::2]
            return min(xs), min(ys), max(xs), max(ys)
        if t == 'path':
            ns = nums(e.get('d'))
            if len(ns) == 9:
                return arc_bbox(ns[0], ns[1], ns[2], int(ns[5]), int(ns[6]), ns[7], ns[8])
        if t == 'text':
            x, y = F(e.get('x')), F(e.get('y'))
            return x, y, x, y
    except Exception:
        return None
    return None
