"""C11: the scale setting multiplies every length and nothing else"""
from props.common import *

def num_list(tag, name, value):
    """numbers of an attribute value that are lengths (flags of path data excluded)"""
    ns = svgtree.numbers(value)
    if name == 'd' and len(ns) == 9: return [ns[0], ns[1], ns[2], ns[3], ns[7], ns[8]], [ns[4], ns[5], ns[6]]
    return ns, []

def dump(e):
    return (e.tag, e.attrs, [k if isinstance(k, str) else dump(k) for k in e.kids])

def compare(e1, e2, s1, s2, path, out):
    if e1.tag != e2.tag: out.append('%s: element <%s> at one scale, <%s> at the other' % (path, e1.tag, e2.tag)); return
    if e1.tag in ('defs', 'style'):
        if dump(e1) != dump(e2): out.append('%s <%s> differs between the two scales' % (path, e1.tag))
        return
    if [a for a, _ in e1.attrs] != [a for a, _ in e2.attrs]:
        out.append('%s <%s>: attribute names differ: %s vs %s' % (path, e1.tag, [a for a, _ in e1.attrs], [a for a, _ in e2.attrs])); return
    for (a, v1), (_, v2) in zip(e1.attrs, e2.attrs):
        if a in NUMERIC_ATTRS or a in ('points', 'd'):
            if e1.tag == 'rect' and e1.get('class') == 'backdrop' and a in ('x', 'y'): pass
            n1, f1 = num_list(e1.tag, a, v1); n2, f2 = num_list(e2.tag, a, v2)
            if len(n1) != len(n2) or f1 != f2: out.append('%s <%s> %s: %r vs %r' % (path, e1.tag, a, v1, v2)); continue
            for x, y in zip(n1, n2):
                if not close(x * s2, y * s1, absolute=F(1, 200) * max(s1, s2)):
                    out.append('%s <%s> %s: %s at scale %s but %s at scale %s' % (path, e1.tag, a, v1, s1, v2, s2)); break
        elif v1 != v2:
            out.append('%s <%s> %s: %r vs %r (not a length, must not change)' % (path, e1.tag, a, v1, v2))
    k1 = [k for k in e1.kids if not (isinstance(k, str) and not k.strip())]
    k2 = [k for k in e2.kids if not (isinstance(k, str) and not k.strip())]
    if len(k1) != len(k2): out.append('%s <%s>: %d children vs %d' % (path, e1.tag, len(k1), len(k2))); return
    for i, (c1, c2) in enumerate(zip(k1, k2)):
        if isinstance(c1, str) or isinstance(c2, str):
            if c1 != c2: out.append('%s <%s>: text differs' % (path, e1.tag))
        else: compare(c1, c2, s1, s2, '%s/%s[%d]' % (path, e1.tag, i), out)
        if len(out) > 3: return

class C11(Prop):
    id = 'C11'
    stages = ('S6',)
    needs = ('frags', 'svg')
    partial = ''
    level_text = ('Theorem C11_scale_multiplies_lengths_only: for every input, settings value and rational factor f the model document at scale f*s is '
                  'scale_node f of the document at scale s (every numeric attribute, path datum and polygon point multiplied by f; names, order, classes, text, style untouched); '
                  'C11_cell_is_8_by_16 for the absolute cell size. Proved for all inputs by structural lemmas over the emit stage; the emit stage of the model is compared with the implementation on every run.')
    level_note = 'trusted: Coq kernel, extraction, harness/driver glue, the emit-stage correspondence (sampling); numbers are exact rationals in the model and f32 in the code (compared to 1e-3)'
    rule = 'each item renders one input at two scales drawn from {0.5,1,3,8,10,20,37.5}, and once more at the second scale from a buffer that was already rendered at the default scale (public CellBuffer API); non-trivial when the document has at least one drawing element besides the backdrop'
    def make(self, gen, text, a, b, extra=''):
        f = lambda t: self.make(gen, t, a, b, extra)
        # 'rr': the same buffer rendered at the default scale first and then at scale b (public CellBuffer API): what was scaled once must not stick
        return Item(gen, {'a': Run(text, 'scale=%s%s' % (a, extra)), 'b': Run(text, 'scale=%s%s' % (b, extra)), 'rr': Run(text, 'scale=%s%s' % (b, extra), 'rerender')},
                    {'text': text, 'scales': [a, b]}, f)
    def items(self, rng, tier):
        out = []
        for g, t in texts(rng, tier, 400, 6000):
            a, b = rng.sample(SCALES, 2)
            extra = rng.choice(['', '', ';bd=0', ';st=0;df=0'])
            out.append(self.make(g, t, a, b, extra))
        # one label character at cell (i, j): at scale 8 the cell is 8 x 16
        for k in range(20 if tier == 'quick' else 200):
            i = rng.randint(0, 40); j = rng.randint(0, 20)
            it = Item('cellpos', {'a': Run('\n' * j + ' ' * i + 'a', 'scale=8'), 'b': Run('\n' * j + ' ' * i + 'a', 'scale=1')}, {'cell': [i, j], 'scales': ['8', '1']})
            out.append(it)
        return out
    def item_from_json(self, j): return item_from_json(None, j)
    def oracle(self, it):
        ra, ea = root_of(it.runs['a']); rb, eb = root_of(it.runs['b'])
        if ra is None or rb is None: return []   # C01/C02's business
        s1 = scale_of(it.runs['a'].spec); s2 = scale_of(it.runs['b'].spec)
        out = []
        compare(ra, rb, s1, s2, '', out)
        if 'rr' in it.runs and it.runs['rr'].impl.get('svg') != it.runs['b'].impl.get('svg'):
            out.append('a buffer already rendered at the default scale renders differently at scale %s than a fresh conversion does' % s2)
        if 'cell' in it.meta and not out:
            i, j = it.meta['cell']
            ts = [e for e in ra.walk() if e.tag == 'text']
            if len(ts) != 1 or not close(F(ts[0].get('x')), F(8 * i + 2)) or not close(F(ts[0].get('y')), F(16 * j + 12)):
                out.append('at scale 8 the label of cell (%d,%d) is not anchored at (%d,%d): %r' % (i, j, 8 * i + 2, 16 * j + 12, ts))
            if not close(F(ra.get('width')), F(8 * (i + 2))) or not close(F(ra.get('height')), F(16 * (j + 2))):
                out.append('at scale 8 a drawing ending in cell (%d,%d) is not %d x %d' % (i, j, 8 * (i + 2), 16 * (j + 2)))
        return out
    def nontrivial(self, it):
        r, _ = root_of(it.runs['a'])
        return r is not None and len([e for _, e in elements(r) if e.get('class') != 'backdrop']) >= 1

PROP = C11()
