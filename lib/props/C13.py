"""C13: every catalogued circle drawing becomes exactly one matching circle"""
from props.common import *

def art_cells(rows):
    return [(x, y, ch) for y, r in enumerate(rows) for x, ch in enumerate(r) if ch != ' ']

class C13(Prop):
    id = 'C13'
    stages = ('S1', 'S25', 'S6')
    rule = 'all 22 catalogue drawings (rebuilt from the dumped table) x offsets x optional separated unrelated content; non-trivial always (each item contains a catalogue drawing); distinct by drawing, offset and context'
    level_text = ('Theorem C13_catalogue_at_origin: for each of the 22 catalogue drawings (regenerated from the implementation tables on every run) placed at the origin the model accepts exactly one unfilled circle and rejects nothing; radius (n-1)/2 or n/2 cells, extent equal to the drawing, every cell within 60 ticks of the circle; by vm_compute over the finite catalogue (bound stated). '
                  'C13_catalogue_anywhere: at EVERY integer offset still exactly that circle, translated (by the translation theorem of C06); C13_next_to_unrelated_content: next to any content of which no cell is adjacent to a cell of the drawing, the fragments accepted from the cells of the drawing are exactly that one circle and no contact group comes from them (by the restriction theorem of C10).')
    level_note = 'finite sweep at the origin is a proof with the bound in the statement, lifted to all offsets and all separated contexts by theorems; content touching the drawing is covered by the correspondence (sampling)'
    def make(self, idx, rows, k, n, ctx, ctxpos):
        allrows = gens.overlay([], rows, k, n)
        if ctx:
            w = max(len(r) for r in rows)
            if ctxpos == 'right': allrows = gens.overlay(allrows, ctx, k + w + 2, n)
            elif ctxpos == 'left':
                # unrelated text (possibly double width) on one row of the drawing, to its left, two or more blank columns away
                j = min(1, len(rows) - 1); pre = ctx[0]
                if k - row_cols(pre) >= 2: allrows[n + j] = pre + ' ' * (k - row_cols(pre)) + rows[j]
            else: allrows = gens.overlay(allrows, ctx, k, n + len(rows) + 1)
        text = '\n'.join(allrows)
        return Item('circle%d' % idx, {'main': Run(text, '', 'settings')},
                    {'text': text, 'drawing': idx, 'offset': [k, n], 'rows': rows, 'context': ctx, 'ctxpos': ctxpos})
    def items(self, rng, tier):
        arts = gens.circles_art()
        out = []
        per = 8 if tier == 'quick' else 150
        ctxs = [None, None, ['ab'], ['+--+', '|  |', '+--+'], ['--->'], ['x', 'y']]
        for i, rows in enumerate(arts):
            out.append(self.make(i, rows, 0, 0, None, None))
            for _ in range(per):
                out.append(self.make(i, rows, rng.randint(0, 60), rng.randint(0, 40), rng.choice(ctxs), rng.choice(['right', 'below'])))
            for ctx in (['中'], ['漢字 x'], ['ab']):
                out.append(self.make(i, rows, rng.randint(8, 30), rng.randint(0, 5), ctx, 'left'))
        return out
    def item_from_json(self, j): return item_from_json(None, j)
    def oracle(self, it):
        root, _ = root_of(it.runs['main'])
        if root is None: return []
        rows = it.meta['rows']; k, n = it.meta['offset']
        cells = art_cells(rows)
        w = max(c[0] for c in cells) + 1
        els = [e for _, e in elements(root) if e.get('class') != 'backdrop']
        circles = [e for e in els if e.tag == 'circle']
        out = []
        if len(circles) != 1:
            return ['drawing %d at offset (%d,%d): %d circle elements instead of one' % (it.meta['drawing'], k, n, len(circles))]
        if not it.meta.get('context') and len(els) != 1:
            out.append('drawing %d at offset (%d,%d): %d elements besides the circle: %s' % (it.meta['drawing'], k, n, len(els) - 1, [e.tag for e in els if e.tag != 'circle'][:4]))
        c = circles[0]
        cx = F(c.get('cx')) * 5 - k * 40; cy = F(c.get('cy')) * 5 - n * 80; r = F(c.get('r')) * 5     # ticks, relative to the drawing
        slash = any(x == 0 and ch in '/\\' for x, y, ch in cells)
        if not (2 * r == (w - 1) * 40 or (slash and 2 * r == w * 40)): out.append('radius %s ticks for a drawing %d cells wide' % (r, w))
        if (cx - r) + (cx + r) != w * 40 or (cx - r) not in (20, 0): out.append('horizontal extent %s..%s ticks for a drawing %d cells wide' % (cx - r, cx + r, w))
        for x, y, ch in cells:
            x0 = x * 40; y0 = y * 80
            dx = max(x0 - cx, 0, cx - (x0 + 40)); dy = max(y0 - cy, 0, cy - (y0 + 80))
            fx = max(abs(cx - x0), abs(cx - x0 - 40)); fy = max(abs(cy - y0), abs(cy - y0 - 80))
            if dx * dx + dy * dy > (r + 60) ** 2 or (r > 60 and fx * fx + fy * fy < (r - 60) ** 2):
                out.append('character %r of the drawing at cell (%d,%d) is farther than 60 ticks from the circle' % (ch, x, y)); break
        if 'filled' in (c.get('class') or '').split(): out.append('the circle is filled')
        return out
    def nontrivial(self, it): return True

PROP = C13()
