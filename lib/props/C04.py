"""C04: every non-drawing character appears exactly once, as text, in its own cell"""
from props.common import *

def grid_cells(text):
    """((col,row) -> char for every non-blank character outside quotes, (col,row) of an opening quote -> quoted body);
    columns counted as the grid does.  None when a row has an unbalanced quote or a backslash (not generated here)."""
    out = {}; quoted = {}
    for y, row in enumerate(text.split('\n')):
        if row.count('"') % 2 or ('"' in row and '\\' in row): return None, None
        x = 0; inq = None
        for ch in row:
            if ch == '"':
                if inq is None: inq = [x, '']
                else: quoted[(inq[0], y)] = inq[1]; inq = None
            elif inq is not None: inq[1] += ch
            elif not ch.isspace() and ch != '\x00': out[(x, y)] = ch
            x += char_cols(ch)
    return out, quoted

class C04(Prop):
    id = 'C04'
    stages = ('S1', 'S25', 'S6')
    rule = 'rows mixing label characters (ASCII, 2-byte Latin/Cyrillic, double-width CJK, combining marks) with spaces and drawing characters, a connecting row beneath; exhaustive spacing patterns for short rows over a small alphabet, random grids otherwise (tag- and legend-free), and rows with quoted segments (wide characters inside) followed by labels; non-trivial when the input has a character without table entry'
    level_text = ('Theorems C04_merge_keeps_every_character_in_its_cell (a merged text occupies exactly the cells of its two parts, double-width included), C04_span_merge_keeps_text (through the whole merge loop the (cell, character) pairs shown as text are a permutation of those that entered: nothing dropped, duplicated, reordered or shifted; by the additive form of M2), C04_label_enters_in_its_cell, '
                  'C04_text_is_anchored_inside_its_first_cell (for every text fragment and every scale the text element is anchored strictly inside the cell of its first character), C04_short_inputs_shown_exactly_once (from the input text through the whole recognition: for EVERY input of the stated short shapes over {blank, a, b, a double-width CJK character, -} the (cell, character) pairs of all text fragments that come out are exactly the label characters of the input at their display columns, each once; sweep inside Coq). '
                  'Longer inputs and the enclosure pass (which only moves fragments) are decided by correspondence and oracle.')
    level_note = 'partial: for inputs beyond the swept shapes the step from merged fragments to emitted text elements (grouping, endorsement, enclosure) relies on correspondence plus oracle'
    def make(self, gen, text, sc='8'):
        return Item(gen, {'main': Run(text, '' if sc == '8' else 'scale=%s' % sc, 'settings')}, {'text': text, 'scale': sc}, lambda t: self.make(gen, t, sc))
    def items(self, rng, tier):
        import itertools
        out = []
        small = ['a', ' ', 'é', '一', '-', '́']
        for n in range(1, 5 if tier == 'quick' else 7):
            for cells in itertools.product(small, repeat=n):
                row = ''.join(cells)
                if not row.strip(): continue
                if tier == 'quick' and n == 4 and rng.random() < 0.6: continue
                out.append(self.make('exh', row + '\n' + rng.choice(['x', '-', '_']) * (text_cols(row) + 1)))
        alpha = gens.LABELS + gens.LATIN2 + gens.CJK + gens.COMBINING[:2] + [' ', ' ', ' '] + list('-|+/\\*.\'_')
        for _ in range(1200 if tier == 'quick' else 30000):
            w = rng.randint(1, 12); h = rng.randint(1, 5)
            rows = [''.join(rng.choice(alpha) for _ in range(w)) for _ in range(h)]
            out.append(self.make('grid', '\n'.join(rows)))
        # labels on a row that also has quoted segments: the quoted text sits at its opening quote, everything else stays in its cell
        for _ in range(150 if tier == 'quick' else 3000):
            pieces = []
            for _k in range(rng.randint(1, 3)):
                pieces.append(''.join(rng.choice(gens.LABELS + gens.CJK[:4] + [' ', ' ']) for _ in range(rng.randint(0, 4))))
                pieces.append('"' + ''.join(rng.choice(gens.LABELS + gens.CJK + gens.LATIN2 + [' ', '-', '|']) for _ in range(rng.randint(0, 4))) + '"')
            pieces.append(''.join(rng.choice(gens.LABELS + gens.CJK[:4] + [' ']) for _ in range(rng.randint(1, 5))))
            row = ''.join(pieces)
            out.append(self.make('quoted-row', row + '\n' + '-' * (row_cols(row) + 1)))
        # the anchor stays inside the first character's cell at every scale (binary fractions, so that every coordinate prints exactly)
        for _ in range(200 if tier == 'quick' else 4000):
            w = rng.randint(1, 10); h = rng.randint(1, 4)
            rows = [''.join(rng.choice(gens.LABELS + gens.CJK[:3] + [' ', ' ', '-', '|']) for _ in range(w)) for _ in range(h)]
            out.append(self.make('grid-scaled', '\n'.join(rows), rng.choice(['4', '2', '1', '3/4', '1/2', '1/4'])))
        for g, t in texts(rng, tier, 300, 5000):
            t = ''.join(c for c in t if c not in '{}"\r' and not (ord(c) < 32 and c != '\n') and c not in '\x7f\x85' and not (0x80 <= ord(c) < 0xa0) and c not in '￾￿')
            if '# Legend:' in t: continue
            out.append(self.make(g, t))
        # a label inside the bounding boxes of two separate shapes (a long down-right diagonal's box covers everything beside it):
        # it is still shown once
        for n in ((5, 9, 13) if tier == 'quick' else range(4, 20)):
            for gap in (2, 3):
                rows = [' ' * i + '\\' + ' ' * gap + '\\' for i in range(n)]
                for lab in ('a', '一b', 'cd'):
                    r = list(rows); k = rng.randint(1, n - 2)
                    r[k] = ' ' * k + '\\' + (' ' + lab).ljust(gap)[:gap] + '\\' if len(lab) < gap else r[k] + ' ' + lab
                    out.append(self.make('between-diagonals', '\n'.join(r)))
            rows = [' ' * i + '\\' for i in range(n)]
            box = ['+----+', '| ab |', '+----+']
            for j, b in enumerate(box):
                if 1 + j < n: rows[1 + j] = rows[1 + j].ljust(n + 2) + b
            out.append(self.make('box-beside-diagonal', '\n'.join(rows)))
        return out
    def item_from_json(self, j): return item_from_json(None, j)
    def oracle(self, it):
        root, _ = root_of(it.runs['main'])
        if root is None: return []
        cells, quoted = grid_cells(it.meta['text'])
        if cells is None: return []
        a, u = gens.keys(); table = set(a) | set(u)
        covered = {}; out = []; seen_q = set()
        for e in root.walk():
            if e.tag != 'text': continue
            p = e.parent; indefs = False
            while p is not None:
                if p.tag == 'defs': indefs = True
                p = p.parent
            if indefs: continue
            sc = F(it.meta.get('scale', '8'))
            try: col = (F(e.get('x')) * 8 / sc - 2) / 8; row = (F(e.get('y')) * 8 / sc - 12) / 16
            except Exception: out.append('text without position'); continue
            if col.denominator != 1 or row.denominator != 1:
                out.append('text %r is not anchored at the q point of a cell: (%s,%s)' % (e.text(), e.get('x'), e.get('y'))); continue
            x = int(col); y = int(row)
            if (x, y) in quoted:
                if e.text() != quoted[(x, y)]: out.append('the quoted text at cell (%d,%d) is %r but its element says %r' % (x, y, quoted[(x, y)], e.text()))
                seen_q.add((x, y)); continue
            for ch in e.text():
                if cells.get((x, y)) != ch:
                    out.append('text %r anchored in cell (%d,%d): its character %r lies over input cell (%d,%d) which holds %r' % (e.text(), int(col), y, ch, x, y, cells.get((x, y)))); break
                if (x, y) in covered: out.append('input cell (%d,%d) is shown by two text elements' % (x, y)); break
                covered[(x, y)] = ch
                x += char_cols(ch)
            if len(out) > 3: return out
        for (x, y), body in quoted.items():
            if body.strip() and (x, y) not in seen_q: out.append('the quoted text %r at cell (%d,%d) is shown by no text element there' % (body, x, y))
        for (x, y), ch in cells.items():
            if ch not in table and (x, y) not in covered:
                out.append('character %r at cell (%d,%d) has no drawing meaning but is shown by no text element' % (ch, x, y))
                if len(out) > 3: break
        return out
    def nontrivial(self, it):
        a, u = gens.keys(); table = set(a) | set(u)
        return any((not c.isspace()) and c not in table for c in it.meta.get('text', ''))

PROP = C04()
