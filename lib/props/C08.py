"""C08: input can never inject markup"""
import re
from props.common import *
from props.C02 import channels

FIXED_ELEMS = {'svg', 'style', 'defs', 'marker', 'polygon', 'circle', 'rect', 'line', 'path', 'text', 'g'}
FIXED_ATTRS = {'xmlns', 'width', 'height', 'class', 'id', 'viewBox', 'refX', 'refY', 'markerWidth', 'markerHeight', 'orient', 'points', 'cx', 'cy', 'r',
               'x', 'y', 'x1', 'y1', 'x2', 'y2', 'd', 'rx'}
def payloads(k):
    m = 'zq%d' % k
    return [
        '<%s>alert(1)</%s>' % (m, m), '</style><%s>' % m, '</text><%s/>' % m, '<a %s="u">' % m, '" %s="1' % m, "' %s='1" % m, ' on%s=alert(1) ' % m,
        ']]><%s>' % m, '<!-- %s -->' % m, '<?%s x?>' % m, '&%s;' % m, '<![CDATA[<%s>]]>' % m, '</svg><%s>' % m, '&#60;%s&#62;' % m, '&lt;%s&gt;' % m,
        '\x01<%s>' % m, 'a><%s b="' % m, '%s' % m, '{%s}' % m, '%s,x" onload="1' % m,
    ]

class C08(Prop):
    id = 'C08'
    stages = ('S1', 'S6')
    needs = ('cells', 'frags', 'svg')
    rule = 'markup payloads with unique marker names (script/style/text/svg breakers, attribute breakers, comments, processing instructions, CDATA, entities, numeric references) in all channels (plain, boxed, quoted, legend name, legend declaration, tag) and in the settings strings, combined with diagrams, pretty and compressed; non-trivial when the payload reaches the document'
    level_text = ('Theorems C08_structure_is_fixed (for every input and settings value every element name and attribute name of the document the model builds belongs to the fixed vocabulary; input characters occur only as character data of text/style elements and as class tokens), '
                  'C08_class_tokens_are_identifiers (every class token taken from the input satisfies the identifier predicate, which excludes space, quotes, <, >, & for every scalar value), with C02_render_is_xml (the rendered string is a serialisation of exactly that tree).')
    level_note = 'the parse is the tree: there is no second reading of the rendered string under the XML grammar of Theory/Xml.v; expat re-parses every implementation output in this check'
    def make(self, gen, text, spec, entry, marker):
        return Item(gen, {'main': Run(text, spec, entry)}, {'text': text, 'marker': marker}, lambda t: self.make(gen, t, spec, entry, marker))
    def items(self, rng, tier):
        out = []
        k = 0
        reps = 1 if tier == 'quick' else 6
        for _ in range(reps):
            for i in range(20):
                k += 1
                p = payloads(k)[i]; marker = 'zq%d' % k
                if rng.random() < 0.6: p = rng.choice(['Съешь ещё этих мягких ', 'ÀÉÎÕÜàéîõü', '一二文字', 'é', 'жпд ', '\U0001F600 ']) + p   # multi-byte text in front of the markup
                for ch, t in channels(rng, p):
                    pre = rng.choice(['', '+--+\n|  |\n+--+\n', '.-.\n| |\n\'-\'\n', '--> '])
                    entry = rng.choice(['settings', 'compressed'])
                    out.append(self.make('payload:' + ch, pre + t if ch.startswith('plain') or ch == 'quoted' else t, '', entry, marker))
                dots = '.'.join(str(ord(c)) for c in p)
                for key in ('ff', 'fill', 'bg', 'sc'):
                    out.append(self.make('payload:setting', '+--+ ab', '%s=%s' % (key, dots), 'settings', marker))
        return out
    def item_from_json(self, j): return item_from_json(None, j)
    def oracle(self, it):
        s = it.runs['main'].svg()
        if s is None: return []
        root, err = svgtree.parse_xml(s)
        if root is None: return ['the output is not well-formed XML: %s' % err]
        m = it.meta['marker']; out = []
        for e in root.walk():
            if e.tag not in FIXED_ELEMS: out.append('element <%s> is not one svgbob emits' % e.tag)
            if m in e.tag: out.append('the marker occurs in an element name: <%s>' % e.tag)
            for a, v in e.attrs:
                if a not in FIXED_ATTRS: out.append('attribute %r on <%s> is not one svgbob emits' % (a, e.tag))
                if m in a: out.append('the marker occurs in an attribute name: %r' % a)
                if m in v:
                    if a != 'class' or m not in v.split():
                        out.append('the marker occurs inside the value of %s="%s" other than as a whole class token' % (a, v[:80]))
            if e.tag not in ('text', 'style'):
                for k in e.kids:
                    if isinstance(k, str) and m in k: out.append('the marker occurs in character data of <%s>' % e.tag)
            if len(out) > 3: break
        return out
    def nontrivial(self, it):
        s = it.runs['main'].svg()
        return s is not None and it.meta['marker'] in s

PROP = C08()
