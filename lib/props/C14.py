"""C14: arrowheads, bullets and rounded corners sit and point where the text says"""
import math
from props.common import *
from props import geom

ARROWS = [  # (line char, direction name, (dx,dy) in cells of travel, glyphs)
    ('-', 'r', (1, 0), '>▶►▸'), ('-', 'l', (-1, 0), '<◀◄◂'), ('|', 'u', (0, -1), '^▲▴'), ('|', 'd', (0, 1), 'vV▼▾'),
    ('\\', 'dr', (1, 1), 'vV'), ('/', 'dl', (-1, 1), 'vV'), ('/', 'ur', (1, -1), '^'), ('\\', 'ul', (-1, -1), '^'),
]
MARK = {'*': 'circle', 'o': 'open_circle', 'O': 'big_open_circle'}

def line_path(n, d):
    """cells (col,row) of a run of n cells travelling by d from (0,0)"""
    return [(i * d[0], i * d[1]) for i in range(n)]

def render(cells):
    """cells: dict (col,row)->char, normalised to non-negative coordinates"""
    mx = min(c for c, r in cells); my = min(r for c, r in cells)
    w = max(c for c, r in cells) - mx + 1; h = max(r for c, r in cells) - my + 1
    rows = [[' '] * w for _ in range(h)]
    for (c, r), ch in cells.items(): rows[r - my][c - mx] = ch
    return [''.join(r).rstrip() for r in rows], (-mx, -my)

def cross(v, w): return v[0] * w[1] - v[1] * w[0]

class C14(Prop):
    id = 'C14'
    stages = ('S1', 'S25', 'S6')
    rule = 'lines of length 1..40 (quick: 1..8 and a sample) in 8 directions x arrow glyph variants x offsets; bullets * o O at an end or mid-line in 4 directions; rounded outlines 1..30 x 1..15 (quick: a sample) with a stub attached, four corner styles; non-trivial always'
    level_text = ('Theorems C14_arrowheads_point_along_their_line (sweep over every table entry that fires on an arriving line and every triangle glyph: unique tip on the axis, strictly beyond the arriving segment, base strictly on both sides), C14_bullets_are_centred, C14_bullet_marks_the_line_end_at_its_centre (for every line and circle), C14_rounded_corners_join_their_lines / C14_condition_puts_a_line_there (every quarter arc of the tables has its centre at radius distance from both ends and is continued at each end by a tangent line), '
                  'and through the whole recognition of the model, by sweeps inside Coq on the regenerated tables: C14_arrow_at_the_end_of_a_run (15 line/arrowhead combinations in 8 directions x lengths 1..40: exactly one solid line from the start of the run and one filled arrow polygon, tip unique, on the axis, strictly beyond the line end, inside the arrowhead cell, base on both sides) with C14_arrow_anywhere_in_context (any offset, any separated context), C14_bullet_at_the_end_of_a_run (8 directions x * o O x 1..40: a marked line ending at the centre of the bullet cell with the right marker, no text), C14_bullet_in_the_middle_of_a_run (L1 + bullet + L2 cells, 1..8 each, three directions), C14_rounded_outline_is_continuous (rounded outlines with a stub, 1..12 x 1..6: one group of four quarter arcs and five lines, centres strictly inside, a tangent line ending at each arc end). '
                  'Larger outlines, box-drawing corners in whole drawings and marks in mid-line are decided by correspondence and oracle.')
    level_note = 'partial: whole-drawing statements beyond the swept ranges by correspondence plus oracle; observation O1 (a bullet before its run in reading order is a marked stub next to the unmarked run) is reported, not failed'
    def make(self, gen, rows, x, y, meta):
        text = gens.place(rows, x, y)
        sc = meta.get('scale', '8')
        return Item(gen, {'main': Run(text, '' if sc == '8' else 'scale=%s' % sc, 'settings')}, dict(meta, text=text, off=[x, y]))
    def items(self, rng, tier):
        out = []
        lens = list(range(1, 9)) + [12, 25, 40] if tier == 'quick' else list(range(1, 41))
        for ch, name, d, glyphs in ARROWS:
            for g in glyphs:
                for n in lens:
                    cells = {p: ch for p in line_path(n, d)}
                    tipcell = (n * d[0], n * d[1]); cells[tipcell] = g
                    rows, (ox, oy) = render(cells)
                    x = rng.choice([0, 1, 4]); y = rng.choice([0, 1, 3])
                    out.append(self.make('arrow', rows, x, y, {'kind': 'arrow', 'dir': list(d), 'tip_cell': [tipcell[0] + ox + x, tipcell[1] + oy + y], 'glyph': g, 'n': n,
                                                               'scale': rng.choice(['8', '8', '10', '5', '4', '1'])}))
        for b in '*oO':
            for ch, d in (('-', (1, 0)), ('|', (0, 1)), ('\\', (1, 1)), ('/', (-1, 1))):
                for n in (1, 2, 5):
                    for pos in ('start', 'end', 'mid'):
                        if pos == 'start': cells = {(0, 0): b}; cells.update({((i + 1) * d[0], (i + 1) * d[1]): ch for i in range(n)}); bc = (0, 0)
                        elif pos == 'end': cells = {(i * d[0], i * d[1]): ch for i in range(n)}; bc = (n * d[0], n * d[1]); cells[bc] = b
                        else: cells = {(i * d[0], i * d[1]): ch for i in range(2 * n + 1)}; bc = (n * d[0], n * d[1]); cells[bc] = b
                        rows, (ox, oy) = render(cells)
                        x = rng.choice([0, 2]); y = rng.choice([0, 1])
                        out.append(self.make('bullet', rows, x, y, {'kind': 'bullet', 'bullet': b, 'cell': [bc[0] + ox + x, bc[1] + oy + y], 'scale': rng.choice(['8', '8', '10', '5'])}))
        # an arrow that has turned a corner and points at something that does not belong to it (a wall, a label, another line):
        # still one filled polygon, and the arrowhead is not shown as text
        for n in ((1, 3, 6) if tier == 'quick' else range(1, 12)):
            for corner in "'+`":
                fams = [['|' + ' ' * (n + 1) + '|', corner + '-' * n + '>|'], ['|' + ' ' * n, corner + '-' * n + '>' + 'a'], ['|', corner + '-' * n + '>', ' ' * (n + 1) + '|'],
                        [' ' * (n + 2) + '|', '|<' + '-' * n + ("'" if corner == '`' else corner)], ['|' + ' ' * n + ' |', corner + '-' * n + '>|', '   |']]
                for rows in fams:
                    out.append(self.make('arrow-after-corner', rows, rng.choice([0, 2]), rng.choice([0, 1]), {'kind': 'turned', 'glyph': '>' if '>' in rows[1] else '<'}))
        sizes = [(w, h) for w in range(1, 31) for h in range(1, 16)]
        if tier == 'quick': sizes = [(w, h) for w in (1, 2, 5) for h in (1, 2, 4)] + [(rng.randint(1, 30), rng.randint(1, 15)) for _ in range(25)]
        for w, h in sizes:
            for corners in ("..''", ",.`'", '╭╮╰╯'):
                hz = '─' if corners[0] == '╭' else '-'; vt = '│' if corners[0] == '╭' else '|'
                rows = gens.box(w, h, corners, hz, vt)
                rows[1] = (rows[1][:-1] + '├' if corners[0] == '╭' else rows[1]) + hz * 2          # a stub on a side so that the outline is not endorsed as a rect
                out.append(self.make('corner', rows, rng.choice([0, 2]), rng.choice([0, 1]), {'kind': 'corner', 'size': [w, h]}))
        return out
    def item_from_json(self, j): return item_from_json(None, j)
    def oracle(self, it):
        root, _ = root_of(it.runs['main'])
        if root is None: return []
        els = [e for _, e in elements(root) if e.get('class') != 'backdrop']
        kind = it.meta.get('kind'); out = []
        def lines():
            r = []
            for e in els:
                if e.tag == 'line':
                    r.append(((F(e.get('x1')), F(e.get('y1'))), (F(e.get('x2')), F(e.get('y2'))), (e.get('class') or '').split()))
            return r
        if kind == 'arrow':
            polys = [e for e in els if e.tag == 'polygon' and 'filled' in (e.get('class') or '').split()]
            if len(polys) != 1: return ['%d filled polygons for a %s arrow %r at the end of a line of %d cells' % (len(polys), it.meta['dir'], it.meta['glyph'], it.meta['n'])]
            ns = geom.nums(polys[0].get('points')); pts = list(zip(ns[0::2], ns[1::2]))
            d = it.meta['dir']; v = (F(d[0] * 8), F(d[1] * 16))
            tip = max(pts, key=lambda p: p[0] * v[0] + p[1] * v[1])
            base = [p for p in pts if p != tip]
            ok = False
            for a, b, cls in lines():
                if cross((b[0] - a[0], b[1] - a[1]), (tip[0] - a[0], tip[1] - a[1])) != 0: continue
                if cross(v, (b[0] - a[0], b[1] - a[1])) != 0: continue
                ahead = all((tip[0] - q[0]) * v[0] + (tip[1] - q[1]) * v[1] > 0 for q in (a, b))
                sides = [cross(v, (p[0] - tip[0], p[1] - tip[1])) for p in base]
                if ahead and any(s > 0 for s in sides) and any(s < 0 for s in sides): ok = True
            if not ok: out.append('arrow %r direction %s: no line whose axis carries the tip %s beyond its end with the base %s on both sides; lines %s' % (it.meta['glyph'], d, tip, base, [(a, b) for a, b, _ in lines()]))
            if any(e.tag == 'text' for e in els): out.append('the arrowhead character is also shown as text')
        elif kind == 'turned':
            polys = [e for e in root.walk() if e.tag == 'polygon' and 'filled' in (e.get('class') or '').split()]
            if len(polys) != 1: out.append('%d filled polygons for one arrowhead %r at the end of a line that has turned a corner' % (len(polys), it.meta['glyph']))
            if any(e.tag == 'text' and it.meta['glyph'] in e.text() for e in root.walk()): out.append('the arrowhead %r is shown as text' % it.meta['glyph'])
        elif kind == 'bullet':
            b = it.meta['bullet']; c, r = it.meta['cell']
            sc = F(it.meta.get('scale', '8'))
            centre = (sc * c + sc / 2, 2 * sc * r + sc)
            if any(e.tag == 'text' and b in e.text() for e in els): out.append('the bullet %r is shown as text' % b)
            hit = False; degenerate = 0
            for a, bb, cls in lines():
                for k in cls:
                    if k == 'end_marked_' + MARK[b] and bb == centre: hit = True
                    if k == 'start_marked_' + MARK[b] and a == centre: hit = True
                if a == bb: degenerate += 1
            if not hit: out.append('bullet %r in cell (%d,%d): no line carries the %s marker with its marked end at the cell centre %s; lines %s' % (b, c, r, MARK[b], centre, [(a, bb, [k for k in cls if 'marked' in k]) for a, bb, cls in lines()]))
        elif kind == 'corner':
            ends = set()
            for a, b, cls in lines(): ends.add(a); ends.add(b)
            paths = [e for e in els if e.tag == 'path']
            if len(paths) != 4: out.append('%d arcs for an outline with four rounded corners' % len(paths))
            xs = [p[0] for p in ends]; ys = [p[1] for p in ends]
            for e in paths:
                ns = geom.nums(e.get('d'))
                if len(ns) != 9: out.append('arc path not understood: %r' % e.get('d')); continue
                s = (ns[0], ns[1]); t = (ns[7], ns[8]); r = float(ns[2]); large = int(ns[5]); sweep = int(ns[6])
                for p in (s, t):
                    if p not in ends: out.append('arc end %s does not coincide with the end of an adjoining line' % (p,))
                dx, dy = float(t[0] - s[0]) / 2, float(t[1] - s[1]) / 2; dd = math.hypot(dx, dy)
                if dd == 0 or r < dd - 1e-6: out.append('arc radius %s too small for its chord' % r); continue
                hgt = math.sqrt(max(r * r - dd * dd, 0)); mxp, myp = float(s[0] + t[0]) / 2, float(s[1] + t[1]) / 2
                sign = 1 if (large != sweep) else -1
                cx, cy = mxp + sign * hgt * (-dy / dd), myp + sign * hgt * (dx / dd)
                if xs and not (float(min(xs)) + 1e-6 < cx < float(max(xs)) - 1e-6 and float(min(ys)) + 1e-6 < cy < float(max(ys)) - 1e-6):
                    out.append('arc %s -> %s: centre (%.2f,%.2f) is not strictly inside the outline' % (s, t, cx, cy))
        return out
    def nontrivial(self, it): return True

PROP = C14()
