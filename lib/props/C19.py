"""C19: the CLI writes what the library computes and reports success truthfully"""
import os, subprocess, shutil, tempfile, stat
from props.common import *
import proto, framework

CLI = os.path.join(framework.VERIF, 'build', 'cargo-ws', 'debug', 'svgbob_cli')
USIZE = {'14': 14, '20': 20, '0': 0, '7': 7, '100': 100}
BAD_USIZE = ['1x', '1.5', 'x', '', ' 3']
F32 = {'2': '2/1', '1.5': '3/2', '0.5': '1/2', '10': '10/1', '3': '3/1', '1e1': '10/1', '.5': '1/2', '+2': '2/1', '1': '1/1', '0.25': '1/4'}
BAD_F32 = ['abc', '', '1,5', '2..', '0x10', '1 ']
STRS = ['red', '#fff', 'rgb(1,2,3)', 'a<b', 'x&y', 'Arial, sans', 'é一', '']

def dots(s): return '.'.join(str(ord(c)) for c in s)
def parse_outcome(s):
    """'EXIT c DIAG d OUT <svg> WRITES p = c ;; ...' -> dict"""
    import re
    m = re.match(r'EXIT (-?\d+) DIAG (\d) OUT (.*?) WRITES (.*)$', s, re.S)
    if not m: return None
    ws = {}
    for part in [p for p in m.group(4).split(' ;; ') if p.strip()]:
        p, _, c = part.partition(' = ')
        ws[''.join(chr(int(t)) for t in p.split('.') if t)] = c
    return {'code': int(m.group(1)), 'diag': m.group(2) == '1', 'out': m.group(3), 'writes': ws}

class C19(Prop):
    id = 'C19'
    stages = ()
    needs = ()
    bins = True
    partial = 'partial: clap argument syntax, the operating system file system (a write that fails half-way) and process exit are runtime; the theorems cover the decision logic, the harness runs the built binary'
    rule = 'subsets of the nine options with values from a lexicon of valid and invalid numbers and arbitrary strings x inputs from the generators x {file, stdin, inline with \\n escapes}; build over random directories; error cases (missing file, unparsable number, unwritable output, non UTF-8 file); non-trivial always'
    level_text = ('Theorems C19_success_is_truthful, C19_failure_leaves_nothing, C19_success_iff, C19_build_writes_one_document_per_file, C19_build_status about the model run/build of Model/Cli.v, for every option set and environment; '
                  'the built svgbob_cli binary is compared with the extracted model on every run (exit status, stdout, stderr emptiness, files written).')
    level_note = 'partial: clap, the OS and process exit are runtime; numeric option strings come from a lexicon whose parse results are part of the case'
    def items(self, rng, tier): return []
    def oracle(self, it): return []
    def extra(self, ctx):
        rng = ctx['rng']; tier = ctx['tier']
        n = 150 if tier == 'quick' else 1500
        inputs = [t for _, t in gens.mixed(rng, 60)] + ['+--+\n|  |\n+--+', 'a -> b', '', '"q" {t}\n# Legend:\nt = {fill:red}']
        # a backslash followed by the letter n is two characters of the drawing, except in the inline argument
        # a legend with several classes: the rules must come out in the order of the text in every process
        inputs += ['+--+\n|{a}|\n+--+\n# Legend:\na = {fill:red}\nb = {stroke:blue}\nc3 = {fill:none}\nd = {x:y}\ne = {z:w}\nf_ = {q:r}'] * 4
        inputs += ['ab\\ncd', '+--+\\n|  |', '--\\nope\n  \\name', 'x \\\\n y'] * 3
        inputs = [t.replace('\r', '').replace('\x00', '') for t in inputs]
        work = os.path.join(framework.WORK, 'C19'); shutil.rmtree(work, ignore_errors=True); os.makedirs(work)
        cases = []; real = {}; failures = []
        for i in range(n):
            d = os.path.join(work, 'c%d' % i); os.makedirs(d)
            text = rng.choice(inputs)
            mode = rng.choice(['file', 'stdin', 'inline', 'missing', 'notutf8'])
            args = []; spec = []
            def opt(flag, key, val):
                args.extend([flag, val]); spec.append('%s=%s' % (key, dots(val)))
            if rng.random() < 0.4: opt('--background', 'bg', rng.choice(STRS))
            if rng.random() < 0.4: opt('--fill-color', 'fill', rng.choice(STRS))
            if rng.random() < 0.4: opt('--font-family', 'ff', rng.choice(STRS))
            if rng.random() < 0.4: opt('--stroke-color', 'scol', rng.choice(STRS))
            if rng.random() < 0.4:
                v = rng.choice(list(USIZE) + BAD_USIZE[:2]) if rng.random() < 0.8 else rng.choice(BAD_USIZE); opt('--font-size', 'fs', v)
                if v in USIZE: spec.append('usize:%s=%d' % (dots(v), USIZE[v]))
            for flag, key in (('--stroke-width', 'sw'), ('--scale', 'scale')):
                if rng.random() < 0.4:
                    v = rng.choice(list(F32)) if rng.random() < 0.8 else rng.choice(BAD_F32); opt(flag, key, v)
                    if v in F32: spec.append('f32:%s=%s' % (dots(v), F32[v]))
            stdin_data = None
            if mode == 'inline':
                t = text.replace('\n', '\\n')
                if not t or t.startswith('-'): t = 'x' + t
                args = ['-s', t] + args; spec += ['inline=1', 'input=' + dots(t)]
            elif mode == 'stdin':
                stdin_data = text.encode('utf-8', 'surrogatepass'); spec.append('stdin=T' + dots(text))
            else:
                f = os.path.join(d, 'in.bob')
                if mode == 'file': open(f, 'w', encoding='utf-8', newline='').write(text); spec.append('file:%s=T%s' % (dots(f), dots(text)))
                elif mode == 'notutf8': open(f, 'wb').write(b'+-\xff\xfe-+'); spec.append('file:%s=N' % dots(f))
                else: spec.append('file:%s=E' % dots(f))
                args = [f] + args; spec.append('input=' + dots(f))
            out = None
            if rng.random() < 0.4:
                if rng.random() < 0.2 and os.path.exists('/dev/full'): out = '/dev/full'; spec.append('nowrite=' + dots(out))     # opens, but every write fails
                elif rng.random() < 0.25: out = os.path.join(d, 'nodir', 'sub', 'out.svg'); spec.append('nowrite=' + dots(out))
                else: out = os.path.join(d, 'out.svg')
                args += ['-o', out]; spec.append('output=' + dots(out))
            cid = 'k%d' % i
            cases.append(proto.Case(cid, 'cli', ';'.join(spec), ''))
            try:
                p = subprocess.run([CLI] + args, input=stdin_data if stdin_data is not None else b'', capture_output=True, timeout=60)
                code = p.returncode; so = p.stdout.decode('utf-8', 'replace'); se = p.stderr
            except subprocess.TimeoutExpired:
                code = 124; so = ''; se = b'timeout'
            writes = {}
            if out and out != '/dev/full' and os.path.exists(out): writes[out] = open(out, encoding='utf-8', newline='').read()
            real[cid] = {'code': code, 'diag': len(se) > 0, 'out': so, 'writes': writes, 'args': args, 'mode': mode}
        # build mode
        legend_pool = ['+--+\n|{r}|\n+--+\n# Legend:\nr = {fill: red;}', '.--.\n|{b}|\n\'--\'\n# Legend:\nb = {stroke: blue;}\ng = {fill: green;}',
                       'o--{k}\n# Legend:\nk = {opacity:0.5}', '+--+\n|  |\n+--+', 'plain -> text', '{r}\n# Legend:\nr = {fill: black;}']
        nb = 20 if tier == 'quick' else 200
        for i in range(nb):
            d = os.path.join(work, 'b%d' % i); src = os.path.join(d, 'src'); os.makedirs(src)
            outdir = os.path.join(d, 'out') if rng.random() < 0.6 else src
            spec = ['dir=1', 'outdir=' + dots(outdir), 'ext=' + dots('bob')]
            names = rng.sample(['a', 'b', 'fig1', 'x y', 'é', 'flow.v1', 'flow.v2', 'a.b.c'], rng.randint(0, 5))
            expect_names = []
            for nm in names:
                ext = rng.choice(['bob', 'bob', 'bob', 'txt', 'BOB'])
                # half of the files of a directory carry a legend, each a different one: the documents of one build run must not share anything
                text = rng.choice(legend_pool) if rng.random() < 0.5 else rng.choice(inputs)
                kind = rng.choice(['T', 'T', 'T', 'dir'])
                pth = os.path.join(src, nm + '.' + ext)
                if kind == 'dir': os.makedirs(pth); spec.append('entry:%s:%s:0=E' % (dots(nm), dots(ext)))
                else: open(pth, 'w', encoding='utf-8', newline='').write(text); spec.append('entry:%s:%s:1=T%s' % (dots(nm), dots(ext), dots(text)))
            missing = rng.random() < 0.15
            pattern = os.path.join(src if not missing else os.path.join(d, 'nosuch'), '*.bob')
            if missing: spec[0] = 'dir=0'
            cid = 'b%d' % i
            cases.append(proto.Case(cid, 'build', ';'.join(spec), ''))
            p = subprocess.run([CLI, 'build', '-i', pattern, '-o', outdir], capture_output=True, timeout=120)
            writes = {}
            if os.path.isdir(outdir):
                for fn in os.listdir(outdir):
                    if fn.endswith('.svg'): writes[os.path.join(outdir, fn)] = open(os.path.join(outdir, fn), encoding='utf-8', newline='').read()
            real[cid] = {'code': p.returncode, 'diag': len(p.stderr) > 0, 'out': '', 'writes': writes, 'args': ['build', '-i', pattern, '-o', outdir], 'mode': 'build'}
        _, model, _, problems = proto.run_both(cases, os.path.join(work, 'model'), want_impl=False)
        compared = 0; broken = []
        for c in cases:
            compared += 1
            m = parse_outcome(model.get(c.id) or '')
            r = real[c.id]
            if m is None: broken.append('model gave no outcome for %s: %r' % (c.id, (model.get(c.id) or '')[:100])); continue
            why = None
            exp_code = m['code'] if m['code'] >= 0 else 101
            if r['code'] != exp_code: why = 'exit status %d, the model says %d' % (r['code'], exp_code)
            elif r['diag'] != m['diag']: why = 'stderr %s, the model says %s' % ('non-empty' if r['diag'] else 'empty', 'a diagnostic' if m['diag'] else 'none')
            elif r['mode'] != 'build' and not proto.same_result('svg:', 'S ' + framework.svgtree.unesc(m['out']), 'S ' + r['out']) and not (m['out'] == '' and r['out'] == ''):
                why = 'standard output differs from the model: %s' % proto.first_diff(r['out'], framework.svgtree.unesc(m['out']))[:300]
            elif set(m['writes']) != set(r['writes']): why = 'files written %s, the model says %s' % (sorted(r['writes']), sorted(m['writes']))
            else:
                for pth, content in m['writes'].items():
                    if not proto.same_result('svg:', 'S ' + framework.svgtree.unesc(content), 'S ' + r['writes'][pth]): why = 'content of %s differs from the library conversion' % pth
            # the property itself, on the real outcome
            if r['code'] == 0 and r['mode'] != 'build' and not r['writes'] and not r['out'].endswith('\n'): why = why or 'exit 0 but standard output does not end in a line feed'
            if r['code'] != 0 and (r['out'] or r['writes']) and r['mode'] != 'build': why = why or 'non-zero exit but output was produced'
            if r['code'] != 0 and not r['diag']: why = why or 'non-zero exit without a diagnostic'
            if why: failures.append({'failure': why, 'args': r['args'], 'mode': r['mode'], 'case_spec': c.spec[:1500]})
        return {'failures': failures[:5], 'broken': broken[:3], 'evaluations': compared, 'distinct_nontrivial': len({c.spec for c in cases}),
                'samples': [{'args': real[c.id]['args'], 'exit': real[c.id]['code']} for c in cases[:3]],
                'coverage': {'cli_invocations': len(cases), 'modes': {m: sum(1 for r in real.values() if r['mode'] == m) for m in ('file', 'stdin', 'inline', 'missing', 'notutf8', 'build')},
                             'exit_codes': {str(k): sum(1 for r in real.values() if r['code'] == k) for k in sorted({r['code'] for r in real.values()})}}}

PROP = C19()
