"""C17: line endings and trailing white space do not matter"""
from props.common import *

def dump(e):
    return (e.tag, tuple(e.attrs), tuple(k if isinstance(k, str) else dump(k) for k in e.kids))

def to_crlf(t):
    out = []; prev = ''
    for ch in t:
        if ch == '\n' and prev != '\r': out.append('\r')
        out.append(ch); prev = ch
    return ''.join(out)

def add_trailing(rng, t):
    """blanks after lines (outside an open brace of a legend declaration), blank lines at the end"""
    out = []; depth = 0
    for line in t.split('\n'):
        for ch in line:
            if ch == '{': depth += 1
            elif ch == '}': depth = max(0, depth - 1)
        cr = line.endswith('\r')
        body = line[:-1] if cr else line
        if depth == 0 and rng.random() < 0.6:
            body += ''.join(rng.choice([' ', ' ', '\t']) for _ in range(rng.randint(1, 4)))
        out.append(body + ('\r' if cr else ''))
    return '\n'.join(out)

class C17(Prop):
    id = 'C17'
    stages = ('S1',)
    needs = ('cells', 'svg')
    rule = 'each item renders an input, its CRLF form, a form with blanks appended to lines, and a form with 1-5 blank lines appended; parsed documents (expat, XML end-of-line normalisation) must be equal; non-trivial when the input has at least two lines'
    level_text = ('Theorems C17_crlf_same_rows, C17_crlf_same_document / C17_crlf_same_output (for ALL inputs, with or without a legend, the document and the output string are equal under LF and CRLF: the drawing is split into lines and the legend is read with CRLF taken as LF, repair F13), '
                  'C17_trailing_blanks_in_a_row (all rows incl. quoted segments and unbalanced quotes), C17_trailing_blank_rows.')
    level_note = 'trailing blanks after legend entries and blank lines inside a legend are covered by the legend grammar lemmas of C16 plus correspondence and oracle'
    def make(self, gen, text, variants):
        runs = {'base': Run(text, '', 'settings')}
        for k, v in variants.items(): runs[k] = Run(v, '', 'settings')
        return Item(gen, runs, {'text': text})
    def items(self, rng, tier):
        out = []
        src = texts(rng, tier, 500, 8000) + gens.g_text(rng, 200 if tier == 'quick' else 3000)
        # legends whose entries are separated by empty lines (whatever the grammar makes of an empty line, blanks on it must not matter)
        for _ in range(40 if tier == 'quick' else 600):
            body = rng.choice(['+--+\n|{a}|\n+--+', '{b}', ' .-.\n( a )\n `-\'', 'a--b'])
            ents = [rng.choice(['a', 'b', 'big_1', 'w']) + rng.choice([' = ', '=', ' =', '  =  ']) + '{' + rng.choice(['fill:red;', 'stroke: blue', 'fill:red;\n stroke:blue;']) + '}' for _ in range(rng.randint(2, 4))]
            sep = ['\n' * rng.randint(1, 3) for _ in ents]
            src.append(('legend-gaps', body + '\n# Legend:\n' + ''.join(e + s for e, s in zip(ents, sep))))
        for g, t in src:
            t = t.replace('\r', '')
            if '\x0b' in t or '\x0c' in t or '\x85' in t or ' ' in t or ' ' in t: pass
            v = {'crlf': to_crlf(t), 'trail': add_trailing(rng, t), 'blank': t + '\n' * rng.randint(1, 5) if rng.random() < 0.5 else t + '\n' + '\n'.join(' ' * rng.randint(0, 3) for _ in range(rng.randint(1, 4)))}
            if rng.random() < 0.5: v['crlftrail'] = to_crlf(add_trailing(rng, t))
            out.append(self.make(g, t, v))
        # the header as the very last line, with nothing (not even a line end) after it: blanks after it must not matter either
        for body in ['+----+\n| ab |\n+----+\n\n', 'a--b\n', '', '{x}\n\n', ' .-.\n( a )\n `-\'\n']:
            for hdr in ['# Legend:', '  # Legend:']:
                t = body + hdr
                v = {'trail': t + ' ', 'trail-tab': t + '\t', 'trail2': t + '  \t ', 'crlf': to_crlf(t), 'crlftrail': to_crlf(t) + '  ', 'eol': t + '\n', 'eol-trail': t + ' \n'}
                out.append(self.make('header-last', t, v))
        return out
    def item_from_json(self, j): return item_from_json(None, j)
    def oracle(self, it):
        b, _ = root_of(it.runs['base'])
        if b is None: return []
        out = []
        # a legend after which blank lines are appended: the trailing white_space of the grammar absorbs them
        for k, r in it.runs.items():
            if k == 'base': continue
            x, _ = root_of(r)
            if x is None: continue
            if dump(x) != dump(b):
                out.append('%s variant renders differently: %r vs %r' % (k, r.text[:80], it.runs['base'].text[:80]))
        return out
    def nontrivial(self, it):
        return '\n' in it.meta.get('text', '').strip('\n')

PROP = C17()
