"""helpers shared by the property modules"""
import os, sys, random
from fractions import Fraction as F
from framework import Prop, Item, Run, ENTRIES
import gens, svgtree

SCALES = ['1/2', '1', '3', '8', '10', '20', '75/2']
NUMERIC_ATTRS = ('x', 'y', 'x1', 'y1', 'x2', 'y2', 'cx', 'cy', 'r', 'rx', 'width', 'height')

def scale_of(spec, default=F(8)):
    for kv in spec.split(';'):
        if kv.startswith('scale='):
            v = kv[6:]
            if '/' in v:
                a, b = v.split('/'); return F(int(a), int(b))
            return F(v)
    return default

def single(gen, text, spec='', entry='settings', meta=None, factory=None):
    return Item(gen, {'main': Run(text, spec, entry)}, dict(meta or {}, text=text), factory)

def item_from_json(cls_factory, j):
    runs = {k: Run(''.join(chr(c) for c in r['input_scalars']), r.get('settings', ''), r.get('entry', 'settings')) for k, r in j['runs'].items()}
    return Item(j.get('generator', 'replay'), runs, j.get('meta', {}))

def texts(rng, tier, quick_n, thorough_n, mix=None):
    n = quick_n if tier == 'quick' else thorough_n
    return gens.corpus() + (mix(rng, n) if mix else gens.mixed(rng, n))

def close(a, b, rel=F(1, 20000), absolute=F(1, 500)):
    return abs(a - b) <= absolute + rel * max(abs(a), abs(b))

def root_of(run):
    s = run.svg()
    if s is None: return None, 'no document: %r' % ((run.impl.get('svg') or '')[:120],)
    return svgtree.parse_xml(s)

def elements(root, skip=('style', 'defs')):
    """the drawing's elements: children of the root other than style and defs, groups flattened, in order"""
    out = []
    for e in root.elems():
        if e.tag in skip: continue
        if e.tag == 'g': out += [('g', k) for k in e.elems()]
        else: out.append(('', e))
    return out

def has_impl_panic(item):
    return [(k, r.panicked()) for k, r in item.runs.items() if r.panicked()]

# ---------------------------------------------------------------- widths (dumped from the pinned unicode-width)
_W = None
def char_cols(ch):
    """columns a character takes in the grid: width().unwrap_or(1).max(1)"""
    global _W
    if _W is None:
        import bisect
        rows = []
        for l in open(os.path.join(gens.TABLES, 'width.txt')):
            a, b, v = l.split(); rows.append((int(a), int(b), int(v)))
        _W = rows
    c = ord(ch)
    lo, hi = 0, len(_W) - 1
    while lo <= hi:
        m = (lo + hi) // 2
        a, b, v = _W[m]
        if c < a: hi = m - 1
        elif c > b: lo = m + 1
        else: return max(v, 1) if v >= 0 else 1
    return 1
def text_cols(s): return sum(char_cols(c) for c in s if c != '\x00')
def row_cols(s):
    """columns an input row takes in the grid (StringBuffer::from): every character at least one, a literal NUL too"""
    return sum(char_cols(c) for c in s)

def frag_bounds(f):
    """bounds in ticks of a dumped fragment: ((x0,y0),(x1,y1))"""
    k = f['k']
    if k in ('L', 'ML', 'A', 'R'):
        (ax, ay), (bx, by) = f['a'], f['b']
        return (min(ax, bx), min(ay, by)), (max(ax, bx), max(ay, by))
    if k == 'C':
        (cx, cy), r = f['c'], f['r']
        return (cx - r, cy - r), (cx + r, cy + r)
    if k == 'P':
        xs = [p[0] for p in f['pts']]; ys = [p[1] for p in f['pts']]
        return (min(xs), min(ys)), (max(xs), max(ys))
    if k == 'CT':
        x, y = f['cell']
        return (x * 40, y * 80), ((x + max(text_cols(f['text']), 1)) * 40, (y + 1) * 80)      # the cells the text occupies (the property's 'lies inside')
    raise ValueError(k)

def contains(outer, inner):
    (a, b), (c, d) = outer; (e, f), (g, h) = inner
    return a <= e and b <= f and g <= c and h <= d
