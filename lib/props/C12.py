"""C12: the canvas has one cell of margin and contains everything that is drawn"""
from props.common import *
from props import geom

SC12 = ['8', '1', '1/2', '3', '20', '52/5', '28/5', '12/5', '75/2', '13/3']

class C12(Prop):
    id = 'C12'
    stages = ('S1', 'S25', 'S6')
    rule = 'mixed inputs (incl. double-width characters, quoted text at the edges, legends, shapes reaching into neighbouring cells, drawing characters in row 0 and column 0) at scales {8,1,0.5,3,20,10.4,5.6,2.4,37.5,13/3}; non-trivial when the drawing has an element besides the backdrop'
    level_text = ('Theorems C12_canvas_formula / C12_empty_canvas / C12_every_cell_within (canvas = scale*(last column+2) x 2*scale*(last row+2) for every cell map), '
                  'C12_table_fragments_stay_near (T1 sweep over the translated tables: every fragment reaches at most one cell beyond its cell, and left/up only under a condition that proves a neighbour there; sound reflective check of the condition language; arcs by a sound outer box), '
                  'C12_unicode_fragments_stay_inside, C12_catalogue_stays_inside (22 circles and all derived arcs), and the lift through the whole pipeline: C12_everything_recognised_is_inside (for every input, every fragment accepted from the cell map and every fragment of every contact group has its box - bounds and, for an arc, the box around its bulge - inside the canvas; by the pipeline invariant of Theory/PipeInv.v: merging stays in the hull, recognised rectangles are spanned by bound points, recognised circles and arcs lie within the matched cells), C12_canvas_in_ticks, and down to the numbers of the document: C12_document_points_inside (for every input and every scale >= 0, every coordinate written into every drawing node and every node of every <g> group - the scaled ends, corners, circle boxes, polygon points and text anchors of the fragments the enclosure pass emits - lies between 0 and the canvas width / height, quoted text excepted). Quoted text is known finding K1 (C12_quoted_refuted).')
    level_note = 'the box around an arc is the modelled outer box of Theory/ExtentTheory.v (its soundness for the real curve is argued there, not proved); that fragment_node writes exactly the scaled tick_points is read off its definition (Model/Lib.v) and compared with the implementation by the emit-stage correspondence; known finding K1 for quoted text'
    def make(self, gen, text, spec):
        return single(gen, text, spec, 'settings', factory=lambda t: self.make(gen, t, spec))
    def items(self, rng, tier):
        out = []
        a, u = gens.keys()
        for g, t in texts(rng, tier, 700, 10000):
            out.append(self.make(g, t, 'scale=%s' % rng.choice(SC12)))
        # every table character in the top-left corner with one neighbour to the right / below / diagonal
        for ch in a + u:
            for nb in (a if tier == 'thorough' else rng.sample(a, 6)):
                for lay in ('%s%s', '%s\n%s', '%s\n %s', ' %s\n%s'):
                    out.append(self.make('corner', lay % (ch, nb), 'scale=8'))
        # wide boxes at awkward scales
        for w in (10, 24, 40, 80):
            for sc in SC12:
                out.append(self.make('widebox', '\n'.join(gens.box(w, 2)), 'scale=%s' % sc))
        return out
    def item_from_json(self, j): return item_from_json(None, j)
    def oracle(self, it):
        r = it.runs['main']; root, _ = root_of(r)
        if root is None: return []
        sc = scale_of(r.spec)
        out = []
        d = svgtree.sections(r.impl.get('cells') or '')
        B = d.get('B')
        try:
            W = F(root.get('width')); H = F(root.get('height'))
        except Exception as e:
            return ['canvas size unreadable: %s' % e]
        if B is not None:
            cells = d.get('cells', '').strip()
            ew = sc * (B[0] + 2); eh = 2 * sc * (B[1] + 2)
            if not close(W, ew, absolute=F(1, 100)) or not close(H, eh, absolute=F(1, 100)):
                out.append('canvas %s x %s but the last occupied cell is (%d,%d) at scale %s: expected %s x %s' % (W, H, B[0], B[1], sc, ew, eh))
        esc = d.get('esc', '')
        qanchors = set()
        for e in [x for x in esc.split(';') if x]:
            f = e.split(',')
            qanchors.add((F(int(f[0])) * sc + sc / 4, F(int(f[1])) * 2 * sc + sc * 3 / 2))
        tol = F(1, 50) + sc / 1000
        for e in root.walk():
            if e.tag in ('svg', 'style', 'defs', 'marker', 'g') or e.get('class') == 'backdrop': continue
            p = e.parent
            inside_defs = False
            while p is not None:
                if p.tag == 'defs': inside_defs = True
                p = p.parent
            if inside_defs: continue
            bb = geom.bbox(e, sc)
            if bb is None: continue
            x0, y0, x1, y1 = bb
            if e.tag == 'text':
                x1 = x0 + sc * text_cols(e.text())        # advance box: one cell per column
                y0 = y0 - sc * 3 / 2; y1 = y1 + sc / 2
            if x0 < -tol or y0 < -tol or x1 > W + tol or y1 > H + tol:
                what = '<%s> reaches (%s,%s)-(%s,%s) outside the %s x %s canvas' % (e.tag, float(x0), float(y0), float(x1), float(y1), W, H)
                if e.tag == 'text' and any(close(F(e.get('x')), ax) and close(F(e.get('y')), ay) for ax, ay in qanchors):
                    out.append('K1 ' + what)
                else: out.append(what)
        return out
    def known(self, it, failure):
        return 'K1-quoted-text-outside-canvas' if failure.startswith('K1 ') else None
    def nontrivial(self, it):
        root, _ = root_of(it.runs['main'])
        return root is not None and len([e for _, e in elements(root) if e.get('class') != 'backdrop']) >= 1

PROP = C12()
