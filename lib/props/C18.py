"""C18: switches and entry points are consistent and leave geometry alone"""
import re
from props.common import *

def dump(e):
    return (e.tag, tuple(e.attrs), tuple(k if isinstance(k, str) else dump(k) for k in e.kids if not (isinstance(k, str) and not k.strip())))

def split_root(root):
    """(style, defs, backdrop, drawing) with order check"""
    kids = root.elems()
    i = 0; style = defs = back = None; problems = []
    if i < len(kids) and kids[i].tag == 'style': style = kids[i]; i += 1
    if i < len(kids) and kids[i].tag == 'defs': defs = kids[i]; i += 1
    if i < len(kids) and kids[i].tag == 'rect' and kids[i].get('class') == 'backdrop': back = kids[i]; i += 1
    rest = kids[i:]
    for k in rest:
        if k.tag in ('style', 'defs') or (k.tag == 'rect' and k.get('class') == 'backdrop'):
            problems.append('<%s> out of order among the drawing nodes' % k.tag)
    return style, defs, back, rest, problems

def dotted(s): return '.'.join(str(ord(c)) for c in s)
def squeeze(s):
    """remove the pretty printer's inter-element white space: a line feed and the indentation between two tags
    (white space that is the content of a text element, e.g. the quoted text " ", has no line feed and stays)"""
    return re.sub(r'>\n *<', '><', s)

class C18(Prop):
    id = 'C18'
    stages = ('S6',)
    needs = ('frags', 'svg')
    rule = 'each item renders one input through the five entry points, a random switch combination, random presentation settings (incl. markup characters) and a random override size; non-trivial when the document has a drawing node'
    level_text = ('Theorems C18_document_shape / C18_switches_leave_geometry_alone / C18_presentation_settings_only_in_style / C18_override_changes_only_the_size / C18_entry_points_agree: '
                  'the root children are style? defs? backdrop? (iff their switches) followed by drawing nodes that depend on the settings only through the scale; colours, fonts, stroke width occur only in the style node; the override entry changes only root and backdrop size; to_svg = pretty = settings(default); C18_compressed_is_the_same_document: for every input the pretty and the compressed output are serialisations (XML grammar of Theory/Xml.v) of trees that differ only by text children that are empty or a line feed followed by blanks (C18_same_doc_keeps_blank_text: the relation keeps other white space). For all inputs and settings.')
    level_note = 'the string-level form (remove a line feed and blanks between > and <) is what the oracle applies to the implementation outputs; the theorem states it on the parsed trees'
    def make(self, gen, text, rng_state):
        sw, colors, ow, oh, sc = rng_state
        f = lambda t: self.make(gen, t, rng_state)
        base = 'scale=%s' % sc
        runs = {
            'base': Run(text, base, 'settings'),
            'sw': Run(text, base + ';bd=%d;st=%d;df=%d' % sw, 'settings'),
            'col': Run(text, base + ';' + colors, 'settings'),
            'ovr': Run(text, base, 'override') if False else Run(text, base + ';w=%s;h=%s' % (ow, oh), 'override'),
            'to_svg': Run(text, '', 'to_svg'), 'pretty': Run(text, '', 'pretty'), 'compressed': Run(text, '', 'compressed'),
            'default': Run(text, '', 'settings'),
        }
        return Item(gen, runs, {'text': text, 'switches': sw, 'colors': colors, 'override': [ow, oh], 'scale': sc}, f)
    def items(self, rng, tier):
        out = []
        strs = ['red', '#fff', 'rgb(1,2,3)', 'a<b', 'x&y', '"q"', "it's", '</style>', 'Arial, sans', 'é一', '']
        for g, t in texts(rng, tier, 300, 5000):
            sw = (rng.randint(0, 1), rng.randint(0, 1), rng.randint(0, 1))
            colors = 'ff=%s;fill=%s;bg=%s;sc=%s;fs=%d;sw=%s' % (dotted(rng.choice(strs)), dotted(rng.choice(strs)), dotted(rng.choice(strs)), dotted(rng.choice(strs)),
                                                               rng.choice([1, 14, 20, 100]), rng.choice(['1', '2', '1/2', '5', '13/4']))
            ow = rng.choice(['0', '1', '100', '333/2', '2000']); oh = rng.choice(['0', '7', '50', '1001/4'])
            out.append(self.make(g, t, (sw, colors, ow, oh, rng.choice(['8', '1', '3', '1/2']))))
        # class tags inside shapes (with and without a legend) under every switch combination: a switch must not change what is drawn
        tagged = ['+------+\n|{w} hi|\n+------+', '+----+\n|{a}|\n+----+\n# Legend:\na = {fill:red}', ' .--.\n |{b}|\n \'--\'  {c}', '  ,-.\n ({k})\n  `-\'',
                  '+---------+\n| +-----+ |\n| |{in} | |\n| +-----+ |\n| {out}   |\n+---------+']
        for t in tagged:
            for bd in (0, 1):
                for st in (0, 1):
                    for df in (0, 1):
                        colors = 'ff=%s;fill=%s;bg=%s;sc=%s;fs=%d;sw=%s' % (dotted('Arial'), dotted('red'), dotted('#fff'), dotted('blue'), 14, '2')
                        out.append(self.make('tagged', t, ((bd, st, df), colors, '100', '50', rng.choice(['8', '1']))))
        return out
    def item_from_json(self, j): return item_from_json(None, j)
    def oracle(self, it):
        R = {}
        for k, r in it.runs.items():
            root, err = root_of(r)
            if root is None: return []      # C01/C02's business
            R[k] = root
        out = []
        sb, db, bb, rest_b, pb = split_root(R['base']); out += pb
        if sb is None or db is None or bb is None: out.append('with all switches on, style/defs/backdrop are not all present in this order')
        bd, st, df = it.meta['switches']
        ss, ds, bs, rest_s, ps = split_root(R['sw']); out += ps
        if (ss is not None) != bool(st): out.append('include_styles=%d but style element %s' % (st, 'present' if ss is not None else 'absent'))
        if (ds is not None) != bool(df): out.append('include_defs=%d but defs element %s' % (df, 'present' if ds is not None else 'absent'))
        if (bs is not None) != bool(bd): out.append('include_backdrop=%d but backdrop %s' % (bd, 'present' if bs is not None else 'absent'))
        if [dump(e) for e in rest_s] != [dump(e) for e in rest_b]: out.append('the drawing nodes change with the switches %s' % (it.meta['switches'],))
        if dict(R['sw'].attrs) != dict(R['base'].attrs): out.append('root attributes change with the switches')
        for a, b, name in ((ss, sb, 'style'), (ds, db, 'defs'), (bs, bb, 'backdrop')):
            if a is not None and b is not None and dump(a) != dump(b): out.append('the %s element changes with the other switches' % name)
        # presentation settings: only the style text may differ
        sc_, dc, bc, rest_c, pc = split_root(R['col']); out += pc
        if [dump(e) for e in rest_c] != [dump(e) for e in rest_b]: out.append('colour/font/stroke settings change the drawing nodes')
        if dc is None or dump(dc) != dump(db) or bc is None or dump(bc) != dump(bb) or R['col'].attrs != R['base'].attrs:
            out.append('colour/font/stroke settings change something outside the style element')
        # override size
        so, do, bo, rest_o, po = split_root(R['ovr']); out += po
        ow, oh = [F(v) for v in it.meta['override']]
        if [dump(e) for e in rest_o] != [dump(e) for e in rest_b]: out.append('the override entry point changes the drawing nodes')
        try:
            if not close(F(R['ovr'].get('width')), ow) or not close(F(R['ovr'].get('height')), oh): out.append('override size %s x %s but root says %s x %s' % (ow, oh, R['ovr'].get('width'), R['ovr'].get('height')))
            if bo is not None and (not close(F(bo.get('width')), ow) or not close(F(bo.get('height')), oh)): out.append('override size not applied to the backdrop')
        except Exception as e: out.append('override size unreadable: %s' % e)
        if so is None or sb is None or dump(so) != dump(sb): out.append('override entry point changes the style element')
        # entry points
        a = it.runs['to_svg'].svg(); b = it.runs['pretty'].svg(); c = it.runs['default'].svg(); d = it.runs['compressed'].svg()
        if a != b: out.append('to_svg differs from to_svg_string_pretty')
        if b != c: out.append('to_svg_string_pretty differs from to_svg_with_settings(default)')
        if squeeze(b) != d: out.append('compressed output is not the pretty output with inter-tag white space removed')
        return out
    def nontrivial(self, it):
        r, _ = root_of(it.runs['base'])
        return r is not None and len(split_root(r)[3]) >= 1

PROP = C18()
