"""C05: rectangles are recognised completely and only where a box is drawn"""
from props.common import *

HZ = set('-~=+.,\'`') | set('─━═┄┌┐└┘╭╮╰╯├┤┬┴┼╔╗╚╝')
VT = set('|:!+.,\'`') | set('│┃║┆┌┐└┘╭╮╰╯├┤┬┴┼╔╗╚╝')
STYLES = [  # corners tl tr bl br, horizontal, vertical, rx (ticks), dashed
    ('++++', '-', '|', None, False), ('++++', '~', '|', None, True), ("..''", '-', '|', 20, False), (",.`'", '-', '|', 20, False),
    ('.,\'`'[0] + ".''", '~', '|', 20, True), ('┌┐└┘', '─', '│', None, False), ('╭╮╰╯', '─', '│', 20, False), ('┌┐└┘', '┄', '┆', None, True),
]

class C05(Prop):
    id = 'C05'
    stages = ('S1', 'S25', 'S6')
    rule = 'completeness: boxes 0..60 x 0..30 (quick: a sample) x offsets x corner styles (sharp, rounded, box drawing, rounded box drawing) x edge styles (- ~ and dashed box drawing) x sides with : or ! stretches x interior label text; soundness: every rect element in the output of random grids over {- | + . \' ` , ~ : ! space}; non-trivial when the output has a rect element besides the backdrop'
    level_text = ('Theorems C05_rect_only_for_an_outline / C05_outline_means_four_edges_present (is_rect accepts only four lines that are the four edges of their bounding box: soundness of the endorsement, for all fragment lists), C05_recognition_anywhere (C06), C05_side_of_any_length_is_one_line (C09 chains), '
                  "C05_boxes_are_recognised (completeness: every box of the eight standard styles - sharp, ~, rounded . ' and , `, rounded ~, box drawing, rounded and dashed box drawing - with up to 16 x 8 interior cells is recognised by the whole recognition of the model as exactly one rectangle through the centres of its border cells, with the radius and dash class of its style, and nothing else; sweep inside Coq on the regenerated tables) and C05_boxes_are_recognised_anywhere_in_context (the same box at any offset, next to any content that does not touch it: exactly that rectangle, moved, comes from its cells; by C06 and C10). "
                  'C05_box_with_text_inside (a label at every interior position of small boxes of all eight styles, also flush against a wall: the rectangle and the label, nothing else) and C05_box_with_dashed_stretch (every stretch of : or ! in the sides of sharp boxes with 2..5 interior rows: one dashed rectangle), swept inside Coq. Larger boxes are decided by correspondence and oracle (also several copies of one box in a drawing, and boxes at many offsets).')
    level_note = 'partial: completeness beyond 16 x 8 interior cells relies on correspondence plus oracle; soundness of is_rect is proved for all inputs'
    def box_item(self, rng, w, h, style, x, y, sidepat, inner):
        c, hz, vt, rx, dashed = style
        rows = [c[0] + hz * w + c[1]]
        anyd = (dashed and ((hz in '~┄' and w > 0) or (vt in '┆' and h > 0)))
        for j in range(h):
            s = vt
            if vt == '|' and sidepat and h >= 2 and 0 < j:       # a dashed stretch inside a side
                s = sidepat; anyd = True
            mid = (inner[j] if inner and j < len(inner) else '').ljust(w)[:w]
            rows.append(s + mid + s)
        rows.append(c[2] + hz * w + c[3])
        text = gens.place(rows, x, y)
        exp = {'x': x * 40 + 20, 'y': y * 80 + 40, 'w': (w + 1) * 40, 'h': (h + 1) * 80, 'rx': rx or 0, 'dashed': anyd}
        sc = rng.choice(['8', '8', '8', '1', '3', '5/2', '1/2', '10'])          # position, size and corner radius at other scales too
        return Item('box', {'main': Run(text, '' if sc == '8' else 'scale=%s' % sc, 'settings')}, {'text': text, 'expect': exp, 'box': [w, h], 'scale': sc})
    def make(self, gen, text):
        return Item(gen, {'main': Run(text, '', 'settings')}, {'text': text}, lambda t: self.make(gen, t))
    def items(self, rng, tier):
        out = []
        sizes = [(w, h) for w in range(0, 61) for h in range(0, 31)]
        if tier == 'quick': sizes = [(w, h) for w in range(0, 8) for h in range(0, 5)] + [(rng.randint(0, 60), rng.randint(0, 30)) for _ in range(60)]
        for w, h in sizes:
            st = rng.choice(STYLES) if (tier == 'quick' and not (w < 4 and h < 3)) else None      # the smallest boxes in every style
            for style in ([st] if st else STYLES):
                if style[3] and w < 1: continue       # a rounded box needs one column between its corners; no interior row is fine
                sidepat = rng.choice([None, None, ':', '!']) if style[2] == '|' and h >= 3 else None
                inner = None
                if w >= 3 and h >= 3 and rng.random() < 0.4: inner = [''] + [' ' + rng.choice(['a', 'ok', 'x1'])[:w - 2]]
                elif w >= 1 and h >= 1 and rng.random() < 0.35:
                    # plain text anywhere inside, also touching the border (first/last interior row and column, a row filled edge to edge)
                    lab = rng.choice(['a', 'ok', 'x1', 'label', 'T', 'é', 'no 7'])[:w]
                    inner = [''] * h; inner[rng.randrange(h)] = ' ' * rng.randint(0, w - len(lab)) + lab
                out.append(self.box_item(rng, w, h, style, rng.choice([0, 1, 5, 33]), rng.choice([0, 2, 7, 40]), sidepat, inner))
        # the same box several times in one drawing (side by side or stacked, one blank column / row apart or more): one rect each, each in its place
        for _ in range(120 if tier == 'quick' else 2500):
            style = rng.choice(STYLES); c, hz, vt, rx, dashed = style
            w = rng.randint(1 if rx else 0, 6); h = rng.randint(0, 3); n = rng.randint(2, 3); gap = rng.randint(1, 3)
            lab = rng.choice(['', '', 'a', 'ok'])[:w]
            box = [c[0] + hz * w + c[1]] + [vt + (lab if j == 0 else '').ljust(w) + vt for j in range(h)] + [c[2] + hz * w + c[3]]
            x0 = rng.choice([0, 2]); y0 = rng.choice([0, 1, 5])
            if rng.random() < 0.5:
                rows = [(' ' * gap).join([r] * n) for r in box]; places = [(x0 + k * (w + 2 + gap), y0) for k in range(n)]
            else:
                rows = []; places = []
                for k in range(n):
                    places.append((x0, y0 + len(rows))); rows += box + [''] * gap
            text = gens.place(rows, x0, y0)
            anyd = bool(dashed and ((hz in '~┄' and w > 0) or (vt in '┆' and h > 0)))
            exp = [{'x': px * 40 + 20, 'y': py * 80 + 40, 'w': (w + 1) * 40, 'h': (h + 1) * 80, 'rx': rx or 0, 'dashed': anyd} for px, py in places]
            out.append(Item('copies', {'main': Run(text, '', 'settings')}, {'text': text, 'expect_all': exp}))
        A = list("-|+.'`,~:! ")
        for _ in range(1500 if tier == 'quick' else 60000):
            w = rng.randint(2, 12); h = rng.randint(2, 7); d = rng.choice([0.5, 0.7, 0.9])
            sub = [rng.choice(A) for _ in range(rng.randint(3, 6))] + ['-', '|', '+']
            out.append(self.make('grid', '\n'.join(''.join(rng.choice(sub) if rng.random() < d else ' ' for _ in range(w)) for _ in range(h))))
        # near misses: ladders, T junctions, overhanging sides, tables with legs
        for base in ['+--+\n|  |\n+--+\n|  |', '|  |\n+--+\n|  |\n+--+\n|  |', '+--+--\n|  |\n+--+--', '+--+\n|  |\n+--+--', ' +--+\n-+  |\n +--+', '++\n++\n||', '+--+\n|  |\n|  |', '.--.\n|  |\n\'--\'--']:
            for x in (0, 2): out.append(self.make('nearmiss', gens.place(base.split('\n'), x, 0)))
        return out
    def item_from_json(self, j): return item_from_json(None, j)
    def oracle(self, it):
        root, _ = root_of(it.runs['main'])
        if root is None: return []
        rows = it.meta['text'].split('\n')
        def at(x, y):
            if y < 0 or y >= len(rows) or x < 0 or x >= len(rows[y]): return ' '
            return rows[y][x]
        out = []
        rects = [e for e in root.walk() if e.tag == 'rect' and e.get('class') != 'backdrop' and 'filled' not in (e.get('class') or '').split()]
        for e in rects:
            unit = F(40) / F(it.meta.get('scale', '8'))          # ticks per user unit
            x, y, w, h = [F(e.get(k)) * unit for k in ('x', 'y', 'width', 'height')]
            # edges lie on mid-lines of cells: x = 40c+20, y = 80r+40
            c0 = (x - 20) / 40; c1 = (x + w - 20) / 40; r0 = (y - 40) / 80; r1 = (y + h - 40) / 80
            if any(v.denominator != 1 for v in (c0, c1, r0, r1)):
                out.append('rect %s,%s %sx%s does not lie on cell mid-lines' % (x, y, w, h)); continue
            c0, c1, r0, r1 = int(c0), int(c1), int(r0), int(r1)
            for c in range(c0, c1 + 1):
                for r in (r0, r1):
                    if at(c, r) not in HZ: out.append('rect from cell (%d,%d) to (%d,%d): no border character at (%d,%d): %r' % (c0, r0, c1, r1, c, r, at(c, r))); break
            for r in range(r0, r1 + 1):
                for c in (c0, c1):
                    if at(c, r) not in VT: out.append('rect from cell (%d,%d) to (%d,%d): no border character at (%d,%d): %r' % (c0, r0, c1, r1, c, r, at(c, r))); break
            if len(out) > 3: break
        many = it.meta.get('expect_all')
        if many and not out:
            got = sorted((F(e.get('x')) * 5, F(e.get('y')) * 5, F(e.get('width')) * 5, F(e.get('height')) * 5, F(e.get('rx') or 0) * 5, 'broken' in (e.get('class') or '').split()) for e in rects)
            want = sorted((F(x['x']), F(x['y']), F(x['w']), F(x['h']), F(x['rx']), x['dashed']) for x in many)
            if got != want: out.append('%d copies of a box: expected the rects %s, got %s' % (len(many), [tuple(str(v) for v in t) for t in want], [tuple(str(v) for v in t) for t in got]))
        exp = it.meta.get('expect')
        if exp and not out:
            els = [e for _, e in elements(root) if e.get('class') != 'backdrop' and e.tag != 'text']
            if len(rects) != 1 or len(els) != 1:
                out.append('a %dx%d box is emitted as %d rect elements and %d non-text elements in all (%s)' % (it.meta['box'][0], it.meta['box'][1], len(rects), len(els), [e.tag for e in els][:6]))
            else:
                e = rects[0]
                unit = F(40) / F(it.meta.get('scale', '8'))
                got = {'x': F(e.get('x')) * unit, 'y': F(e.get('y')) * unit, 'w': F(e.get('width')) * unit, 'h': F(e.get('height')) * unit, 'rx': F(e.get('rx') or 0) * unit,
                       'dashed': 'broken' in (e.get('class') or '').split()}
                for k in exp:
                    if got[k] != exp[k]: out.append('box rect %s: expected %s, got %s' % (k, exp[k], got[k]))
        return out
    def nontrivial(self, it):
        root, _ = root_of(it.runs['main'])
        return root is not None and any(e.tag == 'rect' and e.get('class') != 'backdrop' for e in root.walk())

PROP = C05()
