"""C16: legend entries become CSS rules; {tags} style the enclosing shape"""
import re
from props.common import *

IDENT = re.compile(r'^[A-Za-z_][A-Za-z0-9_]*$')
TAG = re.compile(r'^\{([A-Za-z_][A-Za-z0-9_]*(?:,[A-Za-z_][A-Za-z0-9_]*)*)\}$')

def dump(e):
    return (e.tag, tuple(e.attrs), tuple(k if isinstance(k, str) else dump(k) for k in e.kids if not (isinstance(k, str) and not k.strip())))

def drawing(root):
    return [dump(e) for e in root.elems() if e.tag not in ('style',)]

def style_text(root):
    for e in root.elems():
        if e.tag == 'style': return e.text()
    return None

class C16(Prop):
    id = 'C16'
    stages = ('S1', 'S6')
    needs = ('cells', 'frags', 'svg')
    partial = 'partial: one insertion goes to an innermost node (theorem); that the pass meets enclosing shapes before the tag is swept for nested boxes and circles and otherwise covered by correspondence and oracle'
    rule = 'legend items: a drawing without # followed by a legend (header/blank/eol variants, 0-6 entries, identifiers x declarations over all scalars except braces incl. line ends, quotes, markup); tag items: tags in boxes, rounded boxes, circles, nested boxes, beside text, outside shapes; non-trivial when the legend has an entry or the drawing has a tag'
    level_text = ('Theorems C16_legend_entries_read_back (parse o print = id for every legend in the documented form, LF and CRLF, blanks after the brace, any number of entries), C16_legend_is_not_drawn (the cell buffer is that of the text before the header, LF or CRLF), C16_rules_in_order, '
                  'C16_tag_outside_everything_stays_text (iff no node fits it), C16_taken_tag_becomes_classes (not rendered, names added), C16_other_text_unaffected, C16_children_first, C16_tag_goes_to_an_innermost_node (for every tree and tag the taker is a node the tag fits in, with no node below it and no earlier subtree that it fits in; nothing else changes); by induction over entries and over the tree. '
                  'Through the whole model from the cells to the (fragment, class names) list, by sweeps inside Coq: C16_nested_boxes_name_the_inner_one (144 placements of {a} in the inner of two nested sharp/rounded boxes, flush against the wall included: only the inner rectangle is named, the tag is not rendered; outside both - right, left, above, below - it stays text) and C16_tag_in_a_circle_names_it (547 places in the 12 catalogue circles with room).')
    level_note = 'partial (see DESIGN.md C16): that the enclosure pass has built the nesting when a tag arrives is proved on the swept nestings and otherwise relies on correspondence plus oracle'
    def legend_item(self, rng, gen='legend'):
        before = rng.choice(['', '+--+\n|{a}|\n+--+\n', '{b}\n', ' .-.\n( a )\n `-\'\n', 'ab -- cd\n', '+-----+\n| {a} |\n+-----+\n  {zz}\n'])
        eol = rng.choice(['\n', '\n', '\r\n'])
        names = ['a', 'b', 'big_1', '_x', 'Zz9', 'zz', 'a1_b2']
        decls = ['fill:red;', 'stroke: blue; fill:none', '', ' ', 'a' + eol + 'b', 'x"y', "f:'q'", '<&>', '</style><script>', 'fill : "\\"";', 'é一', '\t;']
        n = rng.randint(0, 6)
        entries = [(rng.choice(names), rng.choice(decls)) for _ in range(n)]
        hdr = rng.choice(['# Legend:', '# Legend:', '# Legend: ', '  # Legend:\t', '# Legend:  '])
        body = eol.join('%s%s=%s{%s}%s' % (nm, rng.choice(['', ' ', '  ']), rng.choice(['', ' ', '\t']), d, rng.choice(['', '', ' ', ' \t'])) for nm, d in entries)
        tail = rng.choice(['', eol, eol + eol, eol + '  ' + eol])
        text = before.replace('\n', eol) + hdr + eol + body + tail
        it = Item(gen, {'main': Run(text, '', 'settings'), 'before': Run(before.replace('\n', eol), '', 'settings')},
                  {'text': text, 'entries': entries, 'kind': 'legend'})
        return it
    def tag_item(self, gen, text):
        return Item(gen, {'main': Run(text, '', 'settings')}, {'text': text, 'kind': 'tag'}, lambda t: self.tag_item(gen, t))
    def items(self, rng, tier):
        out = []
        n = 300 if tier == 'quick' else 5000
        for _ in range(n): out.append(self.legend_item(rng))
        tags = ['{a}', '{a,b}', '{big_1}', '{a}{b}', '{a} {b}', '{a}x', 'x{a}', '{a,}', '{}', '{a', '{a b}', '{1a}', '{é}', '{a,b,c}']
        for _ in range(n):
            k = rng.choice(['box', 'rbox', 'circle', 'nested', 'beside', 'outside', 'multi', 'siblings', 'titled', 'around', 'around'])
            tg = rng.choice(tags)
            if k == 'box':
                w = rng.randint(len(tg), 14)
                pad = rng.choice([0, 1, max(w - len(tg), 0)])        # at the left wall, one blank in, or flush against the right wall (F14)
                rows = gens.box(w, rng.randint(1, 3), '++++', '-', '|', [' ' * min(pad, w - len(tg)) + tg, rng.choice(['', 'txt'])])
            elif k == 'rbox': rows = gens.box(rng.randint(len(tg), 14), rng.randint(1, 3), rng.choice(["..''", ",.`'"]), '-', '|', [tg])
            elif k == 'circle': rows = ['    _.-\'\'\'\'\'\'-._', '  ,\'          `.', ' /     ' + tg.ljust(9)[:9] + '\\', '|                |', ' \\              /', '  `._        _.\'', '     `-....-\'']
            elif k == 'nested':
                rows = gens.box(16, 5)
                iw = rng.choice([8, max(len(tg[:8]), 1)])       # roomy, or the tag fills the inner box from wall to wall
                rows = gens.overlay(rows, gens.box(iw, 1, '++++', '-', '|', [tg[:8]]), 2, 1)
                rows = gens.overlay(rows, [rng.choice(tags)[:5]], 3, 5)
            elif k == 'siblings':
                # two or three inner boxes in one outer box, a tag in each (or only in the first)
                rows = gens.box(30, 5)
                for j in range(rng.randint(2, 3)):
                    t2 = rng.choice(['{a}', '{b}', '{c}', '']) if j else tg[:6]
                    rows = gens.overlay(rows, gens.box(6, 1, '++++', '-', '|', [t2]), 2 + 9 * j, rng.choice([1, 2]))
            elif k == 'titled':
                # a plain title directly in the outer box, before the tagged inner box in reading order
                rows = gens.box(20, 6)
                rows = gens.overlay(rows, [rng.choice(['Title', 'ab cd', 'x'])], 2, 1)
                rows = gens.overlay(rows, gens.box(8, 1, rng.choice(['++++', "..''"]), '-', '|', [tg[:8]]), rng.choice([2, 8]), 3)
            elif k == 'around':
                # a tag next to a shape but outside it: left or right of it on an interior row, above or below it within its columns;
                # also with a second (tagged or empty) box on the other side.  It stays text and names nothing.
                bw = rng.randint(3, 8); bh = rng.randint(1, 3); t2 = tg if len(tg) <= 6 else '{a}'
                box = gens.box(bw, bh, rng.choice(['++++', "..''"]), '-', '|', [rng.choice(['', '{z}'])[:bw]])
                side = rng.choice(['left', 'right', 'above', 'below'])
                if side == 'left': rows = [(' ' * (len(t2) + 1) + r) for r in box]; j = rng.randint(1, bh); rows[j] = t2 + ' ' + box[j]
                elif side == 'right': rows = list(box); j = rng.randint(1, bh); rows[j] = box[j] + ' ' + t2
                elif side == 'above': rows = [' ' * rng.randint(0, 2) + t2, ''] + box
                else: rows = box + ['', ' ' * rng.randint(0, 2) + t2]
                if rng.random() < 0.4 and side in ('left', 'right'):
                    other = gens.box(4, bh, '++++', '-', '|', [rng.choice(['', '{y}'])])
                    rows = [(o + '  ' + r) if side == 'right' else (r + '  ' + o) for r, o in zip(rows, other)]
            elif k == 'beside': rows = gens.box(12, 1, '++++', '-', '|', [tg + ' label'])
            elif k == 'outside': rows = gens.box(4, 1) + ['', tg]
            else: rows = gens.box(14, 3, '++++', '-', '|', [tg, 'hello', rng.choice(tags)])
            text = gens.place(rows, rng.choice([0, 0, 2]), rng.choice([0, 1]))
            if rng.random() < 0.3: text += '\n# Legend:\na = {fill:red}\nb = {stroke:blue}'
            out.append(self.tag_item('tag:' + k, text))
        for g, t in gens.g_shape(rng, n // 3):
            if g == 'shape:tagbox': out.append(self.tag_item(g, t))
        return out
    def item_from_json(self, j): return item_from_json(None, j)
    def oracle(self, it):
        r = it.runs['main']; root, _ = root_of(r)
        if root is None: return []
        out = []
        if it.meta.get('kind') == 'legend':
            rb, _ = root_of(it.runs['before'])
            if rb is None: return []
            if drawing(root) != drawing(rb): out.append('something from the legend header on is drawn (or the drawing before it changed)')
            if dict(root.attrs) != dict(rb.attrs): out.append('the legend changes the canvas')
            st = style_text(root); sb = style_text(rb)
            want = '\n'.join('.svgbob .%s{ %s }' % (n, d.replace('\r\n', '\n')) for n, d in it.meta['entries'])
            want = ''.join(c for c in want if not (ord(c) < 32 and c not in '\t\n\r') and c not in '￾￿')
            if st is None or sb is None: out.append('no style element')
            elif not st.startswith(sb.rstrip('\n')) and not st.startswith(sb): out.append('the built-in style sheet changed with the legend')
            elif st[len(sb):].replace('\r\n', '\n') != want and st[len(sb):].replace('\r\n', '\n').lstrip('\n') != want:
                out.append('legend entries %r give CSS %r, expected %r' % (it.meta['entries'], st[len(sb):], want))
            return out
        # tags
        d = svgtree.sections(r.impl.get('frags') or '')
        frs = d['A']
        texts_svg = [(e.get('x'), e.get('y'), e.text()) for e in root.walk() if e.tag == 'text']
        for i, f in enumerate(frs):
            if f['k'] != 'CT': continue
            m = TAG.match(f['text'])
            x, y = f['cell']
            anchor = (str(int(x) * 8 + 2), str(int(y) * 16 + 12))
            rendered = any(t[2] == f['text'] and F(t[0]) == F(anchor[0]) and F(t[1]) == F(anchor[1]) for t in texts_svg)
            holders = [g for j, g in enumerate(frs) if j != i and contains(frag_bounds(g), frag_bounds(f))]
            if m and holders:
                if rendered: out.append('tag %r at cell (%s,%s) lies inside an element but is rendered as text' % (f['text'], x, y))
                names = m.group(1).split(',')
                classes = [e.get('class', '') .split() for e in root.walk() if e.tag in ('rect', 'circle', 'line', 'path', 'polygon', 'text')]
                for nm in names:
                    if not any(nm in c for c in classes): out.append('tag %r: class %r was applied to no element' % (f['text'], nm))
                # the innermost rectangle around the tag is the one that gets the class
                rects_in = [g for g in holders if g['k'] == 'R']
                others = [g for g in holders if g['k'] != 'R']
                if rects_in and not others:
                    def area(g):
                        (x0, y0), (x1, y1) = frag_bounds(g); return (x1 - x0) * (y1 - y0)
                    inner = min(rects_in, key=area)
                    (x0, y0), (x1, y1) = frag_bounds(inner)
                    el = [e for e in root.walk() if e.tag == 'rect' and e.get('class') != 'backdrop'
                          and F(e.get('x')) * 5 == x0 and F(e.get('y')) * 5 == y0 and F(e.get('width')) * 5 == x1 - x0 and F(e.get('height')) * 5 == y1 - y0]
                    if len([g for g in rects_in if area(g) == area(inner)]) == 1 and el:
                        cls = (el[0].get('class') or '').split()
                        for nm in names:
                            if nm not in cls: out.append('tag %r at cell (%s,%s): class %r is not on the innermost rectangle around it (%s,%s %sx%s has %r)' % (
                                f['text'], x, y, nm, el[0].get('x'), el[0].get('y'), el[0].get('width'), el[0].get('height'), cls))
            elif m and not holders:
                if not rendered: out.append('tag %r at cell (%s,%s) lies inside no element but is not rendered as text' % (f['text'], x, y))
            elif not m:
                if not rendered and f['text'].strip('\x00') and not TAG.match(f['text']):
                    # ordinary text must be rendered (its escaped form is compared by expat-unescaped content)
                    cont = ''.join(c for c in f['text'] if c != '\x00' and not (ord(c) < 32 and c not in '\t\n\r') and c not in '￾￿')
                    if not any(t[2] == cont and F(t[0]) == F(anchor[0]) and F(t[1]) == F(anchor[1]) for t in texts_svg):
                        out.append('text %r at cell (%s,%s) is not rendered' % (f['text'], x, y))
        return out
    def nontrivial(self, it):
        return bool(it.meta.get('entries')) or '{' in it.meta.get('text', '')

PROP = C16()
