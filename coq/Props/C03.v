(** * C03 — Diagrams of - | + and labels render exactly the strokes the characters denote.
    Statements only; the sweep is in Theory/DashBarPlus.v (re-run on the regenerated table). *)
Require Import SB.Model.Base SB.Model.Geom SB.Model.Fragment SB.Model.Property SB.Model.FragBuf
  SB.Theory.DashBarPlus SB.Theory.LineMergeTheory SB.Model.Endorse SB.Model.Text SB.Theory.GridSweep.

(** [spec_atoms ch nb] is the specification transcribed from the property text: '-' spans its
    cell horizontally at mid-height; '|' spans it vertically at mid-width plus a half stub
    towards an adjacent '-'; '+' draws a half segment towards each neighbour that points at
    it ('-' or '+' to the left/right, '|' or '+' above/below) and nothing otherwise (it is then
    shown as text).  [cell_ok ch nb] says: the fragments the translated table emits for [ch] in
    neighbourhood [nb] are solid axis-parallel lines on the half-cell lattice inside the cell,
    and the points they stroke are exactly those of [spec_atoms ch nb].

    For every neighbourhood of the eight surrounding cells over {nothing, '-', '|', '+'} — a
    label character counts as nothing because it has no table entry — all three characters
    agree with the specification. *)
Theorem C03_table_matches_spec :
  forall nb : dir8 -> Z, (forall d, In (nb d) NB) ->
    cell_ok DASH nb = true /\ cell_ok BAR nb = true /\ cell_ok PLUS nb = true.
Proof. exact table_matches_spec. Qed.
Check C03_table_matches_spec :
  forall nb : dir8 -> Z, (forall d, In (nb d) NB) ->
    cell_ok DASH nb = true /\ cell_ok BAR nb = true /\ cell_ok PLUS nb = true.

(** label characters have no table entry: they never change a neighbour's strokes and are
    shown as text in their own cell (the model's [fragbuf_of_span] gives a cell without
    property its [cell_text_frag]) *)
Theorem C03_labels_have_no_entry :
  forall ch, property_of_char ch = None -> prop_of ch = empty_property.
Proof. intros ch H. unfold prop_of. rewrite H. destruct (ch =? 0); reflexivity. Qed.

(** merging keeps the stroked set: a run of collinear touching segments becomes the one
    segment from the first to the last point (C09), so the union of points is unchanged *)
Theorem C03_merging_keeps_the_run :
  forall (p0 : point) (dx dy : Z) (broken : bool),
    0 < dy \/ (dy = 0 /\ 0 < dx) ->
    forall n, (1 <= n)%nat ->
      SB.Model.Merge.merge_recursive fragment_merge (map FLine (segs_from p0 dx dy broken 0 n)) = Ok [FLine (hull p0 dx dy broken n)].
Proof. exact chain_merges_to_one. Qed.

(** The whole recognition on whole grids.  [grid_strokes_as_specified g]: the text stage of the model reads the grid written as text (rows joined by line
    feeds, blanks as spaces) as exactly the cells of the grid, and on those cells the recognition of
    the model (grouping into spans, the behaviour table, the three merge loops, contact groups, rectangle endorsement,
    the catalogue lookups and the re-reading of what they leave) succeeds, produces only solid lines on the half-cell
    lattice, plain unfilled rectangles and cell text, and the set of half-cell strokes of those lines and rectangle outlines
    is exactly the union over the cells of [spec_atoms] moved to the cell (a label counts as nothing for its neighbours).
    Proved for EVERY 2x2 grid over {blank, '-', '|', '+', a label} and every 4x1 and 1x4 grid over {blank, '-', '|', '+'};
    Props/C03Big.v (thorough tier and setup) adds every 3x2, 2x3, 5x1 and 1x5 grid.  Larger grids are decided by the
    correspondence and the oracle of this check, which compares exact stroke sets. *)
Theorem C03_small_grids_whole_recognition :
  forall g, in_shape WITH_LABEL 2 2 g \/ in_shape DRAW 4 1 g \/ in_shape DRAW 1 4 g -> grid_strokes_as_specified g.
Proof. exact small_grids_as_specified. Qed.
Check C03_small_grids_whole_recognition :
  forall g, in_shape WITH_LABEL 2 2 g \/ in_shape DRAW 4 1 g \/ in_shape DRAW 1 4 g ->
    exists acc groups got, cellbuffer_from (text_of_grid g) = Ok (CellBuffer (grid_cells g) [] [])
      /\ endorse_cells (grid_cells g) = Ok (acc, groups)
      /\ all_strokes (map fs_frag acc ++ flat_map (map fs_frag) groups) = Some got
      /\ same_atoms got (spec_of_grid g) = true.
Example C03_grid_nonvacuous : in_shape WITH_LABEL 2 2 [[PLUS; DASH]; [BAR; 97]] /\ spec_of_grid [[PLUS; DASH]; [BAR; 97]] <> [].
Proof. split; [unfold in_shape; split; [reflexivity|]; repeat constructor; cbn; tauto | vm_compute; discriminate]. Qed.

Example C03_nonvacuous : cell_ok PLUS (fun d => match d with DLeft => DASH | DBottom => BAR | _ => 0 end) = true.
Proof. vm_compute. reflexivity. Qed.
