(** * C06 — Moving a drawing only translates its rendering.
    Statements only; proofs in Theory/Shift{Theory,Frag,Buf,Endorse,Text,Doc}.v. *)
Require Import SB.Model.Base SB.Model.Unicode SB.Model.Geom SB.Model.Fragment SB.Model.Text SB.Model.FragBuf SB.Model.Endorse
  SB.Model.Svg SB.Model.Lib SB.Theory.SwitchTheory SB.Theory.ShiftTheory SB.Theory.ShiftFrag SB.Theory.ShiftBuf
  SB.Theory.ShiftEndorse SB.Theory.ShiftText SB.Theory.ShiftDoc.
From Coq Require Import QArith String.
From Coq Require Import List.
Import ListNotations.
#[global] Open Scope Z_scope.

(** [shift_text k n s]: [n] line feeds in front of the text and [k] spaces in front of every
    line.  [tr_node dx dy]: adds [dx] to every x coordinate ([x x1 x2 cx], path and polygon
    points) and [dy] to every y coordinate, and leaves lengths ([width height r rx]), names,
    order, counts, classes and text alone.  [qadd] is addition of (reduced) rationals.

    For every input without a legend header (before and after the move) whose cell map is
    not empty, every settings value and every offset: the moved document has the canvas
    enlarged by (k, n) cells, the same style / defs / backdrop switches, and exactly the
    drawing nodes of the original translated by (k * scale, 2 * n * scale). *)
Theorem C06_translation :
  forall (k n : nat) (s : list Z) (st : settings),
    find_sub LEGEND_MARK s [] = None -> find_sub LEGEND_MARK (shift_text k n s) [] = None ->
    (forall cb, cellbuffer_from s = Ok cb -> cb_cells cb <> []) ->
    let dx := (inject_Z (Z.of_nat k) * scale st)%Q in
    let dy := (inject_Z (Z.of_nat n) * scale st * 2)%Q in
    exists w h legend body,
      doc s st = Ok (Elem (zs "svg") (root_attrs w h) (switch_nodes st legend w h ++ body))
      /\ doc (shift_text k n s) st =
         Ok (Elem (zs "svg") (root_attrs (qadd w dx) (qadd h dy))
               (switch_nodes st legend (qadd w dx) (qadd h dy) ++ map (tr_node dx dy) body)).
Proof. exact doc_shift. Qed.
Check C06_translation :
  forall (k n : nat) (s : list Z) (st : settings),
    find_sub LEGEND_MARK s [] = None -> find_sub LEGEND_MARK (shift_text k n s) [] = None ->
    (forall cb, cellbuffer_from s = Ok cb -> cb_cells cb <> []) ->
    let dx := (inject_Z (Z.of_nat k) * scale st)%Q in
    let dy := (inject_Z (Z.of_nat n) * scale st * 2)%Q in
    exists w h legend body,
      doc s st = Ok (Elem (zs "svg") (root_attrs w h) (switch_nodes st legend w h ++ body))
      /\ doc (shift_text k n s) st =
         Ok (Elem (zs "svg") (root_attrs (qadd w dx) (qadd h dy))
               (switch_nodes st legend (qadd w dx) (qadd h dy) ++ map (tr_node dx dy) body)).

(** The stages behind it, each for all inputs. *)
(** text: the cell map and the quoted texts move by (k, n) *)
Theorem C06_cell_buffer_moves :
  forall k n s css,
    cellbuffer_of_text (shift_text k n s) css =
    match cellbuffer_of_text s css with
    | Ok cb => Ok (CellBuffer (shift_cb_cells (Z.of_nat k) (Z.of_nat n) (cb_cells cb)) css
                              (shift_cb_texts (Z.of_nat k) (Z.of_nat n) (cb_escaped cb)))
    | Err e => Err e
    end.
Proof. exact cellbuffer_of_text_shift. Qed.

(** recognition: grouping into spans, the fragment buffer, merging, contact groups, rectangle,
    circle and arc endorsement all commute with the move (any integer offset), order included *)
Theorem C06_fragments_move :
  forall (k n : Z) cells,
    endorse_cells (map (shift_cc k n) cells) = map_res (shift_ec k n) (endorse_cells cells).
Proof. exact endorse_cells_shift. Qed.

(** an empty drawing has the constant minimal canvas (the exception named in the property) *)
Theorem C06_empty_drawing_constant :
  forall st, canvas_size st [] = (Qred (scale st * 2), Qred (scale st * 2 * 2)).
Proof. intros st. reflexivity. Qed.

Example C06_nonvacuous :
  find_sub LEGEND_MARK (zs "+--+") [] = None
  /\ find_sub LEGEND_MARK (shift_text 3 2 (zs "+--+")) [] = None
  /\ match cellbuffer_from (zs "+--+") with Ok cb => negb (Nat.eqb (List.length (cb_cells cb)) 0) | _ => false end = true.
Proof. vm_compute. repeat split; reflexivity. Qed.
