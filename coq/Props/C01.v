(** * C01 — Conversion is total: any text yields an SVG, never a panic or a hang.
    Statements only; proofs are in Theory/{MergeTheory,TextTotal,EndorseTotal,Total}.v.

    In the model every [expect], [unwrap], slice, index and [panic!] of the conversion path is
    an explicit [Err (Panic site)] and every loop runs on explicit fuel ([Err OutOfFuel]).
    The theorems say that no input and no settings value ever produces an [Err]. *)
Require Import SB.Model.Base SB.Model.Merge SB.Model.Text SB.Model.Svg SB.Model.Lib
  SB.Theory.MergeTheory SB.Theory.TextTotal SB.Theory.EndorseTotal SB.Theory.Total SB.Theory.Cost.
From Coq Require Import QArith String.
From Coq Require Import List.
Import ListNotations.
#[global] Open Scope Z_scope.

(** the five public entry points, for every list of scalars and every settings value *)
Theorem C01_to_svg_total : forall input, exists out, to_svg input = Ok out.
Proof. exact to_svg_ok. Qed.
Check C01_to_svg_total : forall input, exists out, to_svg input = Ok out.

Theorem C01_to_svg_string_pretty_total : forall input, exists out, to_svg_string_pretty input = Ok out.
Proof. exact to_svg_string_pretty_ok. Qed.
Check C01_to_svg_string_pretty_total : forall input, exists out, to_svg_string_pretty input = Ok out.

Theorem C01_to_svg_string_compressed_total : forall input, exists out, to_svg_string_compressed input = Ok out.
Proof. exact to_svg_string_compressed_ok. Qed.
Check C01_to_svg_string_compressed_total : forall input, exists out, to_svg_string_compressed input = Ok out.

Theorem C01_to_svg_with_settings_total : forall input st, exists out, to_svg_with_settings input st = Ok out.
Proof. exact to_svg_with_settings_ok. Qed.
Check C01_to_svg_with_settings_total : forall input st, exists out, to_svg_with_settings input st = Ok out.

Theorem C01_to_svg_with_override_size_total :
  forall input st w h, exists out, to_svg_with_override_size input st w h = Ok out.
Proof. exact to_svg_with_override_size_ok. Qed.
Check C01_to_svg_with_override_size_total :
  forall input st w h, exists out, to_svg_with_override_size input st w h = Ok out.

(** termination of the three fixpoint loops ([merge_recursive] for spans, fragments, contact
    groups, and the enclosure pass): for every [merge] function and every list, fuel
    [S (length items)] suffices, i.e. at most [length items + 1] passes are made, each pass
    attempting at most [length items] merges per item *)
Theorem C01_merge_loop_terminates :
  forall (A : Type) (merge : A -> A -> option A) (items : list A),
    exists r, merge_recursive merge items = Ok r /\ (length r <= length items)%nat.
Proof.
  intros A merge items. unfold merge_recursive.
  destruct (merge_rec_fuel merge items (S (length items))) as [r [E [_ L]]]; [lia|]. rewrite E. eauto.
Qed.
Check C01_merge_loop_terminates :
  forall (A : Type) (merge : A -> A -> option A) (items : list A),
    exists r, merge_recursive merge items = Ok r /\ (length r <= length items)%nat.

(** ... and the number of applications of [merge] is polynomial: counting them along the very
    definitions of the loop ([merge_rec_c] returns the loop's result together with the count),
    a list of [n] items costs at most [(n + 1) * n^2] applications, for every [merge] function *)
Theorem C01_merge_loop_cost :
  forall (A : Type) (merge : A -> A -> option A) (items : list A),
    fst (merge_rec_c merge (S (length items)) items) = merge_rec merge (S (length items)) items
    /\ (snd (merge_rec_c merge (S (length items)) items) <= S (length items) * (length items * length items))%nat.
Proof. intros A merge items. exact (merge_recursive_cost merge items). Qed.
Check C01_merge_loop_cost :
  forall (A : Type) (merge : A -> A -> option A) (items : list A),
    fst (merge_rec_c merge (S (length items)) items) = merge_rec merge (S (length items)) items
    /\ (snd (merge_rec_c merge (S (length items)) items) <= S (length items) * (length items * length items))%nat.

(** the quoted-segment parser returns positions that make every slice of [escape_line] legal *)
Theorem C01_escape_positions_in_range :
  forall row, exists locs, line_parse row = Ok locs /\ ordered 0 (length row) locs.
Proof. exact line_parse_ok. Qed.

(** non-vacuity: unbalanced quotes, braces, a legend fragment and a control character *)
Example C01_nonvacuous :
  match to_svg (zs "+--""a\""b"" ""  {x  # Legend: a = {"%string ++ [1; 10; 34]) with Ok s => (100 <=? Z.of_nat (List.length s)) | Err _ => false end = true.
Proof. vm_compute. reflexivity. Qed.
