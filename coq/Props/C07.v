(** * C07 — Conversion is deterministic and stateless.
    Statements only; proofs in Theory/OrderTheory.v.

    The one hash map that the conversion iterates is the [PropertyBuffer]
    ([HashMap<Cell, &Property>], anchored); its iteration order is unspecified and differs
    from process to process.  The model takes that order as a parameter and the theorem
    says the parameter does not matter. *)
Require Import SB.Model.Base SB.Model.Geom SB.Model.Fragment SB.Model.Merge SB.Model.Property SB.Model.FragBuf
  SB.Model.Lib SB.Theory.OrderTheory.
From Coq Require Import Permutation.

(** [From<Span> for FragmentBuffer] with the hash map enumerated by [enum] *)
Definition fragbuf_of_span_enum (enum : propbuf -> propbuf) (s : span) : res fragbuf :=
  let pb := propbuf_of_span s in
  do fb <- fragbuf_of_entries pb (enum pb);
  Ok (fold_left (fun fb e =>
                   match pb_get pb (fst e) with
                   | Some _ => fb
                   | None =>
                       match unicode_fragments_of (snd e) with
                       | Some fs => add_fragments_to_cell (fst e) (snd e) fs fb
                       | None => add_fragment_to_cell (fst e) (snd e) (cell_text_frag (snd e)) fb
                       end
                   end) s fb).

(** (a) For every enumeration of the hash map (any permutation of its entries, chosen
    freshly for every buffer), the fragment buffer of every span is the same. *)
Theorem C07_hash_order_irrelevant :
  forall (enum : propbuf -> propbuf),
    (forall pb, Permutation (pb_entries pb) (enum pb)) ->
    forall s, fragbuf_of_span_enum enum s = fragbuf_of_span s.
Proof.
  intros enum H s. unfold fragbuf_of_span_enum, fragbuf_of_span. cbv zeta.
  rewrite (fragbuf_of_entries_order_independent (propbuf_of_span s) (enum (propbuf_of_span s)) (H _)). reflexivity.
Qed.
Check C07_hash_order_irrelevant :
  forall (enum : propbuf -> propbuf),
    (forall pb, Permutation (pb_entries pb) (enum pb)) ->
    forall s, fragbuf_of_span_enum enum s = fragbuf_of_span s.

(** the underlying fact: inserting the entries into the sorted map commutes *)
Theorem C07_insertion_order_irrelevant :
  forall pb order, Permutation (pb_entries pb) order ->
    fragbuf_of_entries pb order = fragbuf_of_entries pb (pb_entries pb).
Proof. exact fragbuf_of_entries_order_independent. Qed.

(** (b) The conversion is a function of its two arguments only: there is no state argument,
    the tables are closed terms.  Two calls with equal arguments give equal results whatever
    happened in between. *)
Theorem C07_stateless :
  forall (history : list (list Z * settings)) input st,
    let before := doc input st in
    let _ := map (fun c => doc (fst c) (snd c)) history in
    doc input st = before.
Proof. intros. reflexivity. Qed.

Example C07_nonvacuous :
  match fragbuf_of_span [(C 0 0, 43); (C 1 0, 45); (C 2 0, 43); (C 1 1, 124)] with Ok fb => (3 <=? Z.of_nat (List.length fb)) | _ => false end = true.
Proof. vm_compute. reflexivity. Qed.
