(** * C20 — The HTTP server returns the library's conversion and survives any request.
    Statements only; model in Model/Server.v, proofs in Theory/Utf8.v and Theory/Total.v. *)
Require Import SB.Model.Base SB.Model.Svg SB.Model.Lib SB.Model.Server SB.Theory.Utf8 SB.Theory.Total SB.Gen.Server.
From Coq Require Import List.
Import ListNotations.
#[global] Open Scope Z_scope.

(** A POST of the UTF-8 encoding of any text returns status 200 and the UTF-8 encoding of
    exactly the library's default conversion of that text. *)
Theorem C20_post_returns_the_conversion :
  forall s, Forall (fun c => is_scalar c = true) s ->
    exists svg, to_svg s = Ok svg /\ handle POST true (utf8_encode s) = (200, utf8_encode svg).
Proof.
  intros s H. destruct (to_svg_ok s) as [svg E]. exists svg. split; [exact E|].
  unfold handle. cbn [negb]. rewrite (decode_encode s H), E. reflexivity.
Qed.
Check C20_post_returns_the_conversion :
  forall s, Forall (fun c => is_scalar c = true) s ->
    exists svg, to_svg s = Ok svg /\ handle POST true (utf8_encode s) = (200, utf8_encode svg).

(** A body that is not well-formed UTF-8 returns 400; every POST is answered with 200 or 400
    (the conversion cannot fail, C01). *)
Theorem C20_bad_utf8_is_400 : forall body, utf8_decode body = None -> handle POST true body = (400, []).
Proof. intros body H. unfold handle. cbn [negb]. rewrite H. reflexivity. Qed.
Theorem C20_every_post_is_answered :
  forall body, fst (handle POST true body) = 200 \/ fst (handle POST true body) = 400.
Proof.
  intros body. unfold handle. cbn [negb]. destruct (utf8_decode body) as [s|]; [|right; reflexivity].
  destruct (to_svg_ok s) as [svg E]. rewrite E. left; reflexivity.
Qed.

(** GET returns the package name and version (regenerated from Cargo.toml on every run). *)
Theorem C20_get_says_hello : handle GET true [] = (200, server_hello).
Proof. reflexivity. Qed.

(** The answer to a request does not depend on the requests before or after it: serving a
    sequence is answering each request on its own. *)
Theorem C20_answers_do_not_depend_on_history :
  forall before after r,
    nth_error (serve (before ++ r :: after)) (length before) = Some (handle (fst (fst r)) (snd (fst r)) (snd r)).
Proof.
  intros before after r. unfold serve. rewrite map_app. cbn [map].
  rewrite nth_error_app2 by (rewrite map_length; lia). rewrite map_length, Nat.sub_diag. reflexivity.
Qed.

(** decoding inverts encoding on every list of scalar values *)
Theorem C20_utf8_round_trip : forall s, Forall (fun c => is_scalar c = true) s -> utf8_decode (utf8_encode s) = Some s.
Proof. exact decode_encode. Qed.

Example C20_nonvacuous : utf8_decode [43; 195; 169; 228; 184; 128; 240; 159; 152; 128] = Some [43; 233; 19968; 128512] /\ utf8_decode [237; 160; 128] = None /\ utf8_decode [192; 175] = None.
Proof. vm_compute. repeat split; reflexivity. Qed.
