(** * C18 — Switches and entry points are consistent and leave geometry alone.
    Statements only; proofs in Theory/SwitchTheory.v, Theory/Xml.v and Theory/DocSafe.v. *)
Require Import SB.Model.Base SB.Model.Geom SB.Model.Text SB.Model.Svg SB.Model.Lib SB.Theory.SwitchTheory SB.Theory.Xml SB.Theory.DocSafe.
From Coq Require Import QArith String.
From Coq Require Import List.
Import ListNotations.
#[global] Open Scope Z_scope.

(** Shape of every document: the root carries xmlns, width, height, class; its children
    are [style]? [defs]? [backdrop]? (each present iff its switch is on, in this order)
    followed by the drawing nodes, and the drawing nodes are a function of the fragments
    and the scale alone. *)
Theorem C18_document_shape :
  forall frags groups legend st w h,
    doc_emit frags groups legend st w h =
    match drawing_nodes (scale st) frags groups with
    | Ok body => Ok (Elem (zs "svg") (root_attrs w h) (switch_nodes st legend w h ++ body))
    | Err e => Err e
    end.
Proof. exact doc_emit_shape. Qed.
Check C18_document_shape :
  forall frags groups legend st w h,
    doc_emit frags groups legend st w h =
    match drawing_nodes (scale st) frags groups with
    | Ok body => Ok (Elem (zs "svg") (root_attrs w h) (switch_nodes st legend w h ++ body))
    | Err e => Err e
    end.

(** Two settings values with the same scale produce the same drawing nodes: each switch adds
    or removes exactly its own element, and colours, fonts, font size and stroke width do not
    reach the geometry. *)
Theorem C18_switches_leave_geometry_alone :
  forall frags groups legend st1 st2 w1 h1 w2 h2,
    scale st1 = scale st2 ->
    exists body,
      doc_emit frags groups legend st1 w1 h1 = Ok (Elem (zs "svg") (root_attrs w1 h1) (switch_nodes st1 legend w1 h1 ++ body))
      /\ doc_emit frags groups legend st2 w2 h2 = Ok (Elem (zs "svg") (root_attrs w2 h2) (switch_nodes st2 legend w2 h2 ++ body)).
Proof. exact doc_emit_same_drawing. Qed.

(** Colour, font and stroke settings occur only inside the style element. *)
Theorem C18_presentation_settings_only_in_style :
  forall frags groups legend a b w h,
    same_but_style a b ->
    exists body,
      doc_emit frags groups legend a w h =
        Ok (Elem (zs "svg") (root_attrs w h)
              ((if include_styles a then [style_node a legend] else [])
               ++ (if include_defs a then [defs_node] else []) ++ (if include_backdrop a then [backdrop_node w h] else []) ++ body))
      /\ doc_emit frags groups legend b w h =
        Ok (Elem (zs "svg") (root_attrs w h)
              ((if include_styles a then [style_node b legend] else [])
               ++ (if include_defs a then [defs_node] else []) ++ (if include_backdrop a then [backdrop_node w h] else []) ++ body)).
Proof. exact doc_emit_style_only. Qed.

(** The override entry point changes only the size of the root and of the backdrop. *)
Theorem C18_override_changes_only_the_size :
  forall cb st w h w' h',
    match doc_of cb st w h, doc_of cb st w' h' with
    | Ok (Elem t1 a1 k1), Ok (Elem t2 a2 k2) =>
        exists body, t1 = t2 /\ a1 = root_attrs w h /\ a2 = root_attrs w' h'
                     /\ k1 = switch_nodes st (legend_css (cb_css cb)) w h ++ body
                     /\ k2 = switch_nodes st (legend_css (cb_css cb)) w' h' ++ body
    | _, _ => False
    end.
Proof. exact doc_of_override. Qed.

(** [to_svg], [to_svg_string_pretty] and [to_svg_with_settings] with the default settings
    are one function; the compressed entry point renders the same document. *)
Theorem C18_entry_points_agree :
  forall input,
    to_svg input = to_svg_string_pretty input
    /\ to_svg_string_pretty input = to_svg_with_settings input default_settings
    /\ to_svg_string_compressed input =
       match doc input default_settings with Ok d => Ok (render true 0 d) | Err e => Err e end
    /\ to_svg_string_pretty input =
       match doc input default_settings with Ok d => Ok (render false 0 d) | Err e => Err e end.
Proof.
  intros input. repeat split; reflexivity.
Qed.

(** "the compressed form is the same document without inter-element whitespace": for every
    input both outputs are serialisations (XML 1.0 grammar of Theory/Xml.v) of trees that differ
    only by text children that are empty or a line feed followed by blanks, i.e. by what the
    pretty printer writes between elements; every other text, white space included, is in both *)
Theorem C18_compressed_is_the_same_document :
  forall input p c,
    to_svg_string_pretty input = Ok p -> to_svg_string_compressed input = Ok c ->
    exists xp xc, ser xp p /\ ser xc c /\ same_doc xp xc.
Proof.
  intros input p c Hp Hc. unfold to_svg_string_pretty, to_svg_string_compressed, to_svg_with_settings in *.
  destruct (doc input default_settings) as [d|] eqn:D; cbn [bind] in *; [|discriminate].
  inversion Hp; subst. inversion Hc; subst. apply render_same_doc. eapply doc_safe; eauto.
Qed.
Check C18_compressed_is_the_same_document :
  forall input p c,
    to_svg_string_pretty input = Ok p -> to_svg_string_compressed input = Ok c ->
    exists xp xc, ser xp p /\ ser xc c /\ same_doc xp xc.

(** the relation is not loose: a text element whose content is one blank is not the same
    document as an empty one (the quoted text of one blank must survive compression) *)
Example C18_same_doc_keeps_blank_text : forall t, ~ same_doc (XElem t [] [XText [32]]) (XElem t [] []).
Proof.
  intros t H. inversion H as [|? ? ? ? K]; subst. inversion K as [| | v r1 r2 W _ |]; subst. inversion W.
Qed.

Example C18_nonvacuous :
  match doc (zs "+--+"%string) default_settings with Ok (Elem _ _ kids) => (4 <=? Z.of_nat (List.length kids)) | _ => false end = true.
Proof. vm_compute. reflexivity. Qed.
