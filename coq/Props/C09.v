(** * C09 — Straight runs become one line: no two output lines are collinear and touching.
    Statements only; proofs in Theory/MergeTheory.v, Theory/LineMergeTheory.v and Theory/RunSweep.v. *)
Require Import SB.Model.Base SB.Model.Geom SB.Model.Fragment SB.Model.Merge SB.Model.FragBuf
  SB.Theory.MergeTheory SB.Theory.LineMergeTheory SB.Model.Endorse SB.Theory.ShiftTheory SB.Theory.ShiftFrag
  SB.Theory.SepTheory SB.Theory.SepOrder SB.Theory.RunSweep.

(** Among the merged fragments of a span (the fixpoint of the merge loop) no line can merge
    with a later line: they are never both touching and collinear.  For every span and every
    number of fragments. *)
Theorem C09_no_two_mergeable_lines :
  forall fb m, merge_fragment_spans fb = Ok m ->
    forall i j sa la sb lb, (i < j)%nat ->
      nth_error m i = Some (FS sa (FLine la)) -> nth_error m j = Some (FS sb (FLine lb)) ->
      line_can_merge la lb = false.
Proof. exact merged_lines_unmergeable. Qed.
Check C09_no_two_mergeable_lines :
  forall fb m, merge_fragment_spans fb = Ok m ->
    forall i j sa la sb lb, (i < j)%nat ->
      nth_error m i = Some (FS sa (FLine la)) -> nth_error m j = Some (FS sb (FLine lb)) ->
      line_can_merge la lb = false.

(** what "can merge" means: touching, and both end points of the second on the line through
    the first (integer cross products; a non-zero cross product of grid points is at least 50) *)
Theorem C09_can_merge_means_collinear_and_touching :
  forall a b, line_can_merge a b = true <->
    line_is_touching a b = true
    /\ Z.abs (cross (lstart a) (lend a) (lstart b)) < 32 /\ Z.abs (cross (lstart a) (lend a) (lend b)) < 32.
Proof. exact line_can_merge_spec. Qed.

(** A run of [n >= 1] unit segments along any direction (horizontal, vertical, either
    diagonal: [dy > 0], or [dy = 0] and [dx > 0]), given in order, merges to the single line
    from the first point to the last, for every [n], every start point and either dash style. *)
Theorem C09_run_of_any_length_is_one_line :
  forall (p0 : point) (dx dy : Z) (broken : bool),
    0 < dy \/ (dy = 0 /\ 0 < dx) ->
    forall n, (1 <= n)%nat ->
      merge_recursive fragment_merge (map FLine (segs_from p0 dx dy broken 0 n)) = Ok [FLine (hull p0 dx dy broken n)].
Proof. exact chain_merges_to_one. Qed.
Check C09_run_of_any_length_is_one_line :
  forall (p0 : point) (dx dy : Z) (broken : bool),
    0 < dy \/ (dy = 0 /\ 0 < dx) ->
    forall n, (1 <= n)%nat ->
      merge_recursive fragment_merge (map FLine (segs_from p0 dx dy broken 0 n)) = Ok [FLine (hull p0 dx dy broken n)].

(** a dashed piece anywhere makes the merged line dashed *)
Theorem C09_dashed_if_any_part_dashed :
  forall a b c, line_merge a b = Some c -> lbroken c = lbroken a || lbroken b.
Proof.
  intros a b c. unfold line_merge. destruct (line_can_merge a b); [|discriminate]. intros H; inversion H; subst.
  unfold mk_line. destruct (is_lt _); reflexivity.
Qed.

(** From the characters: a straight run of 1..40 cells of - _ ~ = | : ! \ / or the box-drawing
    bars (':' and '!' from 2 cells on), through the whole recognition of the model, is exactly
    one line spanning the run (two parallel ones for '='), dashed for ~ : !, and nothing else;
    finite sweep over the regenerated tables, the bound is in the statement. *)
Theorem C09_runs_from_characters :
  forall k L, In k kinds -> (rmin k <= L <= 40)%nat ->
    exists acc, endorse_cells (run_cells k L) = Ok (acc, []) /\ map fs_frag acc = run_lines k L.
Proof. exact run_recognised. Qed.
Check C09_runs_from_characters :
  forall k L, In k kinds -> (rmin k <= L <= 40)%nat ->
    exists acc, endorse_cells (run_cells k L) = Ok (acc, []) /\ map fs_frag acc = run_lines k L.
(** ... anywhere, next to anything that does not touch the run *)
Theorem C09_runs_anywhere_in_context :
  forall k L (dx dy : Z) (inA : cell -> bool) cells acc groups,
    In k kinds -> (rmin k <= L <= 40)%nat ->
    separated inA cells -> filter (fun e => inA (fst e)) cells = map (shift_cc dx dy) (run_cells k L) ->
    endorse_cells cells = Ok (acc, groups) ->
    map fs_frag (filter (fsside inA) acc) = map (shift_frag dx dy) (run_lines k L) /\ filter (cside inA) groups = [].
Proof. exact run_recognised_in_context. Qed.

(** Longer runs through the tables and lines of different groups of cells are decided by the
    correspondence and the oracle of this check. *)
Example C09_nonvacuous :
  merge_recursive fragment_merge (map FLine (segs_from (P 0 40) 40 0 false 0 5)) = Ok [FLine (Line (P 0 40) (P 200 40) false)].
Proof. vm_compute. reflexivity. Qed.
