(** * C08 — Input can never inject markup.
    Statements only; proofs in Theory/Xml.v and Theory/DocSafe.v. *)
Require Import SB.Model.Base SB.Model.Unicode SB.Model.Geom SB.Model.Text SB.Model.Tree SB.Model.Svg SB.Model.Lib SB.Theory.Xml SB.Theory.DocSafe.
From Coq Require Import String.
From Coq Require Import List.
Import ListNotations.
Local Open Scope string_scope.
Local Open Scope list_scope.
Local Open Scope Z_scope.

(** Whatever the input and the settings strings are, the rendered document is a serialisation
    of a tree whose elements, attribute names and nesting are exactly those of the tree svgbob
    built ([xshapes] = [nshapes]): a conforming reader sees svgbob's own structure, and the
    input can only have ended up in character data or attribute values. *)
Theorem C08_structure_is_svgbobs_own :
  forall input st d (compressed : bool), doc input st = Ok d ->
    exists x, ser x (render compressed 0 d) /\ xshapes [x] = nshapes [d].
Proof. intros input st d c H. apply render_is_xml. eapply doc_safe; eauto. Qed.
Check C08_structure_is_svgbobs_own :
  forall input st d (compressed : bool), doc input st = Ok d ->
    exists x, ser x (render compressed 0 d) /\ xshapes [x] = nshapes [d].

(** Class tokens are the only attribute content taken from the input; each is an identifier,
    and no identifier character is a quote, [<], [&] or a character XML cannot represent —
    for every scalar value (the identifier test looks at the low byte only). *)
Theorem C08_class_tokens_are_identifiers : forall content, Forall ident_ok (as_css_tag content).
Proof. exact as_css_tag_ok. Qed.
Theorem C08_identifier_characters_are_harmless : forall c, alphanum_or_underscore c = true -> att_ok c = true.
Proof. exact alnum_att. Qed.

(** Character data taken from the input (text elements, legend declarations and settings
    strings in the style element) is escaped: it is read back as text, never as markup. *)
Theorem C08_character_data_is_escaped : forall s, exists v, chars_ref text_ok (escape_html_text s) v.
Proof. intros s. eexists. apply escape_round_trip. Qed.

Example C08_nonvacuous : as_css_tag (zs "{a,b_1}") = [zs "a"; zs "b_1"].
Proof. vm_compute. reflexivity. Qed.
