(** * C10 — Separated sub-diagrams render independently of each other.
    Statements only; proofs in Theory/MergeTheory.v (M3), Theory/SepTheory.v, Theory/TreeSep.v
    Theory/PipeInv.v, Theory/SepOrder.v and Theory/Shift*.v. *)
Require Import SB.Model.Base SB.Model.Unicode SB.Model.Geom SB.Model.Merge SB.Model.FragBuf SB.Model.Endorse SB.Model.Tree
  SB.Model.Svg SB.Model.Lib
  SB.Theory.MergeTheory SB.Theory.ShiftTheory SB.Theory.ShiftBuf SB.Theory.ShiftEndorse SB.Theory.SepTheory SB.Theory.TreeSep
  SB.Theory.PipeInv SB.Theory.SepOrder SB.Theory.ShiftText SB.Theory.Juxta SB.Model.Text
  SB.Theory.ShiftDoc SB.Theory.SwitchTheory SB.Theory.StackDoc SB.Theory.Parts SB.Theory.SideDoc.
From Coq Require Import Permutation QArith.
#[local] Open Scope Z_scope.

(** M3, one pass: if a predicate splits the items into two classes that never merge with each
    other and merging stays inside a class, a pass of the merge loop over the mixed list,
    restricted to one class, is the pass over that class alone: items, merged contents, order. *)
Theorem C10_pass_commutes_with_restriction :
  forall (A : Type) (merge : A -> A -> option A) (P : A -> bool),
    (forall a b, P a <> P b -> merge a b = None) ->
    (forall a b c, merge a b = Some c -> P c = P a) ->
    forall l, filter P (second_pass merge l) = second_pass merge (filter P l).
Proof. exact @second_pass_filter. Qed.
Check C10_pass_commutes_with_restriction :
  forall (A : Type) (merge : A -> A -> option A) (P : A -> bool),
    (forall a b, P a <> P b -> merge a b = None) ->
    (forall a b c, merge a b = Some c -> P c = P a) ->
    forall l, filter P (second_pass merge l) = second_pass merge (filter P l).

(** M3, the whole loop, relative to an invariant kept by merging: the result for one class is
    the result for the whole list restricted to that class.  The loop for the part may stop
    after a different number of passes than the loop for the whole; both stop at the same list. *)
Theorem C10_loop_commutes_with_restriction :
  forall (A : Type) (merge : A -> A -> option A) (P : A -> bool) (I : A -> Prop),
    (forall a b c, merge a b = Some c -> I a -> I b -> I c) ->
    (forall a b, I a -> I b -> P a <> P b -> merge a b = None) ->
    (forall a b c, I a -> I b -> merge a b = Some c -> P c = P a) ->
    forall l, Forall I l ->
      merge_recursive merge (filter P l) = map_res (filter P) (merge_recursive merge l).
Proof. intros A merge P I H1 H2 H3 l F. rewrite (merge_recursive_filter merge P I H1 H2 H3 l F). reflexivity. Qed.
Check C10_loop_commutes_with_restriction :
  forall (A : Type) (merge : A -> A -> option A) (P : A -> bool) (I : A -> Prop),
    (forall a b c, merge a b = Some c -> I a -> I b -> I c) ->
    (forall a b, I a -> I b -> P a <> P b -> merge a b = None) ->
    (forall a b c, I a -> I b -> merge a b = Some c -> P c = P a) ->
    forall l, Forall I l ->
      merge_recursive merge (filter P l) = map_res (filter P) (merge_recursive merge l).

(** spans whose cells are not adjacent never merge: the instance for the grouping of cells *)
Theorem C10_non_adjacent_spans_do_not_merge :
  forall a b : span, span_can_merge a b = false -> span_merge a b = None.
Proof. intros a b H. unfold span_merge. rewrite H. reflexivity. Qed.

(** a blank column (or row) between two parts separates them: no cell on one side of it is
    adjacent to a cell on the other side *)
Theorem C10_a_blank_column_separates :
  forall cells g, (forall e, In e cells -> cx (fst e) <> g) -> separated (fun c => cx c <? g) cells.
Proof. exact gap_column_separates. Qed.
Theorem C10_a_blank_row_separates :
  forall cells g, (forall e, In e cells -> cy (fst e) <> g) -> separated (fun c => cy c <? g) cells.
Proof. exact gap_row_separates. Qed.

(** the groups of cells of one part of a separated drawing are exactly the groups of the whole
    drawing that lie in that part: same cells in each, same order; nothing of the other part
    leaks in and no group straddles the two *)
Theorem C10_groups_of_a_part :
  forall (inA : cell -> bool) cells, separated inA cells ->
    spans_of_cells (filter (fun e => inA (fst e)) cells) = map_res (filter (side inA)) (spans_of_cells cells).
Proof. exact spans_of_side. Qed.
Check C10_groups_of_a_part :
  forall (inA : cell -> bool) cells, separated inA cells ->
    spans_of_cells (filter (fun e => inA (fst e)) cells) = map_res (filter (side inA)) (spans_of_cells cells).

(** recognition: the fragments accepted for the whole drawing, and its contact groups, are
    those accepted for the two parts taken alone, as multisets *)
Theorem C10_parts_are_recognised_apart :
  forall (inA : cell -> bool) cells acc groups, separated inA cells ->
    endorse_cells cells = Ok (acc, groups) ->
    exists accA gA accB gB,
      endorse_cells (filter (fun e => inA (fst e)) cells) = Ok (accA, gA) /\
      endorse_cells (filter (fun e => negb (inA (fst e))) cells) = Ok (accB, gB) /\
      Permutation acc (accA ++ accB) /\ Permutation groups (gA ++ gB).
Proof. exact endorse_cells_separated. Qed.
Check C10_parts_are_recognised_apart :
  forall (inA : cell -> bool) cells acc groups, separated inA cells ->
    endorse_cells cells = Ok (acc, groups) ->
    exists accA gA accB gB,
      endorse_cells (filter (fun e => inA (fst e)) cells) = Ok (accA, gA) /\
      endorse_cells (filter (fun e => negb (inA (fst e))) cells) = Ok (accB, gB) /\
      Permutation acc (accA ++ accB) /\ Permutation groups (gA ++ gB).
(** provenance: whatever the recognition of one group of cells returns (accepted fragments and
    the fragments of the remaining contact groups) is made of cells of that group *)
Theorem C10_fragments_come_from_their_group :
  forall s acc cs, per_span s = Ok (acc, cs) ->
    Forall (from_cells s) acc /\ Forall (fun c => c <> [] /\ Forall (from_cells s) c) cs.
Proof. exact per_span_from_cells. Qed.
(** hence, with order: the fragments accepted for one part, and its contact groups, are those
    of the whole drawing whose cells lie in that part, in the same order *)
Theorem C10_a_part_is_the_restriction_of_the_whole :
  forall (inA : cell -> bool) cells acc groups, separated inA cells ->
    endorse_cells cells = Ok (acc, groups) ->
    endorse_cells (filter (fun e => inA (fst e)) cells) = Ok (filter (fsside inA) acc, filter (cside inA) groups).
Proof. exact endorse_cells_of_side. Qed.
Check C10_a_part_is_the_restriction_of_the_whole :
  forall (inA : cell -> bool) cells acc groups, separated inA cells ->
    endorse_cells cells = Ok (acc, groups) ->
    endorse_cells (filter (fun e => inA (fst e)) cells) = Ok (filter (fsside inA) acc, filter (cside inA) groups).
(** and no error appears by putting two acceptable parts together *)
Theorem C10_parts_succeed_together :
  forall (inA : cell -> bool) cells ra rb, separated inA cells ->
    endorse_cells (filter (fun e => inA (fst e)) cells) = Ok ra ->
    endorse_cells (filter (fun e => negb (inA (fst e))) cells) = Ok rb ->
    exists r, endorse_cells cells = Ok r.
Proof. exact endorse_cells_joined. Qed.

(** each part keeps its rendering wherever it is placed: recognition commutes with the move
    (C06), so what is computed from a part does not depend on where the part lies *)
Theorem C10_a_part_renders_the_same_anywhere :
  forall (k n : Z) cells,
    endorse_cells (map (shift_cc k n) cells) = map_res (shift_ec k n) (endorse_cells cells).
Proof. exact endorse_cells_shift. Qed.

(** the enclosure pass: when no fragment of one part fits inside the bounds of a fragment of
    the other, the trees built for one part alone are the trees of the whole whose root lies
    in that part, and the nodes drawn are those of the two parts *)
Theorem C10_enclosure_stays_inside_a_part :
  forall (pA : fragment -> bool) (fs : list fragment),
    (forall f g, In f fs -> In g fs -> pA f <> pA g -> can_fit f g = false) ->
    enclose_fragments (filter pA fs) = map_res (filter (tside pA)) (enclose_fragments fs).
Proof. exact enclose_fragments_side. Qed.
Theorem C10_nodes_of_the_parts :
  forall (pA : fragment -> bool) (s : Q) (fs : list fragment) nodes,
    (forall f g, In f fs -> In g fs -> pA f <> pA g -> can_fit f g = false) ->
    fragment_nodes s fs = Ok nodes ->
    exists na nb, fragment_nodes s (filter pA fs) = Ok na /\
                  fragment_nodes s (filter (fun f => negb (pA f)) fs) = Ok nb /\
                  Permutation nodes (na ++ nb).
Proof. exact fragment_nodes_separated. Qed.
Check C10_nodes_of_the_parts :
  forall (pA : fragment -> bool) (s : Q) (fs : list fragment) nodes,
    (forall f g, In f fs -> In g fs -> pA f <> pA g -> can_fit f g = false) ->
    fragment_nodes s fs = Ok nodes ->
    exists na nb, fragment_nodes s (filter pA fs) = Ok na /\
                  fragment_nodes s (filter (fun f => negb (pA f)) fs) = Ok nb /\
                  Permutation nodes (na ++ nb).

(** From the text: a drawing [A] with another drawing [B], indented by [k] columns, [g >= 1]
    blank lines below it.  The cells of the stack are the cells of [A] and the cells of [B]
    moved; what is recognised in the stack, restricted to the rows of [A], is what is
    recognised in [A] alone, and restricted to the rows below, what is recognised in [B]
    alone, moved: same fragments, same contact groups, same order. *)
Theorem C10_stacked_drawings :
  forall A B k g css cbA cbB cb acc groups, (1 <= g)%nat ->
    cellbuffer_of_text (A ++ [10]) css = Ok cbA -> cellbuffer_of_text B css = Ok cbB ->
    cellbuffer_of_text (stacked A B k g) css = Ok cb ->
    endorse_cells (cb_cells cb) = Ok (acc, groups) ->
    let upper := fun c => cy c <? height A in
    let lower := fun c => negb (cy c <? height A) in
    endorse_cells (cb_cells cbA) = Ok (filter (fsside upper) acc, filter (cside upper) groups)
    /\ map_res (shift_ec (Z.of_nat k) (height A + Z.of_nat g)) (endorse_cells (cb_cells cbB))
       = Ok (filter (fsside lower) acc, filter (cside lower) groups).
Proof. exact stack_recognised_apart. Qed.
Check C10_stacked_drawings :
  forall A B k g css cbA cbB cb acc groups, (1 <= g)%nat ->
    cellbuffer_of_text (A ++ [10]) css = Ok cbA -> cellbuffer_of_text B css = Ok cbB ->
    cellbuffer_of_text (stacked A B k g) css = Ok cb ->
    endorse_cells (cb_cells cb) = Ok (acc, groups) ->
    let upper := fun c => cy c <? height A in
    let lower := fun c => negb (cy c <? height A) in
    endorse_cells (cb_cells cbA) = Ok (filter (fsside upper) acc, filter (cside upper) groups)
    /\ map_res (shift_ec (Z.of_nat k) (height A + Z.of_nat g)) (endorse_cells (cb_cells cbB))
       = Ok (filter (fsside lower) acc, filter (cside lower) groups).

(** ... and down to the nodes of the document, when the gap is two blank lines or more: the
    fragments handed to the enclosure pass and the contact groups of the stack, of [A] and of
    [B] are as above, no fragment of one part fits in the bounds of a fragment of the other
    (the canvas theorem of C12, applied to each part, puts everything of [A] above everything
    of [B]), and the drawing nodes of the stack are those of [A] together with those of [B]
    moved by [k] columns and [height A + g] rows ([tr_node] adds the offset to every
    coordinate attribute and leaves lengths, classes and text alone). *)
Theorem C10_stacked_document :
  forall A B k g css cbA cbB cb, (2 <= g)%nat ->
    cellbuffer_of_text (A ++ [10]) css = Ok cbA -> cellbuffer_of_text B css = Ok cbB ->
    cellbuffer_of_text (stacked A B k g) css = Ok cb ->
    forall s : Q,
    let dx := (inject_Z (Z.of_nat k) * s)%Q in
    let dy := (inject_Z (height A + Z.of_nat g) * s * 2)%Q in
    exists fA gA fB gB fAB gAB nA nB nAB,
      fragments_of cbA = Ok (fA, gA) /\ fragments_of cbB = Ok (fB, gB) /\ fragments_of cb = Ok (fAB, gAB)
      /\ drawing_nodes s fA gA = Ok nA /\ drawing_nodes s fB gB = Ok nB /\ drawing_nodes s fAB gAB = Ok nAB
      /\ Permutation nAB (nA ++ map (tr_node dx dy) nB).
Proof. intros A B k g css cbA cbB cb G HA HB HAB s. exact (stacked_drawing A B k g css cbA cbB cb G HA HB HAB s). Qed.
Check C10_stacked_document :
  forall A B k g css cbA cbB cb, (2 <= g)%nat ->
    cellbuffer_of_text (A ++ [10]) css = Ok cbA -> cellbuffer_of_text B css = Ok cbB ->
    cellbuffer_of_text (stacked A B k g) css = Ok cb ->
    forall s : Q,
    let dx := (inject_Z (Z.of_nat k) * s)%Q in
    let dy := (inject_Z (height A + Z.of_nat g) * s * 2)%Q in
    exists fA gA fB gB fAB gAB nA nB nAB,
      fragments_of cbA = Ok (fA, gA) /\ fragments_of cbB = Ok (fB, gB) /\ fragments_of cb = Ok (fAB, gAB)
      /\ drawing_nodes s fA gA = Ok nA /\ drawing_nodes s fB gB = Ok nB /\ drawing_nodes s fAB gAB = Ok nAB
      /\ Permutation nAB (nA ++ map (tr_node dx dy) nB).
(** the document is the root with its switch nodes followed by these drawing nodes
    ([doc_emit_shape]); its canvas covers both parts: the last occupied column is that of the
    wider part (the lower one moved), the last occupied row that of the lower part moved *)
Theorem C10_stacked_canvas :
  forall A B k g css cbA cbB cb, (2 <= g)%nat ->
    cellbuffer_of_text (A ++ [10]) css = Ok cbA -> cellbuffer_of_text B css = Ok cbB ->
    cellbuffer_of_text (stacked A B k g) css = Ok cb ->
    cb_cells cbA <> [] -> cb_cells cbB <> [] ->
    cells_max (cb_cells cb)
    = C (Z.max (cx (cells_max (cb_cells cbA))) (cx (cells_max (cb_cells cbB)) + Z.of_nat k))
        (cy (cells_max (cb_cells cbB)) + (height A + Z.of_nat g)).
Proof. intros A B k g css cbA cbB cb G HA HB HAB NA NB. exact (stacked_canvas A B k g css cbA cbB cb G HA HB HAB ltac:(lia) NA NB). Qed.

(** Side by side, from the cell map: the left part lies in columns below [c0] (the second column
    of a double-width character and the end of every quoted text included), columns [c0] and
    [c0 + 1] are blank, the right part is [cellsB] moved by [c0 + 2] columns and [nz >= 0] rows;
    [cells] is any listing of both whose restrictions are the parts (the cell map lists them
    row by row).  The drawing nodes of the whole are those of the left part together with
    those of the right part moved. *)
Theorem C10_side_by_side :
  forall (cells cellsA cellsB : span) (escsA escsB : list (cell * list Z)) (c0 nz : Z), 0 <= nz ->
    filter (fun e => cx (fst e) <? c0) cells = cellsA ->
    filter (fun e => negb (cx (fst e) <? c0)) cells = map (shift_cc (c0 + 2) nz) cellsB ->
    (forall e, In e cellsA -> 0 <= cx (fst e) /\ 0 <= cy (fst e) /\ cx (fst e) + char_cols (snd e) - 1 < c0) ->
    (forall e, In e cellsB -> 0 <= cx (fst e) /\ 0 <= cy (fst e)) ->
    (forall e, In e escsA -> cx (fst e) + text_columns (snd e) <= c0) ->
    (forall e, In e escsB -> 0 <= cx (fst e)) ->
    forall s : Q,
    let dx := (inject_Z (c0 + 2) * s)%Q in
    let dy := (inject_Z nz * s * 2)%Q in
    exists fA gA fB gB fAB gAB nA nB nAB,
      frags_of cellsA escsA = Ok (fA, gA) /\ frags_of cellsB escsB = Ok (fB, gB)
      /\ frags_of cells (escsA ++ shift_cb_texts (c0 + 2) nz escsB) = Ok (fAB, gAB)
      /\ drawing_nodes s fA gA = Ok nA /\ drawing_nodes s fB gB = Ok nB /\ drawing_nodes s fAB gAB = Ok nAB
      /\ Permutation nAB (nA ++ map (tr_node dx dy) nB).
Proof.
  intros cells cellsA cellsB escsA escsB c0 nz Nz FA FB NA NB QA QB s.
  exact (side_by_side_drawing cells cellsA cellsB escsA escsB c0 nz FA FB NA NB QA QB s).
Qed.
(** [frags_of] is what the library computes from a cell buffer *)
Theorem C10_frags_of_is_fragments_of : forall cb, fragments_of cb = frags_of (cb_cells cb) (cb_escaped cb).
Proof. exact fragments_of_frags. Qed.
Example C10_side_by_side_nonvacuous :
  let cells := [(C 0 0, 43); (C 3 0, 45); (C 0 1, 43)] in
  filter (fun e => cx (fst e) <? 1) cells = [(C 0 0, 43); (C 0 1, 43)]
  /\ filter (fun e => negb (cx (fst e) <? 1)) cells = map (shift_cc (1 + 2) 0) [(C 0 0, 45)].
Proof. split; reflexivity. Qed.

(** What remains with the correspondence and the oracle of this check: gaps of one line or one column, the text stage of side-by-side placement, the no-fit hypothesis
    of the last two theorems (C12 bounds every fragment by the canvas, not by the cells of its
    own group) and the text stage of side-by-side placement (stacking is proved above). *)
Example C10_nonvacuous : span_can_merge [(C 0 0, 45)] [(C 2 0, 45)] = false.
Proof. reflexivity. Qed.
(** a drawing of two boxes side by side with one blank column between them is separated, and
    both parts are non-empty *)
Definition two_parts : list (cell * Z) :=
  [(C 0 0, 43); (C 1 0, 45); (C 2 0, 43); (C 4 0, 43); (C 5 0, 45); (C 6 0, 43);
   (C 0 1, 43); (C 1 1, 45); (C 2 1, 43); (C 4 1, 43); (C 5 1, 45); (C 6 1, 43)].
Example C10_nonvacuous_separated :
  separated (fun c => cx c <? 3) two_parts
  /\ length (filter (fun e => cx (fst e) <? 3) two_parts) = 6%nat
  /\ exists acc groups, endorse_cells two_parts = Ok (acc, groups) /\ length acc = 2%nat.
Proof.
  split; [apply separatedb_sound; vm_compute; reflexivity|]. split; [reflexivity|].
  vm_compute. do 2 eexists. split; reflexivity.
Qed.
