(** * C10 — Separated sub-diagrams render independently of each other.
    Statements only; proofs in Theory/MergeTheory.v (M3) and Theory/Shift*.v. *)
Require Import SB.Model.Base SB.Model.Geom SB.Model.Merge SB.Model.FragBuf SB.Model.Endorse
  SB.Theory.MergeTheory SB.Theory.ShiftTheory SB.Theory.ShiftBuf SB.Theory.ShiftEndorse.

(** M3: if a predicate splits the items into two classes that never merge with each other
    and merging stays inside a class, a pass of the merge loop over the mixed list, restricted
    to one class, is the pass over that class alone — items, merged contents and order. *)
Theorem C10_pass_commutes_with_restriction :
  forall (A : Type) (merge : A -> A -> option A) (P : A -> bool),
    (forall a b, P a <> P b -> merge a b = None) ->
    (forall a b c, merge a b = Some c -> P c = P a) ->
    forall l, filter P (second_pass merge l) = second_pass merge (filter P l).
Proof. exact @second_pass_filter. Qed.
Check C10_pass_commutes_with_restriction :
  forall (A : Type) (merge : A -> A -> option A) (P : A -> bool),
    (forall a b, P a <> P b -> merge a b = None) ->
    (forall a b c, merge a b = Some c -> P c = P a) ->
    forall l, filter P (second_pass merge l) = second_pass merge (filter P l).

(** spans whose cells are not adjacent never merge: the instance for the grouping of cells *)
Theorem C10_non_adjacent_spans_do_not_merge :
  forall a b : span, span_can_merge a b = false -> span_merge a b = None.
Proof. intros a b H. unfold span_merge. rewrite H. reflexivity. Qed.

(** each part keeps its rendering wherever it is placed: recognition commutes with the move
    (C06), so what is computed from a span does not depend on where the span lies *)
Theorem C10_a_part_renders_the_same_anywhere :
  forall (k n : Z) cells,
    endorse_cells (map (shift_cc k n) cells) = map_res (shift_ec k n) (endorse_cells cells).
Proof. exact endorse_cells_shift. Qed.

(** The multiset statement for whole documents (the spans of the juxtaposition are the
    interleaving of the spans of the parts; the final enclosure pass only looks inside one
    part's bounds) is decided by the correspondence and the oracle of this check. *)
Example C10_nonvacuous : span_can_merge [(C 0 0, 45)] [(C 2 0, 45)] = false.
Proof. reflexivity. Qed.
