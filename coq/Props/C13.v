(** * C13 — Every catalogued circle drawing becomes exactly one matching circle.
    Statements only; the sweep is in Theory/CircleTheory.v and is re-run whenever the
    catalogue (regenerated from the implementation on every run) changes. *)
Require Import SB.Model.Base SB.Model.Geom SB.Model.FragBuf SB.Model.Endorse SB.Theory.CircleTheory SB.Gen.CircleTables
  SB.Theory.ShiftTheory SB.Theory.ShiftFrag SB.Theory.ShiftBuf SB.Theory.ShiftEndorse SB.Theory.SepTheory SB.Theory.SepOrder.

(** For each of the drawings of the catalogue (bound: the 22 entries of [circles_span]),
    placed at the origin: the accepted fragments are exactly one circle and there is no
    rejected group; the circle is not filled; its radius is (n-1)/2 cells for an n-cell wide
    drawing (n/2 when the drawing starts flush with a slash); its horizontal extent is the
    drawing's (centred, starting at the mid-line or at the edge of the first column); every
    cell of the drawing has a point within [NEAR] = 60 ticks (1.5 cell widths) of the circle. *)
Theorem C13_catalogue_at_origin :
  forall entry, In entry circles_span -> chk_drawing entry = true.
Proof. intros entry H. exact (proj1 (forallb_forall chk_drawing circles_span) catalogue_ok entry H). Qed.
Check C13_catalogue_at_origin : forall entry, In entry circles_span -> chk_drawing entry = true.

Theorem C13_catalogue_has_22_sizes : length circles_span = 22%nat.
Proof. exact catalogue_size. Qed.

(** The same drawing placed anywhere on the page (any integer offset): still exactly one
    circle, the one at the origin translated, and no rejected group.  From the sweep at the
    origin and the translation theorem of C06 (recognition commutes with moving). *)
Theorem C13_catalogue_anywhere :
  forall entry (k n : Z), In entry circles_span ->
    exists s c,
      endorse_cells (map (shift_cc k n) (sort_cells (snd entry)))
      = Ok ([FS (shift_span k n s) (FCircle (Circle (shift_point k n (ccenter c)) (cradius c) (cfilled c)))], [])
      /\ endorse_cells (sort_cells (snd entry)) = Ok ([FS s (FCircle c)], []).
Proof.
  intros entry k n H. destruct (chk_drawing_inv entry (C13_catalogue_at_origin entry H)) as [s [c E]].
  exists s, c. split; [|exact E]. rewrite endorse_cells_shift.
  change (endorse_cells (sort_cells (snd entry))) with (endorse_cells (sort_cells (snd entry))) in E.
  etransitivity; [apply (f_equal (map_res (shift_ec k n)) E)|reflexivity].
Qed.
Check C13_catalogue_anywhere :
  forall entry (k n : Z), In entry circles_span ->
    exists s c,
      endorse_cells (map (shift_cc k n) (sort_cells (snd entry)))
      = Ok ([FS (shift_span k n s) (FCircle (Circle (shift_point k n (ccenter c)) (cradius c) (cfilled c)))], [])
      /\ endorse_cells (sort_cells (snd entry)) = Ok ([FS s (FCircle c)], []).

(** Next to unrelated content: whatever else is drawn, as long as no cell of it is adjacent to a
    cell of the drawing (the drawing, moved anywhere, is one side [inA] of a separated cell map),
    the fragments accepted from the cells of the drawing are exactly that one circle, and none
    of the remaining contact groups comes from its cells.  From the theorem above and the
    restriction theorem of C10 ([endorse_cells_of_side]). *)
Theorem C13_next_to_unrelated_content :
  forall entry (k n : Z) (inA : cell -> bool) cells acc groups, In entry circles_span ->
    separated inA cells ->
    filter (fun e => inA (fst e)) cells = map (shift_cc k n) (sort_cells (snd entry)) ->
    endorse_cells cells = Ok (acc, groups) ->
    exists s c,
      endorse_cells (sort_cells (snd entry)) = Ok ([FS s (FCircle c)], [])
      /\ filter (fsside inA) acc = [FS (shift_span k n s) (FCircle (Circle (shift_point k n (ccenter c)) (cradius c) (cfilled c)))]
      /\ filter (cside inA) groups = [].
Proof.
  intros entry k n inA cells acc groups H Sep F E.
  destruct (C13_catalogue_anywhere entry k n H) as [s [c [E1 E0]]]. exists s, c. split; [exact E0|].
  pose proof (endorse_cells_of_side inA cells acc groups Sep E) as R. rewrite F, E1 in R. inversion R. split; reflexivity.
Qed.
Check C13_next_to_unrelated_content :
  forall entry (k n : Z) (inA : cell -> bool) cells acc groups, In entry circles_span ->
    separated inA cells ->
    filter (fun e => inA (fst e)) cells = map (shift_cc k n) (sort_cells (snd entry)) ->
    endorse_cells cells = Ok (acc, groups) ->
    exists s c,
      endorse_cells (sort_cells (snd entry)) = Ok ([FS s (FCircle c)], [])
      /\ filter (fsside inA) acc = [FS (shift_span k n s) (FCircle (Circle (shift_point k n (ccenter c)) (cradius c) (cfilled c)))]
      /\ filter (cside inA) groups = [].

Example C13_nonvacuous : exists e, In e circles_span /\ cradius (fst e) = 360.
Proof. eexists; split; [do 17 right; left; reflexivity|reflexivity]. Qed.
