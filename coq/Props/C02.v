(** * C02 — The output is one well-formed XML document that round-trips the text.
    Statements only; proofs in Theory/Xml.v and Theory/DocSafe.v.

    [ser x s] : the string [s] is a serialisation of the abstract tree [x] according to the XML
    1.0 productions for elements, attributes, character data and references (Theory/Xml.v; the
    relation is the specification that has to be read).  [safe d]: element and attribute names
    are XML names, attribute values contain no quote, [<] or [&], character data is escaped.
    [xshapes] / [nshapes]: the tree of element names, written attribute names and element
    children, text ignored. *)
Require Import SB.Model.Base SB.Model.Unicode SB.Model.Geom SB.Model.Text SB.Model.Svg SB.Model.Lib SB.Theory.Xml SB.Theory.DocSafe.
From Coq Require Import QArith.
From Coq Require Import String.
From Coq Require Import List.
Import ListNotations.
Local Open Scope string_scope.
Local Open Scope list_scope.
Local Open Scope Z_scope.

(** Rendering a safe tree, pretty or compressed, at any indentation depth, gives a
    serialisation of a tree with the same element and attribute structure. *)
Theorem C02_render_is_xml :
  forall (compressed : bool) (n : node) (depth : nat), safe n ->
    exists x, ser x (render compressed depth n) /\ xshapes [x] = nshapes [n].
Proof. exact render_is_xml. Qed.
Check C02_render_is_xml :
  forall (compressed : bool) (n : node) (depth : nat), safe n ->
    exists x, ser x (render compressed depth n) /\ xshapes [x] = nshapes [n].

(** Every document the model builds is safe: for every input and every settings value
    (colour, font and stroke strings included: they are escaped into the style text). *)
Theorem C02_document_is_safe : forall input st d, doc input st = Ok d -> safe d.
Proof. exact doc_safe. Qed.
Check C02_document_is_safe : forall input st d, doc input st = Ok d -> safe d.

(** Hence each of the entry points returns one well-formed document whose root is [svg]. *)
Theorem C02_output_is_well_formed :
  forall input st out, to_svg_with_settings input st = Ok out ->
    exists x, ser x out /\ exists attrs kids, x = XElem (zs "svg") attrs kids.
Proof.
  intros input st out. unfold to_svg_with_settings. destruct (doc input st) as [d|] eqn:E; cbn [bind]; [|discriminate].
  intros H; inversion H; subst; clear H. pose proof (doc_safe input st d E) as S.
  assert (R : exists a k, d = Elem (zs "svg") a k).
  { unfold doc in E. destruct (cellbuffer_from input) as [cb|]; cbn [bind] in E; [|discriminate].
    destruct (canvas_size st (cb_cells cb)) as [w h]. unfold doc_of in E. destruct (fragments_of cb) as [[fr gr]|]; cbn [bind] in E; [|discriminate].
    unfold doc_emit in E. destruct (fragment_nodes (scale st) fr); cbn [bind] in E; [|discriminate]. inversion E; subst. eauto. }
  destruct R as [a [k ->]]. destruct (render_is_xml false (Elem (zs "svg") a k) 0 S) as [x [Hx Sh]].
  exists x. split; [exact Hx|]. unfold xshapes, nshapes in Sh. cbn [flat_map] in Sh. rewrite nshape1_elem in Sh.
  destruct x as [tag attrs kids|v]; [|cbn in Sh; discriminate]. rewrite xshape1_elem in Sh. cbn [app] in Sh.
  inversion Sh; subst. eauto.
Qed.

(** The text round trip: escaping then reading the references back gives the text minus the
    characters XML cannot represent ([<], [&], quotes and non-ASCII come back unchanged). *)
Theorem C02_text_round_trips : forall s, chars_ref text_ok (escape_html_text s) (drop_nonxml s).
Proof. exact escape_round_trip. Qed.

Example C02_nonvacuous :
  match doc (zs "a<b" ++ [1; 38]) default_settings with Ok d => true | Err _ => false end = true.
Proof. vm_compute. reflexivity. Qed.
