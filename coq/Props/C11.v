(** * C11 — The scale setting scales every length and nothing else.
    Statements only; proofs are in Theory/ScaleTheory.v. *)
Require Import SB.Model.Base SB.Model.Geom SB.Model.Svg SB.Model.Lib SB.Theory.ScaleTheory SB.Gen.Defaults.
From Coq Require Import QArith String.
#[global] Open Scope Z_scope.

(** Multiplying the scale setting by [f] maps the document to [scale_node f] of it:
    every number (coordinates, sizes, radii, path data, polygon points, canvas width and
    height) is multiplied by [f]; element names, order, counts, classes, flags, text and
    the style sheet are unchanged.  Holds for every input, every settings value and
    every factor (after the repair F9 no hypothesis on [f] is needed). *)
Theorem C11_scale_multiplies_lengths_only :
  forall (input : list Z) (st : settings) (f : Q),
    doc input (set_scale st (f * scale st)) =
    match doc input st with Ok d => Ok (scale_node f d) | Err e => Err e end.
Proof. exact doc_scale. Qed.
Check C11_scale_multiplies_lengths_only :
  forall (input : list Z) (st : settings) (f : Q),
    doc input (set_scale st (f * scale st)) =
    match doc input st with Ok d => Ok (scale_node f d) | Err e => Err e end.
Print Assumptions C11_scale_multiplies_lengths_only.

(** the same for the rendered entry point *)
Theorem C11_rendered :
  forall (input : list Z) (st : settings) (f : Q),
    to_svg_with_settings input (set_scale st (f * scale st)) =
    match doc input st with Ok d => Ok (render false 0 (scale_node f d)) | Err e => Err e end.
Proof.
  intros. unfold to_svg_with_settings. rewrite doc_scale. destruct (doc input st); reflexivity.
Qed.
Print Assumptions C11_rendered.

(** At scale 8 the cell (i, j) has its top-left corner at (8 i, 16 j): one cell is 8 by 16. *)
Theorem C11_cell_is_8_by_16 :
  forall i j : Z,
    (sc 8 (px (top_left_most (C i j))) == inject_Z (8 * i))%Q
    /\ (sc 8 (py (top_left_most (C i j))) == inject_Z (16 * j))%Q.
Proof. exact cell_corner_at_8. Qed.
Print Assumptions C11_cell_is_8_by_16.

(** the default scale of the current source is 8 (Gen/Defaults.v is regenerated every run) *)
Example C11_default_scale_is_8 : default_scale = 8.
Proof. reflexivity. Qed.

(** non-vacuity: a drawing with a line, a rectangle and a text has a document *)
Example C11_nonvacuous :
  match doc (zs "+--+  a-"%string) default_settings with Ok (Elem _ _ kids) => (3 <=? Z.of_nat (List.length kids)) | _ => false end = true.
Proof. vm_compute. reflexivity. Qed.
