(** * C19 — The CLI writes what the library computes and reports success truthfully.
    Statements only; model in Model/Cli.v (the decision logic of svgbob_cli/src/main.rs over an
    abstract file system, standard input and number parser), proofs in Theory/CliTheory.v. *)
Require Import SB.Model.Base SB.Model.Svg SB.Model.Lib SB.Model.Cli SB.Theory.CliTheory.
From Coq Require Import List.
Import ListNotations.
#[global] Open Scope Z_scope.

(** Exit status 0 means: the input was read, every supplied numeric option parsed, the library's
    conversion for the resulting settings was produced, and it was written — followed by a line
    feed on standard output, or verbatim as the one and only write with -o.  For every option
    set and every environment. *)
Theorem C19_success_is_truthful :
  forall e o out diag ws, run e o = Exit 0 out diag ws ->
    diag = false /\
    exists bob st svg, read_input e o = InText bob /\ settings_of e o = Some st /\ to_svg_with_settings bob st = Ok svg
      /\ ((o_output o = None /\ out = svg ++ [10] /\ ws = [])
          \/ (exists f, o_output o = Some f /\ can_write e f = true /\ out = [] /\ ws = [(f, svg)])).
Proof. exact run_exit_zero. Qed.
Check C19_success_is_truthful :
  forall e o out diag ws, run e o = Exit 0 out diag ws ->
    diag = false /\
    exists bob st svg, read_input e o = InText bob /\ settings_of e o = Some st /\ to_svg_with_settings bob st = Ok svg
      /\ ((o_output o = None /\ out = svg ++ [10] /\ ws = [])
          \/ (exists f, o_output o = Some f /\ can_write e f = true /\ out = [] /\ ws = [(f, svg)])).

(** A failure prints a diagnostic and leaves no partial output: nothing on standard output, no
    file written. *)
Theorem C19_failure_leaves_nothing :
  forall e o code out diag ws, run e o = Exit code out diag ws -> code <> 0 -> out = [] /\ ws = [] /\ diag = true.
Proof. exact run_exit_nonzero. Qed.

(** Success exactly when the requested conversion could be carried out. *)
Theorem C19_success_iff :
  forall e o,
    (exists out ws, run e o = Exit 0 out false ws) <->
    (exists bob, read_input e o = InText bob) /\ (exists st, settings_of e o = Some st)
    /\ (forall f, o_output o = Some f -> can_write e f = true).
Proof. exact run_succeeds_iff. Qed.

(** Batch mode: one write per matching file that converted, each the library's default
    conversion of that file; exit 0 exactly when the directory exists and no file failed. *)
Theorem C19_build_writes_one_document_per_file :
  forall e out ext l ws n, build_loop e out ext l = Some (ws, n) ->
    length ws = length (filter (fun en => matching ext en && match convert_file e out en with FileOk _ => true | _ => false end) l)
    /\ n = length (filter (fun en => matching ext en && match convert_file e out en with FileFailed => true | _ => false end) l)
    /\ (forall w, In w ws -> exists en svg, In en l /\ matching ext en = true /\ e_content en = ReadText (fst (svg : list Z * list Z))
                                       /\ to_svg_with_settings (fst svg) default_settings = Ok (snd w) /\ fst w = out (e_name en)).
Proof. exact build_loop_spec. Qed.
Theorem C19_build_status :
  forall e dir out ext l,
    (exists ws, build e dir out ext l = Exit 0 [] false ws) <-> dir = true /\ exists ws, build_loop e out ext l = Some (ws, 0%nat).
Proof. exact build_exit_zero_iff. Qed.
