(** * C17 — Line endings and trailing white space do not matter.
    Statements only; proofs in Theory/LineTheory.v. *)
Require Import SB.Model.Base SB.Model.Unicode SB.Model.Geom SB.Model.Text SB.Model.Svg SB.Model.Lib SB.Theory.LineTheory.

(** [crlf s]: every LF not already preceded by CR becomes CRLF.
    [blanks ws]: every character of [ws] is white space or a NUL filler (and no quote). *)

(** CRLF and LF inputs have the same rows, for every input. *)
Theorem C17_crlf_same_rows : forall s, string_buffer (crlf s) = string_buffer s.
Proof. exact string_buffer_crlf. Qed.
Check C17_crlf_same_rows : forall s, string_buffer (crlf s) = string_buffer s.

(** Hence for every input without a legend header the whole cell buffer (cells, quoted
    texts, styles) is identical, and with it everything computed from it. *)
Theorem C17_crlf_same_document :
  forall s st, find_sub LEGEND_MARK s [] = None -> doc (crlf s) st = doc s st.
Proof.
  intros s st H. unfold doc. rewrite (cellbuffer_from_crlf_nolegend s H). reflexivity.
Qed.
Check C17_crlf_same_document :
  forall s st, find_sub LEGEND_MARK s [] = None -> doc (crlf s) st = doc s st.

(** Blanks appended to a row change neither its quoted texts nor its cells (quoted segments,
    unbalanced quotes and escapes included). *)
Theorem C17_trailing_blanks_in_a_row :
  forall y row ws, blanks ws ->
    match escape_line y row, escape_line y (row ++ ws) with
    | Ok (t1, o1), Ok (t2, o2) => t1 = t2 /\ cells_of_row y 0 o1 = cells_of_row y 0 o2
    | _, _ => False
    end.
Proof. exact row_cells_trailing_blanks. Qed.

(** Blank rows appended to the drawing add nothing. *)
Theorem C17_trailing_blank_rows :
  forall rows extra, Forall blanks extra -> forall y, cells_of_rows y (rows ++ extra) = cells_of_rows y rows.
Proof. exact trailing_blank_rows. Qed.

(** The full statement, of which the CRLF clause above is proved for legend-free inputs only:
    with a legend, declarations spanning lines keep their CR, so equality holds after XML
    end-of-line normalisation of the style text.  That clause is decided by the grammar lemmas
    of C16 (CRLF accepted as a separator) and by the correspondence and the oracle of this check. *)
Definition C17_full : Prop :=
  forall s st (eol : list Z -> list Z),
    (forall t, eol (crlf t) = eol t) ->
    match doc (crlf s) st, doc s st with
    | Ok a, Ok b => eol (render false 0 a) = eol (render false 0 b)
    | _, _ => False
    end.

Example C17_nonvacuous :
  crlf [97; 10; 98; 13; 10; 99] = [97; 13; 10; 98; 13; 10; 99] /\ lines [97; 13; 10; 98; 13; 10; 99] = [[97]; [98]; [99]].
Proof. split; reflexivity. Qed.
