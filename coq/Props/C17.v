(** * C17 — Line endings and trailing white space do not matter.
    Statements only; proofs in Theory/LineTheory.v. *)
Require Import SB.Model.Base SB.Model.Unicode SB.Model.Geom SB.Model.Text SB.Model.Svg SB.Model.Lib SB.Theory.LineTheory.

(** [crlf s]: every LF not already preceded by CR becomes CRLF.
    [blanks ws]: every character of [ws] is white space or a NUL filler (and no quote). *)

(** CRLF and LF inputs have the same rows, for every input. *)
Theorem C17_crlf_same_rows : forall s, string_buffer (crlf s) = string_buffer s.
Proof. exact string_buffer_crlf. Qed.
Check C17_crlf_same_rows : forall s, string_buffer (crlf s) = string_buffer s.

(** Hence for every input, with or without a legend, the whole cell buffer (cells, quoted texts,
    styles) is identical, and with it the document: the drawing is split into lines, which
    drops the CR of a CRLF, and the legend is read with CRLF taken as LF (repair F13). *)
Theorem C17_crlf_same_document :
  forall s st, doc (crlf s) st = doc s st.
Proof.
  intros s st. unfold doc. rewrite (cellbuffer_from_crlf s). reflexivity.
Qed.
Check C17_crlf_same_document :
  forall s st, doc (crlf s) st = doc s st.
Theorem C17_crlf_same_output :
  forall s st, to_svg_with_settings (crlf s) st = to_svg_with_settings s st.
Proof. intros s st. unfold to_svg_with_settings. rewrite C17_crlf_same_document. reflexivity. Qed.

(** Blanks appended to a row change neither its quoted texts nor its cells (quoted segments,
    unbalanced quotes and escapes included). *)
Theorem C17_trailing_blanks_in_a_row :
  forall y row ws, blanks ws ->
    match escape_line y row, escape_line y (row ++ ws) with
    | Ok (t1, o1), Ok (t2, o2) => t1 = t2 /\ cells_of_row y 0 o1 = cells_of_row y 0 o2
    | _, _ => False
    end.
Proof. exact row_cells_trailing_blanks. Qed.

(** Blank rows appended to the drawing add nothing. *)
Theorem C17_trailing_blank_rows :
  forall rows extra, Forall blanks extra -> forall y, cells_of_rows y (rows ++ extra) = cells_of_rows y rows.
Proof. exact trailing_blank_rows. Qed.

Example C17_nonvacuous :
  crlf [97; 10; 98; 13; 10; 99] = [97; 13; 10; 98; 13; 10; 99] /\ lines [97; 13; 10; 98; 13; 10; 99] = [[97]; [98]; [99]].
Proof. split; reflexivity. Qed.
