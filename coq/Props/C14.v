(** * C14 — Arrowheads, bullets and rounded corners sit and point where the text says.
    Statements only; sweeps and proofs in Theory/ArrowTheory.v and Theory/CornerTheory.v (re-run on
    regenerated tables). *)
Require Import SB.Model.Base SB.Model.Geom SB.Model.Fragment SB.Model.Property SB.Theory.ArrowTheory SB.Theory.CornerTheory
  SB.Gen.AsciiMap SB.Gen.UnicodeMap SB.Model.FragBuf SB.Model.Endorse SB.Theory.ArrowDefs SB.Theory.ArrowSweep SB.Theory.BulletSweep SB.Theory.BulletMid SB.Theory.ArrowContext SB.Theory.BoxSweep SB.Theory.RoundedSweep
  SB.Theory.ShiftTheory SB.Theory.ShiftFrag SB.Theory.SepTheory SB.Theory.SepOrder.

(** Arrowheads.  Every table entry that fires when a line arrives from a neighbour (its
    condition is "the neighbour in direction d has a line over the segment a-b") and draws a
    polygon tagged as an arrow: the polygon has a unique tip farthest along the direction of
    travel; the tip lies on the axis of the arriving line, strictly beyond both ends of the
    arriving segment; the remaining vertices lie strictly on both sides of that axis.  Every
    triangle glyph: tip on the axis through the cell centre in the direction of its tag, base
    straddling it.  (All entries of both tables; integer cross and dot products.) *)
Theorem C14_arrowheads_point_along_their_line : ascii_arrows_ok && unicode_arrows_ok = true.
Proof. exact arrows_sweep. Qed.
Check C14_arrowheads_point_along_their_line : ascii_arrows_ok && unicode_arrows_ok = true.

(** Bullets.  Every circle of the tables is centred on its cell; merging a line with such a
    circle gives that line with its end moved to the centre of the circle and marked with the
    circle's kind (filled, open, big open) — for every line and every circle. *)
Theorem C14_bullets_are_centred : bullets_ok = true.
Proof. exact bullets_sweep. Qed.
Theorem C14_bullet_marks_the_line_end_at_its_centre :
  forall l c f, merge_circle l c = Some f ->
    exists keep, f = FMarkerLine (MarkerLine (Line keep (ccenter c) (lbroken l)) None
                                  (Some (if cfilled c then MCircle else if 20 <=? cradius c then MBigOpenCircle else MOpenCircle)))
                 /\ (keep = lstart l \/ keep = lend l).
Proof. exact merge_circle_spec. Qed.

(** Rounded corners.  Every quarter arc of the tables (a right-angle arc: |dx| = |dy| = r; 13 in
    the behaviour table, 4 box-drawing corners): its centre, the corner of the chord's box on
    the side the sweep flag selects, is at distance r from both ends; and at each end the arc
    is continued by a line tangent to it (perpendicular to the radius there, so the outline is
    continuous and smooth and the arc bulges away from the centre, which therefore lies on the
    inner side of the corner): a line of the same behaviour ending there, or the neighbour's
    line that the firing condition requires to pass through that point of the cell boundary
    ([C14_condition_puts_a_line_there]), or for the unconditional box-drawing corners the
    mid-point of the cell edge with the tangent along the axis. *)
Theorem C14_rounded_corners_join_their_lines : corners_ok = true /\ right_angle_arcs_of_tables = 17%nat.
Proof. split; [exact corners_sweep|vm_compute; reflexivity]. Qed.
Theorem C14_condition_puts_a_line_there :
  forall env cd c p, tangent_cond cd c p = true -> eval env cd = true ->
    exists d lvl a b, prop_line_overlap (env d) lvl a b = true /\ on_seg a b (to_nb d p) = true
                      /\ dot (psub b a) (psub p c) = 0 /\ a <> b.
Proof. exact tangent_cond_fires. Qed.

(** Whole drawings, through the whole recognition of the model (grouping, tables, merging, contact groups, endorsement).
    [acases]: '-' with '>' to its right or '<' to its left, '|' with '^' above or 'v'/'V' below, a diagonal with '^' at its
    upper or 'v'/'V' at its lower end, and '-' / '|' with the triangle glyphs; [arrow_cells k L]: a run of L line characters
    and the arrowhead after it in the direction of the case.  For every case and every L in 1..40 the recognition gives
    exactly one line and one polygon and no group, and [arrow_pair_ok]: the line is solid, starts where the run starts and
    ends inside the arrowhead's cell; the polygon is filled, carries exactly one arrow tag, has a unique tip farthest along
    the direction, which lies on the line's axis strictly beyond both ends of the line, inside the arrowhead's cell, and
    its other vertices lie strictly on both sides of the axis. *)
Theorem C14_arrow_at_the_end_of_a_run :
  forall k L, In k acases -> (1 <= L <= 40)%nat ->
    exists f g l p, endorse_cells (arrow_cells k L) = Ok ([f; g], [])
      /\ ((fs_frag f = FLine l /\ fs_frag g = FPolygon p) \/ (fs_frag f = FPolygon p /\ fs_frag g = FLine l))
      /\ arrow_pair_ok k L l p = true.
Proof. exact arrow_recognised. Qed.

(** ... anywhere on the page and next to anything that does not touch it ([separated]: no cell of the arrow is adjacent to
    a cell of the rest): exactly that line and that polygon, moved, come from its cells, and no contact group. *)
Theorem C14_arrow_anywhere_in_context :
  forall k L (dx dy : Z) (inA : cell -> bool) cells acc groups,
    In k acases -> (1 <= L <= 40)%nat ->
    separated inA cells -> filter (fun e => inA (fst e)) cells = map (shift_cc dx dy) (arrow_cells k L) ->
    endorse_cells cells = Ok (acc, groups) ->
    exists f g l p, map fs_frag (filter (fsside inA) acc) = [shift_frag dx dy (fs_frag f); shift_frag dx dy (fs_frag g)]
      /\ filter (cside inA) groups = []
      /\ ((fs_frag f = FLine l /\ fs_frag g = FPolygon p) \/ (fs_frag f = FPolygon p /\ fs_frag g = FLine l))
      /\ arrow_pair_ok k L l p = true.
Proof. exact arrow_recognised_in_context. Qed.

(** [bcases]: each of the eight directions with each of '*', 'o', 'O' after the run.  For every case and every L in 1..40
    [bullet_chk]: the recognition gives no group and no text; its first fragment is a solid marked line whose marked end
    is the centre of the bullet's cell, marked with the bullet's kind and not marked at the other end, which lies on the
    segment from the start of the run to that centre (and is the start of the run when the bullet is to the right of or
    below the run); every other fragment is an unmarked line on that segment. *)
Theorem C14_bullet_at_the_end_of_a_run :
  forall k L, In k bcases -> (1 <= L <= 40)%nat -> bullet_chk k L = true.
Proof. exact bullet_recognised. Qed.
(** ... and in the middle of a run: L1 line characters, the bullet, L2 line characters (1..8 each), to the right, downwards or
    down-right ([mcases]).  [mid_chk]: no group, no text; the first fragment is a solid marked line from the start of the run
    to the centre of the bullet's cell, marked there with the bullet's kind; every other fragment is an unmarked solid line
    on the axis of the run between its start and its end. *)
Theorem C14_bullet_in_the_middle_of_a_run :
  forall k L1 L2, In k mcases -> (1 <= L1 <= 8)%nat -> (1 <= L2 <= 8)%nat -> mid_chk k L1 L2 = true.
Proof. exact bullet_mid_line. Qed.
Example C14_cases_nonvacuous : List.length acases = 15%nat /\ List.length bcases = 24%nat.
Proof. split; reflexivity. Qed.

(** Rounded outlines with a stub attached (so that they are not turned into one rectangle).  [outline_chk s w h st]: on the
    box of style [s] with w x h interior cells and a '-' stub on its left or right side the recognition gives no single
    fragment and ONE contact group of exactly four arcs and five solid lines; every arc is a quarter arc of radius half
    a cell width whose centre is at that distance from both ends and lies strictly inside the outline (it bulges
    outward), and at each end of each arc a line of the group ends at that very point, at a right angle to the radius;
    four of the lines join two arc ends each.  For the two ASCII rounded styles, every size 1..12 x 1..6, both stubs. *)
Theorem C14_rounded_outline_is_continuous :
  forall s st w h, In s rounded_styles -> (1 <= w <= 12)%nat -> (1 <= h <= 6)%nat -> outline_chk s w h st = true.
Proof. exact rounded_outline_recognised. Qed.

(** Larger outlines, the box-drawing corners in whole drawings and marks in the middle of a line are decided by the
    correspondence and the oracle of this check (with the corner sweep above). *)
Example C14_nonvacuous :
  arrow_geometry_ok (P 40 0) (P (-10) 40) (P 0 40) [P 0 20; P 40 40; P 0 60] = true.
Proof. vm_compute. reflexivity. Qed.
