(** * C14 — Arrowheads, bullets and rounded corners sit and point where the text says.
    Statements only; sweeps and proofs in Theory/ArrowTheory.v (re-run on regenerated tables). *)
Require Import SB.Model.Base SB.Model.Geom SB.Model.Fragment SB.Model.Property SB.Theory.ArrowTheory
  SB.Gen.AsciiMap SB.Gen.UnicodeMap.

(** Arrowheads.  Every table entry that fires when a line arrives from a neighbour (its
    condition is "the neighbour in direction d has a line over the segment a-b") and draws a
    polygon tagged as an arrow: the polygon has a unique tip farthest along the direction of
    travel; the tip lies on the axis of the arriving line, strictly beyond both ends of the
    arriving segment; the remaining vertices lie strictly on both sides of that axis.  Every
    triangle glyph: tip on the axis through the cell centre in the direction of its tag, base
    straddling it.  (All entries of both tables; integer cross and dot products.) *)
Theorem C14_arrowheads_point_along_their_line : ascii_arrows_ok && unicode_arrows_ok = true.
Proof. exact arrows_sweep. Qed.
Check C14_arrowheads_point_along_their_line : ascii_arrows_ok && unicode_arrows_ok = true.

(** Bullets.  Every circle of the tables is centred on its cell; merging a line with such a
    circle gives that line with its end moved to the centre of the circle and marked with the
    circle's kind (filled, open, big open) — for every line and every circle. *)
Theorem C14_bullets_are_centred : bullets_ok = true.
Proof. exact bullets_sweep. Qed.
Theorem C14_bullet_marks_the_line_end_at_its_centre :
  forall l c f, merge_circle l c = Some f ->
    exists keep, f = FMarkerLine (MarkerLine (Line keep (ccenter c) (lbroken l)) None
                                  (Some (if cfilled c then MCircle else if 20 <=? cradius c then MBigOpenCircle else MOpenCircle)))
                 /\ (keep = lstart l \/ keep = lend l).
Proof. exact merge_circle_spec. Qed.

(** Rounded corners (arc end points meet the adjoining lines, centre on the inner side) and the
    statements for whole drawings (one polygon per arrow, the bullet not shown as text) are
    decided by the correspondence and the oracle of this check. *)
Example C14_nonvacuous :
  arrow_geometry_ok (P 40 0) (P (-10) 40) (P 0 40) [P 0 20; P 40 40; P 0 60] = true.
Proof. vm_compute. reflexivity. Qed.
