(** * C03 (continued) — the whole recognition on every 3x2, 2x3, 5x1 and 1x5 grid of '-', '|', '+' and blanks.
    Statement only; the sweep is Theory/GridSweepBig.v (minutes; built by setup and by the thorough tier). *)
Require Import SB.Model.Base SB.Model.FragBuf SB.Model.Endorse SB.Model.Text SB.Theory.DashBarPlus SB.Theory.GridSweep SB.Theory.GridSweepBig.
Theorem C03_grids_whole_recognition :
  forall g, in_shape DRAW 3 2 g \/ in_shape DRAW 2 3 g \/ in_shape DRAW 5 1 g \/ in_shape DRAW 1 5 g -> grid_strokes_as_specified g.
Proof. exact grids_as_specified. Qed.
Check C03_grids_whole_recognition :
  forall g, in_shape DRAW 3 2 g \/ in_shape DRAW 2 3 g \/ in_shape DRAW 5 1 g \/ in_shape DRAW 1 5 g ->
    exists acc groups got, cellbuffer_from (text_of_grid g) = Ok (CellBuffer (grid_cells g) [] [])
      /\ endorse_cells (grid_cells g) = Ok (acc, groups)
      /\ all_strokes (map fs_frag acc ++ flat_map (map fs_frag) groups) = Some got
      /\ same_atoms got (spec_of_grid g) = true.
