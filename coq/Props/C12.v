(** * C12 — The canvas has one cell of margin and contains everything that is drawn.
    Statements only; proofs in Theory/ExtentTheory.v, Theory/PipeInv.v and Theory/Canvas.v. *)
Require Import SB.Model.Base SB.Model.Unicode SB.Model.Geom SB.Model.Fragment SB.Model.Property SB.Model.Text
  SB.Model.FragBuf SB.Model.Endorse SB.Model.Lib SB.Theory.ExtentTheory SB.Theory.PipeInv SB.Theory.Canvas SB.Model.Tree SB.Theory.DocInside
  SB.Gen.AsciiMap SB.Gen.UnicodeMap SB.Gen.CircleTables.
From Coq Require Import QArith.
From Coq Require Import List.
Import ListNotations.
#[global] Open Scope Z_scope.

(** The canvas is one cell wider and taller than the right-most and bottom-most occupied cell:
    width = scale * (last column + 2), height = 2 * scale * (last row + 2). *)
Theorem C12_canvas_formula :
  forall st cells,
    (fst (canvas_size st cells) == scale st * inject_Z (cx (cells_max cells) + 2))%Q
    /\ (snd (canvas_size st cells) == 2 * scale st * inject_Z (cy (cells_max cells) + 2))%Q.
Proof.
  intros st cells. unfold canvas_size, canvas_of; cbn [fst snd]. rewrite !Qred_correct. split; ring.
Qed.
Check C12_canvas_formula :
  forall st cells,
    (fst (canvas_size st cells) == scale st * inject_Z (cx (cells_max cells) + 2))%Q
    /\ (snd (canvas_size st cells) == 2 * scale st * inject_Z (cy (cells_max cells) + 2))%Q.

(** an empty drawing gets the minimal two-cell canvas *)
Theorem C12_empty_canvas : forall st, (fst (canvas_size st []) == scale st * 2)%Q /\ (snd (canvas_size st []) == scale st * 4)%Q.
Proof. intros st. unfold canvas_size, canvas_of, cells_max; cbn [fst snd cx cy]. rewrite !Qred_correct. change (inject_Z (0 + 2)) with 2%Q. split; ring. Qed.

(** [cells_max] really is the maximum: every cell, and the second column of a double-width
    character, is within it *)
Theorem C12_every_cell_within :
  forall cells c z, In (c, z) cells ->
    cx c + char_cols z - 1 <= cx (cells_max cells) /\ cx c <= cx (cells_max cells) /\ cy c <= cy (cells_max cells).
Proof.
  intros cells c z H. destruct cells as [|[c0 z0] t]; [destruct H|].
  assert (G : forall (f : cell * Z -> Z) d l e, In e l -> f e <= zmax_list d (map f l)).
  { intros f d l. revert d. induction l as [|x r IH]; intros d e He; [destruct He|]. cbn [map zmax_list].
    destruct He as [->|He]; [apply Z.le_max_l|]. etransitivity; [apply (IH (f x) e He)|apply Z.le_max_r]. }
  unfold cells_max; cbn [cx cy].
  pose proof (G (fun e => cx (fst e) + char_cols (snd e) - 1) (cx c0 + char_cols z0 - 1) _ (c, z) H) as G1. cbn [fst snd] in G1.
  pose proof (G (fun e => cy (fst e)) (cy c0) _ (c, z) H) as G2. cbn [fst snd] in G2.
  assert (1 <= char_cols z) by (unfold char_cols; destruct (char_width z); lia).
  repeat split; try assumption. lia.
Qed.

(** T1 (re-proved whenever the tables are regenerated): every fragment of every table entry
    reaches at most one cell beyond its own cell, and reaches to the left of / above its cell
    only under a condition that can hold only if a neighbour exists on that side.  Arcs are
    measured by a sound outer box (floor square roots, one-sided bulge, tangent test). *)
Theorem C12_table_fragments_stay_near :
  forall p c fs f env, In p ascii_properties -> In (c, fs) (pbeh p) -> In f fs -> eval env c = true ->
    let '(x0, y0, x1, y1) := extent f in
    - CW <= x0 /\ - CH <= y0 /\ x1 <= 2 * CW /\ y1 <= 2 * CH
    /\ (x0 < 0 -> exists d, In d LEFTS /\ present (env d))
    /\ (y0 < 0 -> exists d, In d TOPS /\ present (env d)).
Proof. exact fired_fragment_has_neighbour. Qed.

Theorem C12_unicode_fragments_stay_inside :
  forall ch fs f, In (ch, fs) unicode_fragments -> In f fs -> extent_ok CTrue f = true.
Proof. exact unicode_extent. Qed.

(** the catalogue circles and arcs (quarter, half, three quarter) stay within their own
    drawing's cells plus the margin *)
Theorem C12_catalogue_stays_inside : catalogue_extent_ok = true.
Proof. exact catalogue_extent. Qed.

(** The pipeline step from these local facts to the whole drawing.  [fbox f] is the box of a
    fragment: its bounds and, for an arc, the box of ExtentTheory around its bulge; the canvas
    in ticks is [(last column + 2) * CW] by [(last row + 2) * CH] (the formula above, with
    scale * t / 40 user units per tick).  Every fragment accepted from the cell map and every
    fragment of every contact group lies inside it: table fragments reach left of or above
    their cell only towards an existing neighbour (sweep [tables_reach]), merging stays in the
    hull of what is merged, a recognised rectangle is spanned by bound points of its group, a
    recognised circle or arc lies within the cells that matched its drawing (sweep
    [catalogue_reach]).  For all inputs. *)
Theorem C12_everything_recognised_is_inside :
  forall input cb acc groups,
    cellbuffer_from input = Ok cb -> endorse_cells (cb_cells cb) = Ok (acc, groups) ->
    Forall (fun f => within (canvas_of_cells (cb_cells cb)) (fs_frag f)) acc
    /\ Forall (Forall (fun f => within (canvas_of_cells (cb_cells cb)) (fs_frag f))) groups.
Proof. exact recognised_inside_canvas. Qed.
Check C12_everything_recognised_is_inside :
  forall input cb acc groups,
    cellbuffer_from input = Ok cb -> endorse_cells (cb_cells cb) = Ok (acc, groups) ->
    Forall (fun f => within (canvas_of_cells (cb_cells cb)) (fs_frag f)) acc
    /\ Forall (Forall (fun f => within (canvas_of_cells (cb_cells cb)) (fs_frag f))) groups.
(** the canvas in ticks is the canvas of [canvas_size] *)
Theorem C12_canvas_in_ticks :
  forall st cells, let '(x0, y0, x1, y1) := canvas_of_cells cells in
    x0 = 0 /\ y0 = 0
    /\ (fst (canvas_size st cells) == scale st * inject_Z x1 / 40)%Q
    /\ (snd (canvas_size st cells) == scale st * inject_Z y1 / 40)%Q.
Proof.
  intros st cells. unfold canvas_of_cells, canvas_size, canvas_of; cbn [fst snd]. rewrite !Qred_correct.
  split; [reflexivity|]. split; [reflexivity|]. unfold CW, CH. rewrite !inject_Z_mult, !inject_Z_plus. split; field.
Qed.
(** the generic statement behind it, for any set of cells inside a box of columns and rows *)
Theorem C12_recognition_stays_in_the_box_of_the_cells :
  forall cells X Y,
    (forall e, In e cells -> 0 <= cx (fst e) /\ cx (fst e) <= X /\ cx (fst e) + char_cols (snd e) - 1 <= X /\ 0 <= cy (fst e) /\ cy (fst e) <= Y) ->
    forall acc groups, endorse_cells cells = Ok (acc, groups) ->
      Forall (Rc cells X Y) acc /\ Forall (Forall (Rc cells X Y)) groups.
Proof. exact endorse_cells_in_canvas. Qed.

(** From the fragments to the numbers written in the document.  [tick_points f] are the points, in ticks, whose images
    under the scale are the coordinates in the node of [f] ([fragment_node]: both ends of a line, a marked line or an arc;
    x, y and x + width, y + height of a rectangle; cx -/+ r, cy -/+ r of a circle; the points of a polygon; the anchor of a
    text), [inside s W H f] says that every one of them, scaled, lies between 0 and W horizontally and 0 and H vertically.
    For every input and every settings value with a scale >= 0: every fragment the enclosure pass emits (the document's
    drawing nodes are [fragment_node] of exactly these, [fragment_nodes]) is inside the canvas of the document or is a quoted
    text, and so is every fragment of every contact group (the <g> nodes).  Quoted text is the recorded known finding K1
    (it is kept outside the cell map and therefore outside the canvas computation). *)
Theorem C12_document_points_inside :
  forall input st cb frags groups trees,
    (0 <= scale st)%Q ->
    cellbuffer_from input = Ok cb -> fragments_of cb = Ok (frags, groups) -> enclose_fragments frags = Ok trees ->
    let W := fst (canvas_size st (cb_cells cb)) in let H := snd (canvas_size st (cb_cells cb)) in
    Forall (fun p => inside (scale st) W H (fst p) \/ quoted_of cb (fst p)) (flat_map flatten_tree trees)
    /\ Forall (Forall (inside (scale st) W H)) groups.
Proof. exact document_points_inside. Qed.
Check C12_document_points_inside :
  forall input st cb frags groups trees,
    (0 <= scale st)%Q ->
    cellbuffer_from input = Ok cb -> fragments_of cb = Ok (frags, groups) -> enclose_fragments frags = Ok trees ->
    let W := fst (canvas_size st (cb_cells cb)) in let H := snd (canvas_size st (cb_cells cb)) in
    Forall (fun p => inside (scale st) W H (fst p) \/ quoted_of cb (fst p)) (flat_map flatten_tree trees)
    /\ Forall (Forall (inside (scale st) W H)) groups.
(** the circle's box and the rectangle's far corner are what the node's numbers add up to *)
Theorem C12_scaling_is_linear :
  forall s a b, (sc s (a + b) == sc s a + sc s b)%Q /\ (sc s (a - b) == sc s a - sc s b)%Q.
Proof. intros s a b. split; [apply sc_add|apply sc_sub]. Qed.

Definition C12_quoted_text_finding : Prop :=
  exists input, match cellbuffer_from input with
                | Ok cb => cb_escaped cb <> [] /\ cb_cells cb = []
                | Err _ => False
                end.
Theorem C12_quoted_refuted : C12_quoted_text_finding.
Proof. exists [34; 104; 105; 34]. vm_compute. split; [discriminate|reflexivity]. Qed.
