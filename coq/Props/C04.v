(** * C04 — Every non-drawing character appears exactly once, as text, in its own cell.
    Statements only; proofs in Theory/TextCells.v and Theory/MergeTheory.v. *)
Require Import SB.Model.Base SB.Model.Unicode SB.Model.Geom SB.Model.Fragment SB.Model.Merge SB.Model.Property SB.Model.FragBuf
  SB.Theory.MergeTheory SB.Theory.TextCells SB.Model.Endorse SB.Model.Text SB.Model.Svg SB.Model.Lib SB.Theory.GridSweep SB.Theory.TextSweep.
From Coq Require Import QArith String.
#[local] Open Scope string_scope.
#[local] Open Scope list_scope.
#[local] Open Scope Z_scope.
From Coq Require Import Permutation.

(** [text_cells t]: the grid cells a text occupies, character by character — a character takes
    [char_cols] columns (2 for double width), so the i-th character sits at the start column
    plus the columns of the characters before it. *)

(** Merging two texts (only possible when one ends exactly where the other starts, on the
    same row) yields a text that occupies exactly the cells of the two, with the same
    characters: nothing is dropped, duplicated, reordered or shifted. *)
Theorem C04_merge_keeps_every_character_in_its_cell :
  forall a b c, celltext_merge a b = Some c -> Permutation (text_cells c) (text_cells a ++ text_cells b).
Proof. exact celltext_merge_cells. Qed.
Check C04_merge_keeps_every_character_in_its_cell :
  forall a b c, celltext_merge a b = Some c -> Permutation (text_cells c) (text_cells a ++ text_cells b).

(** Through the whole merge loop of a span (any number of fragments, any number of passes):
    the (cell, character) pairs shown as text afterwards are a permutation of those that
    entered — every text character comes out exactly once, in its own cell. *)
Theorem C04_span_merge_keeps_text :
  forall fb m, merge_fragment_spans fb = Ok m ->
    Permutation (flat_map (fun f => frag_text_cells (fs_frag f)) m)
                (flat_map (fun f => frag_text_cells (fs_frag f)) (abs_fragment_spans fb)).
Proof. exact merge_keeps_text_cells. Qed.

(** A character without drawing meaning enters as a text of exactly its own cell. *)
Theorem C04_label_enters_in_its_cell :
  forall c ch, frag_text_cells (fragment_abs c (cell_text_frag ch)) = if ch =? 0 then [] else [(c, ch)].
Proof. exact label_enters_in_its_cell. Qed.

(** the additive law behind it, for every merge function *)
Theorem C04_additive_measures_survive_the_loop :
  forall (A X : Type) (merge : A -> A -> option A) (mu : A -> list X),
    (forall a b c, merge a b = Some c -> Permutation (mu c) (mu a ++ mu b)) ->
    forall l r, merge_recursive merge l = Ok r -> Permutation (flat_map mu r) (flat_map mu l).
Proof. exact @merge_recursive_additive. Qed.

(** The text element of a text fragment is anchored strictly inside the cell of its first character: at a quarter of
    the cell width and three quarters of its height, at every scale; its character data is the escaped content. *)
Theorem C04_text_is_anchored_inside_its_first_cell :
  forall (s : Q) (t : celltext),
    exists ax ay, fragment_node s (FCellText t) = Elem (zs "text") [SB.Model.Lib.num "x" (SB.Model.Lib.sc s ax); SB.Model.Lib.num "y" (SB.Model.Lib.sc s ay)] [TextLeaf (escape_html_text (ctcontent t))]
      /\ cx (ctstart t) * 40 < ax < (cx (ctstart t) + 1) * 40 /\ cy (ctstart t) * 80 < ay < (cy (ctstart t) + 1) * 80.
Proof.
  intros s [[x y] c]. exists (x * 40 + 10), (y * 80 + 60). split; [|cbn; lia].
  cbn [fragment_node ctstart ctcontent]. unfold cell_q, cell_abs, grid. cbn [px py cx cy]. repeat f_equal; lia.
Qed.

(** From the input text to the text fragments, through the whole recognition (grouping, tables, merging, contact groups,
    endorsement): for EVERY input of one row of four characters, two rows of two over {blank, a, b, a double-width CJK
    character, '-'} and two rows of three over {blank, a, CJK}, the (cell, character) pairs shown by all text fragments
    that come out are exactly the label characters of the input at their display columns, each exactly once.  Longer
    inputs: the merge theorems above plus the correspondence and the oracle of this check; the enclosure pass only moves
    fragments around (tags consumed as classes are the stated exception, C16). *)
Theorem C04_short_inputs_shown_exactly_once :
  forall rows, in_shape TEXT5 4 1 rows \/ in_shape TEXT5 2 2 rows \/ in_shape TEXT3 3 2 rows -> shown_exactly_once rows.
Proof. exact short_texts_shown_exactly_once. Qed.
Check C04_short_inputs_shown_exactly_once :
  forall rows, in_shape TEXT5 4 1 rows \/ in_shape TEXT5 2 2 rows \/ in_shape TEXT3 3 2 rows ->
  exists cb acc groups, cellbuffer_from (join_rows rows) = Ok cb /\ endorse_cells (cb_cells cb) = Ok (acc, groups)
    /\ let got := flat_map frag_text_cells (map fs_frag acc ++ flat_map (map fs_frag) groups) in
       List.length got = List.length (expected_text rows)
       /\ (forall e, In e (expected_text rows) -> count_in e got = 1%nat /\ count_in e (expected_text rows) = 1%nat).
Example C04_sweep_nonvacuous : expected_text [[CJK; 97; 45; 98]] = [(C 0 0, CJK); (C 2 0, 97); (C 4 0, 98)].
Proof. vm_compute. reflexivity. Qed.

Example C04_nonvacuous :
  text_cells (CellText (C 3 1) [233; 19968; 98]) = [(C 3 1, 233); (C 4 1, 19968); (C 6 1, 98)].
Proof. vm_compute. reflexivity. Qed.
