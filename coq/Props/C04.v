(** * C04 — Every non-drawing character appears exactly once, as text, in its own cell.
    Statements only; proofs in Theory/TextCells.v and Theory/MergeTheory.v. *)
Require Import SB.Model.Base SB.Model.Unicode SB.Model.Geom SB.Model.Fragment SB.Model.Merge SB.Model.Property SB.Model.FragBuf
  SB.Theory.MergeTheory SB.Theory.TextCells.
From Coq Require Import Permutation.

(** [text_cells t]: the grid cells a text occupies, character by character — a character takes
    [char_cols] columns (2 for double width), so the i-th character sits at the start column
    plus the columns of the characters before it. *)

(** Merging two texts (only possible when one ends exactly where the other starts, on the
    same row) yields a text that occupies exactly the cells of the two, with the same
    characters: nothing is dropped, duplicated, reordered or shifted. *)
Theorem C04_merge_keeps_every_character_in_its_cell :
  forall a b c, celltext_merge a b = Some c -> Permutation (text_cells c) (text_cells a ++ text_cells b).
Proof. exact celltext_merge_cells. Qed.
Check C04_merge_keeps_every_character_in_its_cell :
  forall a b c, celltext_merge a b = Some c -> Permutation (text_cells c) (text_cells a ++ text_cells b).

(** Through the whole merge loop of a span (any number of fragments, any number of passes):
    the (cell, character) pairs shown as text afterwards are a permutation of those that
    entered — every text character comes out exactly once, in its own cell. *)
Theorem C04_span_merge_keeps_text :
  forall fb m, merge_fragment_spans fb = Ok m ->
    Permutation (flat_map (fun f => frag_text_cells (fs_frag f)) m)
                (flat_map (fun f => frag_text_cells (fs_frag f)) (abs_fragment_spans fb)).
Proof. exact merge_keeps_text_cells. Qed.

(** A character without drawing meaning enters as a text of exactly its own cell. *)
Theorem C04_label_enters_in_its_cell :
  forall c ch, frag_text_cells (fragment_abs c (cell_text_frag ch)) = if ch =? 0 then [] else [(c, ch)].
Proof. exact label_enters_in_its_cell. Qed.

(** the additive law behind it, for every merge function *)
Theorem C04_additive_measures_survive_the_loop :
  forall (A X : Type) (merge : A -> A -> option A) (mu : A -> list X),
    (forall a b c, merge a b = Some c -> Permutation (mu c) (mu a ++ mu b)) ->
    forall l r, merge_recursive merge l = Ok r -> Permutation (flat_map mu r) (flat_map mu l).
Proof. exact @merge_recursive_additive. Qed.

(** Grouping, endorsement and the enclosure pass only move fragments around (tags consumed as
    classes are the stated exception, C16); that step and the anchoring of the emitted text
    element are decided by the correspondence and the oracle of this check. *)
Example C04_nonvacuous :
  text_cells (CellText (C 3 1) [233; 19968; 98]) = [(C 3 1, 233); (C 4 1, 19968); (C 6 1, 98)].
Proof. vm_compute. reflexivity. Qed.
