(** * C05 — Rectangles are recognised completely and only where a box is drawn.
    Statements only; proofs in Theory/RectTheory.v, Theory/LineMergeTheory.v, Theory/ShiftEndorse.v,
    Theory/BoxSweep.v. *)
Require Import SB.Model.Base SB.Model.Geom SB.Model.Fragment SB.Model.Merge SB.Model.FragBuf SB.Model.Endorse
  SB.Theory.RectTheory SB.Theory.LineMergeTheory SB.Theory.ShiftTheory SB.Theory.ShiftFrag SB.Theory.ShiftBuf SB.Theory.ShiftEndorse
  SB.Theory.SepTheory SB.Theory.SepOrder SB.Theory.BoxSweep SB.Theory.BoxExtras.

(** Soundness.  [is_rect] answers yes only for exactly four fragments of which four (by index)
    are lines that form the outline of their bounding box: a non-degenerate box whose top,
    bottom, left and right edge are each one of those lines.  Lines that merely touch
    (ladders, T junctions, overhanging sides, a table with legs) are therefore never turned
    into a rectangle.  For every fragment list. *)
Theorem C05_rect_only_for_an_outline :
  forall fs, is_rect fs = Ok true ->
    length fs = 4%nat /\
    exists a1 a2 b1 b2 la1 la2 lb1 lb2,
      nth_error fs a1 = Some (FLine la1) /\ nth_error fs a2 = Some (FLine la2)
      /\ nth_error fs b1 = Some (FLine lb1) /\ nth_error fs b2 = Some (FLine lb2)
      /\ is_outline_of_bounds [la1; la2; lb1; lb2] = true.
Proof. exact is_rect_sound. Qed.
Check C05_rect_only_for_an_outline :
  forall fs, is_rect fs = Ok true ->
    length fs = 4%nat /\
    exists a1 a2 b1 b2 la1 la2 lb1 lb2,
      nth_error fs a1 = Some (FLine la1) /\ nth_error fs a2 = Some (FLine la2)
      /\ nth_error fs b1 = Some (FLine lb1) /\ nth_error fs b2 = Some (FLine lb2)
      /\ is_outline_of_bounds [la1; la2; lb1; lb2] = true.

Theorem C05_outline_means_four_edges_present :
  forall ls, is_outline_of_bounds ls = true ->
    exists mn mx, px mn < px mx /\ py mn < py mx
      /\ edge_of ls (px mn) (py mn) (px mx) (py mn) /\ edge_of ls (px mn) (py mx) (px mx) (py mx)
      /\ edge_of ls (px mn) (py mn) (px mn) (py mx) /\ edge_of ls (px mx) (py mn) (px mx) (py mx).
Proof. exact outline_spec. Qed.

(** A side of any length is one line (C09), dashed if any part of it is dashed. *)
Theorem C05_side_of_any_length_is_one_line :
  forall (p0 : point) (dx dy : Z) (broken : bool),
    0 < dy \/ (dy = 0 /\ 0 < dx) ->
    forall n, (1 <= n)%nat ->
      merge_recursive fragment_merge (map FLine (segs_from p0 dx dy broken 0 n)) = Ok [FLine (hull p0 dx dy broken n)].
Proof. exact chain_merges_to_one. Qed.

(** Recognition does not depend on where the box is (C06): the endorsement of a moved contact
    group is the moved endorsement. *)
Theorem C05_recognition_anywhere :
  forall (k n : Z) c, Forall (fun f => wf_frag (fs_frag f)) c ->
    contacts_endorse_rect (shift_contacts k n c) = map_res (shift_ofrag k n) (contacts_endorse_rect c).
Proof. exact contacts_endorse_rect_shift. Qed.

(** Completeness, by a sweep of the model over a stated finite range (re-run whenever the tables
    are regenerated): every box of the eight standard styles ([styles]: sharp, sharp with ~,
    rounded . ' and , `, rounded with ~, box drawing, rounded box drawing, dashed box drawing)
    with up to 16 x 8 interior cells (a rounded box needs one column between its corners) is
    recognised as exactly one rectangle through the centres of its border cells, with the corner
    radius of its style and dashed iff it has a dashed edge, and nothing else. *)
Theorem C05_boxes_are_recognised :
  forall s w h, In s styles -> (wmin s <= w <= 16)%nat -> (h <= 8)%nat ->
    exists sp, endorse_cells (box_cells s w h) = Ok ([FS sp (FRect (expected s w h))], []).
Proof. exact box_recognised. Qed.
Check C05_boxes_are_recognised :
  forall s w h, In s styles -> (wmin s <= w <= 16)%nat -> (h <= 8)%nat ->
    exists sp, endorse_cells (box_cells s w h) = Ok ([FS sp (FRect (expected s w h))], []).
(** ... anywhere on the page and next to anything that does not touch it (any cell map of which
    the moved box is a separated part): exactly that rectangle, moved, comes from its cells *)
Theorem C05_boxes_are_recognised_anywhere_in_context :
  forall s w h (k n : Z) (inA : cell -> bool) cells acc groups,
    In s styles -> (wmin s <= w <= 16)%nat -> (h <= 8)%nat ->
    separated inA cells -> filter (fun e => inA (fst e)) cells = map (shift_cc k n) (box_cells s w h) ->
    endorse_cells cells = Ok (acc, groups) ->
    exists sp, filter (fsside inA) acc = [FS (shift_span k n sp) (shift_frag k n (FRect (expected s w h)))]
               /\ filter (cside inA) groups = [].
Proof. exact box_recognised_in_context. Qed.
(** With plain text inside: a two-letter label at every interior position of the boxes of the eight styles with 2..5 x 1..2
    interior cells (also flush against a wall) - exactly the expected rectangle and the label as text in its cell. *)
Theorem C05_box_with_text_inside :
  forall s w h x y, In s styles -> In w [2; 3; 4; 5]%nat -> In h [1; 2]%nat -> (1 <= x < w)%nat -> (1 <= y <= h)%nat ->
    label_chk s w h x y = true.
Proof. exact box_with_label. Qed.
(** Sides with dashed stretches: rows a..b of the left, the right or both sides of a sharp box (1 or 3 x 2..5 interior cells)
    written with ':' or '!', every 1 <= a <= b <= h: exactly one rectangle of the expected position and size, dashed.
    (With a single interior row a lone ':' between two corners is text: observation O2 of DESIGN.md.) *)
Theorem C05_box_with_dashed_stretch :
  forall w h side ch a b, In w [1; 3]%nat -> In h [2; 3; 4; 5]%nat -> In ch [58; 33] -> (1 <= a <= b)%nat -> (b <= h)%nat ->
    stretch_chk w h side ch a b = true.
Proof. exact box_with_dashed_stretch. Qed.
(** Larger boxes (to 60 x 30) are decided by the correspondence and the oracle of this check. *)
Example C05_nonvacuous :
  is_rect [FLine (Line (P 20 40) (P 140 40) false); FLine (Line (P 20 40) (P 20 200) false);
           FLine (Line (P 140 40) (P 140 200) false); FLine (Line (P 20 200) (P 140 200) false)] = Ok true.
Proof. vm_compute. reflexivity. Qed.
