(** * C16 — Legend entries become CSS rules and {tags} style the enclosing shape.
    Statements only; proofs in Theory/LegendTheory.v and Theory/TagTheory.v. *)
Require Import SB.Theory.BoxDefs SB.Theory.TagSweep SB.Theory.TagCircle.
Require Import SB.Model.Base SB.Model.Unicode SB.Model.Geom SB.Model.Text SB.Model.Tree SB.Model.Svg SB.Model.Lib
  SB.Theory.LegendTheory SB.Theory.TagTheory.
From Coq Require Import String.
From Coq Require Import List.
Import ListNotations.
Local Open Scope string_scope.
Local Open Scope list_scope.
Local Open Scope Z_scope.

(** ** legend *)
(** Every legend in the documented form — header (blanks allowed around '#' and after
    "Legend:"), LF or CRLF line ends, entries [name = {declarations}] one per line with blanks
    allowed after the closing brace, names identifiers, declarations any characters except
    braces (line ends and quotes included) — reads back as exactly its entries, in order. *)
Theorem C16_legend_entries_read_back :
  forall b1 b2 b3 eol e0 t0 es,
    blank_run b1 -> blank_run b2 -> blank_run b3 -> eol_ok eol ->
    is_ident (fst e0) -> no_brace (snd e0) -> blank_run t0 ->
    Forall (fun et => is_ident (fst (fst et)) /\ no_brace (snd (fst et)) /\ blank_run (snd et)) es ->
    parse_css_legend (header_src b1 b2 b3 eol ++ entry_src e0 t0 ++ more_src eol es) = Some (e0 :: map fst es).
Proof. exact legend_roundtrip. Qed.
Check C16_legend_entries_read_back :
  forall b1 b2 b3 eol e0 t0 es,
    blank_run b1 -> blank_run b2 -> blank_run b3 -> eol_ok eol ->
    is_ident (fst e0) -> no_brace (snd e0) -> blank_run t0 ->
    Forall (fun et => is_ident (fst (fst et)) /\ no_brace (snd (fst et)) /\ blank_run (snd et)) es ->
    parse_css_legend (header_src b1 b2 b3 eol ++ entry_src e0 t0 ++ more_src eol es) = Some (e0 :: map fst es).

(** From the header line on nothing is drawn: the cell buffer is the one of the text before
    the header, and its styles are the entries, with LF or CRLF line ends (the legend is read
    with CRLF taken as LF, repair F13; declarations are taken without a CR of their own). *)
Theorem C16_legend_is_not_drawn :
  forall before eol e0 t0 es,
    Forall (fun c => c <> 35) before -> eol_ok eol ->
    is_ident (fst e0) -> no_brace (snd e0) -> cr_free (snd e0) -> blank_run t0 ->
    Forall (fun et => is_ident (fst (fst et)) /\ no_brace (snd (fst et)) /\ blank_run (snd et)) es ->
    Forall (fun et => cr_free (snd (fst et))) es ->
    cellbuffer_from (before ++ header_src [] [32] [] eol ++ entry_src e0 t0 ++ more_src eol es)
    = cellbuffer_of_text before (e0 :: map fst es).
Proof. exact cellbuffer_with_legend. Qed.

(** The CSS text written into the style element: one rule [.svgbob .name{ declarations }] per
    entry, joined by line feeds, in order. *)
Theorem C16_rules_in_order :
  forall e es, legend_css (e :: es) =
    (zs ".svgbob ." ++ fst e ++ zs "{ " ++ snd e ++ zs " }")
    ++ flat_map (fun x => 10 :: zs ".svgbob ." ++ fst x ++ zs "{ " ++ snd x ++ zs " }") es.
Proof.
  intros [n d] es. unfold legend_css. cbn [map fst snd]. f_equal.
  induction es as [|[n2 d2] t IH]; cbn [map flat_map]; [reflexivity|]. rewrite IH. reflexivity.
Qed.

(** ** tags *)
(** A fragment that fits inside no node of the tree is not taken by it: a tag outside every
    emitted element's bounds stays an ordinary text fragment. *)
Theorem C16_tag_outside_everything_stays_text :
  forall t o, enclose_deep_first t o = None <-> fits_somewhere t (ft_frag o) = false.
Proof. exact enclose_none_iff. Qed.

(** A taken tag is not rendered (the rendered fragments are unchanged) and its names are
    added to the class names of the tree. *)
Theorem C16_taken_tag_becomes_classes :
  forall t o t', frag_css_tag (ft_frag o) <> [] -> enclose_deep_first t o = Some t' ->
    fragments_of_tree t' = fragments_of_tree t
    /\ length (tags_of_tree t') = (length (tags_of_tree t) + length (frag_css_tag (ft_frag o)))%nat.
Proof. exact enclose_tag. Qed.

(** Any other taken fragment (ordinary text inside the shape included) is rendered exactly
    once and no class name is added or lost. *)
Theorem C16_other_text_unaffected :
  forall t o t', frag_css_tag (ft_frag o) = [] -> enclose_deep_first t o = Some t' ->
    adds (tags_of_tree t') (tags_of_tree t) (tags_of_tree o)
    /\ adds (fragments_of_tree t') (fragments_of_tree t) (fragments_of_tree o).
Proof. exact enclose_plain. Qed.

(** The innermost-shape clause.  Children are offered the tag before their parent ([enclose_unfold], next theorem),
    and therefore the node that takes a tag is an innermost one: [receives o tg t t'] says that [t'] is [t] with the
    names appended to the class names of ONE node N such that the tag fits inside N, fits inside no node below N (no
    shape nested in N contains it) and fits in no subtree that precedes N's branch; nothing else of the tree changes.
    For every tree and every tag. *)
Theorem C16_tag_goes_to_an_innermost_node :
  forall t o t', frag_css_tag (ft_frag o) <> [] -> enclose_deep_first t o = Some t' ->
    receives (ft_frag o) (frag_css_tag (ft_frag o)) t t'.
Proof. exact enclose_tag_innermost. Qed.

(** That the pass meets the shapes before the tag, so that the nesting exists when the tag arrives, is a property of the
    emitted order of the whole recognition; on nested boxes it is decided here by a sweep of the whole model from the cells
    to the (fragment, class names) list the document is made of ([tagged_fragments]: recognition, then the enclosure pass
    over all accepted fragments in their emitted order).  [tcases]: outer and inner box sharp or rounded, inner interior
    3..4 x 1..2 at interior offset 1..2 x 0..1 of the outer box, the tag {a} at every position of the inner interior
    where it fits, including flush against the right wall (repair F14).  [inside_chk]: exactly two fragments come out,
    the outer rectangle without names and the inner one named a; the tag is not rendered.  [outside_chk]: with the tag
    to the right of both boxes, three fragments: the two rectangles without names and the tag as text.  [around_chk]: the same with
    the tag one blank cell to the left of the outer box on a row of the inner box, above it, and below it. *)
Theorem C16_nested_boxes_name_the_inner_one :
  forall k, In k tcases -> inside_chk k = true /\ outside_chk k = true /\ around_chk k = true.
Proof. exact nested_tag. Qed.
(** ... and in circles: for every circle of the catalogue and every place where the tag {a} has room inside it without
    touching the drawing ([tag_places], 547 places in the 12 largest circles), exactly one fragment comes out: that
    circle, named a; the tag is not rendered. *)
Theorem C16_tag_in_a_circle_names_it :
  forall ep, In ep tag_places -> circle_tag_chk ep = true.
Proof. exact tag_in_circle. Qed.
Example C16_tcases_nonvacuous : List.length tcases = 144%nat.
Proof. vm_compute. reflexivity. Qed.

Theorem C16_children_first :
  forall f tags kids o,
    enclose_deep_first (FT f tags kids) o =
    match try_kids o kids with
    | Some kids' => Some (FT f tags kids')
    | None => if can_fit f (ft_frag o) then
                match frag_css_tag (ft_frag o) with
                | [] => Some (FT f tags (kids ++ [o]))
                | tg => Some (FT f (tags ++ tg) kids)
                end
              else None
    end.
Proof. exact enclose_unfold. Qed.

Example C16_nonvacuous_legend :
  parse_css_legend (zs "# Legend:" ++ [13; 10] ++ zs "a = {fill:red}  " ++ [13; 10] ++ zs "b_1 = {x" ++ [10] ++ zs "y}")
  = Some [(zs "a", zs "fill:red"); (zs "b_1", zs "x" ++ [10] ++ zs "y")].
Proof. vm_compute. reflexivity. Qed.
Example C16_nonvacuous_tag :
  match doc (zs "+-----+" ++ [10] ++ zs "|{a,b}|" ++ [10] ++ zs "+-----+") default_settings with
  | Ok d => true | Err _ => false end = true.
Proof. vm_compute. reflexivity. Qed.
