(** * C15 — Quoted text is shown verbatim, draws nothing, and displaces nothing.
    Statements only; proofs in Theory/QuoteTheory.v. *)
Require Import SB.Model.Base SB.Model.Unicode SB.Model.Geom SB.Model.Text SB.Theory.QuoteTheory.

(** A line [pre "body" post] (no quote in [pre] and [post]; no quote and no backslash in
    [body]; any other characters, multi-byte and double-width included): the quoted text is
    lifted out verbatim at the cell of the opening quote, and the row that goes on to be drawn
    is [pre], then as many spaces as the quoted region (quotes included) has columns, then
    [post]. *)
Theorem C15_quoted_segment :
  forall y pre body post,
    quote_free pre -> plain body -> quote_free post ->
    escape_line y (row_of_line (pre ++ 34 :: body ++ 34 :: post)) =
    Ok ([(C (Z.of_nat (length (row_of_line pre))) y, row_of_line body)],
        row_of_line pre ++ repeatZ 32 (length (row_of_line body) + 2) ++ row_of_line post).
Proof. exact quoted_line. Qed.
Check C15_quoted_segment :
  forall y pre body post,
    quote_free pre -> plain body -> quote_free post ->
    escape_line y (row_of_line (pre ++ 34 :: body ++ 34 :: post)) =
    Ok ([(C (Z.of_nat (length (row_of_line pre))) y, row_of_line body)],
        row_of_line pre ++ repeatZ 32 (length (row_of_line body) + 2) ++ row_of_line post).

(** Everything outside the quoted region is drawn exactly as if the region had been filled
    with spaces: the cells are those of the line with the region overwritten by spaces. *)
Theorem C15_rest_as_if_blanked :
  forall y pre body post,
    quote_free pre -> plain body -> quote_free post ->
    match escape_line y (row_of_line (pre ++ 34 :: body ++ 34 :: post)) with
    | Ok (texts, out) =>
        cells_of_row y 0 out
        = cells_of_row y 0 (row_of_line (pre ++ repeatZ 32 (length (row_of_line body) + 2) ++ post))
    | Err _ => False
    end.
Proof. exact quoted_line_cells. Qed.

(** The blank run is exactly as wide as the region for the row of every line: a double-width
    character counts two columns, its NUL filler none. *)
Theorem C15_blank_width_is_region_width :
  forall l, escaped_columns (row_of_line l) = Z.of_nat (length (row_of_line l)).
Proof. exact escaped_columns_row. Qed.

(** The general shape of the statement (any number of segments on the row); proved above for
    one segment per row, decided for 0..3 segments by the correspondence and the oracle. *)
Definition C15_full : Prop :=
  forall y l, exists texts out,
    escape_line y (row_of_line l) = Ok (texts, out) /\ length out = length (row_of_line l).

Example C15_nonvacuous :
  escape_line 0 (row_of_line [97; 34; 19968; 45; 34; 32; 124]) = Ok ([(C 1 0, [19968; 0; 45])], [97; 32; 32; 32; 32; 32; 32; 124]).
Proof. vm_compute. reflexivity. Qed.
