(** * C15 — Quoted text is shown verbatim, draws nothing, and displaces nothing.
    Statements only; proofs in Theory/QuoteTheory.v and Theory/QuoteMany.v. *)
Require Import SB.Model.Base SB.Model.Unicode SB.Model.Geom SB.Model.Text SB.Theory.QuoteTheory SB.Theory.QuoteMany.

(** A line [pre "body" post] (no quote in [pre] and [post]; no quote and no backslash in
    [body]; any other characters, multi-byte and double-width included): the quoted text is
    lifted out verbatim at the cell of the opening quote, and the row that goes on to be drawn
    is [pre], then as many spaces as the quoted region (quotes included) has columns, then
    [post]. *)
Theorem C15_quoted_segment :
  forall y pre body post,
    quote_free pre -> plain body -> quote_free post ->
    escape_line y (row_of_line (pre ++ 34 :: body ++ 34 :: post)) =
    Ok ([(C (Z.of_nat (length (row_of_line pre))) y, row_of_line body)],
        row_of_line pre ++ repeatZ 32 (length (row_of_line body) + 2) ++ row_of_line post).
Proof. exact quoted_line. Qed.
Check C15_quoted_segment :
  forall y pre body post,
    quote_free pre -> plain body -> quote_free post ->
    escape_line y (row_of_line (pre ++ 34 :: body ++ 34 :: post)) =
    Ok ([(C (Z.of_nat (length (row_of_line pre))) y, row_of_line body)],
        row_of_line pre ++ repeatZ 32 (length (row_of_line body) + 2) ++ row_of_line post).

(** Everything outside the quoted region is drawn exactly as if the region had been filled
    with spaces: the cells are those of the line with the region overwritten by spaces. *)
Theorem C15_rest_as_if_blanked :
  forall y pre body post,
    quote_free pre -> plain body -> quote_free post ->
    match escape_line y (row_of_line (pre ++ 34 :: body ++ 34 :: post)) with
    | Ok (texts, out) =>
        cells_of_row y 0 out
        = cells_of_row y 0 (row_of_line (pre ++ repeatZ 32 (length (row_of_line body) + 2) ++ post))
    | Err _ => False
    end.
Proof. exact quoted_line_cells. Qed.

(** The blank run is exactly as wide as the region for the row of every line: a double-width
    character counts two columns, its NUL filler none. *)
Theorem C15_blank_width_is_region_width :
  forall l, escaped_columns (row_of_line l) = Z.of_nat (length (row_of_line l)).
Proof. exact escaped_columns_row. Qed.

(** Any number of quoted segments on a line: A1 q B1 q A2 q B2 q ... An q Bn q D, q the double
    quote ([build segs D]),
    with quote-free [Ai] and [D] and bodies without quote or backslash.  Every body is lifted
    out verbatim, in order, at the column of its opening quote; what goes on to be drawn has the
    cells of the line in which every quoted region, quotes included, is overwritten by as many
    blanks as the region has columns ([blank_text]). *)
Theorem C15_any_number_of_segments :
  forall y segs post, Forall good_seg segs -> quote_free post ->
    escape_line y (row_of_line (build segs post))
    = Ok (texts_at y 0 (map rowseg segs), blanked (map rowseg segs) (row_of_line post)).
Proof. exact quoted_line_many. Qed.
Check C15_any_number_of_segments :
  forall y segs post, Forall good_seg segs -> quote_free post ->
    escape_line y (row_of_line (build segs post))
    = Ok (texts_at y 0 (map rowseg segs), blanked (map rowseg segs) (row_of_line post)).
Theorem C15_everything_else_as_if_blanked :
  forall y segs post, Forall good_seg segs -> quote_free post ->
    exists texts out, escape_line y (row_of_line (build segs post)) = Ok (texts, out)
      /\ map snd texts = map (fun s => row_of_line (snd s)) segs
      /\ cells_of_row y 0 out = cells_of_row y 0 (row_of_line (blank_text segs post)).
Proof. exact quoted_line_many_cells. Qed.
(** bodies that contain a backslash (the escaped quote) and unbalanced quotes are decided by
    the correspondence and the oracle of this check. *)
Example C15_nonvacuous_two_segments :
  escape_line 0 (row_of_line (build [([97], [98; 19968]); ([45], [99])] [124]))
  = Ok ([(C 1 0, [98; 19968; 0]); (C 7 0, [99])], [97; 32; 32; 32; 32; 32; 45; 32; 32; 32; 124]).
Proof. vm_compute. reflexivity. Qed.

Example C15_nonvacuous :
  escape_line 0 (row_of_line [97; 34; 19968; 45; 34; 32; 124]) = Ok ([(C 1 0, [19968; 0; 45])], [97; 32; 32; 32; 32; 32; 32; 124]).
Proof. vm_compute. reflexivity. Qed.
