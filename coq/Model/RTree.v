(** * RTree: balanced range trees for tables over Unicode scalar values *)
Require Import SB.Model.Base.
Inductive rtree := RLeaf | RNode (l : rtree) (lo hi v : Z) (r : rtree).
Fixpoint rlookup (t : rtree) (c : Z) : option Z :=
  match t with
  | RLeaf => None
  | RNode l lo hi v r =>
      if c <? lo then rlookup l c else if hi <? c then rlookup r c else Some v
  end.
Fixpoint rtree_ranges (t : rtree) : list (Z * Z * Z) :=
  match t with
  | RLeaf => []
  | RNode l lo hi v r => rtree_ranges l ++ (lo, hi, v) :: rtree_ranges r
  end.
