(** * Unicode: character classes the conversion path relies on.
    [char_width] is [UnicodeWidthChar::width], [is_whitespace] is [char::is_whitespace];
    both tables are dumped from the implementation on every run (Gen/Width.v, Gen/White.v). *)
Require Import SB.Model.Base SB.Model.RTree SB.Gen.Width SB.Gen.White.

Definition char_width (c : Z) : option Z :=
  match rlookup width_tree c with
  | Some v => if v <? 0 then None else Some v
  | None => Some 1
  end.
Definition is_whitespace (c : Z) : bool :=
  match rlookup white_tree c with Some _ => true | None => false end.

(** columns a character takes in the grid once the string buffer has added its NUL
    fillers: [ch.width().unwrap_or(1).max(1)] *)
Definition char_cols (c : Z) : Z :=
  match char_width c with Some w => Z.max w 1 | None => 1 end.

(** [CellText::columns] (after the repair of F3): NUL counts 0 *)
Definition text_columns (s : list Z) : Z :=
  fold_left (fun acc c => if c =? 0 then acc else acc + char_cols c) s 0.

(** [ch as u8] followed by pom's [alpha]/[alphanum] class tests *)
Definition low_byte (c : Z) : Z := c mod 256.
Definition byte_alpha (b : Z) : bool := ((65 <=? b) && (b <=? 90)) || ((97 <=? b) && (b <=? 122)).
Definition byte_digit (b : Z) : bool := (48 <=? b) && (b <=? 57).
Definition alpha_or_underscore (c : Z) : bool := byte_alpha (low_byte c) || (c =? 95).
Definition alphanum_or_underscore (c : Z) : bool :=
  byte_alpha (low_byte c) || byte_digit (low_byte c) || (c =? 95).

(** characters that XML 1.0 cannot represent (and that the repaired
    [replace_html_char] drops) *)
Definition non_xml (c : Z) : bool :=
  ((0 <=? c) && (c <=? 8)) || (c =? 11) || (c =? 12) || ((14 <=? c) && (c <=? 31))
  || (c =? 65534) || (c =? 65535).
