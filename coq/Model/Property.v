(** * Property: signals, signatures and the condition language of the behaviour
    closures of [ascii_map.rs] ([property.rs]).  The tables themselves are generated
    (Gen/AsciiMap.v translated from source, Gen/UnicodeMap.v dumped). *)
Require Import SB.Model.Base SB.Model.Geom SB.Model.Fragment.

Inductive signal := Faint | Weak | Medium | Strong.
Definition intensity (s : signal) : Z :=
  match s with Faint => 1 | Weak => 2 | Medium => 3 | Strong => 4 end.

Inductive dir8 := DTopLeft | DTop | DTopRight | DLeft | DRight | DBottomLeft | DBottom | DBottomRight.
Definition dir8_all := [DTopLeft; DTop; DTopRight; DLeft; DRight; DBottomLeft; DBottom; DBottomRight].
Definition dir8_offset (d : dir8) : cell :=
  match d with
  | DTopLeft => C (-1) (-1) | DTop => C 0 (-1) | DTopRight => C 1 (-1)
  | DLeft => C (-1) 0 | DRight => C 1 0
  | DBottomLeft => C (-1) 1 | DBottom => C 0 1 | DBottomRight => C 1 1
  end.

Inductive cond :=
| CTrue
| CIs (d : dir8) (ch : Z)
| COverlap (d : dir8) (lvl : signal) (a b : point)
| CArcsTo (d : dir8) (a b : point)
| CNot (c : cond)
| CAnd (c1 c2 : cond)
| COr (c1 c2 : cond).

Record property := Property {
  pch : Z;
  psig : list (signal * list fragment);
  pbeh : list (cond * list fragment) }.

Definition empty_property : property := Property 32 [] [].

(** fragment constructors as the tables call them *)
Definition fline (a b : point) : fragment := FLine (mk_line a b false).
Definition fbroken (a b : point) : fragment := FLine (mk_line a b true).
Definition farc (a b : point) (r : Z) : fragment := FArc (mk_arc a b r).
Definition fcircle (c : point) (r : Z) (filled : bool) : fragment := FCircle (Circle c r filled).
Definition frect (a b : point) (filled broken : bool) : fragment := FRect (mk_rect a b filled None broken).
Definition fpolygon (pts : list point) (filled : bool) (tags : list ptag) : fragment :=
  FPolygon (Polygon pts filled tags).
Definition cell_text_frag (ch : Z) : fragment := FCellText (CellText (C 0 0) [ch]).

Definition frag_line_overlap (f : fragment) (a b : point) : bool :=
  match f with FLine l => line_overlaps l a b | _ => false end.
Definition frag_arcs_to (f : fragment) (a b : point) : bool :=
  match f with
  | FArc x => let t := mk_arc a b 40 in
              point_eqb (astart x) (astart t) && point_eqb (aend x) (aend t)
              && Bool.eqb (asweep x) (asweep t)
  | _ => false
  end.

Definition prop_line_overlap (p : property) (lvl : signal) (a b : point) : bool :=
  existsb (fun '(s, fs) => (intensity lvl <=? intensity s) && existsb (fun f => frag_line_overlap f a b) fs)
          (psig p).
Definition prop_arcs_to (p : property) (a b : point) : bool :=
  existsb (fun '(_, fs) => existsb (fun f => frag_arcs_to f a b) fs) (psig p).

Fixpoint eval (env : dir8 -> property) (c : cond) : bool :=
  match c with
  | CTrue => true
  | CIs d ch => pch (env d) =? ch
  | COverlap d lvl a b => prop_line_overlap (env d) lvl a b
  | CArcsTo d a b => prop_arcs_to (env d) a b
  | CNot c => negb (eval env c)
  | CAnd c1 c2 => eval env c1 && eval env c2
  | COr c1 c2 => eval env c1 || eval env c2
  end.

(** [Property::fragments] *)
Definition property_fragments (p : property) (env : dir8 -> property) : list fragment :=
  flat_map (fun '(c, fs) => if eval env c then fs else []) (pbeh p).

(** [Property::with_strong_fragments] *)
Definition strong_property (ch : Z) (fs : list fragment) : property :=
  Property ch [(Strong, fs)] [(CTrue, fs)].
