(** * Tree: the enclosure pass ([fragment_tree.rs]).  After the repair F9 it runs on the
    unscaled fragments, so it is independent of the scale. *)
Require Import SB.Model.Base SB.Model.Geom SB.Model.Text SB.Model.Merge.

Inductive ftree := FT (f : fragment) (tags : list (list Z)) (kids : list ftree).
Definition ft_frag (t : ftree) : fragment := match t with FT f _ _ => f end.

(** [Fragment::as_css_tag] *)
Definition frag_css_tag (f : fragment) : list (list Z) :=
  match f with FCellText t => as_css_tag (ctcontent t) | _ => [] end.

(** [enclose_deep_first]: [Some t'] when [o] was taken in (as a class list or a child) *)
Fixpoint enclose_deep_first (t o : ftree) : option ftree :=
  match t with
  | FT f tags kids =>
      match (fix try_kids (ks : list ftree) : option (list ftree) :=
               match ks with
               | [] => None
               | k :: r => match enclose_deep_first k o with
                           | Some k' => Some (k' :: r)
                           | None => option_map (cons k) (try_kids r)
                           end
               end) kids with
      | Some kids' => Some (FT f tags kids')
      | None =>
          if can_fit f (ft_frag o) then
            match frag_css_tag (ft_frag o) with
            | [] => Some (FT f tags (kids ++ [o]))
            | tg => Some (FT f (tags ++ tg) kids)
            end
          else None
      end
  end.

(** [enclose_recursive] has exactly the shape of [merge_recursive] with
    [enclose_deep_first] as the merge *)
Definition enclose_fragments (fs : list fragment) : res (list ftree) :=
  merge_recursive enclose_deep_first (map (fun f => FT f [] []) fs).

(** pre-order listing of (fragment, class tags), as [into_nodes] emits them *)
Fixpoint flatten_tree (t : ftree) : list (fragment * list (list Z)) :=
  match t with
  | FT f tags kids => (f, tags) :: flat_map flatten_tree kids
  end.
