(** * FragBuf: spans, the property buffer, the fragment buffer and contact groups
    ([span.rs], [property_buffer.rs], [fragment_buffer.rs], [fragment_span.rs],
    [contacts.rs]). *)
Require Import SB.Model.Base SB.Model.Unicode SB.Model.Geom SB.Model.Fragment SB.Model.Merge
  SB.Model.Property SB.Gen.AsciiMap SB.Gen.UnicodeMap.

Definition span := list (cell * Z).
Definition cellchar_eqb (a b : cell * Z) : bool := cell_eqb (fst a) (fst b) && (snd a =? snd b).
Definition span_eqb (a b : span) : bool := list_eqb cellchar_eqb a b.

(** [Span::can_merge] / [Merge for Span] *)
Definition span_can_merge (a b : span) : bool :=
  existsb (fun x => existsb (fun y => cell_adjacent (fst x) (fst y)) b) a.
Definition span_merge (a b : span) : option span :=
  if span_can_merge a b then Some (a ++ b) else None.
(** [Vec<Span>::from(&CellBuffer)] *)
Definition spans_of_cells (cells : list (cell * Z)) : res (list span) :=
  merge_recursive span_merge (map (fun e => [e]) cells).

(** [Span::bounds]: (min x, min y), (max x, max y) *)
Definition span_bounds (s : span) : option (cell * cell) :=
  match s with
  | [] => None
  | (c, _) :: _ =>
      Some (C (zmin_list (cx c) (map (fun e => cx (fst e)) s)) (zmin_list (cy c) (map (fun e => cy (fst e)) s)),
            C (zmax_list (cx c) (map (fun e => cx (fst e)) s)) (zmax_list (cy c) (map (fun e => cy (fst e)) s)))
  end.
Definition span_localize (s : span) : span :=
  match span_bounds s with
  | Some (tl, _) => map (fun e => (cell_sub (fst e) tl, snd e)) s
  | None => s
  end.

(** ** tables *)
Fixpoint assoc_z {B} (k : Z) (l : list (Z * B)) : option B :=
  match l with [] => None | (k', v) :: t => if k =? k' then Some v else assoc_z k t end.
Definition unicode_fragments_of (ch : Z) : option (list fragment) := assoc_z ch unicode_fragments.
(** [Property::from_char] *)
Definition property_of_char (ch : Z) : option property :=
  match find (fun p => pch p =? ch) ascii_properties with
  | Some p => Some p
  | None => option_map (strong_property ch) (unicode_fragments_of ch)
  end.

Record fragspan := FS { fs_span : span; fs_frag : fragment }.
Definition fragspan_eqb (a b : fragspan) : bool :=
  span_eqb (fs_span a) (fs_span b) && fragment_eqb (fs_frag a) (fs_frag b).
Definition fragspan_less (a b : fragspan) : bool := fragment_less (fs_frag a) (fs_frag b).
Definition fragspan_abs (c : cell) (f : fragspan) : fragspan := FS (fs_span f) (fragment_abs c (fs_frag f)).
(** [Merge for FragmentSpan] *)
Definition fragspan_merge (a b : fragspan) : option fragspan :=
  match fragment_merge (fs_frag a) (fs_frag b) with
  | Some m => Some (FS (fs_span a ++ fs_span b) m)
  | None => None
  end.

(** ** the fragment buffer: a [BTreeMap<Cell, Vec<FragmentSpan>>] as a list sorted by key *)
Definition fragbuf := list (cell * list fragspan).
Fixpoint fb_update (c : cell) (f : option (list fragspan) -> list fragspan) (fb : fragbuf) : fragbuf :=
  match fb with
  | [] => [(c, f None)]
  | (k, v) :: t =>
      match cell_cmp c k with
      | Lt => (c, f None) :: fb
      | Eq => (k, f (Some v)) :: t
      | Gt => (k, v) :: fb_update c f t
      end
  end.
Definition sort_cell (v : list fragspan) : list fragspan := isort fragspan_less v.
Definition add_fragments_to_cell (c : cell) (ch : Z) (fs : list fragment) (fb : fragbuf) : fragbuf :=
  let new := map (fun f => FS [(c, ch)] f) fs in
  fb_update c (fun o => sort_cell (match o with Some ex => ex ++ new | None => new end)) fb.
Definition add_fragment_to_cell (c : cell) (ch : Z) (f : fragment) (fb : fragbuf) : fragbuf :=
  let x := FS [(c, ch)] f in
  fb_update c (fun o => sort_cell (match o with
                                   | Some ex => if mem fragspan_eqb x ex then ex else ex ++ [x]
                                   | None => [x]
                                   end)) fb.

(** ** the property buffer: a [HashMap<Cell, &Property>].  [pb_get] returns the value of
    the last insertion for the key; [pb_entries] lists each key once.  The order in
    which a hash map is iterated is not specified: [fragbuf_of_entries] takes the
    entries in an arbitrary order, and Theory shows the result does not depend on it. *)
Definition propbuf := list (cell * property).
Definition pb_get (pb : propbuf) (c : cell) : option property :=
  option_map snd (find (fun e => cell_eqb (fst e) c) (rev pb)).
Fixpoint pb_entries (pb : propbuf) : propbuf :=
  match pb with
  | [] => []
  | (c, p) :: t => if existsb (fun e => cell_eqb (fst e) c) t then pb_entries t else (c, p) :: pb_entries t
  end.
Definition pb_env (pb : propbuf) (c : cell) (d : dir8) : property :=
  match pb_get pb (cell_add c (dir8_offset d)) with Some p => p | None => empty_property end.

Definition add_entry (pb : propbuf) (fbr : res fragbuf) (e : cell * property) : res fragbuf :=
  do fb <- fbr;
  let '(c, p) := e in
  match property_fragments p (pb_env pb c) with
  | [] =>
      match unicode_fragments_of (pch p) with
      | Some fs => do m <- merge_recursive fragment_merge fs; Ok (add_fragments_to_cell c (pch p) m fb)
      | None => Ok (add_fragment_to_cell c (pch p) (cell_text_frag (pch p)) fb)
      end
  | fs => Ok (add_fragments_to_cell c (pch p) fs fb)
  end.
(** [From<PropertyBuffer> for FragmentBuffer], entries taken in the given order *)
Definition fragbuf_of_entries (pb : propbuf) (order : propbuf) : res fragbuf :=
  fold_left (add_entry pb) order (@Ok fragbuf []).

(** [From<Span> for PropertyBuffer] *)
Definition propbuf_of_span (s : span) : propbuf :=
  flat_map (fun e => match property_of_char (snd e) with Some p => [(fst e, p)] | None => [] end) s.

(** [From<Span> for FragmentBuffer] *)
Definition fragbuf_of_span (s : span) : res fragbuf :=
  let pb := propbuf_of_span s in
  do fb <- fragbuf_of_entries pb (pb_entries pb);
  Ok (fold_left (fun fb e =>
                   match pb_get pb (fst e) with
                   | Some _ => fb
                   | None =>
                       match unicode_fragments_of (snd e) with
                       | Some fs => add_fragments_to_cell (fst e) (snd e) fs fb
                       | None => add_fragment_to_cell (fst e) (snd e) (cell_text_frag (snd e)) fb
                       end
                   end) s fb).

(** [abs_fragment_spans] and [merge_fragment_spans] *)
Definition abs_fragment_spans (fb : fragbuf) : list fragspan :=
  flat_map (fun '(c, v) => map (fragspan_abs c) v) fb.
Definition merge_fragment_spans (fb : fragbuf) : res (list fragspan) :=
  merge_recursive fragspan_merge (abs_fragment_spans fb).

(** ** contacts *)
Definition contacts := list fragspan.
Definition contacts_is_contacting (a b : contacts) : bool :=
  existsb (fun o => existsb (fun f => is_contacting (fs_frag f) (fs_frag o)) a) b.
Definition contacts_merge (a b : contacts) : option contacts :=
  if contacts_is_contacting a b then Some (a ++ b) else None.
Definition contacts_span (c : contacts) : span := flat_map fs_span c.
(** [From<Span> for Vec<Contacts>] *)
Definition contacts_of_span (s : span) : res (list contacts) :=
  do fb <- fragbuf_of_span s;
  do merged <- merge_fragment_spans fb;
  merge_recursive contacts_merge (map (fun f => [f]) merged).
