(** * Base: shared imports and small generic list functions used by the model.
    No proofs here. *)
From Coq Require Export List ZArith Bool Lia.
Export ListNotations.
#[global] Open Scope Z_scope.

(** result of a computation that the Rust code can abort with a panic *)
Inductive site :=
| SiteLineParse | SiteEscapeSlice | SiteSpanBounds | SiteEndorseRect | SiteEndorseRounded
| SiteLegendSlice | SiteCircleArt.
Inductive err := Panic (s : site) | OutOfFuel.
Inductive res (A : Type) := Ok (a : A) | Err (e : err).
Arguments Ok {A} a. Arguments Err {A} e.

Definition bind {A B} (r : res A) (f : A -> res B) : res B :=
  match r with Ok a => f a | Err e => Err e end.
Notation "'do' x <- r ; k" := (bind r (fun x => k)) (at level 200, x pattern, r at level 100, k at level 200).

Fixpoint mapM {A B} (f : A -> res B) (l : list A) : res (list B) :=
  match l with
  | [] => Ok []
  | x :: t => do y <- f x; do ys <- mapM f t; Ok (y :: ys)
  end.

Definition cmp_then (c d : comparison) : comparison :=
  match c with Eq => d | _ => c end.
Definition is_lt (c : comparison) : bool := match c with Lt => true | _ => false end.
Definition is_eq (c : comparison) : bool := match c with Eq => true | _ => false end.
Definition bool_cmp (a b : bool) : comparison :=
  match a, b with false, true => Lt | true, false => Gt | _, _ => Eq end.

Fixpoint list_cmp {A} (c : A -> A -> comparison) (l m : list A) : comparison :=
  match l, m with
  | [], [] => Eq
  | [], _ => Lt
  | _, [] => Gt
  | x :: l', y :: m' => cmp_then (c x y) (list_cmp c l' m')
  end.

Fixpoint list_eqb {A} (e : A -> A -> bool) (l m : list A) : bool :=
  match l, m with
  | [], [] => true
  | x :: l', y :: m' => e x y && list_eqb e l' m'
  | _, _ => false
  end.

Definition zs_eqb := list_eqb Z.eqb.

Fixpoint find_map {A B} (f : A -> option B) (l : list A) : option B :=
  match l with
  | [] => None
  | x :: t => match f x with Some y => Some y | None => find_map f t end
  end.

Definition mem {A} (e : A -> A -> bool) (x : A) (l : list A) : bool := existsb (e x) l.

(** Rust's stable [sort] on slices of at most 20 elements is
    [insertion_sort_shift_left]: each element in turn sifts down from the tail while
    it is strictly less than its left neighbour.  [ins x l] returns the new list and
    whether [x] ended up at its head. *)
Section Sort.
Context {A : Type} (less : A -> A -> bool).
Fixpoint ins (x : A) (l : list A) : list A * bool :=
  match l with
  | [] => ([x], true)
  | e :: t =>
      let '(t', fl) := ins x t in
      if fl then (if less x e then (x :: e :: tl t', true) else (e :: t', false))
      else (e :: t', false)
  end.
Definition isort (l : list A) : list A := fold_left (fun acc x => fst (ins x acc)) l [].

(** [Vec::dedup]: removes consecutive repeated elements *)
Context (eqb : A -> A -> bool).
Fixpoint dedup (l : list A) : list A :=
  match l with
  | [] => []
  | x :: t => match t with
              | [] => [x]
              | y :: _ => if eqb x y then dedup t else x :: dedup t
              end
  end.
End Sort.

Fixpoint zmin_list (d : Z) (l : list Z) : Z :=
  match l with [] => d | x :: t => Z.min x (zmin_list x t) end.
Fixpoint zmax_list (d : Z) (l : list Z) : Z :=
  match l with [] => d | x :: t => Z.max x (zmax_list x t) end.
Definition zminimum (l : list Z) : option Z := match l with [] => None | x :: t => Some (zmin_list x l) end.
Definition zmaximum (l : list Z) : option Z := match l with [] => None | x :: t => Some (zmax_list x l) end.

Fixpoint index_from {A} (n : nat) (l : list A) : list (nat * A) :=
  match l with [] => [] | x :: t => (n, x) :: index_from (S n) t end.
Definition enumerate {A} (l : list A) := index_from 0%nat l.

Fixpoint repeatZ {A} (x : A) (n : nat) : list A := match n with O => [] | S k => x :: repeatZ x k end.
