(** * Endorse: recognising circles, arcs and rectangles ([circle_map.rs] matching,
    [endorse.rs], [Span::endorse], [CellBuffer::endorse_to_fragment_spans]).
    The circle and arc tables are dumped from the implementation's statics
    (Gen/CircleTables.v). *)
Require Import SB.Model.Base SB.Model.Unicode SB.Model.Geom SB.Model.Fragment SB.Model.Merge
  SB.Model.Property SB.Model.FragBuf SB.Gen.CircleTables.

(** [is_subset_of] applied to a table span and the localised search span, followed by
    the selection of the unmatched cells of the (unlocalised) search span *)
Definition table_match (table search : span) : option span :=
  let loc := span_localize search in
  if forallb (fun e => mem cellchar_eqb e loc) table then
    Some (map fst (filter (fun '(_, l) => negb (mem cellchar_eqb l table)) (combine search loc)))
  else None.

Definition endorse_circle_span (search : span) : option (circle * span) :=
  find_map (fun '(c, tspan) => option_map (fun un => (c, un)) (table_match tspan search)) (rev circles_span).
Definition endorse_arc_span (table : list (arc * span)) (search : span) : option (arc * span) :=
  find_map (fun '(a, tspan) => option_map (fun un => (a, un)) (table_match tspan search)) (rev table).

Definition arc_abs (c : cell) (a : arc) : arc :=
  Arc (cell_abs c (astart a)) (cell_abs c (aend a)) (aradius a) (amajor a) (asweep a).
Definition circle_abs (c : cell) (k : circle) : circle :=
  Circle (cell_abs c (ccenter k)) (cradius k) (cfilled k).

(** [Span::endorse_to_arcs_and_circles] *)
Definition endorse_to_arcs_and_circles (s : span) : res (list fragspan * span) :=
  match span_bounds s with
  | None => Err (Panic SiteSpanBounds)
  | Some (tl, _) =>
      match endorse_circle_span s with
      | Some (c, un) => Ok ([FS s (FCircle (circle_abs tl c))], un)
      | None =>
      match endorse_arc_span three_arc_span s with
      | Some (a, un) => Ok ([FS s (FArc (arc_abs tl a))], un)
      | None =>
      match endorse_arc_span half_arc_span s with
      | Some (a, un) => Ok ([FS s (FArc (arc_abs tl a))], un)
      | None =>
      match endorse_arc_span quarter_arc_span s with
      | Some (a, un) => Ok ([FS s (FArc (arc_abs tl a))], un)
      | None => Ok ([], s)
      end end end end
  end.

(** ** rectangles *)
Definition line_is_horizontal (l : line) : bool := py (lstart l) =? py (lend l).
Definition line_is_vertical (l : line) : bool := px (lstart l) =? px (lend l).
Definition line_aabb_parallel (a b : line) : bool :=
  (line_is_horizontal a && line_is_horizontal b
   && (px (lstart a) =? px (lstart b)) && (px (lend a) =? px (lend b)))
  || (line_is_vertical a && line_is_vertical b
      && (py (lstart a) =? py (lstart b)) && (py (lend a) =? py (lend b))).
Definition line_aabb_perpendicular (a b : line) : bool :=
  (line_is_horizontal a && line_is_vertical b) || (line_is_vertical a && line_is_horizontal b).
Definition frag_aabb_parallel (a b : fragment) : bool :=
  match a, b with FLine x, FLine y => line_aabb_parallel x y | _, _ => false end.

(** [parallel_aabb_group]: pairs of indices, scanned in row-major order *)
Definition pair_uses (ps : list (nat * nat)) (i : nat) : bool :=
  existsb (fun '(a, b) => Nat.eqb i a || Nat.eqb i b) ps.
Definition parallel_aabb_group (fs : list fragment) : list (nat * nat) :=
  let idx := enumerate fs in
  fold_left (fun ps '(i, f1) =>
    fold_left (fun ps '(j, f2) =>
      if negb (Nat.eqb i j) && negb (pair_uses ps i) && negb (pair_uses ps j) && frag_aabb_parallel f1 f2
      then ps ++ [(i, j)] else ps) idx ps) idx [].

Definition as_line (fs : list fragment) (i : nat) : option line :=
  match nth_error fs i with Some (FLine l) => Some l | _ => None end.

Definition all_bound_points (fs : list fragment) : list point :=
  flat_map (fun f => let '(a, b) := bounds f in [a; b]) fs.
Fixpoint pmin_list (d : point) (l : list point) : point :=
  match l with [] => d | x :: t => point_min x (pmin_list x t) end.
Fixpoint pmax_list (d : point) (l : list point) : point :=
  match l with [] => d | x :: t => point_max x (pmax_list x t) end.

Definition line_is (l : line) (x1 y1 x2 y2 : Z) : bool :=
  (px (lstart l) =? x1) && (py (lstart l) =? y1) && (px (lend l) =? x2) && (py (lend l) =? y2).
Definition arc_is (a : arc) (x1 y1 x2 y2 : Z) : bool :=
  (px (astart a) =? x1) && (py (astart a) =? y1) && (px (aend a) =? x2) && (py (aend a) =? y2).

(** [is_outline_of_bounds] (the repair F2) *)
Definition is_outline_of_bounds (ls : list line) : bool :=
  match flat_map (fun l => [lstart l; lend l]) ls with
  | [] => false
  | (p :: _) as pts =>
      let mn := pmin_list p pts in let mx := pmax_list p pts in
      (px mn <? px mx) && (py mn <? py mx)
      && existsb (fun l => line_is l (px mn) (py mn) (px mx) (py mn)) ls
      && existsb (fun l => line_is l (px mn) (py mx) (px mx) (py mx)) ls
      && existsb (fun l => line_is l (px mn) (py mn) (px mn) (py mx)) ls
      && existsb (fun l => line_is l (px mx) (py mn) (px mx) (py mx)) ls
  end.

(** [is_rect]; [Err] are the [expect]s and index panics *)
Definition is_rect (fs : list fragment) : res bool :=
  if Nat.eqb (length fs) 4 then
    match parallel_aabb_group fs with
    | [(a1, a2); (b1, b2)] =>
        match as_line fs a1, as_line fs b1, as_line fs a2, as_line fs b2 with
        | Some la1, Some lb1, Some la2, Some lb2 =>
            Ok ((line_is_touching la1 lb1 && line_aabb_perpendicular la1 lb1)
                && (line_is_touching la2 lb2 && line_aabb_perpendicular la2 lb2)
                && is_outline_of_bounds [la1; la2; lb1; lb2])
        | _, _, _, _ => Err (Panic SiteEndorseRect)
        end
    | _ => Ok false
    end
  else Ok false.

Definition bounding_rect (fs : list fragment) (radius : option Z) : option fragment :=
  match all_bound_points fs with
  | [] => None
  | (p :: _) as pts =>
      Some (FRect (mk_rect (pmin_list p pts) (pmax_list p pts) false radius (existsb is_broken fs)))
  end.

Definition endorse_rect (fs : list fragment) : res (option fragment) :=
  do ok <- is_rect fs;
  if ok then Ok (bounding_rect fs None) else Ok None.

(** [right_angle_arcs] *)
Definition right_angle_arcs (fs : list fragment) : list nat :=
  flat_map (fun '(i, f) => match f with FArc a => if arc_is_right_angle a then [i] else [] | _ => [] end)
           (enumerate fs).

(** [is_rounded_rect] *)
Definition is_rounded_rect (fs : list fragment) : res (bool * option Z) :=
  if Nat.eqb (length fs) 8 then
    match parallel_aabb_group fs, right_angle_arcs fs with
    | [(a1, a2); (b1, b2)], [r0; _; _; _] =>
        match nth_error fs r0 with
        | Some (FArc ar) =>
            match as_line fs a1, as_line fs b1, as_line fs a2, as_line fs b2 with
            | Some la1, Some lb1, Some la2, Some lb2 =>
                Ok (line_aabb_perpendicular la1 lb1 && line_aabb_perpendicular la2 lb2, Some (aradius ar))
            | _, _, _, _ => Err (Panic SiteEndorseRounded)
            end
        | _ => Err (Panic SiteEndorseRounded)
        end
    | _, _ => Ok (false, None)
    end
  else Ok (false, None).

Definition endorse_rounded_rect (fs : list fragment) : res (option fragment) :=
  do r <- is_rounded_rect fs;
  match r with
  | (true, Some rad) => Ok (bounding_rect fs (Some rad))
  | (true, None) => Err (Panic SiteEndorseRounded)
  | _ => Ok None
  end.

(** [Contacts::endorse_rect] *)
Definition contacts_endorse_rect (c : contacts) : res (option fragment) :=
  let fs := map fs_frag c in
  do r <- endorse_rect fs;
  match r with
  | Some f => Ok (Some f)
  | None => endorse_rounded_rect fs
  end.

(** [Contacts::endorse_rects] *)
Fixpoint endorse_rects (cs : list contacts) : res (list fragspan * list contacts) :=
  match cs with
  | [] => Ok ([], [])
  | c :: t =>
      do r <- contacts_endorse_rect c;
      do rest <- endorse_rects t;
      let '(acc, rej) := rest in
      match r with
      | Some f => Ok (FS (contacts_span c) f :: acc, rej)
      | None => Ok (acc, c :: rej)
      end
  end.

(** [Span::re_endorse] and [Span::endorse] *)
Definition re_endorse (rejects : list contacts) : res (list fragspan * list span) :=
  do spans <- merge_recursive span_merge (map contacts_span rejects);
  do rs <- mapM endorse_to_arcs_and_circles spans;
  Ok (flat_map fst rs, map snd rs).
Definition span_endorse (s : span) : res (list fragspan * list span) :=
  do r1 <- endorse_to_arcs_and_circles s;
  let '(acc1, un) := r1 in
  do cs <- contacts_of_span un;
  do r2 <- endorse_rects cs;
  let '(acc2, rej) := r2 in
  do r3 <- re_endorse rej;
  let '(acc3, rejspans) := r3 in
  Ok (acc1 ++ acc2 ++ acc3, rejspans).

(** [CellBuffer::endorse_to_fragment_spans]: (accepted, contact groups of two or more) *)
Definition endorse_cells (cells : list (cell * Z)) : res (list fragspan * list contacts) :=
  do spans <- spans_of_cells cells;
  do rs <- mapM (fun s =>
                   do r <- span_endorse s;
                   let '(acc, rejspans) := r in
                   do css <- mapM contacts_of_span rejspans;
                   Ok (acc, concat css)) spans;
  let endorsed := flat_map fst rs in
  let all_contacts := flat_map snd rs in
  let singles := filter (fun c => Nat.eqb (length c) 1) all_contacts in
  let groups := filter (fun c => negb (Nat.eqb (length c) 1)) all_contacts in
  Ok (endorsed ++ concat singles, groups).

(** [escaped_text_nodes]: one cell per character index *)
Definition escaped_fragspan (e : cell * list Z) : fragspan :=
  let '(c, s) := e in
  FS (map (fun '(i, ch) => (C (cx c + Z.of_nat i) (cy c), ch)) (enumerate s)) (FCellText (CellText c s)).
