(** * Fragment: the geometric predicates and merges of [fragment.rs], [line.rs],
    [arc.rs], [text.rs].  Float predicates are modelled by their exact meaning on the
    tick grid (DESIGN.md 3.2). *)
Require Import SB.Model.Base SB.Model.Unicode SB.Model.Geom.

(** cross product of (b-a) and (c-a), in square ticks *)
Definition cross (a b c : point) : Z :=
  (px b - px a) * (py c - py a) - (py b - py a) * (px c - px a).

(** [util::is_collinear] after the repair: |cross| * 0.5 < 0.01 in cell units, i.e.
    |cross| < 32 square ticks (1 square unit = 1600 square ticks) *)
Definition is_collinear (a b c : point) : bool := Z.abs (cross a b c) <? 32.

(** [Line::contains_point] after the repair: exactly on the segment *)
Definition line_contains (l : line) (p : point) : bool :=
  let a := lstart l in let b := lend l in
  (cross a b p =? 0)
  && (Z.min (px a) (px b) <=? px p) && (px p <=? Z.max (px a) (px b))
  && (Z.min (py a) (py b) <=? py p) && (py p <=? Z.max (py a) (py b)).
Definition line_overlaps (l : line) (a b : point) : bool := line_contains l a && line_contains l b.
Definition touching_line (l o : line) : bool := line_contains l (lstart o) || line_contains l (lend o).
Definition line_is_touching (l o : line) : bool := touching_line l o || touching_line o l.
Definition line_can_merge (l o : line) : bool :=
  line_is_touching l o && is_collinear (lstart l) (lend l) (lstart o)
  && is_collinear (lstart l) (lend l) (lend o).
Definition line_merge (l o : line) : option line :=
  if line_can_merge l o then
    Some (mk_line (point_min (lstart l) (lstart o)) (point_max (lend l) (lend o))
            (lbroken l || lbroken o))
  else None.

(** ** heading.  For a line normalised by [Line::new] ([lstart <= lend], so
    [dy >= 0]) the chain [slope -> atan -> octant -> full_angle -> round -> bucket]
    depends only on the sign of [dx] and on [t = atan (2 dy / |dx|)] in degrees:
    dx > 0: Right if t <= 9.5, BottomRight if t <= 79.5, else Bottom;
    dx < 0: Left if t < 10.5, BottomLeft if t < 80.5, else Bottom;
    dx = 0: Bottom (or Right for a degenerate point, whose angle is NaN).
    The tangents of the four bucket boundaries are irrational, so a rational slope
    never ties; they are represented by 12-digit rationals. *)
Inductive direction := TopLeft | Top | TopRight | Left | Right | BottomLeft | Bottom | BottomRight.
Definition TAN_9_5 : Z := 167342635356.    (* tan  9.5 deg * 10^12 *)
Definition TAN_79_5 : Z := 5395517159087.  (* tan 79.5 deg * 10^12 *)
Definition TAN_10_5 : Z := 185339046876.   (* tan 10.5 deg * 10^12 *)
Definition TAN_80_5 : Z := 5975764146212.  (* tan 80.5 deg * 10^12 *)
Definition E12 : Z := 1000000000000.
Definition heading (l : line) : direction :=
  let dx := px (lend l) - px (lstart l) in
  let dy := py (lend l) - py (lstart l) in
  (* general (possibly not normalised) line: the code's octant logic is symmetric in the
     sense below only for dy >= 0, which Line::new guarantees for every Line fragment *)
  if dy =? 0 then (if dx <? 0 then Left else Right)
  else if dx =? 0 then Bottom
  else if 0 <? dx then
    (if 2 * dy * E12 <=? TAN_9_5 * dx then Right
     else if 2 * dy * E12 <=? TAN_79_5 * dx then BottomRight else Bottom)
  else
    (if 2 * dy * E12 <? TAN_10_5 * (- dx) then Left
     else if 2 * dy * E12 <? TAN_80_5 * (- dx) then BottomLeft else Bottom).

(** squared [threshold_length * 0.75] in square ticks:
    width 1 -> 0.75 -> 30 ticks; height 2 -> 1.5 -> 60 ticks; diagonal sqrt 5 -> 45/16 *)
Definition threshold_sq (d : direction) : Z :=
  match d with
  | Left | Right => 900
  | Top | Bottom => 3600
  | _ => 4500
  end.
Definition dist_sq (a b : point) : Z :=
  (px a - px b) * (px a - px b) + (py a - py b) * (py a - py b).

Definition line_is_touching_circle (l : line) (c : circle) : bool :=
  (dist_sq (lstart l) (ccenter c) <? cradius c * cradius c)
  || (dist_sq (lend l) (ccenter c) <? cradius c * cradius c).

(** [Line::merge_circle]; the [panic!] arm is under [is_close_start || is_close_end]
    and therefore has no counterpart here *)
Definition merge_circle (l : line) (c : circle) : option fragment :=
  let th := threshold_sq (heading l) in
  let close_start := dist_sq (lstart l) (ccenter c) <=? th in
  let close_end := dist_sq (lend l) (ccenter c) <=? th in
  if (cradius c <=? 30) && (close_start || close_end) then
    let mk := if cfilled c then MCircle else if 20 <=? cradius c then MBigOpenCircle else MOpenCircle in
    let nl := if close_end then Line (lstart l) (ccenter c) (lbroken l)
              else Line (lend l) (ccenter c) (lbroken l) in
    Some (FMarkerLine (MarkerLine nl None (Some mk)))
  else None.

Definition ends_touch (s1 e1 s2 e2 : point) : bool :=
  point_eqb s1 s2 || point_eqb e1 e2 || point_eqb s1 e2 || point_eqb e1 s2.
Definition line_is_touching_arc (l : line) (a : arc) : bool :=
  ends_touch (lstart l) (lend l) (astart a) (aend a).
Definition arc_is_touching (a o : arc) : bool :=
  ends_touch (astart a) (aend a) (astart o) (aend o).

(** [Arc::is_aabb_right_angle_arc]: the centre computed from chord, radius and sweep
    coincides with a corner of the chord's bounding box iff |dx| = |dy| = r and the
    sweep picks that corner; with |dx| = |dy| = r both candidate centres are corners, so
    the test is |dx| = |dy| = r (DESIGN.md 3.2) *)
Definition arc_is_right_angle (a : arc) : bool :=
  (Z.abs (px (aend a) - px (astart a)) =? aradius a)
  && (Z.abs (py (aend a) - py (astart a)) =? aradius a) && (0 <? aradius a).

(** ** cell text *)
Definition celltext_can_merge (a b : celltext) : bool :=
  (cy (ctstart a) =? cy (ctstart b))
  && ((cx (ctstart a) + text_columns (ctcontent a) =? cx (ctstart b))
      || (cx (ctstart b) + text_columns (ctcontent b) =? cx (ctstart a))).
Definition celltext_merge (a b : celltext) : option celltext :=
  if celltext_can_merge a b then
    if cx (ctstart a) <? cx (ctstart b)
    then Some (CellText (ctstart a) (ctcontent a ++ ctcontent b))
    else Some (CellText (ctstart b) (ctcontent b ++ ctcontent a))
  else None.
(** [CellText::is_contacting]: some cell of [a] is on the row of, and adjacent to, some
    cell of [b]; cells of a text are [start.x .. start.x + columns) *)
Definition celltext_contacting (a b : celltext) : bool :=
  let ca := text_columns (ctcontent a) in
  let cb := text_columns (ctcontent b) in
  (0 <? ca) && (0 <? cb) && (cy (ctstart a) =? cy (ctstart b))
  && (cx (ctstart a) <=? cx (ctstart b) + cb) && (cx (ctstart b) <=? cx (ctstart a) + ca).

(** [Fragment::merge] *)
Definition fragment_merge (a b : fragment) : option fragment :=
  match a, b with
  | FLine l, FLine o => option_map FLine (line_merge l o)
  | FLine l, FCircle c => merge_circle l c
  | FCircle c, FLine l => merge_circle l c
  | FCellText t, FCellText o => option_map FCellText (celltext_merge t o)
  | _, _ => None
  end.

(** [Fragment::is_contacting] *)
Definition is_contacting (a b : fragment) : bool :=
  match a, b with
  | FLine l, FLine o => line_is_touching l o
  | FLine l, FArc o => line_is_touching_arc l o
  | FLine l, FCircle c => line_is_touching_circle l c
  | FArc x, FArc o => arc_is_touching x o
  | FArc x, FLine l => line_is_touching_arc l x
  | FCircle c, FLine l => line_is_touching_circle l c
  | FCellText t, FCellText o => celltext_contacting t o
  | _, _ => false
  end.
