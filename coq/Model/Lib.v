(** * Lib: settings, nodes of fragments, the document and the five entry points
    ([lib.rs], [settings.rs], the [From<_> for Node] impls, [CellBuffer::get_node*],
    [fragments_to_node], [group_nodes_and_fragments], [style], [get_defs]). *)
Require Import SB.Model.Base SB.Model.Unicode SB.Model.Geom SB.Model.Fragment SB.Model.Merge
  SB.Model.Text SB.Model.FragBuf SB.Model.Endorse SB.Model.Tree SB.Model.Svg
  SB.Gen.Style SB.Gen.Defaults.
From Coq Require Import QArith.
From Coq Require Import String.
From Coq Require Import List.
Import ListNotations.
#[global] Open Scope Z_scope.
Local Open Scope string_scope.
Local Open Scope list_scope.
Local Open Scope Z_scope.

Record settings := Settings {
  font_size : Z;
  font_family : list Z;
  fill_color : list Z;
  background : list Z;
  stroke_color : list Z;
  stroke_width : Q;
  scale : Q;
  include_backdrop : bool;
  include_styles : bool;
  include_defs : bool }.

Definition default_settings : settings :=
  Settings default_font_size default_font_family default_fill_color default_background
           default_stroke_color (inject_Z default_stroke_width) (inject_Z default_scale)
           default_include_backdrop default_include_styles default_include_defs.

(** a length of [t] ticks at scale [s], in user units *)
Definition sc (s : Q) (t : Z) : Q := Qred (inject_Z t * s / 40).

Definition A (name : String.string) (v : aval) : attr := (zs name, [v]).
Definition num (name : String.string) (q : Q) : attr := A name (VNum q).
Definition class_of (names : list String.string) : attr := (zs "class", map (fun n => VStr (zs n)) names).
Definition flag (name : String.string) (b : bool) : list String.string := if b then [name] else [].

Definition marker_name (m : marker) : String.string :=
  match m with
  | MArrow => "arrow" | MClearArrow => "clear_arrow" | MCircle => "circle" | MSquare => "square"
  | MDiamond => "diamond" | MOpenCircle => "open_circle" | MBigOpenCircle => "big_open_circle"
  end%string.

Definition line_attrs (s : Q) (l : line) : list attr :=
  [num "x1" (sc s (px (lstart l))); num "y1" (sc s (py (lstart l)));
   num "x2" (sc s (px (lend l))); num "y2" (sc s (py (lend l)));
   class_of (flag "broken" (lbroken l) ++ flag "solid" (negb (lbroken l)))].

(** [From<Fragment> for Node] applied to [fragment.scale(s)] *)
Definition fragment_node (s : Q) (f : fragment) : node :=
  match f with
  | FLine l => Elem (zs "line") (line_attrs s l) []
  | FMarkerLine m =>
      Elem (zs "line")
        (line_attrs s (mlline m)
         ++ (match mlstart m with Some k => [class_of [String.append "start_marked_" (marker_name k)]] | None => [] end)
         ++ (match mlend m with Some k => [class_of [String.append "end_marked_" (marker_name k)]] | None => [] end)) []
  | FCircle c =>
      Elem (zs "circle")
        [num "cx" (sc s (px (ccenter c))); num "cy" (sc s (py (ccenter c))); num "r" (sc s (cradius c));
         class_of (flag "filled" (cfilled c) ++ flag "nofill" (negb (cfilled c)))] []
  | FArc a =>
      Elem (zs "path")
        [A "d" (VArc (sc s (px (astart a))) (sc s (py (astart a))) (sc s (aradius a)) (amajor a) (asweep a)
                     (sc s (px (aend a))) (sc s (py (aend a))));
         class_of ["nofill"%string]] []
  | FPolygon p =>
      Elem (zs "polygon")
        [A "points" (VPoints (map (fun q => (sc s (px q), sc s (py q))) (ppoints p)));
         class_of (flag "filled" (pfilled p) ++ flag "nofill" (negb (pfilled p)))] []
  | FRect r =>
      Elem (zs "rect")
        [num "x" (sc s (px (rstart r))); num "y" (sc s (py (rstart r)));
         num "width" (sc s (px (rend r) - px (rstart r))); num "height" (sc s (py (rend r) - py (rstart r)));
         class_of (flag "broken" (rbroken r) ++ flag "solid" (negb (rbroken r))
                   ++ flag "filled" (rfilled r) ++ flag "nofill" (negb (rfilled r)));
         num "rx" (match rradius r with Some x => sc s x | None => 0%Q end)] []
  | FCellText t =>
      let q := cell_q (ctstart t) in
      Elem (zs "text") [num "x" (sc s (px q)); num "y" (sc s (py q))]
           [TextLeaf (escape_html_text (ctcontent t))]
  end.

(** [FragmentTree::into_nodes]: the class tags are merged into the node *)
Definition with_tags (n : node) (tags : list (list Z)) : node :=
  match n with
  | Elem tg attrs kids => Elem tg (merge_attribute (zs "class", map VStr tags) attrs) kids
  | TextLeaf _ => n
  end.
Definition fragment_nodes (s : Q) (fs : list fragment) : res (list node) :=
  do trees <- enclose_fragments fs;
  Ok (map (fun '(f, tags) => with_tags (fragment_node s f) tags) (flat_map flatten_tree trees)).

(** ** style and defs *)
Definition legend_css (css : list (list Z * list Z)) : list Z :=
  let rule := fun '(c, st) => zs ".svgbob ." ++ c ++ zs "{ " ++ st ++ zs " }" in
  match map rule css with
  | [] => []
  | r :: t => r ++ flat_map (fun x => 10 :: x) t
  end.
Definition fill_piece (st : settings) (legend : list Z) (p : style_piece) : list Z :=
  match p with
  | Lit s => s
  | HFontFamily => escape_html_text (font_family st)
  | HFill => escape_html_text (fill_color st)
  | HBackground => escape_html_text (background st)
  | HStrokeColor => escape_html_text (stroke_color st)
  | HFontSize => print_z (font_size st)
  | HStrokeWidth => print_q (stroke_width st)
  | HLegend => escape_html_text legend
  end.
Definition style_node (st : settings) (legend : list Z) : node :=
  Elem (zs "style") [] [TextLeaf (flat_map (fill_piece st legend) style_template)].

Definition sattr (n v : String.string) : attr := A n (VStr (zs v)).
Definition marker_node (id vb rx ry : String.string) (kid : node) : node :=
  Elem (zs "marker")
    [sattr "id" id; sattr "viewBox" vb; sattr "refX" rx; sattr "refY" ry; sattr "markerWidth" "7";
     sattr "markerHeight" "7"; sattr "orient" "auto-start-reverse"] [kid].
Definition marker_circle (r cls : String.string) : node :=
  Elem (zs "circle") [sattr "cx" "4"; sattr "cy" "4"; sattr "r" r; sattr "class" cls] [].
Definition defs_node : node :=
  Elem (zs "defs") []
    [marker_node "arrow" "-2 -2 8 8" "4" "2" (Elem (zs "polygon") [sattr "points" "0,0 0,4 4,2 0,0"] []);
     marker_node "diamond" "-2 -2 8 8" "4" "2" (Elem (zs "polygon") [sattr "points" "0,2 2,0 4,2 2,4 0,2"] []);
     marker_node "circle" "0 0 8 8" "4" "4" (marker_circle "2" "filled");
     marker_node "open_circle" "0 0 8 8" "4" "4" (marker_circle "2" "bg_filled");
     marker_node "big_open_circle" "0 0 8 8" "4" "4" (marker_circle "3" "bg_filled")].

(** ** the document *)
Definition canvas_of (st : settings) (br : cell) : Q * Q :=
  (Qred (scale st * inject_Z (cx br + 2)), Qred (scale st * inject_Z (cy br + 2) * 2)).
Definition canvas_size (st : settings) (cells : list (cell * Z)) : Q * Q := canvas_of st (cells_max cells).

Definition backdrop_node (w h : Q) : node :=
  Elem (zs "rect") [sattr "class" "backdrop"; sattr "x" "0"; sattr "y" "0"; num "width" w; num "height" h] [].

(** the fragments handed to the tree pass and the contact groups *)
Definition fragments_of (cb : cellbuffer) : res (list fragment * list (list fragment)) :=
  do r <- endorse_cells (cb_cells cb);
  let '(accepted, groups) := r in
  Ok (map fs_frag accepted ++ map (fun e => fs_frag (escaped_fragspan e)) (cb_escaped cb),
      map (map fs_frag) groups).

(** everything after endorsement: from the fragments handed to the tree pass, the contact
    groups and the legend's CSS text to the document ([get_node_override_size] without its
    first line) *)
Definition doc_emit (frags : list fragment) (groups : list (list fragment)) (legend : list Z)
    (st : settings) (w h : Q) : res node :=
  do fnodes <- fragment_nodes (scale st) frags;
  let gnodes := map (fun g => Elem (zs "g") [] (map (fragment_node (scale st)) g)) groups in
  Ok (Elem (zs "svg")
        [sattr "xmlns" "http://www.w3.org/2000/svg"; num "width" w; num "height" h; sattr "class" "svgbob"]
        ((if include_styles st then [style_node st legend] else [])
         ++ (if include_defs st then [defs_node] else [])
         ++ (if include_backdrop st then [backdrop_node w h] else [])
         ++ fnodes ++ gnodes)).

Definition doc_of (cb : cellbuffer) (st : settings) (w h : Q) : res node :=
  do r <- fragments_of cb;
  let '(frags, groups) := r in
  doc_emit frags groups (legend_css (cb_css cb)) st w h.

Definition doc (input : list Z) (st : settings) : res node :=
  do cb <- cellbuffer_from input;
  let '(w, h) := canvas_size st (cb_cells cb) in
  doc_of cb st w h.

(** ** the five entry points of [lib.rs] *)
Definition to_svg_with_settings (input : list Z) (st : settings) : res (list Z) :=
  do d <- doc input st; Ok (render false 0 d).
Definition to_svg_string_pretty (input : list Z) : res (list Z) := to_svg_with_settings input default_settings.
Definition to_svg (input : list Z) : res (list Z) := to_svg_string_pretty input.
Definition to_svg_string_compressed (input : list Z) : res (list Z) :=
  do d <- doc input default_settings; Ok (render true 0 d).
Definition to_svg_with_override_size (input : list Z) (st : settings) (w h : Q) : res (list Z) :=
  do cb <- cellbuffer_from input;
  do d <- doc_of cb st (Qred w) (Qred h); Ok (render false 0 d).
