(** * Svg: the node tree svgbob builds and sauron-core's renderer
    ([vdom/render.rs], [merge_attributes_of_same_name], [Element::merge_attributes]),
    numbers as exact rationals. *)
Require Import SB.Model.Base SB.Model.Unicode SB.Model.Geom.
From Coq Require Import QArith Ascii String.
From Coq Require Import List.
Import ListNotations.
#[global] Open Scope Z_scope.

Definition zs (s : string) : list Z :=
  map (fun a => Z.of_nat (nat_of_ascii a)) (list_ascii_of_string s).
Notation "'str' s" := (zs s%string) (at level 9, s at level 0, only parsing).

Inductive aval :=
| VStr (s : list Z)
| VNum (q : Q)
| VArc (x1 y1 r : Q) (major sweep : bool) (x2 y2 : Q)
| VPoints (pts : list (Q * Q)).
Definition attr := (list Z * list aval)%type.
Inductive node :=
| Elem (tag : list Z) (attrs : list attr) (kids : list node)
| TextLeaf (s : list Z).

(** ** printing numbers *)
Fixpoint digits_aux (fuel : nat) (n : Z) (acc : list Z) : list Z :=
  match fuel with
  | O => acc
  | S f => if n <? 10 then (48 + n) :: acc else digits_aux f (n / 10) ((48 + n mod 10) :: acc)
  end.
Definition print_z_nonneg (n : Z) : list Z := digits_aux (S (Z.to_nat (Z.log2 n))) n [].
Definition print_z (n : Z) : list Z := if n <? 0 then 45 :: print_z_nonneg (- n) else print_z_nonneg n.
Fixpoint frac_digits (fuel : nat) (r d : Z) : list Z :=
  match fuel with
  | O => []
  | S f => if r =? 0 then [] else (48 + (r * 10) / d) :: frac_digits f ((r * 10) mod d) d
  end.
Fixpoint strip_zeros_rev (l : list Z) : list Z :=
  match l with c :: t => if c =? 48 then strip_zeros_rev t else l | [] => [] end.
(** exact decimal expansion, cut after 9 fractional digits *)
Definition print_q (q : Q) : list Z :=
  let q := Qred q in
  let n := Qnum q in let d := Zpos (Qden q) in
  let a := Z.abs n in
  let fr := rev (strip_zeros_rev (rev (frac_digits 9 (a mod d) d))) in
  (if n <? 0 then [45] else []) ++ print_z_nonneg (a / d) ++ (match fr with [] => [] | _ => 46 :: fr end).

Definition b01 (b : bool) : list Z := if b then [49] else [48].
Definition print_aval (v : aval) : list Z :=
  match v with
  | VStr s => s
  | VNum q => print_q q
  | VArc x1 y1 r mj sw x2 y2 =>
      (str "M ") ++ print_q x1 ++ [44] ++ print_q y1 ++ (str " A ") ++ print_q r ++ [44] ++ print_q r
      ++ (str " 0,") ++ b01 mj ++ [44] ++ b01 sw ++ [32] ++ print_q x2 ++ [44] ++ print_q y2
  | VPoints pts =>
      concat (match map (fun '(x, y) => print_q x ++ [44] ++ print_q y) pts with
              | [] => []
              | p :: t => p :: map (fun s => 32 :: s) t
              end)
  end.

(** ** attributes *)
(** [Element::merge_attributes]: append to the first attribute of that name, else push *)
Fixpoint merge_attribute (a : attr) (l : list attr) : list attr :=
  match l with
  | [] => [a]
  | (n, vs) :: t => if zs_eqb n (fst a) then (n, vs ++ snd a) :: t else (n, vs) :: merge_attribute a t
  end.
(** [merge_attributes_of_same_name]: first-occurrence order, values concatenated *)
Definition merge_same_name (l : list attr) : list attr := fold_left (fun acc a => merge_attribute a acc) l [].

Fixpoint join_sp (l : list (list Z)) : list Z :=
  match l with
  | [] => []
  | [s] => s
  | s :: t => s ++ 32 :: join_sp t
  end.
Definition render_attr (a : attr) : list Z :=
  32 :: match snd a with
        | [] => []
        | vs => fst a ++ [61; 34] ++ join_sp (map print_aval vs) ++ [34]
        end.

(** ** rendering ([render_with_indent]) *)
Definition indent (compressed : bool) (n : nat) : list Z :=
  if compressed then [] else 10 :: repeatZ 32 (2 * n).
Definition is_text (n : node) : bool := match n with TextLeaf _ => true | _ => false end.
Fixpoint render (compressed : bool) (depth : nat) (n : node) : list Z :=
  match n with
  | TextLeaf s => s
  | Elem tag attrs kids =>
      [60] ++ tag ++ flat_map render_attr (merge_same_name attrs) ++ [62]
      ++ (match kids with
          | [TextLeaf s] => s
          | [] => []
          | _ => flat_map (fun k => indent compressed (S depth) ++ render compressed (S depth) k) kids
                 ++ indent compressed depth
          end)
      ++ [60; 47] ++ tag ++ [62]
  end.

(** ** escaping ([escape_html_text], after the repairs F4 and F12) *)
Definition replace_html_char (c : Z) : list Z :=
  if c =? 62 then (str "&gt;") else if c =? 60 then (str "&lt;") else if c =? 38 then (str "&amp;")
  else if c =? 39 then (str "&#39;") else if c =? 34 then (str "&quot;")
  else if c =? 13 then (str "&#13;")
  else if non_xml c then [] else [c].
Definition escape_html_text (s : list Z) : list Z := flat_map replace_html_char s.
