(** * Server: the handler logic of [svgbob_server/src/main.rs] and UTF-8 as [String::from_utf8]
    validates it.  Sockets, axum's routing and limits, tokio scheduling are runtime. *)
Require Import SB.Model.Base SB.Model.Svg SB.Model.Lib SB.Gen.Server.
From Coq Require Import List.
Import ListNotations.
#[global] Open Scope Z_scope.

(** ** UTF-8 *)
Definition is_scalar (c : Z) : bool := ((0 <=? c) && (c <=? 55295)) || ((57344 <=? c) && (c <=? 1114111)).
Definition utf8_encode_char (c : Z) : list Z :=
  if c <? 128 then [c]
  else if c <? 2048 then [192 + c / 64; 128 + c mod 64]
  else if c <? 65536 then [224 + c / 4096; 128 + (c / 64) mod 64; 128 + c mod 64]
  else [240 + c / 262144; 128 + (c / 4096) mod 64; 128 + (c / 64) mod 64; 128 + c mod 64].
Definition utf8_encode (s : list Z) : list Z := flat_map utf8_encode_char s.

Definition cont (b : Z) : bool := (128 <=? b) && (b <=? 191).
(** decodes the first character: (scalar, remaining bytes); [None] on an ill-formed sequence
    (bad lead byte, missing or bad continuation byte, overlong form, surrogate, above U+10FFFF) *)
Definition utf8_decode_char (bs : list Z) : option (Z * list Z) :=
  match bs with
  | [] => None
  | b0 :: r0 =>
      if (0 <=? b0) && (b0 <? 128) then Some (b0, r0)
      else if (194 <=? b0) && (b0 <=? 223) then
        match r0 with
        | b1 :: r1 => if cont b1 then Some ((b0 - 192) * 64 + (b1 - 128), r1) else None
        | _ => None
        end
      else if (224 <=? b0) && (b0 <=? 239) then
        match r0 with
        | b1 :: b2 :: r2 =>
            let c := (b0 - 224) * 4096 + (b1 - 128) * 64 + (b2 - 128) in
            if cont b1 && cont b2 && (2048 <=? c) && negb ((55296 <=? c) && (c <=? 57343)) then Some (c, r2) else None
        | _ => None
        end
      else if (240 <=? b0) && (b0 <=? 244) then
        match r0 with
        | b1 :: b2 :: b3 :: r3 =>
            let c := (b0 - 240) * 262144 + (b1 - 128) * 4096 + (b2 - 128) * 64 + (b3 - 128) in
            if cont b1 && cont b2 && cont b3 && (65536 <=? c) && (c <=? 1114111) then Some (c, r3) else None
        | _ => None
        end
      else None
  end.
Fixpoint utf8_decode_fuel (fuel : nat) (bs : list Z) : option (list Z) :=
  match bs with
  | [] => Some []
  | _ => match fuel with
         | O => None
         | S f => match utf8_decode_char bs with
                  | Some (c, rest) => option_map (cons c) (utf8_decode_fuel f rest)
                  | None => None
                  end
         end
  end.
Definition utf8_decode (bs : list Z) : option (list Z) := utf8_decode_fuel (length bs) bs.

(** ** the handler *)
Inductive meth := GET | POST | OtherMethod.
(** status and body of the answer to one request for path "/" (other paths: 404 by the router) *)
Definition handle (m : meth) (root_path : bool) (body : list Z) : Z * list Z :=
  if negb root_path then (404, [])
  else match m with
       | GET => (200, server_hello)
       | POST => match utf8_decode body with
                 | Some s => match to_svg s with Ok svg => (200, utf8_encode svg) | Err _ => (500, []) end
                 | None => (400, [])
                 end
       | OtherMethod => (405, [])
       end.

(** serving a sequence of requests: the handler has no state to thread *)
Definition serve (reqs : list (meth * bool * list Z)) : list (Z * list Z) :=
  map (fun r => handle (fst (fst r)) (snd (fst r)) (snd r)) reqs.
