(** * Show: canonical text of model values, in the format the Rust harness prints for the
    implementation's values, and the dispatcher the drivers call.  (Not part of the
    model of svgbob; part of the correspondence check.) *)
Require Import SB.Model.Base SB.Model.Unicode SB.Model.Geom SB.Model.Fragment SB.Model.Merge
  SB.Model.Property SB.Model.Text SB.Model.FragBuf SB.Model.Endorse SB.Model.Tree SB.Model.Svg SB.Model.Lib.
From Coq Require Import QArith String.
From Coq Require Import List.
Import ListNotations.
Local Open Scope string_scope.
Local Open Scope list_scope.
Local Open Scope Z_scope.

Fixpoint join (sep : list Z) (l : list (list Z)) : list Z :=
  match l with
  | [] => []
  | [s] => s
  | s :: t => s ++ sep ++ join sep t
  end.
Definition commas (l : list (list Z)) : list Z := join [44] l.
Definition dots (s : list Z) : list Z := join [46] (map print_z s).
Definition sb (b : bool) : list Z := if b then [49] else [48].
Definition par (k : string) (body : list Z) : list Z := zs k ++ [40] ++ body ++ [41].

Definition show_marker (m : option marker) : list Z :=
  match m with None => [45] | Some k => zs (marker_name k) end.
Definition show_tag (t : ptag) : list Z :=
  zs (match t with
      | ArrowTopLeft => "ArrowTopLeft" | ArrowTop => "ArrowTop" | ArrowTopRight => "ArrowTopRight"
      | ArrowLeft => "ArrowLeft" | ArrowRight => "ArrowRight" | ArrowBottomLeft => "ArrowBottomLeft"
      | ArrowBottom => "ArrowBottom" | ArrowBottomRight => "ArrowBottomRight" | DiamondBullet => "DiamondBullet"
      end).
Definition show_pt (p : point) : list (list Z) := [print_z (px p); print_z (py p)].

Definition show_fragment (f : fragment) : list Z :=
  match f with
  | FLine l => par "L" (commas (show_pt (lstart l) ++ show_pt (lend l) ++ [sb (lbroken l)]))
  | FMarkerLine m =>
      par "ML" (commas (show_pt (lstart (mlline m)) ++ show_pt (lend (mlline m))
                        ++ [sb (lbroken (mlline m)); show_marker (mlstart m); show_marker (mlend m)]))
  | FCircle c => par "C" (commas (show_pt (ccenter c) ++ [print_z (cradius c); sb (cfilled c)]))
  | FArc a => par "A" (commas (show_pt (astart a) ++ show_pt (aend a)
                               ++ [print_z (aradius a); sb (amajor a); sb (asweep a)]))
  | FPolygon p =>
      par "P" (join [59] ([sb (pfilled p)] ++ map (fun q => commas (show_pt q)) (ppoints p)
                          ++ [commas (map show_tag (ptags p))]))
  | FRect r => par "R" (commas (show_pt (rstart r) ++ show_pt (rend r)
                                ++ [sb (rfilled r); match rradius r with Some x => print_z x | None => [45] end;
                                    sb (rbroken r)]))
  | FCellText t => par "CT" (commas [print_z (cx (ctstart t)); print_z (cy (ctstart t)); dots (ctcontent t)])
  end.
Definition show_frags (fs : list fragment) : list Z := join [32] (map show_fragment fs).
Definition show_cellchar (e : cell * Z) : list Z :=
  commas [print_z (cx (fst e)); print_z (cy (fst e)); print_z (snd e)].
Definition show_span (s : span) : list Z := join [59] (map show_cellchar s).
Definition show_fragspan (with_span : bool) (f : fragspan) : list Z :=
  if with_span then show_fragment (fs_frag f) ++ [64] ++ show_span (fs_span f) else show_fragment (fs_frag f).
Definition show_fragspans (ws : bool) (fs : list fragspan) : list Z := join [32] (map (show_fragspan ws) fs).
Definition show_celltexts (l : list (cell * list Z)) : list Z :=
  join [59] (map (fun e => commas [print_z (cx (fst e)); print_z (cy (fst e)); dots (snd e)]) l).
Definition bar : list Z := zs " | ".

Definition show_site (s : site) : string :=
  match s with
  | SiteLineParse => "line_parse" | SiteEscapeSlice => "escape_slice" | SiteSpanBounds => "span_bounds"
  | SiteEndorseRect => "endorse_rect" | SiteEndorseRounded => "endorse_rounded"
  | SiteLegendSlice => "legend_slice" | SiteCircleArt => "circle_art"
  end.
Definition show_res (r : res (list Z)) : list Z :=
  match r with
  | Ok s => s
  | Err (Panic s) => zs "ERR panic " ++ zs (show_site s)
  | Err OutOfFuel => zs "ERR out_of_fuel"
  end.

Definition op_cells (input : list Z) : res (list Z) :=
  do cb <- cellbuffer_from input;
  Ok (zs "cells " ++ show_span (cb_cells cb) ++ zs " | esc " ++ show_celltexts (cb_escaped cb)
      ++ zs " | css " ++ join [59] (map (fun '(n, d) => dots n ++ [61] ++ dots d) (cb_css cb))
      ++ zs " | L " ++ dots (legend_css (cb_css cb))
      ++ zs " | B " ++ (let br := cells_max (cb_cells cb) in commas [print_z (cx br); print_z (cy br)])).
Definition op_spans (input : list Z) : res (list Z) :=
  do cb <- cellbuffer_from input;
  do spans <- spans_of_cells (cb_cells cb);
  Ok (join bar (map show_span spans)).
Definition op_merged (ws : bool) (input : list Z) : res (list Z) :=
  do cb <- cellbuffer_from input;
  do spans <- spans_of_cells (cb_cells cb);
  do ms <- mapM (fun s => do fb <- fragbuf_of_span s; merge_fragment_spans fb) spans;
  Ok (join bar (map (show_fragspans ws) ms)).
Definition op_contacts (input : list Z) : res (list Z) :=
  do cb <- cellbuffer_from input;
  do spans <- spans_of_cells (cb_cells cb);
  do cs <- mapM contacts_of_span spans;
  Ok (join bar (map (fun groups => join (zs " / ") (map (show_fragspans false) groups)) cs)).
Definition op_frags (ws : bool) (input : list Z) : res (list Z) :=
  do cb <- cellbuffer_from input;
  do r <- endorse_cells (cb_cells cb);
  let '(acc, groups) := r in
  let br := cells_max (cb_cells cb) in
  Ok (zs "A " ++ show_fragspans ws acc
      ++ flat_map (fun g => zs " | G " ++ show_fragspans ws g) groups
      ++ zs " | E " ++ show_celltexts (cb_escaped cb)
      ++ zs " | L " ++ dots (legend_css (cb_css cb))
      ++ zs " | B " ++ commas [print_z (cx br); print_z (cy br)]).
(** behaviour of one character given its eight neighbours (0 = none) *)
Definition op_behav (input : list Z) : res (list Z) :=
  match input with
  | ch :: ns =>
      match property_of_char ch with
      | None => Ok (zs "NONE")
      | Some p =>
          let env := fun d : dir8 =>
            let k := match d with
                     | DTopLeft => 0 | DTop => 1 | DTopRight => 2 | DLeft => 3 | DRight => 4
                     | DBottomLeft => 5 | DBottom => 6 | DBottomRight => 7
                     end%nat in
            match nth k ns 0 with
            | 0 => empty_property
            | c => match property_of_char c with Some q => q | None => empty_property end
            end in
          Ok (join (zs " ; ") (map (fun '(c, fs) => sb (eval env c) ++ [58] ++ show_frags fs) (pbeh p)))
      end
  | [] => Ok (zs "NONE")
  end.

(** entry points: 0 to_svg, 1 pretty, 2 compressed, 3 settings, 4 override *)
Definition op_svg (entry : Z) (st : settings) (w h : Q) (input : list Z) : res (list Z) :=
  match entry with
  | 0 => to_svg input
  | 1 => to_svg_string_pretty input
  | 2 => to_svg_string_compressed input
  | 3 => to_svg_with_settings input st
  | _ => to_svg_with_override_size input st w h
  end.

(** ** stage-local operations: the implementation's own intermediate result goes in, so that a
    divergence is attributed to the stage in which it arises *)
(** stage 2-5: cell map -> accepted fragments and contact groups *)
Definition op_endorse (ws : bool) (cells : list (cell * Z)) : list Z :=
  show_res
    (do r <- endorse_cells cells;
     let '(acc, groups) := r in
     Ok (zs "A " ++ show_fragspans ws acc ++ flat_map (fun g => zs " | G " ++ show_fragspans ws g) groups)).
(** stage 6: fragments, groups, quoted texts, legend CSS and bottom-right cell -> document *)
Definition op_emit (entry : Z) (st : settings) (w h : Q) (acc : list fragment) (groups : list (list fragment))
    (esc : list (cell * list Z)) (legend : list Z) (br : cell) : list Z :=
  let frags := acc ++ map (fun e => fs_frag (escaped_fragspan e)) esc in
  show_res
    (match entry with
     | 4 => do d <- doc_emit frags groups legend st (Qred w) (Qred h); Ok (render false 0 d)
     | 3 => let '(cw, chh) := canvas_of st br in do d <- doc_emit frags groups legend st cw chh; Ok (render false 0 d)
     | 2 => let '(cw, chh) := canvas_of default_settings br in
            do d <- doc_emit frags groups legend default_settings cw chh; Ok (render true 0 d)
     | _ => let '(cw, chh) := canvas_of default_settings br in
            do d <- doc_emit frags groups legend default_settings cw chh; Ok (render false 0 d)
     end).

(** ops: 10 cells, 11 spans, 12 merged, 13 mergedspan, 14 contacts, 15 frags, 16 fragspans, 17 behav *)
Definition run_op (op : Z) (st : settings) (w h : Q) (input : list Z) : list Z :=
  show_res
    (if op <? 10 then op_svg op st w h input
     else match op with
          | 10 => op_cells input
          | 11 => op_spans input
          | 12 => op_merged false input
          | 13 => op_merged true input
          | 14 => op_contacts input
          | 15 => op_frags false input
          | 16 => op_frags true input
          | _ => op_behav input
          end).

(** ** the command-line tool: a first-order description of a case and the printed outcome *)
Require Import SB.Model.Cli.
Record cli_case := CliCase {
  cc_files : list (list Z * read_result); cc_stdin : read_result; cc_nowrite : list (list Z);
  cc_usize : list (list Z * Z); cc_f32 : list (list Z * Q); cc_opts : options }.
Fixpoint assoc_l {B} (k : list Z) (l : list (list Z * B)) : option B :=
  match l with [] => None | (k', v) :: t => if zs_eqb k k' then Some v else assoc_l k t end.
Definition env_of_case (c : cli_case) : env :=
  Env (fun p => match assoc_l p (cc_files c) with Some r => r | None => ReadError end)
      (cc_stdin c)
      (fun p => negb (existsb (zs_eqb p) (cc_nowrite c)))
      (fun s => assoc_l s (cc_usize c))
      (fun s => assoc_l s (cc_f32 c)).
Definition show_writes (ws : list (list Z * list Z)) : list (list Z * list Z) := ws.
(** the outcome as (code or -1 for a crash, diagnostic flag, stdout, writes) *)
Definition op_cli (c : cli_case) : Z * bool * list Z * list (list Z * list Z) :=
  match run (env_of_case c) (cc_opts c) with
  | Exit code out diag ws => (code, diag, out, ws)
  | Crash => (-1, true, [], [])
  end.
Definition op_build (c : cli_case) (dir_exists : bool) (outdir ext : list Z) (l : list entry) : Z * bool * list Z * list (list Z * list Z) :=
  match build (env_of_case c) dir_exists (fun name => outdir ++ [47] ++ name ++ zs ".svg") ext l with
  | Exit code out diag ws => (code, diag, out, ws)
  | Crash => (-1, true, [], [])
  end.

(** ** the HTTP handler *)
Require Import SB.Model.Server.
Definition op_http (m : Z) (root : bool) (body : list Z) : Z * list Z :=
  handle (match m with 0 => GET | 1 => POST | _ => OtherMethod end) root body.
