(** * Text: from the input string to the cell map ([string_buffer.rs],
    [CellBuffer::from], [escape_line]) and the three pom grammars of [util::parser]
    ([line_parse], [parse_css_legend], [parse_css_tag]).
    A string is a list of Unicode scalar values. *)
Require Import SB.Model.Base SB.Model.Unicode SB.Model.Geom.

(** ** [str::lines]: split after every LF; a piece that ended in LF loses it and then one
    CR; a last piece without LF is kept as it is *)
Definition strip_cr_rev (cur : list Z) : list Z :=
  match cur with c :: r => if c =? 13 then r else cur | [] => cur end.
Fixpoint lines_aux (s cur : list Z) : list (list Z) :=
  match s with
  | [] => match cur with [] => [] | _ => [rev cur] end
  | c :: t => if c =? 10 then rev (strip_cr_rev cur) :: lines_aux t [] else lines_aux t (c :: cur)
  end.
Definition lines (s : list Z) : list (list Z) := lines_aux s [].

(** ** [StringBuffer::from]: every character followed by width-1 NUL fillers *)
Definition fillers (c : Z) : list Z :=
  match char_width c with
  | Some w => repeatZ 0 (Z.to_nat (w - 1))
  | None => []
  end.
Definition row_of_line (l : list Z) : list Z := flat_map (fun c => c :: fillers c) l.
Definition string_buffer (s : list Z) : list (list Z) := map row_of_line (lines s).

(** ** [line_parse]: positions of the quoted segments of a row *)
Fixpoint skip_nq (s : list Z) (pos : nat) : list Z * nat :=   (* none_of(dquote).repeat(0..) *)
  match s with
  | c :: t => if c =? 34 then (s, pos) else skip_nq t (S pos)
  | [] => ([], pos)
  end.
(** (escape_sequence | none_of(dquote)).repeat(0..) where escape_sequence = backslash dquote *)
Fixpoint char_strings (s : list Z) (pos : nat) : list Z * nat :=
  match s with
  | [] => ([], pos)
  | c :: t =>
      match t with
      | d :: t' =>
          if (c =? 92) && (d =? 34) then char_strings t' (S (S pos))
          else if c =? 34 then (s, pos) else char_strings t (S pos)
      | [] => if c =? 34 then (s, pos) else char_strings t (S pos)
      end
  end.
Definition escape_string (s : list Z) (pos : nat) : option ((nat * nat) * list Z * nat) :=
  let '(s1, p1) := skip_nq s pos in
  match s1 with
  | q :: s2 =>
      if q =? 34 then
        let '(s3, p3) := char_strings s2 (S p1) in
        match s3 with
        | q' :: s4 => if q' =? 34 then let '(s5, p5) := skip_nq s4 (S p3) in Some ((p1, p3), s5, p5) else None
        | [] => None
        end
      else None
  | [] => None
  end.
Fixpoint line_parse_aux (fuel : nat) (s : list Z) (pos : nat) : option (list (nat * nat)) :=
  match escape_string s pos with
  | None => Some []
  | Some (se, s', pos') =>
      match fuel with
      | O => None
      | S f => option_map (cons se) (line_parse_aux f s' pos')
      end
  end.
Definition line_parse (row : list Z) : res (list (nat * nat)) :=
  match line_parse_aux (length row) row 0%nat with
  | Some l => Ok l
  | None => Err OutOfFuel
  end.

(** a slice [v[a..b]]; [None] is the out-of-range panic *)
Definition slice {A} (v : list A) (a b : nat) : option (list A) :=
  if ((a <=? b) && (b <=? length v))%nat then Some (firstn (b - a) (skipn a v)) else None.
Definition slice_from {A} (v : list A) (a : nat) : option (list A) :=
  if (a <=? length v)%nat then Some (skipn a v) else None.
Definition oslice {A} (o : option (list A)) : res (list A) :=
  match o with Some l => Ok l | None => Err (Panic SiteEscapeSlice) end.

(** columns blanked for a quoted segment (after the repair F5): a wide character counts
    its width, the NUL fillers that follow it nothing, anything else 1 *)
Definition escaped_columns (seg : list Z) : Z :=
  fst (fold_left (fun '(cols, fil) c =>
                    if (c =? 0) && (0 <? fil) then (cols, fil - 1)
                    else (cols + char_cols c, char_cols c - 1)) seg (0, 0)).

(** [escape_line]: (quoted texts with their cells, the row with the segments blanked) *)
Fixpoint escape_segments (y : Z) (row : list Z) (locs : list (nat * nat)) (index : nat)
  : res (list (cell * list Z) * list Z) :=
  match locs with
  | [] => do rest <- oslice (slice_from row index); Ok ([], rest)
  | (s, e) :: more =>
      do seg <- oslice (slice row (S s) e);
      do before <- oslice (slice row index s);
      do r <- escape_segments y row more (S e);
      let '(texts, tail) := r in
      Ok ((C (Z.of_nat s) y, seg) :: texts,
          before ++ repeatZ 32 (Z.to_nat (escaped_columns seg + 2)) ++ tail)
  end.
Definition escape_line (y : Z) (row : list Z) : res (list (cell * list Z) * list Z) :=
  do locs <- line_parse row;
  match locs with
  | [] => Ok ([], row)
  | _ => escape_segments y row locs 0%nat
  end.

(** ** the legend grammar (after the repair F6) *)
Fixpoint skip_while (f : Z -> bool) (s : list Z) : list Z :=
  match s with c :: t => if f c then skip_while f t else s | [] => [] end.
Fixpoint take_while (f : Z -> bool) (s : list Z) : list Z :=
  match s with c :: t => if f c then c :: take_while f t else [] | [] => [] end.
Definition is_blank (c : Z) : bool := (c =? 32) || (c =? 9).
Definition is_ws4 (c : Z) : bool := (c =? 32) || (c =? 9) || (c =? 13) || (c =? 10).
Definition p_space (s : list Z) : list Z := skip_while is_blank s.
Definition p_sym (c : Z) (s : list Z) : option (list Z) :=
  match s with x :: t => if x =? c then Some t else None | [] => None end.
Definition p_new_line (s : list Z) : option (list Z) :=
  match s with
  | c :: t =>
      match t with
      | d :: t' => if (c =? 13) && (d =? 10) then Some t' else if (c =? 13) || (c =? 10) then Some t else None
      | [] => if (c =? 13) || (c =? 10) then Some t else None
      end
  | [] => None
  end.
Fixpoint p_tag (tg s : list Z) : option (list Z) :=
  match tg with
  | [] => Some s
  | c :: tg' => match s with x :: t => if x =? c then p_tag tg' t else None | [] => None end
  end.
Definition p_ident (s : list Z) : option (list Z * list Z) :=
  match s with
  | c :: t => if alpha_or_underscore c
              then Some (c :: take_while alphanum_or_underscore t, skip_while alphanum_or_underscore t)
              else None
  | [] => None
  end.
Definition not_brace (c : Z) : bool := negb ((c =? 123) || (c =? 125)).
Definition p_css_styles (s : list Z) : option (list Z * list Z) :=
  match p_sym 123 s with
  | Some t => match p_sym 125 (skip_while not_brace t) with
              | Some r => Some (take_while not_brace t, r)
              | None => None
              end
  | None => None
  end.
(** [-space() * ident() ...]: pom's unary minus is a look-ahead that consumes nothing, so
    the identifier must start at once *)
Definition p_class_and_style (s : list Z) : option ((list Z * list Z) * list Z) :=
  match p_ident s with
  | Some (name, s1) =>
      match p_sym 61 (p_space s1) with
      | Some s2 => match p_css_styles (p_space s2) with
                   | Some (decl, s3) => Some ((name, decl), s3)
                   | None => None
                   end
      | None => None
      end
  | None => None
  end.
(** the tail of pom's [list]: separator then item, while both succeed *)
Fixpoint p_more_styles (fuel : nat) (s : list Z) : list (list Z * list Z) :=
  match fuel with
  | O => []
  | S f =>
      match p_new_line (p_space s) with
      | Some s1 => match p_class_and_style s1 with
                   | Some (it, s2) => it :: p_more_styles f s2
                   | None => []
                   end
      | None => []
      end
  end.
Definition p_css_style_list (s : list Z) : list (list Z * list Z) :=
  match p_class_and_style s with
  | Some (it, s1) => it :: p_more_styles (length s1) s1
  | None => []
  end.
Definition LEGEND : list Z := [76; 101; 103; 101; 110; 100; 58].             (* Legend: *)
Definition LEGEND_MARK : list Z := [35; 32; 76; 101; 103; 101; 110; 100; 58]. (* # Legend: *)
(** [parse_css_legend]; the trailing [white_space] and the unconsumed rest are irrelevant
    because [parse] does not require the end of input *)
Definition parse_css_legend (s : list Z) : option (list (list Z * list Z)) :=
  match p_sym 35 (p_space s) with
  | Some s1 => match p_tag LEGEND (p_space s1) with
               | Some s2 => match p_new_line (p_space s2) with
                            | Some s3 => Some (p_css_style_list s3)
                            | None => match p_space s2 with      (* new_line() | end() *)
                                      | [] => Some []
                                      | _ => None
                                      end
                            end
               | None => None
               end
  | None => None
  end.

(** ** [parse_css_tag] (after the repair F7): '{' ident (',' ident)* '}' end, or '{' '}' end *)
Fixpoint p_more_idents (fuel : nat) (s : list Z) : list (list Z) * list Z :=
  match fuel with
  | O => ([], s)
  | S f =>
      match p_sym 44 s with
      | Some s1 => match p_ident s1 with
                   | Some (id, s2) => let '(ids, r) := p_more_idents f s2 in (id :: ids, r)
                   | None => ([], s)
                   end
      | None => ([], s)
      end
  end.
Definition p_classes (s : list Z) : list (list Z) * list Z :=
  match p_ident s with
  | Some (id, s1) => let '(ids, r) := p_more_idents (length s1) s1 in (id :: ids, r)
  | None => ([], s)
  end.
Definition parse_css_tag (s : list Z) : option (list (list Z)) :=
  match p_sym 123 s with
  | Some s1 => let '(ids, s2) := p_classes s1 in
               match p_sym 125 s2 with
               | Some [] => Some ids
               | _ => None
               end
  | None => None
  end.
(** [Fragment::as_css_tag]: the error case is the empty list *)
Definition as_css_tag (content : list Z) : list (list Z) :=
  match parse_css_tag content with Some ids => ids | None => [] end.

(** ** [CellBuffer::from(&str)] *)
Fixpoint prefix_of (p s : list Z) : bool :=
  match p with
  | [] => true
  | c :: p' => match s with x :: t => (x =? c) && prefix_of p' t | [] => false end
  end.
(** [input.find(pat)]: (text before the first occurrence, text from it on) *)
Fixpoint find_sub (pat s : list Z) (before : list Z) : option (list Z * list Z) :=
  if prefix_of pat s then Some (rev before, s)
  else match s with
       | c :: t => find_sub pat t (c :: before)
       | [] => None
       end.

Record cellbuffer := CellBuffer {
  cb_cells : list (cell * Z);                 (* the BTreeMap in key order *)
  cb_css : list (list Z * list Z);
  cb_escaped : list (cell * list Z) }.

Fixpoint cells_of_row (y : Z) (x : Z) (row : list Z) : list (cell * Z) :=
  match row with
  | [] => []
  | c :: t => if (c =? 0) || is_whitespace c then cells_of_row y (x + 1) t
              else (C x y, c) :: cells_of_row y (x + 1) t
  end.
Fixpoint cells_of_rows (y : Z) (rows : list (list Z)) : res (list (cell * Z) * list (cell * list Z)) :=
  match rows with
  | [] => Ok ([], [])
  | row :: more =>
      do r <- escape_line y row;
      let '(esc, unescaped) := r in
      do m <- cells_of_rows (y + 1) more;
      let '(cells, escs) := m in
      Ok (cells_of_row y 0 unescaped ++ cells, esc ++ escs)
  end.
Definition cellbuffer_of_text (s : list Z) (css : list (list Z * list Z)) : res cellbuffer :=
  do r <- cells_of_rows 0 (string_buffer s);
  let '(cells, escs) := r in Ok (CellBuffer cells css escs).
(** [str::replace("\r\n", "\n")] (the repair F13: the legend is read with the same line-end
    convention as the drawing); [pending]: a CR has been read and not yet written *)
Fixpoint uncrlf_aux (pending : bool) (s : list Z) : list Z :=
  match s with
  | [] => if pending then [13] else []
  | c :: t =>
      if c =? 13 then (if pending then 13 :: uncrlf_aux true t else uncrlf_aux true t)
      else if c =? 10 then 10 :: uncrlf_aux false t
      else if pending then 13 :: c :: uncrlf_aux false t else c :: uncrlf_aux false t
  end.
Definition uncrlf (s : list Z) : list Z := uncrlf_aux false s.
Definition cellbuffer_from (input : list Z) : res cellbuffer :=
  match find_sub LEGEND_MARK input [] with
  | Some (before, from) =>
      match parse_css_legend (uncrlf from) with
      | Some css => cellbuffer_of_text before css
      | None => cellbuffer_of_text input []
      end
  | None => cellbuffer_of_text input []
  end.

(** [CellBuffer::last_occupied]: the bottom-right cell used by [get_size]; a double-width
    character also occupies the cell to its right *)
Definition cells_max (cells : list (cell * Z)) : cell :=
  match cells with
  | [] => C 0 0
  | (c, z) :: t => C (zmax_list (cx c + char_cols z - 1) (map (fun e => cx (fst e) + char_cols (snd e) - 1) cells))
                     (zmax_list (cy c) (map (fun e => cy (fst e)) cells))
  end.
