(** * Geom: points, cells, fragments, their constructors and orderings.
    One tick is 1/40 of a cell width: a cell is 40 x 80 ticks.  All coordinates and
    radii are integers in this unit. *)
Require Import SB.Model.Base SB.Model.Unicode.

Record point := P { px : Z; py : Z }.
Record cell := C { cx : Z; cy : Z }.

Definition CW : Z := 40.   (* Cell::width()  = 1.0 *)
Definition CH : Z := 80.   (* Cell::height() = 2.0 *)
Definition UNIT : Z := 10. (* CellGrid::unit_x() = unit_y() = 0.25 *)

(** [Point::cmp]: y first, then x *)
Definition point_cmp (a b : point) : comparison :=
  cmp_then (py a ?= py b) (px a ?= px b).
Definition point_eqb (a b : point) : bool := (px a =? px b) && (py a =? py b).
Definition point_ltb (a b : point) : bool := is_lt (point_cmp a b).
Definition point_min (a b : point) : point := if is_lt (point_cmp b a) then b else a. (* std::cmp::min *)
Definition point_max (a b : point) : point := if is_lt (point_cmp b a) then a else b. (* std::cmp::max *)
Definition padd (a b : point) : point := P (px a + px b) (py a + py b).
Definition psub (a b : point) : point := P (px a - px b) (py a - py b).

(** [Cell::cmp]: y first, then x *)
Definition cell_cmp (a b : cell) : comparison :=
  cmp_then (cy a ?= cy b) (cx a ?= cx b).
Definition cell_eqb (a b : cell) : bool := (cx a =? cx b) && (cy a =? cy b).
Definition cell_adjacent (a b : cell) : bool :=
  (Z.abs (cx b - cx a) <=? 1) && (Z.abs (cy b - cy a) <=? 1).
Definition cell_add (a b : cell) : cell := C (cx a + cx b) (cy a + cy b).
Definition cell_sub (a b : cell) : cell := C (cx a - cx b) (cy a - cy b).
Definition top_left_most (c : cell) : point := P (cx c * CW) (cy c * CH).
Definition bottom_right_most (c : cell) : point := P ((cx c + 1) * CW) ((cy c + 1) * CH).
Definition cell_abs (c : cell) (p : point) : point := padd (top_left_most c) p.
Definition cell_localize_point (c : cell) (p : point) : point := psub p (top_left_most c).
(** [Cell::is_bounded] after [rearrange_bound] *)
Definition cell_bounded (c b1 b2 : cell) : bool :=
  (Z.min (cx b1) (cx b2) <=? cx c) && (Z.min (cy b1) (cy b2) <=? cy c)
  && (cx c <=? Z.max (cx b1) (cx b2)) && (cy c <=? Z.max (cy b1) (cy b2)).

(** the point [CellGrid::point(i,j)] and the named ones *)
Definition grid (i j : Z) : point := P (i * UNIT) (j * UNIT).
Definition cell_q (c : cell) : point := cell_abs c (grid 1 6).

Inductive marker := MArrow | MClearArrow | MCircle | MSquare | MDiamond | MOpenCircle | MBigOpenCircle.
Inductive ptag :=
| ArrowTopLeft | ArrowTop | ArrowTopRight | ArrowLeft | ArrowRight
| ArrowBottomLeft | ArrowBottom | ArrowBottomRight | DiamondBullet.

Record line := Line { lstart : point; lend : point; lbroken : bool }.
Record arc := Arc { astart : point; aend : point; aradius : Z; amajor : bool; asweep : bool }.
Record circle := Circle { ccenter : point; cradius : Z; cfilled : bool }.
Record polygon := Polygon { ppoints : list point; pfilled : bool; ptags : list ptag }.
Record rect := Rect { rstart : point; rend : point; rfilled : bool; rradius : option Z; rbroken : bool }.
Record celltext := CellText { ctstart : cell; ctcontent : list Z }.
Record markerline := MarkerLine { mlline : line; mlstart : option marker; mlend : option marker }.

(** [Fragment]; the point-based [Text] variant only arises from scaling a [CellText]
    when nodes are emitted and is handled there (Svg.v). *)
Inductive fragment :=
| FLine (l : line) | FMarkerLine (m : markerline) | FCircle (c : circle) | FArc (a : arc)
| FPolygon (p : polygon) | FRect (r : rect) | FCellText (t : celltext).

(** ** constructors with the normalisation the code performs *)
Definition mk_line (a b : point) (broken : bool) : line :=   (* Line::new *)
  if is_lt (point_cmp b a) then Line b a broken else Line a b broken.
Definition mk_arc_gen (a b : point) (r : Z) (major sweep : bool) : arc :=
  if is_lt (point_cmp b a) then Arc b a r major (negb sweep) else Arc a b r major sweep.
Definition mk_arc (a b : point) (r : Z) : arc := mk_arc_gen a b r false false.      (* Arc::new *)
Definition mk_arc_major (a b : point) (r : Z) : arc := mk_arc_gen a b r true false. (* Arc::major *)
Definition mk_rect (a b : point) (filled : bool) (radius : option Z) (broken : bool) : rect :=
  if is_lt (point_cmp b a) then Rect b a filled radius broken else Rect a b filled radius broken.

(** ** bounds ([Bounds::bounds]) *)
Definition seg_bounds (a b : point) : point * point :=
  (P (Z.min (px a) (px b)) (Z.min (py a) (py b)), P (Z.max (px a) (px b)) (Z.max (py a) (py b))).
Definition celltext_end_cell (t : celltext) : cell :=
  C (cx (ctstart t) + text_columns (ctcontent t)) (cy (ctstart t)).
(** the last cell the text occupies ([end_cell] is one past it); repair F14: the bounds end there *)
Definition celltext_last_cell (t : celltext) : cell :=
  C (cx (ctstart t) + Z.max (text_columns (ctcontent t) - 1) 0) (cy (ctstart t)).
Definition polygon_bounds (p : polygon) : point * point :=
  match ppoints p with
  | [] => (P 0 0, P 0 0)   (* never built: table polygons have at least 3 points (T1) *)
  | q :: _ =>
      (P (zmin_list (px q) (map px (ppoints p))) (zmin_list (py q) (map py (ppoints p))),
       P (zmax_list (px q) (map px (ppoints p))) (zmax_list (py q) (map py (ppoints p))))
  end.
Definition bounds (f : fragment) : point * point :=
  match f with
  | FLine l => seg_bounds (lstart l) (lend l)
  | FMarkerLine m => seg_bounds (lstart (mlline m)) (lend (mlline m))
  | FCircle c => (P (px (ccenter c) - cradius c) (py (ccenter c) - cradius c),
                  P (px (ccenter c) + cradius c) (py (ccenter c) + cradius c))
  | FArc a => seg_bounds (astart a) (aend a)
  | FPolygon p => polygon_bounds p
  | FRect r => seg_bounds (rstart r) (rend r)
  | FCellText t => (top_left_most (ctstart t), bottom_right_most (celltext_last_cell t))
  end.
Definition mins f := fst (bounds f).
Definition maxs f := snd (bounds f).

(** ** orderings, exactly as written in the code *)
Definition line_cmp (a b : line) : comparison :=
  cmp_then (point_cmp (lstart a) (lstart b))
    (cmp_then (point_cmp (lend a) (lend b)) (bool_cmp (lbroken a) (lbroken b))).
Definition arc_cmp (a b : arc) : comparison :=
  cmp_then (point_cmp (astart a) (astart b))
    (cmp_then (point_cmp (aend a) (aend b))
       (cmp_then (aradius a ?= aradius b)
          (cmp_then (bool_cmp (amajor a) (amajor b)) (bool_cmp (asweep a) (asweep b))))).
Definition circle_cmp (a b : circle) : comparison :=
  cmp_then (point_cmp (mins (FCircle a)) (mins (FCircle b)))
    (cmp_then (point_cmp (maxs (FCircle a)) (maxs (FCircle b)))
       (cmp_then (cradius a ?= cradius b) (bool_cmp (cfilled a) (cfilled b)))).
Definition poly_first (p : polygon) : point := hd (P 0 0) (ppoints p).
Definition poly_last (p : polygon) : point := last (ppoints p) (P 0 0).
Definition polygon_cmp (a b : polygon) : comparison :=
  if list_eqb point_eqb (ppoints a) (ppoints b) then Eq
  else cmp_then (point_cmp (poly_first a) (poly_first b))
         (cmp_then (point_cmp (poly_last a) (poly_last b))
            (cmp_then (bool_cmp (pfilled a) (pfilled b))
               (Z.of_nat (length (ppoints a)) ?= Z.of_nat (length (ppoints b))))).
Definition opt_cmp (a b : option Z) : comparison :=
  match a, b with
  | None, None => Eq | Some _, None => Gt | None, Some _ => Lt | Some x, Some y => x ?= y
  end.
Definition rect_cmp (a b : rect) : comparison :=
  cmp_then (point_cmp (rstart a) (rstart b))
    (cmp_then (point_cmp (rend a) (rend b))
       (cmp_then (bool_cmp (rfilled a) (rfilled b))
          (cmp_then (opt_cmp (rradius a) (rradius b)) (bool_cmp (rbroken a) (rbroken b))))).
Definition celltext_cmp (a b : celltext) : comparison :=
  cmp_then (cell_cmp (ctstart a) (ctstart b)) (list_cmp Z.compare (ctcontent a) (ctcontent b)).
Definition rank (f : fragment) : Z :=
  match f with
  | FLine _ => 10 | FMarkerLine _ => 20 | FCircle _ => 30 | FArc _ => 40
  | FPolygon _ => 50 | FRect _ => 60 | FCellText _ => 80
  end.
Definition fragment_cmp (a b : fragment) : comparison :=
  match a, b with
  | FLine x, FLine y => line_cmp x y
  | FArc x, FArc y => arc_cmp x y
  | FCircle x, FCircle y => circle_cmp x y
  | FPolygon x, FPolygon y => polygon_cmp x y
  | FRect x, FRect y => rect_cmp x y
  | FCellText x, FCellText y => celltext_cmp x y
  | _, _ => cmp_then (point_cmp (mins a) (mins b))
              (cmp_then (point_cmp (maxs a) (maxs b)) (rank a ?= rank b))
  end.
Definition fragment_eqb (a b : fragment) : bool := is_eq (fragment_cmp a b).
Definition fragment_less (a b : fragment) : bool := is_lt (fragment_cmp a b).

(** ** moving and testing *)
Definition line_abs (c : cell) (l : line) : line :=
  Line (cell_abs c (lstart l)) (cell_abs c (lend l)) (lbroken l).
Definition fragment_abs (c : cell) (f : fragment) : fragment :=   (* absolute_position *)
  match f with
  | FLine l => FLine (line_abs c l)
  | FMarkerLine m => FMarkerLine (MarkerLine (line_abs c (mlline m)) (mlstart m) (mlend m))
  | FCircle k => FCircle (Circle (cell_abs c (ccenter k)) (cradius k) (cfilled k))
  | FArc a => FArc (Arc (cell_abs c (astart a)) (cell_abs c (aend a)) (aradius a) (amajor a) (asweep a))
  | FPolygon p => FPolygon (Polygon (map (cell_abs c) (ppoints p)) (pfilled p) (ptags p))
  | FRect r => FRect (Rect (cell_abs c (rstart r)) (cell_abs c (rend r)) (rfilled r) (rradius r) (rbroken r))
  | FCellText t => FCellText (CellText (cell_add (ctstart t) c) (ctcontent t))
  end.

Definition is_broken (f : fragment) : bool :=
  match f with FLine l => lbroken l | FRect r => rbroken r | _ => false end.

(** [Fragment::can_fit] *)
Definition can_fit (a b : fragment) : bool :=
  let '(tl, br) := bounds a in
  let '(otl, obr) := bounds b in
  (px tl <=? px otl) && (py tl <=? py otl) && (px obr <=? px br) && (py obr <=? py br).
