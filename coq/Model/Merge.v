(** * Merge: the generic [Merge] trait ([merge.rs]).
    [second_pass] is [second_pass_merge]: each item is merged into the last group
    (scanning from the end) that accepts it, else appended.  [merge_rec] is
    [merge_recursive]: repeat while the list shrinks.  Fuel [S (length items)] always
    suffices (Theory/MergeTheory.v). *)
Require Import SB.Model.Base.

Section Merge.
Context {A : Type} (merge : A -> A -> option A).

Fixpoint try_merge_rev (groups : list A) (item : A) : option (list A) :=
  match groups with
  | [] => None
  | g :: gs =>
      match try_merge_rev gs item with
      | Some gs' => Some (g :: gs')
      | None => match merge g item with
                | Some m => Some (m :: gs)
                | None => None
                end
      end
  end.

Definition step (groups : list A) (item : A) : list A :=
  match try_merge_rev groups item with
  | Some gs => gs
  | None => groups ++ [item]
  end.

Definition second_pass (items : list A) : list A := fold_left step items [].

Fixpoint merge_rec (fuel : nat) (items : list A) : option (list A) :=
  match fuel with
  | O => None
  | S f => let m := second_pass items in
           if (length m <? length items)%nat then merge_rec f m else Some m
  end.

Definition merge_recursive (items : list A) : res (list A) :=
  match merge_rec (S (length items)) items with
  | Some r => Ok r
  | None => Err OutOfFuel
  end.
End Merge.
