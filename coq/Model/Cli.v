(** * Cli: the decision logic of [svgbob_cli/src/main.rs] over an abstract environment.
    Argument syntax is clap's (runtime); the model starts from the parsed matches. *)
Require Import SB.Model.Base SB.Model.Unicode SB.Model.Geom SB.Model.Svg SB.Model.Lib.
From Coq Require Import QArith.
From Coq Require Import List.
Import ListNotations.
#[global] Open Scope Z_scope.

Definition path := list Z.
Inductive read_result := ReadText (s : list Z) | ReadNotUtf8 | ReadError.

(** the outside world: files, standard input, which paths can be written, how Rust parses numbers *)
Record env := Env {
  read_file : path -> read_result;
  stdin : read_result;                 (* ReadError does not occur for stdin *)
  can_write : path -> bool;
  parse_usize : list Z -> option Z;    (* [str::parse::<usize>] *)
  parse_f32 : list Z -> option Q }.    (* [str::parse::<f32>], finite values *)

Record options := Options {
  o_inline : bool; o_input : option (list Z); o_output : option path;
  o_background : option (list Z); o_fill : option (list Z); o_font_family : option (list Z);
  o_font_size : option (list Z); o_stroke_width : option (list Z); o_stroke_color : option (list Z);
  o_scale : option (list Z) }.

Inductive outcome :=
| Exit (code : Z) (stdout : list Z) (diagnostic : bool) (writes : list (path * list Z))
| Crash.     (* an [unwrap] on unreadable (non UTF-8) input or on a missing inline string: a panic *)

(** [.replace("\\n", "\n")]: backslash followed by n becomes a line feed *)
Fixpoint unescape_nl (s : list Z) : list Z :=
  match s with
  | c :: t => match t with
              | d :: t' => if (c =? 92) && (d =? 110) then 10 :: unescape_nl t' else c :: unescape_nl t
              | [] => [c]
              end
  | [] => []
  end.

Inductive input_result := InText (s : list Z) | InCrash | InFail.
Definition read_input (e : env) (o : options) : input_result :=
  if o_inline o then match o_input o with Some s => InText (unescape_nl s) | None => InCrash end
  else match o_input o with
       | Some f => match read_file e f with ReadText s => InText s | ReadNotUtf8 => InCrash | ReadError => InFail end
       | None => match stdin e with ReadText s => InText s | _ => InCrash end
       end.

(** the settings, in the order the options are examined; [None] = an unparsable number *)
Definition opt_str (o : option (list Z)) (d : list Z) : list Z := match o with Some s => s | None => d end.
Definition settings_of (e : env) (o : options) : option settings :=
  let st := default_settings in
  let st := Settings (font_size st) (opt_str (o_font_family o) (font_family st)) (opt_str (o_fill o) (fill_color st))
                     (opt_str (o_background o) (background st)) (stroke_color st) (stroke_width st) (scale st)
                     (include_backdrop st) (include_styles st) (include_defs st) in
  match (match o_font_size o with Some s => option_map Some (parse_usize e s) | None => Some None end) with
  | None => None
  | Some fs =>
  match (match o_stroke_width o with Some s => option_map Some (parse_f32 e s) | None => Some None end) with
  | None => None
  | Some sw =>
  match (match o_scale o with Some s => option_map Some (parse_f32 e s) | None => Some None end) with
  | None => None
  | Some sc =>
      Some (Settings (match fs with Some v => v | None => font_size st end) (font_family st) (fill_color st) (background st)
                     (opt_str (o_stroke_color o) (stroke_color st))
                     (match sw with Some v => v | None => stroke_width st end)
                     (match sc with Some v => Qred (scale st * v) | None => scale st end)
                     (include_backdrop st) (include_styles st) (include_defs st))
  end end end.

(** the main path of [main] (no sub-command) *)
Definition run (e : env) (o : options) : outcome :=
  match read_input e o with
  | InCrash => Crash
  | InFail => Exit 1 [] true []
  | InText bob =>
      match settings_of e o with
      | None => Exit 1 [] true []
      | Some st =>
          match to_svg_with_settings bob st with
          | Err _ => Crash
          | Ok svg =>
              match o_output o with
              | Some f => if can_write e f then Exit 0 [] false [(f, svg)] else Exit 2 [] true []
              | None => Exit 0 (svg ++ [10]) false []
              end
          end
      end
  end.

(** ** [build]: batch conversion of a directory listing *)
Record entry := Entry { e_name : list Z; e_ext : list Z; e_is_file : bool; e_content : read_result }.
(** one file: [Some write] when converted, [None] when it could not be read or written, crash on non UTF-8 *)
Inductive file_result := FileOk (w : path * list Z) | FileFailed | FileCrash.
Definition convert_file (e : env) (out : list Z -> path) (en : entry) : file_result :=
  match e_content en with
  | ReadError => FileFailed
  | ReadNotUtf8 => FileCrash
  | ReadText s =>
      match to_svg_with_settings s default_settings with
      | Err _ => FileCrash
      | Ok svg => if can_write e (out (e_name en)) then FileOk (out (e_name en), svg) else FileFailed
      end
  end.
Definition matching (ext : list Z) (en : entry) : bool := e_is_file en && zs_eqb (e_ext en) ext.

(** (writes, number of failures), or a crash *)
Fixpoint build_loop (e : env) (out : list Z -> path) (ext : list Z) (l : list entry) : option (list (path * list Z) * nat) :=
  match l with
  | [] => Some ([], 0%nat)
  | en :: t =>
      if matching ext en then
        match convert_file e out en with
        | FileCrash => None
        | FileOk w => option_map (fun r => (w :: fst r, snd r)) (build_loop e out ext t)
        | FileFailed => option_map (fun r => (fst r, S (snd r))) (build_loop e out ext t)
        end
      else build_loop e out ext t
  end.
Definition build (e : env) (dir_exists : bool) (out : list Z -> path) (ext : list Z) (l : list entry) : outcome :=
  if negb dir_exists then Exit 1 [] true []
  else match build_loop e out ext l with
       | None => Crash
       | Some (ws, O) => Exit 0 [] false ws       (* stdout carries the progress lines, not modelled *)
       | Some (ws, S _) => Exit 1 [] true ws
       end.
