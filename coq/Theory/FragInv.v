(** * FragInv: a property of fragments that holds of every table fragment and is preserved by
    positioning and merging holds of every fragment in every contact group of every span
    (M2 applied to the fragment pipeline).  Used for C06, C09, C12. *)
Require Import SB.Model.Base SB.Model.Unicode SB.Model.Geom SB.Model.Fragment SB.Model.Merge
  SB.Model.Property SB.Model.FragBuf SB.Theory.MergeTheory SB.Theory.EndorseTotal SB.Gen.AsciiMap SB.Gen.UnicodeMap.

Section Inv.
(** [Q c f]: fragment [f], local to cell [c]'s buffer entry (before [fragment_abs]);
    [R f]: fragment in absolute position *)
Context (Q : fragment -> Prop) (R : fragment -> Prop).
Context (Qtext : forall ch, Q (cell_text_frag ch)).
Context (Qascii : forall p c fs, In p ascii_properties -> In (c, fs) (pbeh p) -> Forall Q fs).
Context (Qunicode : forall ch fs, In (ch, fs) unicode_fragments -> Forall Q fs).
Context (Qmerge : forall a b c, fragment_merge a b = Some c -> Q a -> Q b -> Q c).
Context (QR : forall c f, Q f -> R (fragment_abs c f)).
Context (Rmerge : forall a b c, fragment_merge a b = Some c -> R a -> R b -> R c).

Lemma assoc_z_in {B} k (l : list (Z * B)) v : assoc_z k l = Some v -> In (k, v) l.
Proof.
  induction l as [|[k' v'] t IH]; cbn; [discriminate|]. destruct (Z.eqb_spec k k'); intros H.
  - inversion H; subst. left; reflexivity.
  - right; auto.
Qed.
Lemma unicode_Q ch fs : unicode_fragments_of ch = Some fs -> Forall Q fs.
Proof. intros H. apply assoc_z_in in H. eapply Qunicode; eauto. Qed.

Lemma property_of_char_Q ch p : property_of_char ch = Some p -> forall c fs, In (c, fs) (pbeh p) -> Forall Q fs.
Proof.
  unfold property_of_char. destruct (find (fun p => pch p =? ch) ascii_properties) as [q|] eqn:F.
  - intros H; inversion H; subst. apply find_some in F. destruct F as [F _]. intros c fs. apply Qascii; exact F.
  - destruct (unicode_fragments_of ch) as [ufs|] eqn:U; cbn [option_map]; intros H; inversion H; subst.
    intros c fs [E|[]]. inversion E; subst. eapply unicode_Q; eauto.
Qed.

Lemma property_fragments_Q p env : (forall c fs, In (c, fs) (pbeh p) -> Forall Q fs) -> Forall Q (property_fragments p env).
Proof.
  intros H. unfold property_fragments. apply Forall_forall. intros f Hf. apply in_flat_map in Hf.
  destruct Hf as [[c fs] [Hin Hf]]. destruct (eval env c); [|destruct Hf].
  specialize (H c fs Hin). rewrite Forall_forall in H. auto.
Qed.

Definition fbQ (fb : fragbuf) : Prop := Forall (fun e => Forall (fun f => Q (fs_frag f)) (snd e)) fb.

Lemma add_fragments_Q c ch fs fb : Forall Q fs -> fbQ fb -> fbQ (add_fragments_to_cell c ch fs fb).
Proof.
  intros F G. unfold add_fragments_to_cell. apply (fb_update_inv (fun v => Forall (fun f => Q (fs_frag f)) v)); auto.
  intros o Ho. apply sort_cell_Forall.
  assert (N : Forall (fun f => Q (fs_frag f)) (map (fun f => FS [(c, ch)] f) fs)).
  { apply Forall_forall. intros x Hx. apply in_map_iff in Hx. destruct Hx as [f [<- Hf]]. cbn. rewrite Forall_forall in F; auto. }
  destruct o as [ex|]; auto. apply Forall_app; split; auto.
Qed.
Lemma add_fragment_Q c ch f fb : Q f -> fbQ fb -> fbQ (add_fragment_to_cell c ch f fb).
Proof.
  intros F G. unfold add_fragment_to_cell. apply (fb_update_inv (fun v => Forall (fun f => Q (fs_frag f)) v)); auto.
  intros o Ho. apply sort_cell_Forall. destruct o as [ex|]; [|constructor; auto].
  destruct (mem fragspan_eqb (FS [(c, ch)] f) ex); auto. apply Forall_app; split; auto.
Qed.

Definition pbQ (pb : propbuf) : Prop := Forall (fun e => forall c fs, In (c, fs) (pbeh (snd e)) -> Forall Q fs) pb.
Lemma propbuf_of_span_Q s : pbQ (propbuf_of_span s).
Proof.
  unfold propbuf_of_span, pbQ. apply Forall_forall. intros [c p] H. apply in_flat_map in H. destruct H as [[c' z] [_ H]].
  cbn [fst snd] in H. destruct (property_of_char z) eqn:E; [|destruct H]. destruct H as [H|[]]. inversion H; subst.
  cbn [snd]. eapply property_of_char_Q; eauto.
Qed.

Lemma add_entry_Q pb fb e fb' : (forall c fs, In (c, fs) (pbeh (snd e)) -> Forall Q fs) ->
  fbQ fb -> add_entry pb (Ok fb) e = Ok fb' -> fbQ fb'.
Proof.
  intros He G. unfold add_entry; cbn [bind]. destruct e as [c p]. cbn [snd] in He.
  pose proof (property_fragments_Q p (pb_env pb c) He) as PF.
  destruct (property_fragments p (pb_env pb c)) as [|f0 fs0].
  - destruct (unicode_fragments_of (pch p)) as [ufs|] eqn:U.
    + destruct (merge_recursive fragment_merge ufs) as [m|] eqn:M; cbn [bind]; intros H; inversion H; subst.
      apply add_fragments_Q; auto. eapply (merge_recursive_inv fragment_merge Q Qmerge); eauto. eapply unicode_Q; eauto.
    + intros H; inversion H; subst. apply add_fragment_Q; auto.
  - intros H; inversion H; subst. apply add_fragments_Q; auto.
Qed.

Lemma fragbuf_of_span_Q s fb : fragbuf_of_span s = Ok fb -> fbQ fb.
Proof.
  unfold fragbuf_of_span, fragbuf_of_entries. cbv zeta.
  pose proof (propbuf_of_span_Q s) as PQ. set (pb := propbuf_of_span s) in *. clearbody pb.
  assert (EQ : pbQ (pb_entries pb)).
  { clear - PQ. induction pb as [|[c p] t IH]; cbn [pb_entries]; [constructor|]. inversion PQ as [|? ? Hh Ht]; subst.
    destruct (existsb (fun e => cell_eqb (fst e) c) t); [apply IH; exact Ht|]. constructor; [exact Hh|apply IH; exact Ht]. }
  assert (G : forall order fb0 fb1, pbQ order -> fbQ fb0 -> fold_left (add_entry pb) order (@Ok fragbuf fb0) = Ok fb1 -> fbQ fb1).
  { induction order as [|e t IH]; cbn [fold_left]; intros fb0 fb1 Ho G0 H; [inversion H; subst; auto|].
    inversion Ho as [|? ? He Ht]; subst. destruct (add_entry_ok pb fb0 e) as [fb2 E2]. rewrite E2 in H.
    apply (IH fb2 fb1 Ht); [|exact H]. eapply add_entry_Q; [exact He|exact G0|exact E2]. }
  destruct (fold_left (add_entry pb) (pb_entries pb) (@Ok fragbuf [])) as [fb0|] eqn:E; cbn [bind]; [|discriminate].
  intros H; inversion H; subst; clear H. assert (G0 : fbQ fb0) by (eapply G; [exact EQ| |exact E]; constructor).
  clear E. revert fb0 G0. induction s as [|e t IH]; cbn [fold_left]; intros fb0 G0; auto.
  apply IH. destruct (pb_get pb (fst e)); auto.
  destruct (unicode_fragments_of (snd e)) eqn:U; [apply add_fragments_Q; auto; eapply unicode_Q; eauto|apply add_fragment_Q; auto].
Qed.

Lemma abs_fragment_spans_R fb : fbQ fb -> Forall (fun f => R (fs_frag f)) (abs_fragment_spans fb).
Proof.
  unfold abs_fragment_spans. induction 1 as [|[c v] t Hv Ft IH]; cbn [flat_map]; [constructor|].
  apply Forall_app; split; auto. cbn [snd] in Hv. apply Forall_forall. intros x Hx.
  apply in_map_iff in Hx. destruct Hx as [f [<- Hf]]. rewrite Forall_forall in Hv. cbn. apply QR. auto.
Qed.

Lemma fragspan_merge_R a b c : fragspan_merge a b = Some c -> R (fs_frag a) -> R (fs_frag b) -> R (fs_frag c).
Proof.
  unfold fragspan_merge. destruct (fragment_merge (fs_frag a) (fs_frag b)) eqn:E; intros H Ha Hb; inversion H; subst; cbn. eauto.
Qed.

Definition contactsR (c : contacts) : Prop := Forall (fun f => R (fs_frag f)) c.
Lemma contacts_merge_R a b c : contacts_merge a b = Some c -> contactsR a -> contactsR b -> contactsR c.
Proof. unfold contacts_merge, contactsR. destruct (contacts_is_contacting a b); intros H Ha Hb; inversion H; subst. apply Forall_app; auto. Qed.

Theorem contacts_of_span_R s cs : contacts_of_span s = Ok cs -> Forall contactsR cs.
Proof.
  unfold contacts_of_span. destruct (fragbuf_of_span s) as [fb|] eqn:E; cbn [bind]; [|discriminate].
  unfold merge_fragment_spans. destruct (merge_recursive fragspan_merge (abs_fragment_spans fb)) as [m|] eqn:E2; cbn [bind]; [|discriminate].
  intros H. eapply (merge_recursive_inv contacts_merge contactsR contacts_merge_R); [exact H|].
  assert (Fm : Forall (fun f => R (fs_frag f)) m).
  { eapply (merge_recursive_inv fragspan_merge (fun f => R (fs_frag f)) fragspan_merge_R); [exact E2|].
    apply abs_fragment_spans_R. eapply fragbuf_of_span_Q; eauto. }
  apply Forall_forall. intros x Hx. apply in_map_iff in Hx. destruct Hx as [f [<- Hf]].
  rewrite Forall_forall in Fm. constructor; auto.
Qed.

Theorem merged_fragments_R s fb m : fragbuf_of_span s = Ok fb -> merge_fragment_spans fb = Ok m -> Forall (fun f => R (fs_frag f)) m.
Proof.
  intros E E2. unfold merge_fragment_spans in E2.
  eapply (merge_recursive_inv fragspan_merge (fun f => R (fs_frag f)) fragspan_merge_R); [exact E2|].
  apply abs_fragment_spans_R. eapply fragbuf_of_span_Q; eauto.
Qed.
End Inv.
