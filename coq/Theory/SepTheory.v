(** * SepTheory: separated sub-diagrams do not influence each other (C10).
    M3 lifted from one pass to the whole merge loop, under an invariant; its instance for the
    grouping of cells into spans; the fragments accepted for a drawing made of two separated
    parts are those of the parts. *)
Require Import SB.Model.Base SB.Model.Unicode SB.Model.Geom SB.Model.Fragment SB.Model.Merge
  SB.Model.Property SB.Model.FragBuf SB.Model.Endorse SB.Theory.MergeTheory SB.Theory.EndorseTotal SB.Theory.ShiftBuf.
From Coq Require Import Permutation Arith.

Section Lifted.
Context {A : Type} (merge : A -> A -> option A) (P : A -> bool) (I : A -> Prop).
Context (Imerge : forall a b c, merge a b = Some c -> I a -> I b -> I c).
Context (cross : forall a b, I a -> I b -> P a <> P b -> merge a b = None).
Context (stay : forall a b c, I a -> I b -> merge a b = Some c -> P c = P a).

Lemma tmr_filter_in_inv gs x : Forall I gs -> I x -> P x = true ->
  option_map (filter P) (try_merge_rev merge gs x) = try_merge_rev merge (filter P gs) x.
Proof.
  intros F Ix Px. induction F as [|g gs Ig Fg IH]; cbn; auto.
  destruct (P g) eqn:Pg; cbn.
  - rewrite <- IH. destruct (try_merge_rev merge gs x) as [r|]; cbn.
    + rewrite Pg; auto.
    + destruct (merge g x) as [m|] eqn:M; cbn; auto. rewrite (stay _ _ _ Ig Ix M), Pg; auto.
  - rewrite <- IH. destruct (try_merge_rev merge gs x) as [r|]; cbn.
    + rewrite Pg; auto.
    + rewrite cross; [reflexivity|assumption|assumption|congruence].
Qed.
Lemma tmr_filter_out_inv gs x gs' : Forall I gs -> I x -> P x = false ->
  try_merge_rev merge gs x = Some gs' -> filter P gs' = filter P gs.
Proof.
  intros F Ix Px. revert gs'; induction F as [|g gs Ig Fg IH]; cbn; intros gs' H; [discriminate|].
  destruct (try_merge_rev merge gs x) as [r|] eqn:E.
  - inversion H; subst; cbn. rewrite (IH r eq_refl); auto.
  - destruct (merge g x) as [m|] eqn:M; inversion H; subst; cbn.
    rewrite (stay _ _ _ Ig Ix M). destruct (P g) eqn:Pg; auto.
    rewrite cross in M; [discriminate|assumption|assumption|congruence].
Qed.
Lemma step_filter_inv acc x : Forall I acc -> I x ->
  filter P (step merge acc x) = if P x then step merge (filter P acc) x else filter P acc.
Proof.
  intros F Ix. unfold step. destruct (P x) eqn:Px.
  - rewrite <- tmr_filter_in_inv by auto.
    destruct (try_merge_rev merge acc x); cbn; auto. rewrite filter_app; cbn; rewrite Px; auto.
  - destruct (try_merge_rev merge acc x) eqn:E.
    + eapply tmr_filter_out_inv; eauto.
    + rewrite filter_app; cbn; rewrite Px, app_nil_r; auto.
Qed.
Lemma second_pass_filter_inv l : Forall I l -> filter P (second_pass merge l) = second_pass merge (filter P l).
Proof.
  intros F. unfold second_pass.
  assert (G : forall acc, Forall I acc -> filter P (fold_left (step merge) l acc) = fold_left (step merge) (filter P l) (filter P acc)).
  { induction F as [|x xs Ix Fx IH]; intros acc Fa; cbn [fold_left filter]; [reflexivity|].
    rewrite IH by (apply (step_inv merge I Imerge); assumption). rewrite step_filter_inv by assumption.
    destruct (P x); reflexivity. }
  apply (G []). constructor.
Qed.

(** iterating the pass *)
Fixpoint iter (n : nat) (l : list A) : list A := match n with O => l | S m => iter m (second_pass merge l) end.
Lemma iter_fix n l : second_pass merge l = l -> iter n l = l.
Proof. intros H. induction n as [|m IH]; cbn [iter]; [reflexivity|]. rewrite H. exact IH. Qed.
Lemma iter_add n m l : iter (n + m) l = iter m (iter n l).
Proof. revert l. induction n as [|k IH]; intros l; cbn [iter plus]; [reflexivity|]. apply IH. Qed.
Lemma iter_inv n : forall l, Forall I l -> Forall I (iter n l).
Proof. induction n as [|m IH]; intros l F; cbn [iter]; [exact F|]. apply IH. apply (second_pass_inv merge I Imerge); exact F. Qed.
Lemma iter_filter n : forall l, Forall I l -> filter P (iter n l) = iter n (filter P l).
Proof.
  induction n as [|m IH]; intros l F; cbn [iter]; [reflexivity|].
  rewrite IH by (apply (second_pass_inv merge I Imerge); exact F). rewrite second_pass_filter_inv by exact F. reflexivity.
Qed.

(** the loop returns an iterate that is a fixpoint of the pass *)
Lemma merge_rec_iter fuel : forall l r, merge_rec merge fuel l = Some r -> exists n, r = iter n l /\ second_pass merge r = r.
Proof.
  induction fuel as [|f IH]; cbn [merge_rec]; intros l r H; [discriminate|].
  destruct (Nat.ltb_spec (length (second_pass merge l)) (length l)) as [Lt|Ge].
  - destruct (IH _ _ H) as [n [E Fx]]. exists (S n). split; [exact E|exact Fx].
  - inversion H; subst. pose proof (second_pass_length merge l) as L.
    assert (E : length (second_pass merge l) = length l) by lia.
    destruct (second_pass_fixpoint merge l E) as [E1 _]. exists 0%nat. cbn [iter]. rewrite E1. split; [reflexivity|exact E1].
Qed.
Lemma fixpoints_agree n m l : second_pass merge (iter n l) = iter n l -> second_pass merge (iter m l) = iter m l -> iter n l = iter m l.
Proof.
  intros Hn Hm. destruct (Nat.le_ge_cases n m) as [L|L].
  - replace m with (n + (m - n))%nat by lia. rewrite iter_add. symmetry. apply iter_fix. exact Hn.
  - replace n with (m + (n - m))%nat by lia. rewrite iter_add. apply iter_fix. exact Hm.
Qed.

(** M3 for the whole loop: restricting the result to one class is running the loop on that
    class alone *)
Theorem merge_recursive_filter l : Forall I l ->
  merge_recursive merge (filter P l) = match merge_recursive merge l with Ok r => Ok (filter P r) | Err e => Err e end.
Proof.
  intros F. unfold merge_recursive.
  destruct (merge_rec_fuel merge l (S (length l)) ltac:(lia)) as [r [E _]]. rewrite E.
  destruct (merge_rec_fuel merge (filter P l) (S (length (filter P l))) ltac:(lia)) as [r' [E' _]]. rewrite E'. f_equal.
  destruct (merge_rec_iter _ _ _ E) as [n [-> Fx]]. destruct (merge_rec_iter _ _ _ E') as [m [-> Fx']].
  rewrite (iter_filter n l F).
  apply fixpoints_agree; [exact Fx'|].
  rewrite <- (iter_filter n l F). rewrite <- second_pass_filter_inv by (apply iter_inv; exact F). rewrite Fx. reflexivity.
Qed.
End Lifted.

(** ** the grouping of cells into spans *)
Section Spans.
Variable inA : cell -> bool.
Definition same_side (x y : cell * Z) : bool := Bool.eqb (inA (fst x)) (inA (fst y)).
(** separation: cells on different sides are never adjacent *)
Definition separated (cells : list (cell * Z)) : Prop :=
  forall x y, In x cells -> In y cells -> inA (fst x) <> inA (fst y) -> cell_adjacent (fst x) (fst y) = false.
Definition side (s : span) : bool := match s with e :: _ => inA (fst e) | [] => false end.
Definition pure_in (cells : list (cell * Z)) (s : span) : Prop :=
  s <> [] /\ Forall (fun e => In e cells /\ inA (fst e) = side s) s.

Lemma pure_cross cells a b : separated cells -> pure_in cells a -> pure_in cells b -> side a <> side b -> span_merge a b = None.
Proof.
  intros Sep [Na Fa] [Nb Fb] D. unfold span_merge.
  assert (E : span_can_merge a b = false); [|rewrite E; reflexivity].
  unfold span_can_merge. apply Bool.not_true_is_false. intros H.
  apply existsb_exists in H. destruct H as [x [Ix H]]. apply existsb_exists in H. destruct H as [y [Iy H]].
  rewrite Forall_forall in Fa, Fb. destruct (Fa _ Ix) as [Cx Sx]. destruct (Fb _ Iy) as [Cy Sy].
  rewrite Sep in H; [discriminate|assumption|assumption|congruence].
Qed.
Lemma pure_stay cells a b c : pure_in cells a -> pure_in cells b -> span_merge a b = Some c -> side c = side a.
Proof.
  intros [Na _] _. unfold span_merge. destruct (span_can_merge a b); [|discriminate]. intros H; inversion H; subst.
  destruct a; [congruence|reflexivity].
Qed.
Lemma pure_merge cells : separated cells -> forall a b c, span_merge a b = Some c -> pure_in cells a -> pure_in cells b -> pure_in cells c.
Proof.
  intros Sep a b c M Pa Pb.
  destruct (Bool.bool_dec (side a) (side b)) as [E|D]; [|rewrite (pure_cross cells a b Sep Pa Pb D) in M; discriminate].
  pose proof (pure_stay cells a b c Pa Pb M) as Sc.
  unfold span_merge in M. destruct (span_can_merge a b); [|discriminate]. inversion M; subst c.
  destruct Pa as [Na Fa], Pb as [Nb Fb]. split; [destruct a; [congruence|discriminate]|].
  apply Forall_app. split; eapply Forall_impl; try eassumption; cbn; intros e [Ie Se]; split; auto; congruence.
Qed.
Lemma singletons_pure cells : Forall (pure_in cells) (map (fun e => [e]) cells).
Proof.
  apply Forall_forall. intros s H. apply in_map_iff in H. destruct H as [e [<- Ie]].
  split; [discriminate|]. constructor; [|constructor]. split; [exact Ie|reflexivity].
Qed.
Lemma filter_singletons (P : cell * Z -> bool) cells :
  filter (fun s : span => match s with e :: _ => P e | [] => false end) (map (fun e => [e]) cells) = map (fun e => [e]) (filter P cells).
Proof. induction cells as [|e t IH]; cbn; [reflexivity|]. rewrite IH. destruct (P e); reflexivity. Qed.

(** the spans of one side of a separated drawing are the spans of the whole drawing that lie
    on that side: same cells in each, same order *)
Theorem spans_of_side cells : separated cells ->
  spans_of_cells (filter (fun e => inA (fst e)) cells) = map_res (filter side) (spans_of_cells cells).
Proof.
  intros Sep. unfold spans_of_cells.
  rewrite <- (filter_singletons (fun e => inA (fst e)) cells).
  change (fun s : span => match s with e :: _ => inA (fst e) | [] => false end) with side.
  rewrite (merge_recursive_filter span_merge side (pure_in cells) (pure_merge cells Sep)
             (fun a b => pure_cross cells a b Sep) (pure_stay cells)) by apply singletons_pure.
  destruct (merge_recursive span_merge _); reflexivity.
Qed.
End Spans.

Lemma separated_flip inA cells : separated inA cells -> separated (fun c => negb (inA c)) cells.
Proof. intros S x y Ix Iy D. apply S; auto. intros E. apply D. rewrite E. reflexivity. Qed.
Lemma side_flip inA (s : span) : s <> [] -> side (fun c => negb (inA c)) s = negb (side inA s).
Proof. destruct s; [congruence|reflexivity]. Qed.

(** ** from spans to accepted fragments *)
Lemma Permutation_filter' {X} (P : X -> bool) l l' : Permutation l l' -> Permutation (filter P l) (filter P l').
Proof.
  induction 1 as [|x l l' H IH|x y l|l l' l'' H1 IH1 H2 IH2]; cbn.
  - constructor.
  - destruct (P x); [constructor|]; exact IH.
  - destruct (P x), (P y); try apply Permutation_refl. apply perm_swap.
  - eapply Permutation_trans; eassumption.
Qed.
Lemma Permutation_concat' {X} (l l' : list (list X)) : Permutation l l' -> Permutation (concat l) (concat l').
Proof.
  intros H. assert (E : forall m : list (list X), concat m = flat_map (fun x => x) m) by (intros m; rewrite flat_map_concat_map, map_id; reflexivity).
  rewrite !E. apply Permutation_flat_map. exact H.
Qed.
Lemma filter_split_perm {X} (P : X -> bool) l : Permutation l (filter P l ++ filter (fun x => negb (P x)) l).
Proof.
  induction l as [|x t IH]; cbn; [constructor|]. destruct (P x); cbn.
  - constructor; exact IH.
  - apply Permutation_cons_app. exact IH.
Qed.
Lemma mapM_split {X Y} (f : X -> res Y) (P : X -> bool) l rs : mapM f l = Ok rs ->
  exists ra rb, mapM f (filter P l) = Ok ra /\ mapM f (filter (fun x => negb (P x)) l) = Ok rb /\ Permutation rs (ra ++ rb).
Proof.
  revert rs; induction l as [|x t IH]; cbn [mapM filter]; intros rs H.
  - inversion H; subst. exists [], []. repeat split; constructor.
  - destruct (f x) as [y|e] eqn:Fx; cbn [bind] in H; [|discriminate].
    destruct (mapM f t) as [ys|e] eqn:Ft; cbn [bind] in H; [|discriminate]. inversion H; subst.
    destruct (IH ys eq_refl) as [ra [rb [Ha [Hb Hp]]]].
    destruct (P x); cbn [negb mapM].
    + exists (y :: ra), rb. rewrite Fx, Ha; cbn [bind]. repeat split; auto. cbn. constructor; exact Hp.
    + exists ra, (y :: rb). rewrite Fx, Hb; cbn [bind]. repeat split; auto. apply Permutation_cons_app. exact Hp.
Qed.
(** the other direction: both sides succeed, so does the whole *)
Lemma mapM_join {X Y} (f : X -> res Y) (P : X -> bool) l ra rb :
  mapM f (filter P l) = Ok ra -> mapM f (filter (fun x => negb (P x)) l) = Ok rb -> exists rs, mapM f l = Ok rs.
Proof.
  revert ra rb; induction l as [|x t IH]; cbn [mapM filter]; intros ra rb Ha Hb; [eexists; reflexivity|].
  destruct (P x); cbn [negb mapM] in *.
  - destruct (f x) as [y|e]; cbn [bind] in *; [|discriminate].
    destruct (mapM f (filter P t)) as [ys|e] eqn:E; cbn [bind] in Ha; [|discriminate].
    destruct (IH _ _ eq_refl Hb) as [rs ->]. eexists; reflexivity.
  - destruct (f x) as [y|e]; cbn [bind] in *; [|discriminate].
    destruct (mapM f (filter (fun x => negb (P x)) t)) as [ys|e] eqn:E; cbn [bind] in Hb; [|discriminate].
    destruct (IH _ _ Ha eq_refl) as [rs ->]. eexists; reflexivity.
Qed.

Definition per_span (s : span) : res (list fragspan * list contacts) :=
  do r <- span_endorse s;
  let '(acc, rejspans) := r in
  do css <- mapM contacts_of_span rejspans;
  Ok (acc, concat css).
Definition assemble (rs : list (list fragspan * list contacts)) : list fragspan * list contacts :=
  let all_contacts := flat_map snd rs in
  (flat_map fst rs ++ concat (filter (fun c => Nat.eqb (length c) 1) all_contacts),
   filter (fun c => negb (Nat.eqb (length c) 1)) all_contacts).
Lemma endorse_cells_eq cells : endorse_cells cells = do spans <- spans_of_cells cells; do rs <- mapM per_span spans; Ok (assemble rs).
Proof. reflexivity. Qed.

Lemma assemble_perm rs ra rb : Permutation rs (ra ++ rb) ->
  Permutation (fst (assemble rs)) (fst (assemble ra) ++ fst (assemble rb)) /\
  Permutation (snd (assemble rs)) (snd (assemble ra) ++ snd (assemble rb)).
Proof.
  intros H. unfold assemble; cbn [fst snd]. split.
  - eapply Permutation_trans.
    + apply Permutation_app; [apply (Permutation_flat_map fst); exact H|].
      apply Permutation_concat', Permutation_filter', (Permutation_flat_map snd); exact H.
    + rewrite !flat_map_app, filter_app, concat_app.
      rewrite <- !app_assoc. apply Permutation_app_head. rewrite !app_assoc. apply Permutation_app_tail. apply Permutation_app_comm.
  - eapply Permutation_trans; [apply Permutation_filter', (Permutation_flat_map snd); exact H|].
    rewrite flat_map_app, filter_app. apply Permutation_refl.
Qed.

Section Whole.
Variable inA : cell -> bool.
Let notA := fun c => negb (inA c).
Lemma spans_nonempty cells r : spans_of_cells cells = Ok r -> Forall (fun s : span => s <> []) r.
Proof.
  intros H. unfold spans_of_cells in H.
  apply (merge_recursive_inv span_merge (fun s : span => s <> [])) in H; [exact H| |].
  - intros a b c M Na _. unfold span_merge in M. destruct (span_can_merge a b); [|discriminate]. inversion M; subst.
    destruct a; [congruence|discriminate].
  - apply Forall_forall. intros s I. apply in_map_iff in I. destruct I as [e [<- _]]. discriminate.
Qed.

(** C10 at the recognition stage: for a drawing whose cells fall into two sides with no cell
    of one adjacent to a cell of the other, the accepted fragments and the contact groups of
    the whole drawing are those of the two sides taken alone (as multisets); either both
    sides and the whole succeed or an error of the whole is an error of a side. *)
Theorem endorse_cells_separated cells acc groups : separated inA cells ->
  endorse_cells cells = Ok (acc, groups) ->
  exists accA gA accB gB,
    endorse_cells (filter (fun e => inA (fst e)) cells) = Ok (accA, gA) /\
    endorse_cells (filter (fun e => notA (fst e)) cells) = Ok (accB, gB) /\
    Permutation acc (accA ++ accB) /\ Permutation groups (gA ++ gB).
Proof.
  intros Sep H. rewrite endorse_cells_eq in H.
  destruct (spans_of_cells cells) as [r|e] eqn:Sp; cbn [bind] in H; [|discriminate].
  destruct (mapM per_span r) as [rs|e] eqn:Mp; cbn [bind] in H; [|discriminate].
  assert (HH : assemble rs = (acc, groups)) by congruence. clear H.
  destruct (mapM_split per_span (side inA) r rs Mp) as [ra [rb [Ha [Hb Hp]]]].
  pose proof (spans_of_side inA cells Sep) as SA. rewrite Sp in SA; cbn [map_res] in SA.
  pose proof (spans_of_side notA cells (separated_flip inA cells Sep)) as SB. rewrite Sp in SB; cbn [map_res] in SB.
  assert (EB : filter (side notA) r = filter (fun s => negb (side inA s)) r).
  { apply filter_ext_in. intros s Is. pose proof (spans_nonempty _ _ Sp) as NE. rewrite Forall_forall in NE.
    apply side_flip. apply NE. exact Is. }
  rewrite EB in SB.
  exists (fst (assemble ra)), (snd (assemble ra)), (fst (assemble rb)), (snd (assemble rb)).
  rewrite !endorse_cells_eq, SA, SB; cbn [bind]. rewrite Ha, Hb; cbn [bind].
  destruct (assemble_perm rs ra rb Hp) as [P1 P2].
  repeat split; try (destruct (assemble ra); reflexivity); try (destruct (assemble rb); reflexivity).
  - rewrite HH in P1. exact P1.
  - rewrite HH in P2. exact P2.
Qed.

(** and the converse on success: when both sides are accepted without error, so is the whole *)
Theorem endorse_cells_joined cells ra rb : separated inA cells ->
  endorse_cells (filter (fun e => inA (fst e)) cells) = Ok ra ->
  endorse_cells (filter (fun e => notA (fst e)) cells) = Ok rb ->
  exists r, endorse_cells cells = Ok r.
Proof.
  intros Sep Ha Hb. rewrite endorse_cells_eq in *.
  destruct (merge_recursive_ok span_merge (map (fun e => [e]) cells)) as [r [Sp _]]. fold (spans_of_cells cells) in Sp.
  pose proof (spans_of_side inA cells Sep) as SA. rewrite Sp in SA; cbn [map_res] in SA.
  pose proof (spans_of_side notA cells (separated_flip inA cells Sep)) as SB. rewrite Sp in SB; cbn [map_res] in SB.
  assert (EB : filter (side notA) r = filter (fun s => negb (side inA s)) r).
  { apply filter_ext_in. intros s Is. pose proof (spans_nonempty _ _ Sp) as NE. rewrite Forall_forall in NE.
    apply side_flip. apply NE. exact Is. }
  rewrite EB in SB. rewrite SA in Ha. rewrite SB in Hb. rewrite Sp. cbn [bind] in *.
  destruct (mapM per_span (filter (side inA) r)) as [xa|e] eqn:Ea; cbn [bind] in Ha; [|discriminate].
  destruct (mapM per_span (filter (fun s => negb (side inA s)) r)) as [xb|e] eqn:Eb; cbn [bind] in Hb; [|discriminate].
  destruct (mapM_join per_span (side inA) r xa xb Ea Eb) as [rs ->]. cbn [bind]. eexists; reflexivity.
Qed.
End Whole.

(** ** when a drawing is separated: a blank column or a blank row between the parts *)
Lemma gap_column_separates cells g : (forall e, In e cells -> cx (fst e) <> g) -> separated (fun c => cx c <? g) cells.
Proof.
  intros G x y Ix Iy D. unfold cell_adjacent. apply andb_false_iff. left. apply Z.leb_gt.
  pose proof (G _ Ix) as Gx. pose proof (G _ Iy) as Gy.
  destruct (Z.ltb_spec (cx (fst x)) g), (Z.ltb_spec (cx (fst y)) g); try congruence; lia.
Qed.
Lemma gap_row_separates cells g : (forall e, In e cells -> cy (fst e) <> g) -> separated (fun c => cy c <? g) cells.
Proof.
  intros G x y Ix Iy D. unfold cell_adjacent. apply andb_false_iff. right. apply Z.leb_gt.
  pose proof (G _ Ix) as Gx. pose proof (G _ Iy) as Gy.
  destruct (Z.ltb_spec (cy (fst x)) g), (Z.ltb_spec (cy (fst y)) g); try congruence; lia.
Qed.
(** a decision procedure for separation, for concrete drawings *)
Definition separatedb (inA : cell -> bool) (cells : list (cell * Z)) : bool :=
  forallb (fun x => forallb (fun y => Bool.eqb (inA (fst x)) (inA (fst y)) || negb (cell_adjacent (fst x) (fst y))) cells) cells.
Lemma separatedb_sound inA cells : separatedb inA cells = true -> separated inA cells.
Proof.
  intros H x y Ix Iy D. unfold separatedb in H. rewrite forallb_forall in H. specialize (H x Ix).
  rewrite forallb_forall in H. specialize (H y Iy). apply orb_true_iff in H. destruct H as [H|H].
  - apply Bool.eqb_prop in H. congruence.
  - apply negb_true_iff. exact H.
Qed.
