(** * TagCircle: a [{a}] tag inside a catalogue circle gives its name to that circle and is not rendered (C16), through
    the whole model from the cells to the (fragment, class names) list: for every catalogue circle that has room for
    the tag (three free cells in a row, not touching the drawing) and every such position.  Finite sweep over the
    regenerated catalogue; [tag_places] lists what was swept. *)
Require Import SB.Model.Base SB.Model.Unicode SB.Model.Geom SB.Model.Fragment SB.Model.Merge SB.Model.Property
  SB.Model.FragBuf SB.Model.Endorse SB.Model.Text SB.Model.Tree SB.Gen.CircleTables SB.Theory.CircleTheory SB.Theory.BoxDefs SB.Theory.TagSweep.

Definition near (a b : cell) : bool := (Z.abs (cx a - cx b) <=? 1) && (Z.abs (cy a - cy b) <=? 1).
(** the tag at (x, y) keeps clear of the drawing and lies within the rows and columns the drawing spans *)
Definition free_place (art : list (cell * Z)) (x y : Z) : bool :=
  forallb (fun t => forallb (fun e => negb (near (fst t) (fst e))) art) (tag_cells x y)
  && existsb (fun e => (cx (fst e) <? x) && (cy (fst e) =? y)) art && existsb (fun e => (x + 2 <? cx (fst e)) && (cy (fst e) =? y)) art.
Definition places_of (art : list (cell * Z)) : list (Z * Z) :=
  let mx := fold_right Z.max 0 (map (fun e => cx (fst e)) art) in
  let my := fold_right Z.max 0 (map (fun e => cy (fst e)) art) in
  filter (fun '(x, y) => free_place art x y)
         (flat_map (fun y => map (fun x => (Z.of_nat x, Z.of_nat y)) (seq 0 (Z.to_nat mx + 1))) (seq 0 (Z.to_nat my + 1))).
Definition tag_places : list ((circle * list (cell * Z)) * (Z * Z)) :=
  flat_map (fun entry => map (fun p => (entry, p)) (places_of (snd entry))) circles_span.
Definition circle_tag_chk (ep : (circle * list (cell * Z)) * (Z * Z)) : bool :=
  let '(entry, (x, y)) := ep in
  match tagged_fragments (CircleTheory.sort_cells (snd entry ++ tag_cells x y)) with
  | Ok ([(FCircle c, tags)], O) => names_a tags && (cradius c =? cradius (fst entry))
  | _ => false
  end.
Lemma circle_tag_sweep_ok : forallb circle_tag_chk tag_places = true.
Proof. vm_cast_no_check (eq_refl true). Qed.
Theorem tag_in_circle ep : In ep tag_places -> circle_tag_chk ep = true.
Proof. exact (proj1 (forallb_forall _ _) circle_tag_sweep_ok ep). Qed.
