(** * DashBarPlus: the table entries of '-', '|' and '+' against the specification of C03, for
    every neighbourhood (T1 sweep, re-run on the regenerated table). *)
Require Import SB.Model.Base SB.Model.Unicode SB.Model.Geom SB.Model.Fragment SB.Model.Property
  SB.Model.FragBuf SB.Gen.AsciiMap SB.Gen.UnicodeMap.

(** an atom is a half-cell stroke: horizontal (x,y)-(x+20,y) or vertical (x,y)-(x,y+40), in ticks
    relative to the cell *)
Inductive atom := AH (x y : Z) | AV (x y : Z).
Definition atom_eqb (a b : atom) : bool :=
  match a, b with
  | AH x y, AH x' y' | AV x y, AV x' y' => (x =? x') && (y =? y')
  | _, _ => false
  end.

Definition dir_eqb8 (a b : dir8) : bool :=
  match a, b with
  | DTopLeft, DTopLeft | DTop, DTop | DTopRight, DTopRight | DLeft, DLeft | DRight, DRight
  | DBottomLeft, DBottomLeft | DBottom, DBottom | DBottomRight, DBottomRight => true
  | _, _ => false
  end.

(** the strokes of the specification (transcribed from the property text), [nb d] being the
    character of the neighbour in direction [d] (0 for none / a label / anything else) *)
Definition DASH := 45. Definition BAR := 124. Definition PLUS := 43.
Definition spec_atoms (ch : Z) (nb : dir8 -> Z) : list atom :=
  if ch =? DASH then [AH 0 40; AH 20 40]
  else if ch =? BAR then
    [AV 20 0; AV 20 40] ++ (if nb DRight =? DASH then [AH 20 40] else []) ++ (if nb DLeft =? DASH then [AH 0 40] else [])
  else if ch =? PLUS then
    (if (nb DLeft =? DASH) || (nb DLeft =? PLUS) then [AH 0 40] else [])
    ++ (if (nb DRight =? DASH) || (nb DRight =? PLUS) then [AH 20 40] else [])
    ++ (if (nb DTop =? BAR) || (nb DTop =? PLUS) then [AV 20 0] else [])
    ++ (if (nb DBottom =? BAR) || (nb DBottom =? PLUS) then [AV 20 40] else [])
  else [].

(** atoms of a table fragment: only axis-parallel solid lines on the half-cell lattice inside the
    cell are acceptable *)
Fixpoint h_atoms (x : Z) (n : nat) (y : Z) : list atom := match n with O => [] | S m => AH x y :: h_atoms (x + 20) m y end.
Fixpoint v_atoms (x y : Z) (n : nat) : list atom := match n with O => [] | S m => AV x y :: v_atoms x (y + 40) m end.
Definition frag_atoms (f : fragment) : option (list atom) :=
  match f with
  | FLine l =>
      let a := lstart l in let b := lend l in
      if lbroken l then None
      else if (py a =? py b) && (px a mod 20 =? 0) && (px b mod 20 =? 0) && (0 <=? px a) && (px b <=? 40) && (px a <=? px b)
      then Some (h_atoms (px a) (Z.to_nat ((px b - px a) / 20)) (py a))
      else if (px a =? px b) && (py a mod 40 =? 0) && (py b mod 40 =? 0) && (0 <=? py a) && (py b <=? 80) && (py a <=? py b)
      then Some (v_atoms (px a) (py a) (Z.to_nat ((py b - py a) / 40)))
      else None
  | _ => None
  end.
Fixpoint all_atoms (fs : list fragment) : option (list atom) :=
  match fs with
  | [] => Some []
  | f :: t => match frag_atoms f, all_atoms t with Some a, Some b => Some (a ++ b) | _, _ => None end
  end.
Definition same_atoms (a b : list atom) : bool :=
  forallb (fun x => existsb (atom_eqb x) b) a && forallb (fun x => existsb (atom_eqb x) a) b.

Definition prop_of (ch : Z) : property :=
  if ch =? 0 then empty_property else match property_of_char ch with Some p => p | None => empty_property end.

(** one cell: the table's fragments stroke exactly the specified atoms; no fragments at all iff
    the specification has no stroke (the cell is then shown as text) *)
Definition cell_ok (ch : Z) (nb : dir8 -> Z) : bool :=
  match all_atoms (property_fragments (prop_of ch) (fun d => prop_of (nb d))) with
  | Some got => same_atoms got (spec_atoms ch nb)
  | None => false
  end.

(** ** the conditions of an entry look at some directions only *)
Fixpoint cond_dirs (c : cond) : list dir8 :=
  match c with
  | CTrue => []
  | CIs d _ | COverlap d _ _ _ | CArcsTo d _ _ => [d]
  | CNot c => cond_dirs c
  | CAnd a b | COr a b => cond_dirs a ++ cond_dirs b
  end.
Lemma eval_dirs c (e1 e2 : dir8 -> property) : (forall d, In d (cond_dirs c) -> e1 d = e2 d) -> eval e1 c = eval e2 c.
Proof.
  induction c as [|d ch|d lvl a b|d a b|c IH|c1 IH1 c2 IH2|c1 IH1 c2 IH2]; cbn [cond_dirs eval]; intros H.
  - reflexivity.
  - rewrite (H d (or_introl eq_refl)). reflexivity.
  - rewrite (H d (or_introl eq_refl)). reflexivity.
  - rewrite (H d (or_introl eq_refl)). reflexivity.
  - rewrite IH by exact H. reflexivity.
  - rewrite IH1, IH2; [reflexivity| |]; intros d Hd; apply H; apply in_or_app; auto.
  - rewrite IH1, IH2; [reflexivity| |]; intros d Hd; apply H; apply in_or_app; auto.
Qed.
Definition prop_dirs (p : property) : list dir8 := flat_map (fun cf => cond_dirs (fst cf)) (pbeh p).
Lemma property_fragments_dirs p (e1 e2 : dir8 -> property) :
  (forall d, In d (prop_dirs p) -> e1 d = e2 d) -> property_fragments p e1 = property_fragments p e2.
Proof.
  unfold property_fragments, prop_dirs. induction (pbeh p) as [|[c fs] t IH]; cbn [flat_map fst]; intros H; [reflexivity|].
  rewrite (eval_dirs c e1 e2), IH; [reflexivity| |]; intros d Hd; apply H; apply in_or_app; auto.
Qed.

(** the directions the three entries and the specification look at *)
Definition looked_at : list dir8 :=
  prop_dirs (prop_of DASH) ++ prop_dirs (prop_of BAR) ++ prop_dirs (prop_of PLUS) ++ [DLeft; DRight; DTop; DBottom].
Definition is_used (d : dir8) : bool :=
  Eval vm_compute in (fun d => existsb (dir_eqb8 d) looked_at) d.
Lemma used_covers : forallb is_used looked_at = true.
Proof. vm_compute. reflexivity. Qed.
Lemma looked_at_used d : In d looked_at -> is_used d = true.
Proof. intros H. pose proof used_covers as U. rewrite forallb_forall in U. exact (U d H). Qed.
Definition mask (nb : dir8 -> Z) : dir8 -> Z := fun d => if is_used d then nb d else 0.

Definition NB := [0; DASH; BAR; PLUS].
Definition dir_index (d : dir8) : nat :=
  match d with DTopLeft => 0 | DTop => 1 | DTopRight => 2 | DLeft => 3 | DRight => 4 | DBottomLeft => 5 | DBottom => 6 | DBottomRight => 7 end%nat.
Definition env_of (l : list Z) : dir8 -> Z := fun d => nth (dir_index d) l 0.
(** all neighbourhoods: four choices in a direction that is looked at, none elsewhere *)
Fixpoint tuples (ds : list dir8) : list (list Z) :=
  match ds with
  | [] => [[]]
  | d :: r => flat_map (fun t => map (fun c => c :: t) (if is_used d then NB else [0])) (tuples r)
  end.

Definition triple_ok (t : list Z) : bool := cell_ok DASH (env_of t) && cell_ok BAR (env_of t) && cell_ok PLUS (env_of t).

Lemma sweep : forallb triple_ok (tuples dir8_all) = true.
Proof. vm_compute. reflexivity. Qed.

Lemma sweep_forall t : In t (tuples dir8_all) ->
  cell_ok DASH (env_of t) = true /\ cell_ok BAR (env_of t) = true /\ cell_ok PLUS (env_of t) = true.
Proof.
  intros H. pose proof (proj1 (forallb_forall triple_ok (tuples dir8_all)) sweep t H) as S.
  unfold triple_ok in S. apply andb_true_iff in S. destruct S as [S S3]. apply andb_true_iff in S. destruct S as [S1 S2]. auto.
Qed.

Lemma tuples_complete (nb : dir8 -> Z) : (forall d, In (nb d) NB) -> forall ds, In (map (mask nb) ds) (tuples ds).
Proof.
  intros H. induction ds as [|d r IH]; [left; reflexivity|]. cbn [map tuples]. apply in_flat_map. exists (map (mask nb) r). split; [exact IH|].
  apply in_map_iff. exists (mask nb d). split; [reflexivity|]. unfold mask. destruct (is_used d); [apply H|left; reflexivity].
Qed.

Lemma cell_ok_mask ch nb : In ch [DASH; BAR; PLUS] -> cell_ok ch (mask nb) = cell_ok ch nb.
Proof.
  intros Hch. unfold cell_ok.
  assert (U : forall d, In d (prop_dirs (prop_of ch)) -> is_used d = true).
  { intros d Hd. apply looked_at_used. unfold looked_at. destruct Hch as [<-|[<-|[<-|[]]]].
    - apply in_or_app; left; exact Hd.
    - apply in_or_app; right; apply in_or_app; left; exact Hd.
    - apply in_or_app; right; apply in_or_app; right; apply in_or_app; left; exact Hd. }
  rewrite (property_fragments_dirs (prop_of ch) (fun d => prop_of (mask nb d)) (fun d => prop_of (nb d))).
  - assert (M : forall d, In d [DLeft; DRight; DTop; DBottom] -> mask nb d = nb d).
    { intros d Hd. unfold mask. rewrite looked_at_used; [reflexivity|].
      unfold looked_at. apply in_or_app; right; apply in_or_app; right; apply in_or_app; right. exact Hd. }
    assert (Es : spec_atoms ch (mask nb) = spec_atoms ch nb).
    { unfold spec_atoms. rewrite (M DLeft), (M DRight), (M DTop), (M DBottom); [reflexivity| | | |]; cbn [In]; tauto. }
    rewrite Es. reflexivity.
  - intros d Hd. unfold mask. rewrite (U d Hd). reflexivity.
Qed.

(** for every neighbourhood over {none, -, |, +} (labels count as none: they have no property) *)
Theorem table_matches_spec (nb : dir8 -> Z) :
  (forall d, In (nb d) NB) -> cell_ok DASH nb = true /\ cell_ok BAR nb = true /\ cell_ok PLUS nb = true.
Proof.
  intros H. pose proof (sweep_forall _ (tuples_complete nb H dir8_all)) as S.
  assert (E : forall ch, cell_ok ch (env_of (map (mask nb) dir8_all)) = cell_ok ch (mask nb)).
  { intros ch. unfold cell_ok.
    assert (Ex : forall d, env_of (map (mask nb) dir8_all) d = mask nb d) by (intros d; destruct d; reflexivity).
    assert (Ef : property_fragments (prop_of ch) (fun d => prop_of (env_of (map (mask nb) dir8_all) d)) = property_fragments (prop_of ch) (fun d => prop_of (mask nb d))).
    { apply property_fragments_dirs. intros d _. rewrite Ex. reflexivity. }
    rewrite Ef. destruct (all_atoms _); [|reflexivity].
    assert (Es : spec_atoms ch (env_of (map (mask nb) dir8_all)) = spec_atoms ch (mask nb)) by (unfold spec_atoms; rewrite !Ex; reflexivity).
    rewrite Es. reflexivity. }
  rewrite !E in S. rewrite (cell_ok_mask DASH), (cell_ok_mask BAR), (cell_ok_mask PLUS) in S; [exact S| | |]; cbn [In]; tauto.
Qed.
