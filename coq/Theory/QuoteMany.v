(** * QuoteMany: any number of quoted segments on a row (C15, general form).
    A row [A1 "B1" A2 "B2" ... An "Bn" D] with quote-free [Ai], [D] and bodies without quote or
    backslash: every body is lifted out verbatim at the column of its opening quote, and the
    drawn row is the row with every region, quotes included, overwritten by blanks of the
    region's column width. *)
Require Import SB.Model.Base SB.Model.Unicode SB.Model.Geom SB.Model.Text SB.Theory.TextTotal SB.Theory.LineTheory
  SB.Theory.QuoteTheory.
From Coq Require Import Arith.

Definition seg := (list Z * list Z)%type.
Fixpoint build (segs : list seg) (post : list Z) : list Z :=
  match segs with [] => post | (A, B) :: r => A ++ 34 :: B ++ 34 :: build r post end.
Fixpoint blanked (segs : list seg) (post : list Z) : list Z :=
  match segs with [] => post | (A, B) :: r => A ++ repeatZ 32 (Z.to_nat (escaped_columns B + 2)) ++ blanked r post end.
Fixpoint texts_at (y : Z) (off : nat) (segs : list seg) : list (cell * list Z) :=
  match segs with [] => [] | (A, B) :: r => (C (Z.of_nat (off + length A)) y, B) :: texts_at y (off + length A + length B + 2) r end.
Fixpoint locs_at (off : nat) (segs : list seg) : list (nat * nat) :=
  match segs with [] => [] | (A, B) :: r => ((off + length A)%nat, S (off + length A + length B)) :: locs_at (off + length A + length B + 2) r end.
Definition good_seg (s : seg) : Prop := quote_free (fst s) /\ plain (snd s).

(** scanning skips a quote-free prefix *)
Lemma skip_nq_prefix A X pos : quote_free A -> skip_nq (A ++ X) pos = skip_nq X (pos + length A)%nat.
Proof.
  intros F. revert pos. induction F as [|c t Hc Ft IH]; intros pos; cbn [app skip_nq length]; [f_equal; lia|].
  replace (c =? 34) with false by (symmetry; apply Z.eqb_neq; exact Hc). rewrite IH. f_equal. lia.
Qed.
Lemma lp_prefix A X pos : quote_free A -> lp (A ++ X) pos = lp X (pos + length A)%nat.
Proof.
  intros F. rewrite (lp_unfold (A ++ X) pos), (lp_unfold X (pos + length A)).
  assert (E : escape_string (A ++ X) pos = escape_string X (pos + length A)) by (unfold escape_string; rewrite skip_nq_prefix by exact F; reflexivity).
  rewrite E. reflexivity.
Qed.
Lemma skip_nq_idem X pos : skip_nq (fst (skip_nq X pos)) (snd (skip_nq X pos)) = skip_nq X pos.
Proof.
  revert pos. induction X as [|c t IH]; intros pos; cbn [skip_nq]; [reflexivity|].
  destruct (c =? 34) eqn:E; cbn [fst snd skip_nq]; [rewrite E; reflexivity|apply IH].
Qed.
Lemma lp_skipped X pos : lp (fst (skip_nq X pos)) (snd (skip_nq X pos)) = lp X pos.
Proof.
  rewrite (lp_unfold X pos), (lp_unfold (fst (skip_nq X pos))). unfold escape_string. rewrite skip_nq_idem. reflexivity.
Qed.

Lemma lp_build segs post : Forall good_seg segs -> quote_free post -> forall pos, lp (build segs post) pos = Some (locs_at pos segs).
Proof.
  intros G Fp. induction G as [|[A B] r [FA FB] Gr IH]; intros pos; cbn [build locs_at].
  - rewrite lp_unfold. unfold escape_string. rewrite (skip_nq_all post pos Fp). reflexivity.
  - cbn [fst snd] in FA, FB. rewrite (lp_prefix A _ pos FA). rewrite lp_unfold. unfold escape_string.
    cbn [skip_nq]. change (34 =? 34) with true. cbv iota.
    rewrite (char_strings_plain B (build r post) (S (pos + length A)) FB). change (34 =? 34) with true. cbv iota.
    destruct (skip_nq (build r post) (S (S (pos + length A) + length B))) as [s5 p5] eqn:SK.
    pose proof (lp_skipped (build r post) (S (S (pos + length A) + length B))) as L. rewrite SK in L. cbn [fst snd] in L.
    rewrite L, IH. cbn [option_map].
    replace (S (pos + length A) + length B)%nat with (S (pos + length A + length B)) by lia.
    replace (S (S (pos + length A + length B))) with (pos + length A + length B + 2)%nat by lia. reflexivity.
Qed.

Lemma build_length segs post : length (build segs post) = (fold_right (fun s n => length (fst s) + length (snd s) + 2 + n) (length post) segs)%nat.
Proof. induction segs as [|[A B] r IH]; cbn [build fold_right fst snd]; [reflexivity|]. rewrite app_length. cbn [length]. rewrite app_length. cbn [length]. rewrite IH. lia. Qed.

Lemma escape_segments_build y segs post : forall P,
  escape_segments y (P ++ build segs post) (locs_at (length P) segs) (length P) = Ok (texts_at y (length P) segs, blanked segs post).
Proof.
  induction segs as [|[A B] r IH]; intros P; cbn [build locs_at texts_at blanked escape_segments].
  - rewrite slice_from_end. reflexivity.
  - assert (S1 : slice (P ++ A ++ 34 :: B ++ 34 :: build r post) (S (length P + length A)) (S (length P + length A + length B)) = Some B).
    { pose proof (slice_mid (P ++ A ++ [34]) B (34 :: build r post)) as H. rewrite <- !app_assoc in H. cbn [app] in H.
      rewrite !app_length in H. cbn [length] in H.
      replace (length P + (length A + 1))%nat with (S (length P + length A)) in H by lia.
      replace (S (length P + length A) + length B)%nat with (S (length P + length A + length B)) in H by lia. exact H. }
    assert (S2 : slice (P ++ A ++ 34 :: B ++ 34 :: build r post) (length P) (length P + length A) = Some A) by apply slice_mid.
    rewrite S1, S2. cbn [oslice bind].
    specialize (IH (P ++ A ++ 34 :: B ++ [34])).
    assert (LP : length (P ++ A ++ 34 :: B ++ [34]) = S (S (length P + length A + length B))).
    { rewrite !app_length. cbn [length]. rewrite app_length. cbn [length]. lia. }
    rewrite LP in IH. rewrite <- !app_assoc in IH. cbn [app] in IH. rewrite <- app_assoc in IH. cbn [app] in IH.
    replace (length P + length A + length B + 2)%nat with (S (S (length P + length A + length B))) by lia.
    rewrite IH. cbn [bind]. reflexivity.
Qed.

(** C15 for a row with any number of quoted segments *)
Theorem escape_line_segments y segs post : Forall good_seg segs -> quote_free post ->
  escape_line y (build segs post) = Ok (texts_at y 0 segs, blanked segs post).
Proof.
  intros G Fp. unfold escape_line, line_parse. fold (lp (build segs post) 0). rewrite (lp_build segs post G Fp 0). cbn [bind].
  destruct segs as [|s r]; [reflexivity|].
  remember (s :: r) as segs' eqn:Es. assert (N : locs_at 0 segs' <> []) by (subst; destruct s; discriminate).
  destruct (locs_at 0 segs') as [|l ls] eqn:EL; [congruence|]. rewrite <- EL.
  exact (escape_segments_build y segs' post []).
Qed.

(** ** at the level of a line of text *)
Definition rowseg (s : seg) : seg := (row_of_line (fst s), row_of_line (snd s)).
Lemma row_of_build segs post : row_of_line (build segs post) = build (map rowseg segs) (row_of_line post).
Proof.
  induction segs as [|[A B] r IH]; cbn [build map rowseg fst snd]; [reflexivity|].
  replace (A ++ 34 :: B ++ 34 :: build r post) with (A ++ [34] ++ B ++ [34] ++ build r post) by reflexivity.
  rewrite !row_of_line_app, quote_row, IH. reflexivity.
Qed.
Lemma rowseg_good segs : Forall good_seg segs -> Forall good_seg (map rowseg segs).
Proof.
  intros G. apply Forall_forall. intros s Hs. apply in_map_iff in Hs. destruct Hs as [[A B] [<- Hin]].
  rewrite Forall_forall in G. destruct (G _ Hin) as [FA FB]. split; [apply row_of_line_quote_free; exact FA|apply row_of_line_plain; exact FB].
Qed.
Theorem quoted_line_many y segs post : Forall good_seg segs -> quote_free post ->
  escape_line y (row_of_line (build segs post)) = Ok (texts_at y 0 (map rowseg segs), blanked (map rowseg segs) (row_of_line post)).
Proof.
  intros G Fp. rewrite row_of_build. apply escape_line_segments; [apply rowseg_good; exact G|apply row_of_line_quote_free; exact Fp].
Qed.

(** the line with every quoted region, quotes included, overwritten by blanks of the region's
    column width *)
Fixpoint blank_text (segs : list seg) (post : list Z) : list Z :=
  match segs with [] => post | (A, B) :: r => A ++ repeatZ 32 (length (row_of_line B) + 2) ++ blank_text r post end.
Lemma row_of_blanks n : row_of_line (repeatZ 32 n) = repeatZ 32 n.
Proof.
  induction n as [|n IH]; [reflexivity|]. cbn [repeatZ].
  change (row_of_line (32 :: repeatZ 32 n)) with (row_of_line [32] ++ row_of_line (repeatZ 32 n)). rewrite IH. vm_compute (row_of_line [32]). reflexivity.
Qed.
Lemma blanked_is_blank_text segs post : blanked (map rowseg segs) (row_of_line post) = row_of_line (blank_text segs post).
Proof.
  induction segs as [|[A B] r IH]; cbn [blanked map rowseg fst snd blank_text]; [reflexivity|].
  rewrite !row_of_line_app, row_of_blanks, IH, escaped_columns_row. f_equal. f_equal. f_equal. lia.
Qed.
Theorem quoted_line_many_cells y segs post : Forall good_seg segs -> quote_free post ->
  exists texts out, escape_line y (row_of_line (build segs post)) = Ok (texts, out)
    /\ map snd texts = map (fun s => row_of_line (snd s)) segs
    /\ cells_of_row y 0 out = cells_of_row y 0 (row_of_line (blank_text segs post)).
Proof.
  intros G Fp. rewrite (quoted_line_many y segs post G Fp). do 2 eexists. split; [reflexivity|]. split.
  - generalize 0%nat. induction segs as [|[A B] r IH]; intros off; cbn [map texts_at rowseg fst snd]; [reflexivity|]. f_equal. inversion G; subst. apply IH; assumption.
  - rewrite blanked_is_blank_text. reflexivity.
Qed.
