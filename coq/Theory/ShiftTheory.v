(** * ShiftTheory: moving a drawing by whole cells only translates what is computed from it
    (C06).  Everything the conversion does with cells and points is built from differences,
    adjacency, orderings and cross products, all of which are translation invariant; the
    generic merge loop commutes with any such transformation (M4). *)
Require Import SB.Model.Base SB.Model.Unicode SB.Model.Geom SB.Model.Fragment SB.Model.Merge
  SB.Model.Property SB.Model.FragBuf SB.Theory.MergeTheory.

Lemma existsb_map' {X Y} (f : Y -> bool) (g : X -> Y) l : existsb f (map g l) = existsb (fun x => f (g x)) l.
Proof. induction l as [|x t IH]; cbn; [reflexivity|]. rewrite IH. reflexivity. Qed.
Lemma existsb_ext' {X} (f g : X -> bool) l : (forall x, f x = g x) -> existsb f l = existsb g l.
Proof. intros H. induction l as [|x t IH]; cbn; [reflexivity|]. rewrite H, IH. reflexivity. Qed.
Lemma forallb_map' {X Y} (f : Y -> bool) (g : X -> Y) l : forallb f (map g l) = forallb (fun x => f (g x)) l.
Proof. induction l as [|x t IH]; cbn; [reflexivity|]. rewrite IH. reflexivity. Qed.
Lemma forallb_ext' {X} (f g : X -> bool) l : (forall x, f x = g x) -> forallb f l = forallb g l.
Proof. intros H. induction l as [|x t IH]; cbn; [reflexivity|]. rewrite H, IH. reflexivity. Qed.

Section Shift.
Context (k n : Z).

Definition shift_cell (c : cell) : cell := C (cx c + k) (cy c + n).
Definition shift_cc (e : cell * Z) : cell * Z := (shift_cell (fst e), snd e).
Definition shift_span (s : span) : span := map shift_cc s.
Definition shift_point (p : point) : point := P (px p + k * CW) (py p + n * CH).

Lemma cell_adjacent_shift a b : cell_adjacent (shift_cell a) (shift_cell b) = cell_adjacent a b.
Proof. unfold cell_adjacent, shift_cell; cbn. f_equal; f_equal; f_equal; lia. Qed.
Lemma cell_cmp_shift a b : cell_cmp (shift_cell a) (shift_cell b) = cell_cmp a b.
Proof.
  unfold cell_cmp, shift_cell; cbn. rewrite !(Z.add_comm _ k), !(Z.add_comm _ n), !Z.add_compare_mono_l. reflexivity.
Qed.
Lemma cell_eqb_shift a b : cell_eqb (shift_cell a) (shift_cell b) = cell_eqb a b.
Proof.
  unfold cell_eqb, shift_cell; cbn. f_equal; apply Bool.eq_iff_eq_true; rewrite !Z.eqb_eq; lia.
Qed.
Lemma top_left_shift c : top_left_most (shift_cell c) = shift_point (top_left_most c).
Proof. unfold top_left_most, shift_cell, shift_point; cbn. f_equal; lia. Qed.
Lemma cell_abs_shift c p : cell_abs (shift_cell c) p = shift_point (cell_abs c p).
Proof. unfold cell_abs. rewrite top_left_shift. unfold padd, shift_point; cbn. f_equal; lia. Qed.

Lemma span_can_merge_shift a b : span_can_merge (shift_span a) (shift_span b) = span_can_merge a b.
Proof.
  unfold span_can_merge, shift_span. rewrite existsb_map'. apply existsb_ext'. intros x.
  rewrite existsb_map'. apply existsb_ext'. intros y. cbn. apply cell_adjacent_shift.
Qed.
Lemma span_merge_shift a b : span_merge (shift_span a) (shift_span b) = option_map shift_span (span_merge a b).
Proof.
  unfold span_merge. rewrite span_can_merge_shift. destruct (span_can_merge a b); cbn; [|reflexivity].
  unfold shift_span. rewrite map_app. reflexivity.
Qed.

(** the grouping of cells into spans is the same wherever the drawing is, cell order included *)
Theorem spans_of_cells_shift cells :
  spans_of_cells (map shift_cc cells) =
  match spans_of_cells cells with Ok spans => Ok (map shift_span spans) | Err e => Err e end.
Proof.
  unfold spans_of_cells.
  replace (map (fun e => [e]) (map shift_cc cells)) with (map shift_span (map (fun e => [e]) cells))
    by (rewrite !map_map; reflexivity).
  apply (merge_recursive_map span_merge shift_span span_merge_shift).
Qed.

(** bounds and localisation: the localised span does not depend on the position at all *)
Lemma zmin_list_shift d l m : zmin_list (d + m) (map (fun x => x + m) l) = zmin_list d l + m.
Proof. revert d. induction l as [|x t IH]; intros d; cbn; [reflexivity|]. rewrite IH. lia. Qed.
Lemma zmax_list_shift d l m : zmax_list (d + m) (map (fun x => x + m) l) = zmax_list d l + m.
Proof. revert d. induction l as [|x t IH]; intros d; cbn; [reflexivity|]. rewrite IH. lia. Qed.

Lemma span_bounds_shift s :
  span_bounds (shift_span s) = option_map (fun b => (shift_cell (fst b), shift_cell (snd b))) (span_bounds s).
Proof.
  destruct s as [|[c z] t]; [reflexivity|].
  assert (Mx : forall l : span, map (fun e => cx (fst e)) (shift_span l) = map (fun x => x + k) (map (fun e => cx (fst e)) l))
    by (intros l; unfold shift_span; rewrite !map_map; reflexivity).
  assert (My : forall l : span, map (fun e => cy (fst e)) (shift_span l) = map (fun x => x + n) (map (fun e => cy (fst e)) l))
    by (intros l; unfold shift_span; rewrite !map_map; reflexivity).
  change (shift_span ((c, z) :: t)) with ((shift_cell c, z) :: shift_span t).
  unfold span_bounds. change ((shift_cell c, z) :: shift_span t) with (shift_span ((c, z) :: t)).
  rewrite Mx, My. unfold shift_cell at 1 2 3 4; cbn [cx cy].
  rewrite !zmin_list_shift, !zmax_list_shift. reflexivity.
Qed.

Lemma span_localize_shift s : span_localize (shift_span s) = span_localize s.
Proof.
  unfold span_localize. rewrite span_bounds_shift. destruct (span_bounds s) as [[tl br]|] eqn:E; cbn [option_map fst].
  - unfold shift_span. rewrite map_map. apply map_ext. intros [c z]. cbn. unfold cell_sub, shift_cell; cbn. f_equal. f_equal; lia.
  - destruct s as [|[c z] t]; [reflexivity|cbn in E; discriminate].
Qed.
End Shift.
