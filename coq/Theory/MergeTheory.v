(** * MergeTheory: facts about the generic merge loop of [merge.rs] that hold for every
    [merge] function and every list length (M1, M2, M3, M4 of DESIGN.md). *)
Require Import SB.Model.Base SB.Model.Merge.
From Coq Require Import Arith.

Section M.
Context {A : Type} (merge : A -> A -> option A).
Notation tmr := (try_merge_rev merge).
Notation step := (step merge).
Notation second_pass := (second_pass merge).
Notation merge_rec := (merge_rec merge).
Notation merge_recursive := (merge_recursive merge).

(** ** M1: a pass never grows the list; it keeps the length iff nothing merged iff it is the
    identity; fuel [S (length l)] always suffices; a fixpoint is pairwise unmergeable
    (every earlier item with every later one). *)
Lemma tmr_length gs x gs' : tmr gs x = Some gs' -> length gs' = length gs.
Proof.
  revert gs'; induction gs as [|g gs IH]; cbn; intros gs' H; [discriminate|].
  destruct (tmr gs x) as [r|] eqn:E.
  - inversion H; subst; cbn; f_equal; auto.
  - destruct (merge g x); inversion H; subst; reflexivity.
Qed.

Lemma tmr_none gs x : tmr gs x = None <-> Forall (fun g => merge g x = None) gs.
Proof.
  induction gs as [|g gs IH]; cbn.
  - split; auto.
  - destruct (tmr gs x) eqn:E.
    + split; [discriminate|]. intros H; inversion H; subst.
      match goal with H : Forall _ gs |- _ => apply IH in H; discriminate end.
    + destruct (merge g x) eqn:M.
      * split; [discriminate|]. intros H; inversion H; congruence.
      * split; auto. intros _. constructor; auto. apply IH; auto.
Qed.

Lemma step_length gs x :
  length (step gs x) = length gs
  \/ (length (step gs x) = S (length gs) /\ step gs x = gs ++ [x] /\ Forall (fun g => merge g x = None) gs).
Proof.
  unfold Merge.step. destruct (tmr gs x) eqn:E.
  - left; eapply tmr_length; eauto.
  - right; rewrite app_length; cbn; split; [lia|split; auto]. apply tmr_none; auto.
Qed.

Lemma fold_step_length items : forall acc, (length (fold_left step items acc) <= length acc + length items)%nat.
Proof.
  induction items as [|x xs IH]; cbn; intros acc; [lia|].
  specialize (IH (step acc x)). destruct (step_length acc x) as [H|[H _]]; lia.
Qed.

Lemma second_pass_length items : (length (second_pass items) <= length items)%nat.
Proof. unfold Merge.second_pass. pose proof (fold_step_length items []). cbn in *; lia. Qed.

(** every earlier item is unmergeable with every later one *)
Inductive unmerge : list A -> Prop :=
| um_nil : unmerge []
| um_snoc l x : unmerge l -> Forall (fun g => merge g x = None) l -> unmerge (l ++ [x]).

Lemma fold_step_full items : forall acc,
  length (fold_left step items acc) = (length acc + length items)%nat ->
  fold_left step items acc = acc ++ items /\ (unmerge acc -> unmerge (acc ++ items)).
Proof.
  induction items as [|x xs IH]; cbn; intros acc H.
  - rewrite app_nil_r; auto.
  - pose proof (fold_step_length xs (step acc x)) as L.
    destruct (step_length acc x) as [E|[E [E2 F]]].
    + lia.
    + rewrite E2 in *. destruct (IH (acc ++ [x])) as [I1 I2].
      { rewrite app_length in *; cbn in *; lia. }
      rewrite <- app_assoc in *; cbn in *. split; auto.
      intros U. apply I2. constructor; auto.
Qed.

Theorem second_pass_fixpoint items :
  length (second_pass items) = length items -> second_pass items = items /\ unmerge items.
Proof.
  intros H. destruct (fold_step_full items []) as [E U]; [cbn; auto|].
  cbn in *. split; auto. apply U; constructor.
Qed.

Theorem merge_rec_fuel items : forall fuel, (length items < fuel)%nat ->
  exists r, merge_rec fuel items = Some r /\ unmerge r /\ (length r <= length items)%nat.
Proof.
  intros fuel; revert items; induction fuel as [|f IH]; intros items H; [lia|].
  cbn [Merge.merge_rec]. pose proof (second_pass_length items) as L.
  destruct (Nat.ltb_spec (length (second_pass items)) (length items)) as [Lt|Ge].
  - destruct (IH (second_pass items)) as [r [R1 [R2 R3]]]; [lia|]. exists r; repeat split; auto; lia.
  - assert (E : length (second_pass items) = length items) by lia.
    destruct (second_pass_fixpoint items E) as [E1 U]. rewrite E1. eauto.
Qed.

(** [merge_recursive] never runs out of fuel *)
Theorem merge_recursive_ok items : exists r, merge_recursive items = Ok r /\ unmerge r.
Proof.
  unfold Merge.merge_recursive.
  destruct (merge_rec_fuel items (S (length items))) as [r [E [U _]]]; [lia|]. rewrite E. eauto.
Qed.

Lemma unmerge_pairs l : unmerge l -> forall i j x y, (i < j)%nat -> nth_error l i = Some x -> nth_error l j = Some y -> merge x y = None.
Proof.
  induction 1 as [|l z U IH F]; intros i j x y Hij Hi Hj.
  - destruct i; discriminate.
  - assert (Lj : (j < length (l ++ [z]))%nat) by (apply nth_error_Some; congruence).
    rewrite app_length in Lj; cbn in Lj.
    destruct (Nat.eq_dec j (length l)) as [->|Nj].
    + rewrite nth_error_app2 in Hj by lia. rewrite Nat.sub_diag in Hj; cbn in Hj; inversion Hj; subst y.
      rewrite nth_error_app1 in Hi by lia.
      rewrite Forall_forall in F. apply F. eapply nth_error_In; eauto.
    + rewrite nth_error_app1 in Hj by lia. rewrite nth_error_app1 in Hi by lia. exact (IH i j x y Hij Hi Hj).
Qed.

(** ** M2: an invariant of the items that merging preserves holds of every output item *)
Section Invariant.
Context (I : A -> Prop) (Imerge : forall a b c, merge a b = Some c -> I a -> I b -> I c).

Lemma tmr_inv gs x gs' : tmr gs x = Some gs' -> Forall I gs -> I x -> Forall I gs'.
Proof.
  revert gs'; induction gs as [|g gs IH]; cbn; intros gs' H F Ix; [discriminate|].
  inversion F; subst.
  destruct (tmr gs x) as [r|] eqn:E.
  - inversion H; subst. constructor; auto.
  - destruct (merge g x) eqn:M; inversion H; subst. constructor; eauto.
Qed.

Lemma step_inv gs x : Forall I gs -> I x -> Forall I (step gs x).
Proof.
  intros F Ix. unfold Merge.step. destruct (tmr gs x) eqn:E.
  - eapply tmr_inv; eauto.
  - apply Forall_app; split; auto.
Qed.

Lemma second_pass_inv items : Forall I items -> Forall I (second_pass items).
Proof.
  unfold Merge.second_pass. assert (G : forall acc, Forall I acc -> Forall I items -> Forall I (fold_left step items acc)).
  { induction items as [|x xs IH]; cbn; intros acc Fa Fi; auto.
    inversion Fi; subst. apply IH; auto. apply step_inv; auto. }
  intros; apply G; auto.
Qed.

Lemma merge_rec_inv fuel : forall items r, merge_rec fuel items = Some r -> Forall I items -> Forall I r.
Proof.
  induction fuel as [|f IH]; cbn [Merge.merge_rec]; intros items r H F; [discriminate|].
  destruct (length (second_pass items) <? length items)%nat.
  - eapply IH; eauto. apply second_pass_inv; auto.
  - inversion H; subst. apply second_pass_inv; auto.
Qed.

Theorem merge_recursive_inv items r : merge_recursive items = Ok r -> Forall I items -> Forall I r.
Proof.
  unfold Merge.merge_recursive. destruct (merge_rec (S (length items)) items) eqn:E; intros H F; inversion H; subst.
  eapply merge_rec_inv; eauto.
Qed.
End Invariant.
End M.

(** ** M4: equivariance.  If a transformation [t] commutes with [merge], it commutes with the
    whole loop, order included. *)
Section Equivariance.
Context {A : Type} (merge : A -> A -> option A) (t : A -> A).
Context (Ht : forall a b, merge (t a) (t b) = option_map t (merge a b)).

Lemma tmr_map gs x : try_merge_rev merge (map t gs) (t x) = option_map (map t) (try_merge_rev merge gs x).
Proof.
  induction gs as [|g gs IH]; cbn; auto.
  rewrite IH. destruct (try_merge_rev merge gs x); cbn; auto.
  rewrite Ht. destruct (merge g x); reflexivity.
Qed.
Lemma step_map gs x : step merge (map t gs) (t x) = map t (step merge gs x).
Proof.
  unfold step. rewrite tmr_map. destruct (try_merge_rev merge gs x); cbn; auto.
  rewrite map_app; reflexivity.
Qed.
Lemma second_pass_map l : second_pass merge (map t l) = map t (second_pass merge l).
Proof.
  unfold second_pass. change (@nil A) with (map t []) at 1. generalize (@nil A) as acc.
  induction l as [|x xs IH]; cbn; intros acc; auto. rewrite step_map. apply IH.
Qed.
Lemma merge_rec_map fuel : forall l, merge_rec merge fuel (map t l) = option_map (map t) (merge_rec merge fuel l).
Proof.
  induction fuel as [|f IH]; cbn [merge_rec]; intros l; auto.
  rewrite second_pass_map, !map_length.
  destruct (length (second_pass merge l) <? length l)%nat; auto.
Qed.
Theorem merge_recursive_map l :
  merge_recursive merge (map t l) = match merge_recursive merge l with Ok r => Ok (map t r) | Err e => Err e end.
Proof.
  unfold merge_recursive. rewrite map_length, merge_rec_map.
  destruct (merge_rec merge (S (length l)) l); reflexivity.
Qed.
End Equivariance.

(** ** M3: non-interaction.  If [P] splits the items into two classes that never merge with each
    other and merging stays inside a class, one pass commutes with filtering by [P]. *)
Section NonInteraction.
Context {A : Type} (merge : A -> A -> option A) (P : A -> bool).
Context (cross : forall a b, P a <> P b -> merge a b = None).
Context (stay : forall a b c, merge a b = Some c -> P c = P a).

Lemma tmr_filter_in gs x : P x = true ->
  option_map (filter P) (try_merge_rev merge gs x) = try_merge_rev merge (filter P gs) x.
Proof.
  intros Px. induction gs as [|g gs IH]; cbn; auto.
  destruct (P g) eqn:Pg; cbn.
  - rewrite <- IH. destruct (try_merge_rev merge gs x) as [r|]; cbn.
    + rewrite Pg; auto.
    + destruct (merge g x) as [m|] eqn:M; cbn; auto. rewrite (stay _ _ _ M), Pg; auto.
  - rewrite <- IH. destruct (try_merge_rev merge gs x) as [r|]; cbn.
    + rewrite Pg; auto.
    + rewrite cross; [reflexivity|congruence].
Qed.
Lemma tmr_filter_out gs x gs' : P x = false ->
  try_merge_rev merge gs x = Some gs' -> filter P gs' = filter P gs.
Proof.
  intros Px. revert gs'; induction gs as [|g gs IH]; cbn; intros gs' H; [discriminate|].
  destruct (try_merge_rev merge gs x) as [r|] eqn:E.
  - inversion H; subst; cbn. rewrite (IH r eq_refl); auto.
  - destruct (merge g x) as [m|] eqn:M; inversion H; subst; cbn.
    rewrite (stay _ _ _ M). destruct (P g) eqn:Pg; auto.
    rewrite cross in M; [discriminate|congruence].
Qed.
Lemma step_filter acc x :
  filter P (step merge acc x) = if P x then step merge (filter P acc) x else filter P acc.
Proof.
  unfold step. destruct (P x) eqn:Px.
  - rewrite <- tmr_filter_in by auto.
    destruct (try_merge_rev merge acc x); cbn; auto. rewrite filter_app; cbn; rewrite Px; auto.
  - destruct (try_merge_rev merge acc x) eqn:E.
    + eapply tmr_filter_out; eauto.
    + rewrite filter_app; cbn; rewrite Px, app_nil_r; auto.
Qed.
Theorem second_pass_filter l : filter P (second_pass merge l) = second_pass merge (filter P l).
Proof.
  unfold second_pass. change (@nil A) with (filter P []) at 2. generalize (@nil A) as acc.
  induction l as [|x xs IH]; cbn; intros acc; auto.
  rewrite IH, step_filter. destruct (P x); cbn; auto.
Qed.
End NonInteraction.

(** ** M4 under an invariant: equivariance that holds for items satisfying [I] (preserved by
    merging) lifts to the loop on lists of such items *)
Section EquivarianceInv.
Context {A : Type} (merge : A -> A -> option A) (t : A -> A) (I : A -> Prop).
Context (Imerge : forall a b c, merge a b = Some c -> I a -> I b -> I c).
Context (Ht : forall a b, I a -> I b -> merge (t a) (t b) = option_map t (merge a b)).

Lemma tmr_map_inv gs x : Forall I gs -> I x ->
  try_merge_rev merge (map t gs) (t x) = option_map (map t) (try_merge_rev merge gs x).
Proof.
  intros F Ix. induction F as [|g gs Ig Fg IH]; cbn; auto.
  rewrite IH. destruct (try_merge_rev merge gs x); cbn; auto.
  rewrite Ht by assumption. destruct (merge g x); reflexivity.
Qed.
Lemma step_map_inv gs x : Forall I gs -> I x -> step merge (map t gs) (t x) = map t (step merge gs x).
Proof.
  intros F Ix. unfold step. rewrite tmr_map_inv by assumption. destruct (try_merge_rev merge gs x); cbn; auto.
  rewrite map_app; reflexivity.
Qed.
Lemma fold_step_map_inv l : forall acc, Forall I acc -> Forall I l ->
  fold_left (step merge) (map t l) (map t acc) = map t (fold_left (step merge) l acc).
Proof.
  induction l as [|x xs IH]; intros acc Fa Fl; cbn [map fold_left]; [reflexivity|].
  inversion Fl; subst. rewrite step_map_inv by assumption. apply IH; [|assumption].
  apply (step_inv merge I Imerge); assumption.
Qed.
Lemma second_pass_map_inv l : Forall I l -> second_pass merge (map t l) = map t (second_pass merge l).
Proof. intros F. unfold second_pass. apply (fold_step_map_inv l []); [constructor|exact F]. Qed.
Lemma merge_rec_map_inv fuel : forall l, Forall I l ->
  merge_rec merge fuel (map t l) = option_map (map t) (merge_rec merge fuel l).
Proof.
  induction fuel as [|f IH]; cbn [merge_rec]; intros l F; auto.
  rewrite second_pass_map_inv by exact F. rewrite !map_length.
  destruct (length (second_pass merge l) <? length l)%nat; auto.
  apply IH. apply (second_pass_inv merge I Imerge); exact F.
Qed.
Theorem merge_recursive_map_inv l : Forall I l ->
  merge_recursive merge (map t l) = match merge_recursive merge l with Ok r => Ok (map t r) | Err e => Err e end.
Proof.
  intros F. unfold merge_recursive. rewrite map_length, merge_rec_map_inv by exact F.
  destruct (merge_rec merge (S (length l)) l); reflexivity.
Qed.
End EquivarianceInv.

(** ** M2, additive form: a measure that is additive over merges (up to permutation) is
    preserved by the whole loop: nothing is lost, nothing is duplicated *)
From Coq Require Import Permutation.
Section Additive.
Context {A X : Type} (merge : A -> A -> option A) (mu : A -> list X).
Context (Hmu : forall a b c, merge a b = Some c -> Permutation (mu c) (mu a ++ mu b)).

Lemma tmr_additive gs x gs' : try_merge_rev merge gs x = Some gs' ->
  Permutation (flat_map mu gs') (flat_map mu gs ++ mu x).
Proof.
  revert gs'. induction gs as [|g gs IH]; cbn [try_merge_rev]; intros gs' H; [discriminate|].
  destruct (try_merge_rev merge gs x) as [r|] eqn:E.
  - inversion H; subst. cbn [flat_map]. rewrite (IH r eq_refl), app_assoc. reflexivity.
  - destruct (merge g x) as [m|] eqn:M; inversion H; subst. cbn [flat_map].
    rewrite (Hmu _ _ _ M). rewrite <- !app_assoc. apply Permutation_app_head. apply Permutation_app_comm.
Qed.
Lemma step_additive gs x : Permutation (flat_map mu (step merge gs x)) (flat_map mu gs ++ mu x).
Proof.
  unfold step. destruct (try_merge_rev merge gs x) eqn:E; [eapply tmr_additive; eauto|].
  rewrite flat_map_app. cbn [flat_map]. rewrite app_nil_r. reflexivity.
Qed.
Lemma second_pass_additive l : Permutation (flat_map mu (second_pass merge l)) (flat_map mu l).
Proof.
  unfold second_pass.
  assert (G : forall acc, Permutation (flat_map mu (fold_left (step merge) l acc)) (flat_map mu acc ++ flat_map mu l)).
  { induction l as [|x xs IH]; intros acc; cbn [fold_left flat_map]; [rewrite app_nil_r; reflexivity|].
    rewrite IH, step_additive, <- app_assoc. reflexivity. }
  apply (G []).
Qed.
Lemma merge_rec_additive fuel : forall l r, merge_rec merge fuel l = Some r -> Permutation (flat_map mu r) (flat_map mu l).
Proof.
  induction fuel as [|f IH]; cbn [merge_rec]; intros l r H; [discriminate|].
  destruct (length (second_pass merge l) <? length l)%nat.
  - rewrite (IH _ _ H). apply second_pass_additive.
  - inversion H; subst. apply second_pass_additive.
Qed.
Theorem merge_recursive_additive l r : merge_recursive merge l = Ok r -> Permutation (flat_map mu r) (flat_map mu l).
Proof.
  unfold merge_recursive. destruct (merge_rec merge (S (length l)) l) eqn:E; intros H; inversion H; subst.
  eapply merge_rec_additive; eauto.
Qed.
End Additive.
