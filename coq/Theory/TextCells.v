(** * TextCells: merging never drops, duplicates, reorders or moves a text character (C04). *)
Require Import SB.Model.Base SB.Model.Unicode SB.Model.Geom SB.Model.Fragment SB.Model.Merge
  SB.Model.Property SB.Model.FragBuf SB.Theory.MergeTheory.
From Coq Require Import Permutation.

(** the grid cells a text occupies, character by character: a character takes
    [char_cols] columns (2 for double width), a NUL filler none *)
Fixpoint chars_at (x y : Z) (s : list Z) : list (cell * Z) :=
  match s with
  | [] => []
  | c :: t => if c =? 0 then chars_at x y t else (C x y, c) :: chars_at (x + char_cols c) y t
  end.
Definition text_cells (t : celltext) : list (cell * Z) := chars_at (cx (ctstart t)) (cy (ctstart t)) (ctcontent t).

Lemma text_columns_fold s : forall acc, fold_left (fun a c => if c =? 0 then a else a + char_cols c) s acc = acc + text_columns s.
Proof.
  unfold text_columns. induction s as [|c t IH]; intros acc; cbn [fold_left]; [lia|].
  rewrite IH, (IH (if c =? 0 then 0 else 0 + char_cols c)). destruct (c =? 0); lia.
Qed.
Lemma text_columns_cons c t : text_columns (c :: t) = (if c =? 0 then 0 else char_cols c) + text_columns t.
Proof. unfold text_columns at 1. cbn [fold_left]. rewrite text_columns_fold. destruct (c =? 0); lia. Qed.

Lemma chars_at_app x y a b : chars_at x y (a ++ b) = chars_at x y a ++ chars_at (x + text_columns a) y b.
Proof.
  revert x. induction a as [|c t IH]; intros x; cbn [app chars_at].
  - unfold text_columns; cbn. f_equal. lia.
  - rewrite text_columns_cons. destruct (c =? 0).
    + rewrite IH. f_equal.
    + cbn [app]. f_equal. rewrite IH. f_equal. f_equal. lia.
Qed.

Lemma char_cols_pos c : 1 <= char_cols c.
Proof. unfold char_cols. destruct (char_width c); lia. Qed.
Lemma text_columns_nonneg s : 0 <= text_columns s.
Proof.
  induction s as [|c t IH]; [unfold text_columns; cbn; lia|]. rewrite text_columns_cons.
  pose proof (char_cols_pos c). destruct (c =? 0); lia.
Qed.
Lemma chars_at_zero s : text_columns s = 0 -> forall x y, chars_at x y s = [].
Proof.
  induction s as [|c t IH]; intros H x y; [reflexivity|]. rewrite text_columns_cons in H. cbn [chars_at].
  pose proof (char_cols_pos c). pose proof (text_columns_nonneg t). destruct (c =? 0); [apply IH; lia|lia].
Qed.

(** merging two texts concatenates them in column order: the merged text occupies exactly the
    cells of the two, with the same characters *)
Theorem celltext_merge_cells a b c : celltext_merge a b = Some c ->
  Permutation (text_cells c) (text_cells a ++ text_cells b).
Proof.
  unfold celltext_merge, celltext_can_merge.
  destruct (cy (ctstart a) =? cy (ctstart b)) eqn:Ey; cbn [andb]; [|discriminate]. apply Z.eqb_eq in Ey.
  destruct ((cx (ctstart a) + text_columns (ctcontent a) =? cx (ctstart b)) || (cx (ctstart b) + text_columns (ctcontent b) =? cx (ctstart a))) eqn:E; [|discriminate].
  apply orb_true_iff in E. rewrite !Z.eqb_eq in E.
  pose proof (text_columns_nonneg (ctcontent a)) as Ta. pose proof (text_columns_nonneg (ctcontent b)) as Tb.
  destruct (cx (ctstart a) <? cx (ctstart b)) eqn:L; intros H; inversion H; subst; unfold text_cells; cbn [ctstart ctcontent]; rewrite chars_at_app.
  - apply Z.ltb_lt in L. assert (E1 : cx (ctstart a) + text_columns (ctcontent a) = cx (ctstart b)) by lia.
    rewrite E1, Ey. reflexivity.
  - apply Z.ltb_ge in L. destruct E as [E|E].
    + assert (Z0 : text_columns (ctcontent a) = 0) by lia.
      rewrite !(chars_at_zero _ Z0). rewrite app_nil_r. reflexivity.
    + rewrite E, <- Ey. apply Permutation_app_comm.
Qed.

(** the measure on fragments: the text cells of a cell text, nothing for anything else *)
Definition frag_text_cells (f : fragment) : list (cell * Z) :=
  match f with FCellText t => text_cells t | _ => [] end.

Lemma fragment_merge_text a b c : fragment_merge a b = Some c ->
  Permutation (frag_text_cells c) (frag_text_cells a ++ frag_text_cells b).
Proof.
  destruct a, b; cbn [fragment_merge]; try discriminate.
  - destruct (line_merge l l0); intros H; inversion H; subst; reflexivity.
  - unfold merge_circle. destruct (_ && _); intros H; inversion H; subst; reflexivity.
  - unfold merge_circle. destruct (_ && _); intros H; inversion H; subst; reflexivity.
  - destruct (celltext_merge t t0) eqn:M; intros H; inversion H; subst. cbn [frag_text_cells]. apply celltext_merge_cells; exact M.
Qed.
Lemma fragspan_merge_text a b c : fragspan_merge a b = Some c ->
  Permutation (frag_text_cells (fs_frag c)) (frag_text_cells (fs_frag a) ++ frag_text_cells (fs_frag b)).
Proof.
  unfold fragspan_merge. destruct (fragment_merge (fs_frag a) (fs_frag b)) eqn:M; intros H; inversion H; subst. cbn [fs_frag].
  apply fragment_merge_text; exact M.
Qed.

(** every text character that enters the merge of a span comes out exactly once, in its own
    cell: the cells shown as text after merging are a permutation of those before *)
Theorem merge_keeps_text_cells fb m : merge_fragment_spans fb = Ok m ->
  Permutation (flat_map (fun f => frag_text_cells (fs_frag f)) m)
              (flat_map (fun f => frag_text_cells (fs_frag f)) (abs_fragment_spans fb)).
Proof.
  unfold merge_fragment_spans. intros H.
  exact (merge_recursive_additive fragspan_merge (fun f => frag_text_cells (fs_frag f)) fragspan_merge_text _ _ H).
Qed.

(** a label character (no table entry) enters as a text of exactly its own cell *)
Theorem label_enters_in_its_cell c ch :
  frag_text_cells (fragment_abs c (cell_text_frag ch)) = if ch =? 0 then [] else [(c, ch)].
Proof.
  unfold cell_text_frag, fragment_abs, frag_text_cells, text_cells; cbn [ctstart ctcontent cx cy cell_add chars_at].
  destruct (ch =? 0); [reflexivity|]. destruct c as [x y]; cbn. repeat f_equal; lia.
Qed.
