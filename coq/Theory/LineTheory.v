(** * LineTheory: line endings and trailing white space do not reach the cell map (C17). *)
Require Import SB.Model.Base SB.Model.Unicode SB.Model.Geom SB.Model.Text SB.Theory.TextTotal.
From Coq Require Import Arith.

(** ** CRLF: [crlf s] puts a CR in front of every LF that is not already preceded by one *)
Fixpoint crlf_aux (prev_cr : bool) (s : list Z) : list Z :=
  match s with
  | [] => []
  | c :: t => if (c =? 10) && negb prev_cr then 13 :: 10 :: crlf_aux false t else c :: crlf_aux (c =? 13) t
  end.
Definition crlf (s : list Z) : list Z := crlf_aux false s.

Definition head_is_cr (cur : list Z) : bool := match cur with c :: _ => c =? 13 | [] => false end.

Lemma lines_aux_crlf s : forall cur, lines_aux (crlf_aux (head_is_cr cur) s) cur = lines_aux s cur.
Proof.
  induction s as [|c t IH]; intros cur; cbn [crlf_aux lines_aux]; [reflexivity|].
  destruct (c =? 10) eqn:E10; cbn [andb].
  - apply Z.eqb_eq in E10; subst c. destruct (head_is_cr cur) eqn:H; cbn [negb].
    + cbn [lines_aux]. change (10 =? 10) with true. cbv iota. change (10 =? 13) with false.
      f_equal. apply (IH []).
    + cbn [lines_aux]. change (13 =? 10) with false. cbv iota. change (10 =? 10) with true. cbv iota.
      assert (S1 : strip_cr_rev (13 :: cur) = cur) by reflexivity. rewrite S1.
      assert (S2 : strip_cr_rev cur = cur).
      { destruct cur as [|d r]; [reflexivity|]. cbn in H. cbn. rewrite H. reflexivity. }
      rewrite S2. f_equal. apply (IH []).
  - cbn [lines_aux]. rewrite E10. apply (IH (c :: cur)).
Qed.

Theorem lines_crlf s : lines (crlf s) = lines s.
Proof. unfold lines, crlf. apply (lines_aux_crlf s []). Qed.

Theorem string_buffer_crlf s : string_buffer (crlf s) = string_buffer s.
Proof. unfold string_buffer. rewrite lines_crlf. reflexivity. Qed.

(** ** trailing white space *)
Definition blankc (c : Z) : bool := (c =? 0) || is_whitespace c.
Definition blanks (ws : list Z) : Prop := Forall (fun c => blankc c = true /\ c <> 34) ws.

Lemma cells_of_row_blanks ws : blanks ws -> forall y x, cells_of_row y x ws = [].
Proof.
  induction 1 as [|c t [Hc _] Ft IH]; intros y x; cbn [cells_of_row]; [reflexivity|].
  unfold blankc in Hc. rewrite Hc. apply IH.
Qed.
Lemma cells_of_row_app y row ws : forall x, blanks ws -> cells_of_row y x (row ++ ws) = cells_of_row y x row.
Proof.
  induction row as [|c t IH]; intros x B; cbn [app cells_of_row].
  - apply cells_of_row_blanks; exact B.
  - destruct ((c =? 0) || is_whitespace c); [apply IH; exact B|f_equal; apply IH; exact B].
Qed.

Lemma skip_nq_app s ws : blanks ws -> forall pos,
  skip_nq (s ++ ws) pos =
  match skip_nq s pos with
  | ([], p) => ([], (p + length ws)%nat)
  | (s', p) => (s' ++ ws, p)
  end.
Proof.
  intros B. induction s as [|c t IH]; intros pos; cbn [app skip_nq].
  - induction B as [|w r [_ Hw] Fr IHr] in pos |- *; cbn [skip_nq length]; [f_equal; lia|].
    destruct (w =? 34) eqn:E; [apply Z.eqb_eq in E; congruence|]. rewrite IHr. f_equal. lia.
  - destruct (c =? 34); [reflexivity|]. apply IH.
Qed.

Lemma char_strings_cons2 c d t pos :
  char_strings (c :: d :: t) pos =
  if (c =? 92) && (d =? 34) then char_strings t (S (S pos))
  else if c =? 34 then (c :: d :: t, pos) else char_strings (d :: t) (S pos).
Proof. reflexivity. Qed.
Lemma char_strings_cons1 c pos : char_strings [c] pos = if c =? 34 then ([c], pos) else ([], S pos).
Proof. reflexivity. Qed.

Lemma char_strings_blanks ws : blanks ws -> forall pos, char_strings ws pos = ([], (pos + length ws)%nat).
Proof.
  induction 1 as [|w r [_ Hw] Fr IHr]; intros pos; [cbn; f_equal; lia|].
  assert (E : (w =? 34) = false) by (apply Z.eqb_neq; exact Hw).
  destruct r as [|d r'].
  - rewrite char_strings_cons1, E. cbn [length]. f_equal. lia.
  - inversion Fr as [|? ? [_ Hd] _]; subst.
    assert (Ed : (d =? 34) = false) by (apply Z.eqb_neq; exact Hd).
    rewrite char_strings_cons2, Ed, andb_false_r, E, IHr. cbn [length]. f_equal. lia.
Qed.

Lemma char_strings_app ws : blanks ws -> forall n s, (length s <= n)%nat -> forall pos,
  char_strings (s ++ ws) pos =
  match char_strings s pos with
  | ([], p) => ([], (p + length ws)%nat)
  | (s', p) => (s' ++ ws, p)
  end.
Proof.
  intros B. pose proof (char_strings_blanks ws B) as Base.
  induction n as [|n IH]; intros s L pos.
  - destruct s; [|cbn in L; lia]. cbn [app]. rewrite Base. reflexivity.
  - destruct s as [|c t]; [cbn [app]; rewrite Base; reflexivity|].
    cbn [length] in L. destruct t as [|d t'].
    + (* last character of s *)
      rewrite char_strings_cons1. cbn [app].
      destruct ws as [|w r].
      * rewrite char_strings_cons1. destruct (c =? 34); [reflexivity|]. cbn [length]. f_equal. lia.
      * inversion B as [|? ? [_ Hw] Br]; subst.
        assert (Ew : (w =? 34) = false) by (apply Z.eqb_neq; exact Hw).
        rewrite char_strings_cons2, Ew, andb_false_r. destruct (c =? 34); [reflexivity|].
        rewrite (Base (S pos)). f_equal.
    + change ((c :: d :: t') ++ ws) with (c :: d :: (t' ++ ws)). rewrite !char_strings_cons2.
      destruct ((c =? 92) && (d =? 34)).
      * apply IH. cbn [length] in L. lia.
      * destruct (c =? 34); [reflexivity|]. change (d :: t' ++ ws) with ((d :: t') ++ ws). apply IH. lia.
Qed.

(** appending blanks to a row changes neither the segments found nor their positions *)
Lemma escape_string_app s ws pos : blanks ws ->
  escape_string (s ++ ws) pos =
  match escape_string s pos with
  | Some (se, [], p) => Some (se, [], (p + length ws)%nat)
  | Some (se, s', p) => Some (se, s' ++ ws, p)
  | None => None
  end.
Proof.
  intros B. unfold escape_string. rewrite (skip_nq_app s ws B pos).
  destruct (skip_nq s pos) as [s1 p1]. destruct s1 as [|q s2].
  - reflexivity.
  - cbn [app]. destruct (q =? 34); [|reflexivity].
    rewrite (char_strings_app ws B (length s2) s2 (le_n _) (S p1)).
    destruct (char_strings s2 (S p1)) as [s3 p3]. destruct s3 as [|q' s4]; [reflexivity|].
    cbn [app]. destruct (q' =? 34); [|reflexivity].
    rewrite (skip_nq_app s4 ws B (S p3)). destruct (skip_nq s4 (S p3)) as [s5 p5]. destruct s5; reflexivity.
Qed.

(** the fuel of [line_parse_aux] is irrelevant once it covers the length *)
Lemma line_parse_aux_fuel : forall f1 f2 s pos, (length s <= f1)%nat -> (length s <= f2)%nat ->
  line_parse_aux f1 s pos = line_parse_aux f2 s pos.
Proof.
  induction f1 as [|f IH]; intros f2 s pos L1 L2.
  - destruct s; [|cbn in L1; lia]. destruct f2; reflexivity.
  - cbn [line_parse_aux]. destruct (escape_string s pos) as [[[[p1 p3] s5] p5]|] eqn:E.
    + pose proof (escape_string_spec _ _ _ _ _ _ E) as Sp.
      destruct f2 as [|f2]; [lia|]. cbn [line_parse_aux]. rewrite E. f_equal. apply IH; lia.
    + destruct f2; cbn [line_parse_aux]; rewrite E; reflexivity.
Qed.
Definition lp (s : list Z) (pos : nat) := line_parse_aux (length s) s pos.
Lemma lp_unfold s pos :
  lp s pos = match escape_string s pos with
             | None => Some []
             | Some (se, s', pos') => option_map (cons se) (lp s' pos')
             end.
Proof.
  unfold lp. destruct (length s) as [|n] eqn:Ln.
  - destruct s; [|discriminate]. reflexivity.
  - cbn [line_parse_aux]. destruct (escape_string s pos) as [[[[p1 p3] s5] p5]|] eqn:E; [|reflexivity].
    pose proof (escape_string_spec _ _ _ _ _ _ E) as Sp. f_equal. apply line_parse_aux_fuel; lia.
Qed.

Lemma lp_app ws : blanks ws -> forall n s, (length s <= n)%nat -> forall pos, lp (s ++ ws) pos = lp s pos.
Proof.
  intros B. induction n as [|n IH]; intros s L pos.
  - destruct s; [|cbn in L; lia]. cbn [app]. rewrite !lp_unfold.
    pose proof (escape_string_app [] ws pos B) as H. cbn [app] in H. rewrite H. reflexivity.
  - rewrite (lp_unfold (s ++ ws)), (lp_unfold s), (escape_string_app s ws pos B).
    destruct (escape_string s pos) as [[[[p1 p3] s5] p5]|] eqn:E; [|reflexivity].
    pose proof (escape_string_spec _ _ _ _ _ _ E) as Sp.
    destruct s5 as [|x s5'].
    + rewrite !lp_unfold. reflexivity.
    + f_equal. apply IH. lia.
Qed.

Lemma line_parse_app row ws : blanks ws -> line_parse (row ++ ws) = line_parse row.
Proof.
  intros B. unfold line_parse. fold (lp (row ++ ws) 0). fold (lp row 0). rewrite (lp_app ws B (length row) row (le_n _)). reflexivity.
Qed.

Lemma slice_app {A} (v w : list A) a b : (b <= length v)%nat -> slice (v ++ w) a b = slice v a b.
Proof.
  intros L. unfold slice. rewrite app_length.
  destruct (Nat.leb_spec a b); cbn [andb]; [|reflexivity].
  destruct (Nat.leb_spec b (length v)); [|lia]. destruct (Nat.leb_spec b (length v + length w)); [|lia].
  rewrite skipn_app. rewrite firstn_app. rewrite skipn_length.
  replace (b - a - (length v - a))%nat with 0%nat by lia. cbn [firstn]. rewrite app_nil_r. reflexivity.
Qed.
Lemma slice_from_app {A} (v w : list A) a : (a <= length v)%nat ->
  slice_from (v ++ w) a = option_map (fun l => l ++ w) (slice_from v a).
Proof.
  intros L. unfold slice_from. rewrite app_length.
  destruct (Nat.leb_spec a (length v)); [|lia]. destruct (Nat.leb_spec a (length v + length w)); [|lia].
  cbn [option_map]. rewrite skipn_app. replace (a - length v)%nat with 0%nat by lia. reflexivity.
Qed.

Lemma escape_segments_app y row ws : forall locs idx, ordered idx (length row) locs ->
  escape_segments y (row ++ ws) locs idx =
  match escape_segments y row locs idx with Ok (texts, out) => Ok (texts, out ++ ws) | Err e => Err e end.
Proof.
  induction locs as [|[s e] more IH]; intros idx O; cbn [escape_segments].
  - cbn in O. rewrite (slice_from_app row ws idx O). destruct (slice_from_ok row idx O) as [l ->]. reflexivity.
  - cbn in O. destruct O as [[O1 [O2 O3]] O4].
    rewrite (slice_app row ws (S s) e) by lia. rewrite (slice_app row ws idx s) by lia.
    destruct (slice_ok row (S s) e) as [l1 ->]; [lia|lia|].
    destruct (slice_ok row idx s) as [l2 ->]; [lia|lia|]. cbn [oslice bind].
    rewrite (IH (S e) O4). destruct (escape_segments y row more (S e)) as [[texts tail]|]; cbn [bind]; [|reflexivity].
    rewrite <- !app_assoc. reflexivity.
Qed.

(** a row with blanks appended has the same quoted texts and the same cells *)
Theorem escape_line_app y row ws : blanks ws ->
  escape_line y (row ++ ws) =
  match escape_line y row with Ok (texts, out) => Ok (texts, out ++ ws) | Err e => Err e end.
Proof.
  intros B. unfold escape_line. rewrite (line_parse_app row ws B).
  destruct (line_parse_ok row) as [locs [-> O]]. cbn [bind].
  destruct locs as [|l more]; [reflexivity|]. apply escape_segments_app; exact O.
Qed.

Theorem row_cells_trailing_blanks y row ws : blanks ws ->
  match escape_line y row, escape_line y (row ++ ws) with
  | Ok (t1, o1), Ok (t2, o2) => t1 = t2 /\ cells_of_row y 0 o1 = cells_of_row y 0 o2
  | _, _ => False
  end.
Proof.
  intros B. rewrite (escape_line_app y row ws B). destruct (escape_line_ok y row) as [[t o] ->].
  split; [reflexivity|]. symmetry. apply cells_of_row_app; exact B.
Qed.

(** blank rows at the end add nothing *)
Lemma blank_row_cells y row : blanks row -> escape_line y row = Ok ([], row) /\ cells_of_row y 0 row = [].
Proof.
  intros B. split; [|apply cells_of_row_blanks; exact B].
  pose proof (escape_line_app y [] row B) as H. cbn [app] in H. rewrite H. reflexivity.
Qed.
Theorem trailing_blank_rows rows extra : Forall blanks extra -> forall y,
  cells_of_rows y (rows ++ extra) = cells_of_rows y rows.
Proof.
  intros Fx. induction rows as [|r t IH]; intros y; cbn [app cells_of_rows].
  - revert y. induction Fx as [|x xs Bx Fxs IHx]; intros y; cbn [cells_of_rows]; [reflexivity|].
    destruct (blank_row_cells y x Bx) as [-> C]. cbn [bind]. rewrite IHx. cbn [cells_of_rows bind]. rewrite C. reflexivity.
  - destruct (escape_line y r) as [[esc un]|]; cbn [bind]; [|reflexivity]. rewrite IH. reflexivity.
Qed.

(** the rows of a buffer: blanks in the text give blanks in the row *)
Lemma row_of_line_app l m : row_of_line (l ++ m) = row_of_line l ++ row_of_line m.
Proof. unfold row_of_line. apply flat_map_app. Qed.

(** ** inputs without a legend: CRLF does not change the cell buffer at all *)
Definition no_eol (pat : list Z) : Prop := Forall (fun p => p <> 10 /\ p <> 13) pat.
Lemma prefix_of_crlf pat : no_eol pat -> forall s b, prefix_of pat (crlf_aux b s) = prefix_of pat s.
Proof.
  induction 1 as [|p pat' [H10 H13] F IH]; intros s b; [destruct s; reflexivity|].
  destruct s as [|c t]; [reflexivity|]. cbn [crlf_aux].
  destruct ((c =? 10) && negb b) eqn:E.
  - apply andb_true_iff in E. destruct E as [E _]. apply Z.eqb_eq in E; subst c. cbn [prefix_of].
    replace (13 =? p) with false by (symmetry; apply Z.eqb_neq; congruence).
    replace (10 =? p) with false by (symmetry; apply Z.eqb_neq; congruence). reflexivity.
  - cbn [prefix_of]. rewrite IH. reflexivity.
Qed.
Lemma find_sub_crlf_none pat : no_eol pat -> pat <> [] -> forall s b bf bf',
  find_sub pat s bf = None -> find_sub pat (crlf_aux b s) bf' = None.
Proof.
  intros N Ne. induction s as [|c t IH]; intros b bf bf' H.
  - cbn [crlf_aux]. destruct pat as [|p pat']; [congruence|]. reflexivity.
  - cbn [find_sub] in H. destruct (prefix_of pat (c :: t)) eqn:P; [discriminate|].
    cbn [crlf_aux]. destruct ((c =? 10) && negb b) eqn:E.
    + apply andb_true_iff in E. destruct E as [E _]. apply Z.eqb_eq in E; subst c.
      pose proof (prefix_of_crlf pat N (10 :: t) false) as Q. cbn [crlf_aux] in Q. change (10 =? 10) with true in Q. cbn [andb negb] in Q.
      cbn [find_sub]. rewrite Q, P.
      assert (P2 : prefix_of pat (10 :: crlf_aux false t) = false).
      { destruct pat as [|p pat']; [congruence|]. inversion N as [|? ? [H10 _] _]; subst. cbn [prefix_of].
        replace (10 =? p) with false by (symmetry; apply Z.eqb_neq; congruence). reflexivity. }
      rewrite P2. eapply IH; exact H.
    + pose proof (prefix_of_crlf pat N (c :: t) b) as Q. cbn [crlf_aux] in Q. rewrite E in Q.
      cbn [find_sub]. rewrite Q, P. eapply IH; exact H.
Qed.

Theorem cellbuffer_from_crlf_nolegend s :
  find_sub LEGEND_MARK s [] = None -> cellbuffer_from (crlf s) = cellbuffer_from s.
Proof.
  intros H. unfold cellbuffer_from. rewrite H.
  assert (N : no_eol LEGEND_MARK) by (unfold LEGEND_MARK; repeat constructor; discriminate).
  pose proof (find_sub_crlf_none LEGEND_MARK N ltac:(discriminate) s false [] [] H) as F. fold (crlf s) in F. rewrite F.
  unfold cellbuffer_of_text. rewrite string_buffer_crlf. reflexivity.
Qed.

(** ** inputs with a legend: the legend is read with CRLF taken as LF (repair F13), so CRLF
    does not change the cell buffer of any input *)
Lemma uncrlf_crlf x : forall p b, (p = true -> b = true) -> uncrlf_aux p (crlf_aux b x) = uncrlf_aux p x.
Proof.
  induction x as [|c t IH]; intros p b H; cbn [crlf_aux]; [reflexivity|].
  destruct (Z.eqb_spec c 10) as [->|N10]; cbn [andb].
  - destruct b; cbn [negb].
    + cbn [uncrlf_aux]. change (10 =? 13) with false. change (10 =? 10) with true. cbv iota. f_equal. apply IH. discriminate.
    + assert (p = false) by (destruct p; [specialize (H eq_refl); discriminate|reflexivity]). subst p.
      cbn [uncrlf_aux]. change (13 =? 13) with true. change (10 =? 13) with false. change (10 =? 10) with true. cbv iota. f_equal. apply IH. discriminate.
  - destruct (Z.eqb_spec c 13) as [->|N13].
    + cbn [uncrlf_aux]. change (13 =? 13) with true. cbv iota. destruct p; [f_equal|]; apply IH; reflexivity.
    + cbn [uncrlf_aux]. replace (c =? 13) with false by (symmetry; apply Z.eqb_neq; exact N13).
      replace (c =? 10) with false by (symmetry; apply Z.eqb_neq; exact N10).
      rewrite (IH false false) by discriminate. reflexivity.
Qed.

Lemma find_sub_eq pat s before :
  find_sub pat s before =
  if prefix_of pat s then Some (rev before, s)
  else match s with c :: t => find_sub pat t (c :: before) | [] => None end.
Proof. destruct s; reflexivity. Qed.

(** the state of [crlf_aux] after a piece of text: was its last character a CR *)
Fixpoint cr_state (b : bool) (l : list Z) : bool := match l with [] => b | c :: t => cr_state (c =? 13) t end.
Lemma crlf_aux_app a x : forall b, crlf_aux b (a ++ x) = crlf_aux b a ++ crlf_aux (cr_state b a) x.
Proof.
  induction a as [|c t IH]; intros b; cbn [app crlf_aux cr_state]; [reflexivity|].
  destruct ((c =? 10) && negb b) eqn:E.
  - apply andb_true_iff in E. destruct E as [E _]. apply Z.eqb_eq in E. subst c. change (10 =? 13) with false. rewrite IH. reflexivity.
  - rewrite IH. reflexivity.
Qed.
Lemma find_sub_split pat : forall s acc bf fr, find_sub pat s acc = Some (bf, fr) -> exists before, bf = rev acc ++ before /\ s = before ++ fr.
Proof.
  induction s as [|c t IH]; intros acc bf fr H; rewrite find_sub_eq in H.
  - destruct (prefix_of pat []); [|discriminate]. inversion H; subst. exists []. rewrite app_nil_r. split; reflexivity.
  - destruct (prefix_of pat (c :: t)).
    + inversion H; subst. exists []. rewrite app_nil_r. split; reflexivity.
    + destruct (IH _ _ _ H) as [before [E1 E2]]. exists (c :: before). cbn [rev] in E1. rewrite <- app_assoc in E1. split; [exact E1|]. cbn [app]. f_equal. exact E2.
Qed.
Lemma find_sub_crlf_some pat : no_eol pat -> pat <> [] -> forall s b acc acc' bf fr,
  find_sub pat s acc = Some (bf, fr) ->
  exists before, s = before ++ fr /\ find_sub pat (crlf_aux b s) acc' = Some (rev acc' ++ crlf_aux b before, crlf_aux (cr_state b before) fr).
Proof.
  intros N Ne. induction s as [|c t IH]; intros b acc acc' bf fr H; rewrite find_sub_eq in H.
  - destruct (prefix_of pat []) eqn:P; [|discriminate]. inversion H; subst. exists []. split; [reflexivity|].
    cbn [crlf_aux cr_state]. rewrite find_sub_eq, P, app_nil_r. reflexivity.
  - destruct (prefix_of pat (c :: t)) eqn:P.
    + inversion H; subst. exists []. split; [reflexivity|]. cbn [cr_state]. rewrite find_sub_eq, (prefix_of_crlf pat N (c :: t) b), P, app_nil_r. reflexivity.
    + destruct (IH (c =? 13) (c :: acc)
                   (if (c =? 10) && negb b then 10 :: 13 :: acc' else c :: acc') bf fr H) as [before [E1 E2]].
      exists (c :: before). split; [cbn [app]; f_equal; exact E1|]. cbn [crlf_aux cr_state].
      destruct ((c =? 10) && negb b) eqn:E.
      * apply andb_true_iff in E. destruct E as [E _]. apply Z.eqb_eq in E. subst c. change (10 =? 13) with false in *.
        assert (P1 : prefix_of pat (13 :: 10 :: crlf_aux false t) = false).
        { destruct pat as [|p pat']; [congruence|]. inversion N as [|? ? [_ H13] _]; subst. cbn [prefix_of].
          replace (13 =? p) with false by (symmetry; apply Z.eqb_neq; congruence). reflexivity. }
        assert (P2 : prefix_of pat (10 :: crlf_aux false t) = false).
        { destruct pat as [|p pat']; [congruence|]. inversion N as [|? ? [H10 _] _]; subst. cbn [prefix_of].
          replace (10 =? p) with false by (symmetry; apply Z.eqb_neq; congruence). reflexivity. }
        rewrite find_sub_eq, P1. rewrite find_sub_eq, P2. rewrite E2. cbn [rev]. rewrite <- !app_assoc. reflexivity.
      * pose proof (prefix_of_crlf pat N (c :: t) b) as Q. cbn [crlf_aux] in Q. rewrite E in Q.
        rewrite find_sub_eq, Q, P. rewrite E2. cbn [rev]. rewrite <- !app_assoc. reflexivity.
Qed.

Lemma string_buffer_crlf_aux s : string_buffer (crlf_aux false s) = string_buffer s.
Proof. apply string_buffer_crlf. Qed.

Theorem cellbuffer_from_crlf s : cellbuffer_from (crlf s) = cellbuffer_from s.
Proof.
  destruct (find_sub LEGEND_MARK s []) as [[bf fr]|] eqn:F; [|apply cellbuffer_from_crlf_nolegend; exact F].
  assert (N : no_eol LEGEND_MARK) by (unfold LEGEND_MARK; repeat constructor; discriminate).
  destruct (find_sub_crlf_some LEGEND_MARK N ltac:(discriminate) s false [] [] bf fr F) as [before [E1 E2]].
  destruct (find_sub_split _ _ _ _ _ F) as [before' [B1 B2]]. cbn [rev app] in B1. subst bf.
  assert (before = before') by (rewrite E1 in B2; apply app_inv_tail in B2; exact B2). subst before'.
  unfold cellbuffer_from. fold (crlf s). unfold crlf at 1. rewrite E2, F. cbn [rev app].
  unfold uncrlf. rewrite (uncrlf_crlf fr false _ ltac:(discriminate)).
  destruct (parse_css_legend (uncrlf_aux false fr)).
  - unfold cellbuffer_of_text. rewrite string_buffer_crlf_aux. reflexivity.
  - unfold cellbuffer_of_text. fold (crlf s). rewrite string_buffer_crlf. reflexivity.
Qed.
