(** * BoxDefs: the box styles and the cells of a box (definitions shared by the sweeps; no proofs that evaluate). *)
Require Import SB.Model.Base SB.Model.Unicode SB.Model.Geom SB.Model.Fragment SB.Model.Merge SB.Model.Property
  SB.Model.FragBuf SB.Model.Endorse.

Record bstyle := BS { tl : Z; tr : Z; bl : Z; br : Z; hz : Z; vt : Z; rad : option Z; dashed_h : bool; dashed_v : bool }.
Definition seqZ (a n : nat) : list Z := map Z.of_nat (seq a n).
(** the cells of a box with [w] x [h] interior cells, in the order of the cell map *)
Definition box_cells (s : bstyle) (w h : nat) : list (cell * Z) :=
  let W := Z.of_nat w + 1 in let H := Z.of_nat h + 1 in
  ((C 0 0, tl s) :: map (fun x => (C x 0, hz s)) (seqZ 1 w) ++ [(C W 0, tr s)])
  ++ flat_map (fun y => [(C 0 y, vt s); (C W y, vt s)]) (seqZ 1 h)
  ++ ((C 0 H, bl s) :: map (fun x => (C x H, hz s)) (seqZ 1 w) ++ [(C W H, br s)]).
(** the rectangle through the centres of the border cells *)
Definition expected (s : bstyle) (w h : nat) : rect :=
  mk_rect (P 20 40) (P ((Z.of_nat w + 1) * 40 + 20) ((Z.of_nat h + 1) * 80 + 40)) false (rad s)
          ((dashed_h s && (0 <? w)%nat) || (dashed_v s && (0 <? h)%nat)).
Definition rect_same (a b : rect) : bool :=
  point_eqb (rstart a) (rstart b) && point_eqb (rend a) (rend b) && Bool.eqb (rfilled a) (rfilled b) && Bool.eqb (rbroken a) (rbroken b)
  && match rradius a, rradius b with Some x, Some y => x =? y | None, None => true | _, _ => false end.
Lemma rect_same_eq a b : rect_same a b = true -> a = b.
Proof.
  destruct a as [s1 e1 f1 r1 b1], b as [s2 e2 f2 r2 b2]. unfold rect_same; cbn [rstart rend rfilled rbroken rradius].
  rewrite !andb_true_iff. intros [[[[H1 H2] H3] H4] H5].
  assert (PE : forall p q, point_eqb p q = true -> p = q).
  { intros [x y] [x' y']. unfold point_eqb; cbn. rewrite andb_true_iff, !Z.eqb_eq. intros [-> ->]. reflexivity. }
  apply PE in H1. apply PE in H2. apply Bool.eqb_prop in H3. apply Bool.eqb_prop in H4. subst.
  destruct r1, r2; try discriminate; [apply Z.eqb_eq in H5; subst|]; reflexivity.
Qed.
Definition styles : list bstyle :=
  [BS 43 43 43 43 45 124 None false false;             (* + - | *)
   BS 43 43 43 43 126 124 None true false;             (* + ~ | *)
   BS 46 46 39 39 45 124 (Some 20) false false;        (* . . ' ' *)
   BS 44 46 96 39 45 124 (Some 20) false false;        (* , . ` ' *)
   BS 46 46 39 39 126 124 (Some 20) true false;        (* rounded, ~ *)
   BS 9484 9488 9492 9496 9472 9474 None false false;  (* box drawing *)
   BS 9581 9582 9584 9583 9472 9474 (Some 20) false false;   (* rounded box drawing *)
   BS 9484 9488 9492 9496 9476 9478 None true true].   (* dashed box drawing *)
Definition WMAX := 16%nat.
Definition HMAX := 8%nat.
Definition wmin (s : bstyle) : nat := match rad s with Some _ => 1%nat | None => 0%nat end.   (* a rounded box needs a column between its corners *)
