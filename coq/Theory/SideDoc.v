(** * SideDoc: two drawings side by side with two blank columns between them are drawn as the
    two drawings, the right one moved (C10, from the cell map to the nodes; instance of Parts).
    The left part occupies columns below [c0] (double-width characters included, and its quoted
    texts end there), the right part is [cellsB] moved by [c0 + 2] columns and [nz >= 0] rows. *)
Require Import SB.Model.Base SB.Model.Unicode SB.Model.Geom SB.Model.Fragment SB.Model.Merge SB.Model.Text
  SB.Model.Property SB.Model.FragBuf SB.Model.Endorse SB.Model.Tree SB.Model.Svg SB.Model.Lib
  SB.Theory.MergeTheory SB.Theory.EndorseTotal SB.Theory.Total
  SB.Theory.ShiftTheory SB.Theory.ShiftFrag SB.Theory.ShiftBuf SB.Theory.ShiftEndorse SB.Theory.ShiftText SB.Theory.ShiftDoc
  SB.Theory.SwitchTheory SB.Theory.ExtentTheory SB.Theory.SepTheory SB.Theory.PipeInv SB.Theory.SepOrder SB.Theory.TreeSep
  SB.Theory.Canvas SB.Theory.StackDoc SB.Theory.Parts SB.Theory.TextCells.
From Coq Require Import Permutation QArith String.
#[local] Open Scope Z_scope.

Section Side.
Variables (cells cellsA cellsB : span) (escsA escsB : list (cell * list Z)) (c0 nz : Z).
Let kz := c0 + 2.
Let inA := fun c : cell => cx c <? c0.
Hypothesis Nz : 0 <= nz.
Hypothesis FA : filter (fun e => inA (fst e)) cells = cellsA.
Hypothesis FB : filter (fun e => negb (inA (fst e))) cells = map (shift_cc kz nz) cellsB.
Hypothesis NA : forall e, In e cellsA -> 0 <= cx (fst e) /\ 0 <= cy (fst e) /\ cx (fst e) + char_cols (snd e) - 1 < c0.
Hypothesis NB : forall e, In e cellsB -> 0 <= cx (fst e) /\ 0 <= cy (fst e).
Hypothesis QA : forall e, In e escsA -> cx (fst e) + text_columns (snd e) <= c0.
Hypothesis QB : forall e, In e escsB -> 0 <= cx (fst e).

Let U := (c0 + 1) * CW.
Definition pL (f : fragment) : bool := px (snd (bounds f)) <=? U.
Definition is_left (f : fragment) : Prop := px (fst (bounds f)) <= px (snd (bounds f)) /\ px (snd (bounds f)) <= U.
Definition is_right (f : fragment) : Prop := px (fst (bounds f)) <= px (snd (bounds f)) /\ U + CW <= px (fst (bounds f)).

Lemma left_pL f : is_left f -> pL f = true.
Proof. intros [_ H]. unfold pL. apply Z.leb_le. exact H. Qed.
Lemma right_pL f : is_right f -> pL f = false.
Proof. intros [H1 H2]. unfold pL. apply Z.leb_gt. unfold CW in *. lia. Qed.
Lemma nofit_sides f h : (is_left f \/ is_right f) -> (is_left h \/ is_right h) -> pL f <> pL h -> can_fit f h = false.
Proof.
  intros Ff Fh D. unfold can_fit. destruct (bounds f) as [tl br] eqn:Bf, (bounds h) as [otl obr] eqn:Bh.
  assert (Rf : tl = fst (bounds f) /\ br = snd (bounds f)) by (rewrite Bf; split; reflexivity).
  assert (Rh : otl = fst (bounds h) /\ obr = snd (bounds h)) by (rewrite Bh; split; reflexivity).
  destruct Rf as [-> ->], Rh as [-> ->].
  destruct Ff as [Uf|Lf], Fh as [Uh|Lh].
  - rewrite (left_pL f Uf), (left_pL h Uh) in D. congruence.
  - destruct Uf as [_ U1], Lh as [L1 L2]. apply andb_false_iff. left. apply andb_false_iff. right. apply Z.leb_gt. unfold CW in *. lia.
  - destruct Lf as [L1 L2], Uh as [U1 U2]. apply andb_false_iff. left. apply andb_false_iff. left. apply andb_false_iff. left. apply Z.leb_gt. unfold CW in *. lia.
  - rewrite (right_pL f Lf), (right_pL h Lh) in D. congruence.
Qed.

Lemma sep_cells : separated inA cells.
Proof.
  apply gap_column_separates. intros e Ie.
  destruct (inA (fst e)) eqn:Ea.
  - unfold inA in Ea. apply Z.ltb_lt in Ea. lia.
  - assert (In e (map (shift_cc kz nz) cellsB)) by (rewrite <- FB; apply filter_In; split; [exact Ie|rewrite Ea; reflexivity]).
    apply in_map_iff in H. destruct H as [e0 [<- I0]]. destruct (NB e0 I0) as [N1 _]. unfold shift_cc, shift_cell, kz; cbn [fst cx]. lia.
Qed.

Lemma accepted_left acc groups : endorse_cells cellsA = Ok (acc, groups) -> Forall (fun f => is_left (fs_frag f)) acc.
Proof.
  intros E.
  assert (CI := cells_in_max cellsA (fun e Ie => conj (proj1 (NA e Ie)) (proj1 (proj2 (NA e Ie))))).
  destruct (endorse_cells_in_canvas cellsA _ _ CI acc groups E) as [Fa _].
  eapply Forall_impl; [|exact Fa]. intros f [[Nf If] [Gd W]]. destruct (bounds_ordered _ Gd) as [O1 _]. split; [exact O1|].
  assert (NE : cellsA <> []).
  { destruct (fs_span f) as [|e0 t] eqn:Es; [congruence|]. intros E0. specialize (If e0 (or_introl eq_refl)). rewrite E0 in If. destruct If. }
  assert (XA : cx (cells_max cellsA) < c0).
  { destruct cellsA as [|[c1 z1] t] eqn:EA; [congruence|]. unfold cells_max; cbn [cx].
    assert (zmax_list (cx c1 + char_cols z1 - 1) (map (fun e : cell * Z => cx (fst e) + char_cols (snd e) - 1) ((c1, z1) :: t)) <= c0 - 1); [|lia].
    apply zmax_list_le; [destruct (NA (c1, z1) (or_introl eq_refl)) as [_ [_ H]]; cbn in H; lia|].
    apply Forall_forall. intros x Hx. apply in_map_iff in Hx. destruct Hx as [e [<- Ie]]. destruct (NA e Ie) as [_ [_ H]]. lia. }
  apply within_bbox in W. unfold bbox in W. destruct (bounds (fs_frag f)) as [lo hi]. unfold canvas, box_in in W. cbn [fst snd].
  unfold U, CW in *. lia.
Qed.
Lemma accepted_right acc groups : endorse_cells cellsB = Ok (acc, groups) -> Forall (fun f => is_right (fs_frag (shift_fs kz nz f))) acc.
Proof.
  intros E.
  assert (CI := cells_in_max cellsB NB).
  destruct (endorse_cells_in_canvas cellsB _ _ CI acc groups E) as [Fa _].
  eapply Forall_impl; [|exact Fa]. intros f [_ [Gd W]]. destruct (bounds_ordered _ Gd) as [O1 _]. destruct Gd as [Wf _].
  unfold is_right, shift_fs; cbn [fs_frag]. rewrite (bounds_shift kz nz _ Wf). cbn [fst snd]. unfold shift_point; cbn [px].
  apply within_bbox in W. unfold bbox in W. destruct (bounds (fs_frag f)) as [lo hi]. unfold canvas, box_in in W. cbn [fst snd] in *.
  unfold U, kz, CW in *. split; lia.
Qed.
Lemma escaped_left e : In e escsA -> is_left (escf e).
Proof.
  intros Ie. pose proof (QA e Ie) as Q. unfold is_left, escf. rewrite escaped_bounds. cbn [fst snd]. unfold top_left_most, bottom_right_most; cbn [px cx].
  pose proof (text_columns_nonneg (snd e)). unfold U, CW. lia.
Qed.
Lemma escaped_right e : In e escsB -> is_right (escf (shift_cell kz nz (fst e), snd e)).
Proof.
  intros Ie. pose proof (QB e Ie) as Q. unfold is_right, escf. rewrite escaped_bounds. cbn [fst snd]. unfold top_left_most, bottom_right_most, shift_cell; cbn [px cx].
  pose proof (text_columns_nonneg (snd e)). unfold U, kz, CW. lia.
Qed.

(** C10, side by side *)
Theorem side_by_side_drawing (s : Q) :
  let dx := (inject_Z kz * s)%Q in
  let dy := (inject_Z nz * s * 2)%Q in
  exists fA gA fB gB fAB gAB nA nB nAB,
    frags_of cellsA escsA = Ok (fA, gA) /\ frags_of cellsB escsB = Ok (fB, gB)
    /\ frags_of cells (escsA ++ shift_cb_texts kz nz escsB) = Ok (fAB, gAB)
    /\ drawing_nodes s fA gA = Ok nA /\ drawing_nodes s fB gB = Ok nB /\ drawing_nodes s fAB gAB = Ok nAB
    /\ Permutation nAB (nA ++ map (tr_node dx dy) nB).
Proof.
  exact (parts_drawing cells cellsA cellsB escsA escsB kz nz inA is_left is_right pL sep_cells FA FB left_pL right_pL nofit_sides
           accepted_left accepted_right escaped_left escaped_right s).
Qed.
End Side.
