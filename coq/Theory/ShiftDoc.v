(** * ShiftDoc: the enclosure pass, the nodes and the whole document under translation; the
    final statement of C06. *)
Require Import SB.Model.Base SB.Model.Unicode SB.Model.Geom SB.Model.Fragment SB.Model.Merge SB.Model.Text
  SB.Model.Property SB.Model.FragBuf SB.Model.Endorse SB.Model.Tree SB.Model.Svg SB.Model.Lib
  SB.Theory.MergeTheory SB.Theory.TextTotal SB.Theory.EndorseTotal SB.Theory.Total SB.Theory.TagTheory
  SB.Theory.ShiftTheory SB.Theory.ShiftFrag SB.Theory.ShiftBuf SB.Theory.FragInv SB.Theory.ShiftEndorse SB.Theory.ShiftText SB.Gen.CircleTables.
From Coq Require Import QArith String.
From Coq Require Import List.
Import ListNotations.
#[global] Open Scope Z_scope.

(** ** every accepted fragment is well formed *)
Definition wf_fs (f : fragspan) : Prop := wf_frag (fs_frag f).

Lemma bounding_rect_wf fs r f : bounding_rect fs r = Some f -> wf_frag f.
Proof. unfold bounding_rect. destruct (all_bound_points fs); intros H; inversion H; subst. exact I. Qed.
Lemma contacts_endorse_rect_wf c f : contacts_endorse_rect c = Ok (Some f) -> wf_frag f.
Proof.
  unfold contacts_endorse_rect, endorse_rect, endorse_rounded_rect. cbv zeta.
  destruct (is_rect (map fs_frag c)) as [b|]; cbn [bind]; [|discriminate].
  destruct b; cbn [bind].
  - destruct (bounding_rect (map fs_frag c) None) eqn:B.
    + intros H; inversion H; subst. eapply bounding_rect_wf; eauto.
    + destruct (is_rounded_rect (map fs_frag c)) as [[b2 o]|]; cbn [bind]; [|discriminate].
      destruct b2; [|discriminate]. destruct o; [|discriminate]. intros H; inversion H as [H1]. eapply bounding_rect_wf; eauto.
  - destruct (is_rounded_rect (map fs_frag c)) as [[b2 o]|]; cbn [bind]; [|discriminate].
    destruct b2; [|discriminate]. destruct o; [|discriminate]. intros H; inversion H as [H1]. eapply bounding_rect_wf; eauto.
Qed.
Lemma endorse_rects_wf cs r : endorse_rects cs = Ok r -> Forall wf_fs (fst r).
Proof.
  revert r. induction cs as [|c t IH]; cbn [endorse_rects]; intros r H; [inversion H; constructor|].
  destruct (contacts_endorse_rect c) as [o|] eqn:E; cbn [bind] in H; [|discriminate].
  destruct (endorse_rects t) as [[acc rej]|]; cbn [bind] in H; [|discriminate]. specialize (IH _ eq_refl). cbn [fst] in IH.
  destruct o as [f|]; inversion H; subst; cbn [fst]; [|exact IH]. constructor; [|exact IH]. unfold wf_fs; cbn. eapply contacts_endorse_rect_wf; eauto.
Qed.
Lemma eac_wf s r : endorse_to_arcs_and_circles s = Ok r -> Forall wf_fs (fst r).
Proof.
  unfold endorse_to_arcs_and_circles. destruct (span_bounds s) as [[tl br]|]; [|discriminate].
  destruct (endorse_circle_span s) as [[c un]|]; [intros H; inversion H; repeat constructor|].
  destruct (endorse_arc_span three_arc_span s) as [[a un]|]; [intros H; inversion H; repeat constructor|].
  destruct (endorse_arc_span half_arc_span s) as [[a un]|]; [intros H; inversion H; repeat constructor|].
  destruct (endorse_arc_span quarter_arc_span s) as [[a un]|]; intros H; inversion H; repeat constructor.
Qed.
Lemma mapM_Forall {X Y} (f : X -> res Y) (P : Y -> Prop) l ys : (forall x y, f x = Ok y -> P y) -> mapM f l = Ok ys -> Forall P ys.
Proof.
  intros Hf. revert ys. induction l as [|x t IH]; cbn [mapM]; intros ys H; [inversion H; constructor|].
  destruct (f x) eqn:E; cbn [bind] in H; [|discriminate]. destruct (mapM f t); cbn [bind] in H; [|discriminate].
  inversion H; subst. constructor; eauto.
Qed.
Lemma re_endorse_wf rej r : re_endorse rej = Ok r -> Forall wf_fs (fst r).
Proof.
  unfold re_endorse. destruct (merge_recursive span_merge (map contacts_span rej)) as [spans|]; cbn [bind]; [|discriminate].
  destruct (mapM endorse_to_arcs_and_circles spans) as [rs|] eqn:E; cbn [bind]; [|discriminate].
  intros H; inversion H; subst; cbn [fst].
  pose proof (mapM_Forall _ (fun r => Forall wf_fs (fst r)) _ _ eac_wf E) as F.
  clear E. induction F as [|x t Hx Ft IH]; cbn [flat_map]; [constructor|]. apply Forall_app; auto.
Qed.
Lemma span_endorse_wf s r : span_endorse s = Ok r -> Forall wf_fs (fst r).
Proof.
  unfold span_endorse. destruct (endorse_to_arcs_and_circles s) as [[acc1 un]|] eqn:E1; cbn [bind]; [|discriminate].
  destruct (contacts_of_span un) as [cs|]; cbn [bind]; [|discriminate].
  destruct (endorse_rects cs) as [[acc2 rej]|] eqn:E2; cbn [bind]; [|discriminate].
  destruct (re_endorse rej) as [[acc3 rejspans]|] eqn:E3; cbn [bind]; [|discriminate].
  intros H; inversion H; subst; cbn [fst]. apply Forall_app; split; [exact (eac_wf _ _ E1)|].
  apply Forall_app; split; [exact (endorse_rects_wf _ _ E2)|exact (re_endorse_wf _ _ E3)].
Qed.

Lemma Forall_concat' {X} (P : X -> Prop) l : Forall (Forall P) l -> Forall P (concat l).
Proof. induction 1 as [|x t Hx Ft IH]; cbn [concat]; [constructor|apply Forall_app; auto]. Qed.

Theorem endorse_cells_wf cells acc groups : endorse_cells cells = Ok (acc, groups) ->
  Forall wf_fs acc /\ Forall (Forall wf_fs) groups.
Proof.
  unfold endorse_cells. destruct (spans_of_cells cells) as [spans|]; cbn [bind]; [|discriminate].
  match goal with |- context [mapM ?F spans] => set (FF := F) end.
  destruct (mapM FF spans) as [rs|] eqn:E; cbn [bind]; [|discriminate].
  intros H; inversion H; subst; clear H.
  assert (G : Forall (fun r : list fragspan * list contacts => Forall wf_fs (fst r) /\ Forall (Forall wf_fs) (snd r)) rs).
  { eapply mapM_Forall; [|exact E]. intros s [a g]. unfold FF.
    destruct (span_endorse s) as [[acc rejspans]|] eqn:E1; cbn [bind]; [|discriminate].
    destruct (mapM contacts_of_span rejspans) as [css|] eqn:E2; cbn [bind]; [|discriminate].
    intros H; inversion H; subst; cbn [fst snd]. split; [exact (span_endorse_wf _ _ E1)|].
    pose proof (mapM_Forall _ (fun cs => Forall (Forall wf_fs) cs) _ _ contacts_wf E2) as F2.
    clear E2. induction F2 as [|x t Hx Ft IH]; cbn [concat]; [constructor|]. apply Forall_app; auto. }
  assert (A1 : Forall wf_fs (flat_map fst rs)) by (clear E; induction G as [|x t [Hx _] Ft IH]; cbn [flat_map]; [constructor|apply Forall_app; auto]).
  assert (A2 : Forall (Forall wf_fs) (flat_map snd rs)) by (clear E A1; induction G as [|x t [_ Hx] Ft IH]; cbn [flat_map]; [constructor|apply Forall_app; auto]).
  assert (FL : forall (p : contacts -> bool) l, Forall (Forall wf_fs) l -> Forall (Forall wf_fs) (filter p l)).
  { intros p l F. apply Forall_forall. intros x Hx. apply filter_In in Hx. rewrite Forall_forall in F. apply F, Hx. }
  split.
  - apply Forall_app; split; [exact A1|]. apply Forall_concat'. apply FL. exact A2.
  - apply FL. exact A2.
Qed.

(** ** the enclosure pass *)
Section Shift.
Context (k n : Z).
Notation sf := (shift_frag k n).

Fixpoint shift_tree (t : ftree) : ftree :=
  match t with FT f tags kids => FT (sf f) tags (map shift_tree kids) end.
Fixpoint wf_tree (t : ftree) : Prop :=
  match t with FT f _ kids => wf_frag f /\ (fix all (l : list ftree) : Prop := match l with [] => True | x :: r => wf_tree x /\ all r end) kids end.
Fixpoint wf_trees (l : list ftree) : Prop := match l with [] => True | x :: r => wf_tree x /\ wf_trees r end.
Lemma wf_tree_unfold f tags kids : wf_tree (FT f tags kids) <-> wf_frag f /\ wf_trees kids.
Proof.
  cbn [wf_tree]. assert (E : forall l, (fix all (l : list ftree) : Prop := match l with [] => True | x :: r => wf_tree x /\ all r end) l <-> wf_trees l).
  { induction l as [|x r IH]; cbn; [tauto|]. rewrite IH. tauto. }
  rewrite E. tauto.
Qed.

Lemma can_fit_shift a b : wf_frag a -> wf_frag b -> can_fit (sf a) (sf b) = can_fit a b.
Proof.
  intros Wa Wb. unfold can_fit. rewrite (bounds_shift k n a Wa), (bounds_shift k n b Wb).
  destruct (bounds a) as [tl br], (bounds b) as [otl obr]. unfold shift_point; cbn [fst snd px py].
  repeat (f_equal; try (apply Bool.eq_iff_eq_true; rewrite !Z.leb_le; lia)).
Qed.
Lemma frag_css_tag_shift f : frag_css_tag (sf f) = frag_css_tag f.
Proof. destruct f; reflexivity. Qed.
Lemma ft_frag_shift t : ft_frag (shift_tree t) = sf (ft_frag t).
Proof. destruct t; reflexivity. Qed.

Lemma enclose_shift t : forall o, wf_tree t -> wf_tree o ->
  enclose_deep_first (shift_tree t) (shift_tree o) = option_map shift_tree (enclose_deep_first t o)
  /\ (forall t', enclose_deep_first t o = Some t' -> wf_tree t').
Proof.
  induction t as [f tags kids IH] using ftree_ind'. intros o Wt Wo. destruct (proj1 (wf_tree_unfold f tags kids) Wt) as [Wf Wk].
  assert (Wof : wf_frag (ft_frag o)) by (destruct o as [fo to ko]; exact (proj1 (proj1 (wf_tree_unfold fo to ko) Wo))).
  assert (K : try_kids (shift_tree o) (map shift_tree kids) = option_map (map shift_tree) (try_kids o kids)
              /\ (forall kids', try_kids o kids = Some kids' -> wf_trees kids')).
  { clear Wf Wt. induction IH as [|x r Hx Fr IHr]; cbn [map try_kids]; [split; [reflexivity|discriminate]|].
    cbn [wf_trees] in Wk. destruct Wk as [Wx Wr]. destruct (Hx o Wx Wo) as [E1 E2]. rewrite E1.
    destruct (enclose_deep_first x o) as [x'|]; cbn [option_map].
    - split; [reflexivity|]. intros kids' H; inversion H; subst. cbn [wf_trees]. split; [apply E2; reflexivity|exact Wr].
    - destruct (IHr Wr) as [E3 E4]. rewrite E3. destruct (try_kids o r) as [r'|]; cbn [option_map]; split; try reflexivity; try discriminate.
      intros kids' H; inversion H; subst. cbn [wf_trees]. split; [exact Wx|apply E4; reflexivity]. }
  destruct K as [K1 K2].
  change (shift_tree (FT f tags kids)) with (FT (sf f) tags (map shift_tree kids)).
  rewrite !enclose_unfold, K1. destruct (try_kids o kids) as [kids'|] eqn:T; cbn [option_map].
  - split; [reflexivity|]. intros t' H; inversion H; subst. apply wf_tree_unfold. split; [exact Wf|apply K2; reflexivity].
  - rewrite ft_frag_shift, (can_fit_shift f (ft_frag o) Wf Wof), frag_css_tag_shift.
    destruct (can_fit f (ft_frag o)); [|split; [reflexivity|discriminate]].
    destruct (frag_css_tag (ft_frag o)) as [|tg tgs].
    + split; [cbn [option_map shift_tree]; rewrite map_app; reflexivity|].
      intros t' H; inversion H; subst. apply wf_tree_unfold. split; [exact Wf|].
      clear - Wk Wo. induction kids as [|x r IH]; cbn [app wf_trees] in *; [tauto|]. destruct Wk; split; auto.
    + split; [reflexivity|]. intros t' H; inversion H; subst. apply wf_tree_unfold. split; assumption.
Qed.

Theorem enclose_fragments_shift fs : Forall wf_frag fs ->
  enclose_fragments (map sf fs) = match enclose_fragments fs with Ok ts => Ok (map shift_tree ts) | Err e => Err e end.
Proof.
  intros W. unfold enclose_fragments.
  replace (map (fun f => FT f [] []) (map sf fs)) with (map shift_tree (map (fun f => FT f [] []) fs)) by (rewrite !map_map; reflexivity).
  apply (merge_recursive_map_inv enclose_deep_first shift_tree wf_tree).
  - intros a b c H Wa Wb. exact (proj2 (enclose_shift a b Wa Wb) c H).
  - intros a b Wa Wb. exact (proj1 (enclose_shift a b Wa Wb)).
  - apply Forall_forall. intros x Hx. apply in_map_iff in Hx. destruct Hx as [f [<- Hf]]. rewrite Forall_forall in W.
    apply wf_tree_unfold. split; [auto|exact I].
Qed.

Lemma flatten_shift t : flatten_tree (shift_tree t) = map (fun p => (sf (fst p), snd p)) (flatten_tree t).
Proof.
  induction t as [f tags kids IH] using ftree_ind'. cbn [shift_tree flatten_tree map fst snd]. f_equal.
  induction IH as [|x r Hx Fr IHr]; cbn [map flat_map]; [reflexivity|]. rewrite Hx, IHr, map_app. reflexivity.
Qed.
End Shift.

(** ** nodes *)
Section Tr.
Context (dx dy : Q).
Definition qadd (q d : Q) : Q := Qred (q + d).
Definition is_x (name : list Z) : bool :=
  zs_eqb name (zs "x") || zs_eqb name (zs "x1") || zs_eqb name (zs "x2") || zs_eqb name (zs "cx").
Definition is_y (name : list Z) : bool :=
  zs_eqb name (zs "y") || zs_eqb name (zs "y1") || zs_eqb name (zs "y2") || zs_eqb name (zs "cy").
(** coordinates move, lengths (width, height, r, rx) and everything else stay *)
Definition tr_aval (name : list Z) (v : aval) : aval :=
  match v with
  | VNum q => if is_x name then VNum (qadd q dx) else if is_y name then VNum (qadd q dy) else v
  | VArc x1 y1 r mj sw x2 y2 => VArc (qadd x1 dx) (qadd y1 dy) r mj sw (qadd x2 dx) (qadd y2 dy)
  | VPoints pts => VPoints (map (fun p => (qadd (fst p) dx, qadd (snd p) dy)) pts)
  | VStr _ => v
  end.
Definition tr_attr (a : attr) : attr := (fst a, map (tr_aval (fst a)) (snd a)).
Fixpoint tr_node (nd : node) : node :=
  match nd with
  | Elem tag attrs kids => Elem tag (map tr_attr attrs) (map tr_node kids)
  | TextLeaf _ => nd
  end.
End Tr.

Lemma sc_add s t m : sc s (t + m * 40) = qadd (sc s t) (inject_Z m * s).
Proof.
  unfold sc, qadd. apply Qred_complete. rewrite Qred_correct, inject_Z_plus, inject_Z_mult.
  change (inject_Z 40) with 40%Q. field.
Qed.
Lemma sc_add80 s t m : sc s (t + m * 80) = qadd (sc s t) (inject_Z m * s * 2).
Proof.
  unfold sc, qadd. apply Qred_complete. rewrite Qred_correct, inject_Z_plus, inject_Z_mult.
  change (inject_Z 80) with 80%Q. field.
Qed.

Section ShiftNodes.
Context (k n : Z) (s : Q).
Notation sf := (shift_frag k n).
Notation sp := (shift_point k n).
Let dx := (inject_Z k * s)%Q.
Let dy := (inject_Z n * s * 2)%Q.
Notation tr := (tr_node dx dy).

Lemma sc_px p : sc s (px (sp p)) = qadd (sc s (px p)) dx.
Proof. unfold shift_point; cbn [px]. apply sc_add. Qed.
Lemma sc_py p : sc s (py (sp p)) = qadd (sc s (py p)) dy.
Proof. unfold shift_point; cbn [py]. apply sc_add80. Qed.

Lemma class_of_tr names : tr_attr dx dy (class_of names) = class_of names.
Proof. unfold class_of, tr_attr; cbn [fst snd]. f_equal. rewrite map_map. reflexivity. Qed.

Lemma line_attrs_tr l : line_attrs s (shift_line k n l) = map (tr_attr dx dy) (line_attrs s l).
Proof.
  unfold line_attrs. cbn [map]. rewrite class_of_tr. cbn [shift_line lstart lend lbroken].
  rewrite !sc_px, !sc_py. reflexivity.
Qed.

Theorem fragment_node_shift f : fragment_node s (sf f) = tr (fragment_node s f).
Proof.
  destruct f as [l|m|c|a|p|r|t]; cbn [shift_frag fragment_node tr_node map].
  - rewrite line_attrs_tr. reflexivity.
  - cbn [mlline mlstart mlend]. rewrite line_attrs_tr, !map_app. f_equal. f_equal. f_equal.
    + destruct (mlstart m); cbn [map]; rewrite ?class_of_tr; reflexivity.
    + destruct (mlend m); cbn [map]; rewrite ?class_of_tr; reflexivity.
  - cbn [ccenter cradius cfilled]. rewrite class_of_tr, sc_px, sc_py. reflexivity.
  - cbn [astart aend aradius amajor asweep]. rewrite class_of_tr, !sc_px, !sc_py. reflexivity.
  - cbn [ppoints pfilled ptags]. rewrite class_of_tr. f_equal. f_equal. unfold Lib.A, tr_attr; cbn [fst snd map tr_aval]. f_equal. f_equal. f_equal.
    rewrite !map_map. apply map_ext. intros q. cbn [fst snd]. rewrite sc_px, sc_py. reflexivity.
  - cbn [rstart rend rfilled rradius rbroken]. rewrite class_of_tr, sc_px, sc_py.
    unfold shift_point; cbn [px py].
    replace (px (rend r) + k * CW - (px (rstart r) + k * CW)) with (px (rend r) - px (rstart r)) by ring.
    replace (py (rend r) + n * CH - (py (rstart r) + n * CH)) with (py (rend r) - py (rstart r)) by ring.
    reflexivity.
  - cbn [ctstart ctcontent]. f_equal. unfold cell_q. rewrite cell_abs_shift, sc_px, sc_py. reflexivity.
Qed.

Lemma with_tags_tr nd tags : with_tags (tr nd) tags = tr (with_tags nd tags).
Proof.
  destruct nd as [tg attrs kids|x]; cbn [with_tags tr_node]; [|reflexivity]. f_equal.
  set (a := (zs "class", map VStr tags)).
  assert (Ha : tr_attr dx dy a = a) by (unfold a, tr_attr; cbn [fst snd]; f_equal; rewrite map_map; reflexivity).
  induction attrs as [|[nm vs] t IH]; cbn [map merge_attribute]; [rewrite Ha; reflexivity|].
  cbn [tr_attr fst snd]. destruct (zs_eqb nm (fst a)) eqn:E; cbn [map tr_attr fst snd].
  - f_equal. unfold tr_attr; cbn [fst snd]. f_equal. rewrite map_app. f_equal.
    (* class values are strings: unchanged *) unfold a; cbn [snd]. rewrite map_map. reflexivity.
  - f_equal. exact IH.
Qed.

Theorem fragment_nodes_shift fs : Forall wf_frag fs ->
  fragment_nodes s (map sf fs) = match fragment_nodes s fs with Ok ns => Ok (map tr ns) | Err e => Err e end.
Proof.
  intros W. unfold fragment_nodes. rewrite (enclose_fragments_shift k n fs W).
  destruct (enclose_fragments fs) as [ts|]; cbn [bind]; [|reflexivity]. f_equal.
  assert (E : flat_map flatten_tree (map (shift_tree k n) ts) = map (fun p => (sf (fst p), snd p)) (flat_map flatten_tree ts)).
  { induction ts as [|x r IH]; cbn [map flat_map]; [reflexivity|]. rewrite IH, flatten_shift, map_app. reflexivity. }
  rewrite E, !map_map. apply map_ext. intros [f tags]. cbn [fst snd]. rewrite fragment_node_shift. apply with_tags_tr.
Qed.
End ShiftNodes.

(** ** the document *)
Require Import SB.Theory.SwitchTheory.

Section ShiftDocument.
Context (k n : nat).
Let kz := Z.of_nat k.
Let nz := Z.of_nat n.
Notation sf := (shift_frag kz nz).

Lemma escaped_fragspan_shift e :
  escaped_fragspan (shift_cell kz nz (fst e), snd e) = shift_fs kz nz (escaped_fragspan e).
Proof.
  destruct e as [c t]. unfold escaped_fragspan, shift_fs; cbn [fst snd fs_span fs_frag shift_frag ctstart ctcontent]. f_equal.
  unfold shift_span. rewrite map_map. apply map_ext. intros [i ch]. unfold shift_cc, shift_cell; cbn [fst snd cx cy]. f_equal. f_equal. lia.
Qed.

Lemma cells_max_shift cells : cells <> [] ->
  cells_max (map (shift_cc kz nz) cells) = shift_cell kz nz (cells_max cells).
Proof.
  destruct cells as [|[c z] t]; [congruence|]. intros _. cbn [map cells_max shift_cc fst snd].
  assert (Mx : forall l : list (cell * Z), map (fun e => cx (fst e) + char_cols (snd e) - 1) (map (shift_cc kz nz) l)
                 = map (fun x => x + kz) (map (fun e => cx (fst e) + char_cols (snd e) - 1) l)).
  { intros l. rewrite !map_map. apply map_ext. intros [c' z']. unfold shift_cc, shift_cell; cbn [fst snd cx]. lia. }
  assert (My : forall l : list (cell * Z), map (fun e => cy (fst e)) (map (shift_cc kz nz) l) = map (fun x => x + nz) (map (fun e => cy (fst e)) l))
    by (intros l; rewrite !map_map; reflexivity).
  change ((shift_cell kz nz c, z) :: map (shift_cc kz nz) t) with (map (shift_cc kz nz) ((c, z) :: t)).
  rewrite Mx, My. change (cx (shift_cell kz nz c)) with (cx c + kz). change (cy (shift_cell kz nz c)) with (cy c + nz).
  replace (cx c + kz + char_cols z - 1) with (cx c + char_cols z - 1 + kz) by lia.
  cbn [zmax_list map]. rewrite !zmax_list_shift, !Z.add_max_distr_r. reflexivity.
Qed.

Lemma canvas_of_shift st br :
  canvas_of st (shift_cell kz nz br) =
  (qadd (fst (canvas_of st br)) (inject_Z kz * scale st), qadd (snd (canvas_of st br)) (inject_Z nz * scale st * 2)).
Proof.
  unfold canvas_of, shift_cell, qadd; cbn [cx cy fst snd]. f_equal; apply Qred_complete; rewrite Qred_correct, !inject_Z_plus; ring.
Qed.

Theorem doc_shift s st :
  find_sub LEGEND_MARK s [] = None -> find_sub LEGEND_MARK (shift_text k n s) [] = None ->
  (forall cb, cellbuffer_from s = Ok cb -> cb_cells cb <> []) ->
  let dx := (inject_Z kz * scale st)%Q in
  let dy := (inject_Z nz * scale st * 2)%Q in
  exists w h legend body,
    doc s st = Ok (Elem (zs "svg") (root_attrs w h) (switch_nodes st legend w h ++ body))
    /\ doc (shift_text k n s) st =
       Ok (Elem (zs "svg") (root_attrs (qadd w dx) (qadd h dy))
             (switch_nodes st legend (qadd w dx) (qadd h dy) ++ map (tr_node dx dy) body)).
Proof.
  intros L1 L2 NE dx dy. unfold doc, cellbuffer_from in *. rewrite L1 in *. rewrite L2.
  rewrite (cellbuffer_of_text_shift k n s []).
  destruct (cellbuffer_of_text s []) as [cb|] eqn:ECB; [|destruct (cellbuffer_of_text_ok s []) as [cb' [E' _]]; congruence].
  specialize (NE cb eq_refl). cbn [bind cb_cells cb_css cb_escaped].
  fold kz nz. unfold shift_cb_cells at 1. unfold canvas_size. cbn [cb_cells].
  rewrite (cells_max_shift (cb_cells cb) NE), canvas_of_shift.
  destruct (canvas_of st (cells_max (cb_cells cb))) as [w h] eqn:EC. cbn [fst snd].
  unfold doc_of, fragments_of. cbn [cb_cells cb_css cb_escaped]. unfold shift_cb_cells.
  rewrite (endorse_cells_shift kz nz (cb_cells cb)).
  destruct (endorse_cells (cb_cells cb)) as [[acc groups]|] eqn:EE; [|destruct (endorse_cells_ok (cb_cells cb)) as [r Er]; congruence].
  cbn [map_res bind shift_ec fst snd].
  destruct (endorse_cells_wf _ _ _ EE) as [Wacc Wg].
  set (frags := map fs_frag acc ++ map (fun e => fs_frag (escaped_fragspan e)) (cb_escaped cb)).
  assert (Efr : map fs_frag (map (shift_fs kz nz) acc) ++ map (fun e => fs_frag (escaped_fragspan e)) (shift_cb_texts kz nz (cb_escaped cb)) = map sf frags).
  { unfold frags, shift_cb_texts. rewrite map_app, !map_map. f_equal. apply map_ext. intros e. rewrite escaped_fragspan_shift. reflexivity. }
  rewrite Efr.
  assert (Egr : map (map fs_frag) (map (shift_contacts kz nz) groups) = map (map sf) (map (map fs_frag) groups)).
  { rewrite !map_map. apply map_ext. intros g. unfold shift_contacts. rewrite !map_map. reflexivity. }
  rewrite Egr.
  assert (Wfr : Forall wf_frag frags).
  { unfold frags. apply Forall_app; split; apply Forall_forall; intros x Hx; apply in_map_iff in Hx; destruct Hx as [y [<- Hy]].
    - rewrite Forall_forall in Wacc. apply Wacc; exact Hy.
    - destruct y; exact I. }
  rewrite !doc_emit_shape. unfold drawing_nodes.
  rewrite (fragment_nodes_shift kz nz (scale st) frags Wfr).
  destruct (fragment_nodes (scale st) frags) as [ns|] eqn:EN; [|destruct (fragment_nodes_ok (scale st) frags) as [r Er]; congruence].
  cbn [bind].
  assert (Hcss : cb_css cb = []).
  { destruct (cellbuffer_of_text_ok s []) as [cb' [E' C']]. rewrite ECB in E'. inversion E'; subst. exact C'. }
  rewrite Hcss. exists w, h, (legend_css []). eexists. split; [reflexivity|].
  unfold dx, dy. f_equal. f_equal. f_equal. rewrite map_app. f_equal. rewrite !map_map. apply map_ext. intros g.
  cbn [tr_node map]. f_equal. rewrite !map_map. apply map_ext. intros f. apply fragment_node_shift.
Qed.
End ShiftDocument.
