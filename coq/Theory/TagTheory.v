(** * TagTheory: what the enclosure pass does with a fragment (C16, tag clause).
    [enclose_deep_first t o] offers [o] to the children of [t] first (depth first, in order) and
    then to [t] itself; [t] takes it iff [o] fits inside [t]'s bounds.  A taken [{a,b}] text
    becomes class names of the taker and is not rendered; any other taken fragment becomes the
    taker's last child and is rendered once. *)
Require Import SB.Model.Base SB.Model.Geom SB.Model.Text SB.Model.Merge SB.Model.Tree.

(** induction principle for trees with lists of children *)
Section TreeInd.
Context (P : ftree -> Prop) (H : forall f tags kids, Forall P kids -> P (FT f tags kids)).
Fixpoint ftree_ind' (t : ftree) : P t :=
  match t with
  | FT f tags kids =>
      H f tags kids ((fix go (l : list ftree) : Forall P l :=
                        match l with [] => Forall_nil _ | k :: r => Forall_cons _ (ftree_ind' k) (go r) end) kids)
  end.
End TreeInd.

(** the children-first attempt, named *)
Fixpoint try_kids (o : ftree) (ks : list ftree) : option (list ftree) :=
  match ks with
  | [] => None
  | k :: r => match enclose_deep_first k o with
              | Some k' => Some (k' :: r)
              | None => option_map (cons k) (try_kids o r)
              end
  end.
Lemma enclose_unfold f tags kids o :
  enclose_deep_first (FT f tags kids) o =
  match try_kids o kids with
  | Some kids' => Some (FT f tags kids')
  | None => if can_fit f (ft_frag o) then
              match frag_css_tag (ft_frag o) with
              | [] => Some (FT f tags (kids ++ [o]))
              | tg => Some (FT f (tags ++ tg) kids)
              end
            else None
  end.
Proof.
  cbn [enclose_deep_first].
  assert (E : forall ks,
    (fix try_kids0 (ks0 : list ftree) : option (list ftree) :=
       match ks0 with
       | [] => None
       | k :: r => match enclose_deep_first k o with
                   | Some k' => Some (k' :: r)
                   | None => option_map (cons k) (try_kids0 r)
                   end
       end) ks = try_kids o ks).
  { induction ks as [|k r IH]; cbn; [reflexivity|]. rewrite IH. reflexivity. }
  rewrite E. reflexivity.
Qed.

(** some node of the tree has bounds that contain [o] *)
Fixpoint fits_somewhere (t : ftree) (o : fragment) : bool :=
  match t with
  | FT f _ kids => can_fit f o || existsb (fun k => fits_somewhere k o) kids
  end.

(** a fragment that fits nowhere in the tree is not taken: it stays a top-level fragment
    (a tag outside every shape remains ordinary text) *)
Theorem enclose_none_iff t o : enclose_deep_first t o = None <-> fits_somewhere t (ft_frag o) = false.
Proof.
  induction t as [f tags kids IH] using ftree_ind'. rewrite enclose_unfold. cbn [fits_somewhere].
  assert (K : try_kids o kids = None <-> existsb (fun k => fits_somewhere k (ft_frag o)) kids = false).
  { induction IH as [|k r Hk Fr IHr]; cbn [try_kids existsb]; [split; reflexivity|].
    destruct (enclose_deep_first k o) eqn:E.
    - split; [discriminate|]. intros H. apply orb_false_iff in H. destruct H as [H _]. apply Hk in H. discriminate.
    - assert (Fk : fits_somewhere k (ft_frag o) = false) by (apply Hk; reflexivity). rewrite Fk. cbn [orb].
      destruct (try_kids o r) as [r'|] eqn:Tr; cbn [option_map].
      + split; [discriminate|]. intros H. apply IHr in H. discriminate.
      + split; [intros _; apply IHr; reflexivity|reflexivity]. }
  destruct (try_kids o kids) eqn:T.
  - split; [discriminate|]. intros H. apply orb_false_iff in H. destruct H as [_ H]. apply K in H. discriminate.
  - assert (existsb (fun k => fits_somewhere k (ft_frag o)) kids = false) as -> by (apply K; reflexivity).
    rewrite orb_false_r. destruct (can_fit f (ft_frag o)); [|split; reflexivity].
    destruct (frag_css_tag (ft_frag o)); split; discriminate.
Qed.

(** what is rendered: the fragments of the tree in pre-order *)
Fixpoint fragments_of_tree (t : ftree) : list fragment :=
  match t with FT f _ kids => f :: flat_map fragments_of_tree kids end.
Fixpoint tags_of_tree (t : ftree) : list (list Z) :=
  match t with FT _ tags kids => tags ++ flat_map tags_of_tree kids end.
Fixpoint tree_size (t : ftree) : nat :=
  match t with FT _ _ kids => S (fold_right (fun k n => (tree_size k + n)%nat) 0%nat kids) end.

(** a taken tag is not rendered: the rendered fragments are unchanged, and its names are added
    to the class names, at a node it fits in *)
Theorem enclose_tag t o t' :
  frag_css_tag (ft_frag o) <> [] -> enclose_deep_first t o = Some t' ->
  fragments_of_tree t' = fragments_of_tree t
  /\ length (tags_of_tree t') = (length (tags_of_tree t) + length (frag_css_tag (ft_frag o)))%nat.
Proof.
  intros Tg. revert t'. induction t as [f tags kids IH] using ftree_ind'. intros t'. rewrite enclose_unfold.
  assert (K : forall kids', try_kids o kids = Some kids' ->
            flat_map fragments_of_tree kids' = flat_map fragments_of_tree kids
            /\ length (flat_map tags_of_tree kids') = (length (flat_map tags_of_tree kids) + length (frag_css_tag (ft_frag o)))%nat).
  { induction IH as [|k r Hk Fr IHr]; cbn [try_kids]; intros kids' H; [discriminate|].
    destruct (enclose_deep_first k o) as [k'|] eqn:E.
    - inversion H; subst. destruct (Hk k' eq_refl) as [H1 H2]. cbn [flat_map]. rewrite H1, !app_length, H2. split; [reflexivity|lia].
    - destruct (try_kids o r) as [r'|]; cbn [option_map] in H; [|discriminate]. inversion H; subst.
      destruct (IHr r' eq_refl) as [H1 H2]. cbn [flat_map]. rewrite H1, !app_length, H2. split; [reflexivity|lia]. }
  destruct (try_kids o kids) as [kids'|] eqn:T.
  - intros H; inversion H; subst. destruct (K kids' eq_refl) as [H1 H2]. cbn [fragments_of_tree tags_of_tree].
    rewrite H1, !app_length, H2. split; [reflexivity|lia].
  - destruct (can_fit f (ft_frag o)); [|discriminate].
    destruct (frag_css_tag (ft_frag o)) as [|x xs] eqn:Ft; [congruence|].
    intros H; inversion H; subst. cbn [fragments_of_tree tags_of_tree]. rewrite !app_length. split; [reflexivity|lia].
Qed.

(** a taken fragment that is not a tag is rendered exactly once more (with whatever it
    already encloses) and no class name is added or lost *)
Definition adds {X} (l' l extra : list X) : Prop :=
  length l' = (length l + length extra)%nat /\ (forall x, In x l' <-> In x l \/ In x extra).
Lemma adds_app_l {X} (p l' l extra : list X) : adds l' l extra -> adds (p ++ l') (p ++ l) extra.
Proof. intros [H1 H2]. split; [rewrite !app_length; lia|]. intros x. rewrite !in_app_iff, H2. tauto. Qed.
Lemma adds_app_r {X} (p l' l extra : list X) : adds l' l extra -> adds (l' ++ p) (l ++ p) extra.
Proof. intros [H1 H2]. split; [rewrite !app_length; lia|]. intros x. rewrite !in_app_iff, H2. tauto. Qed.
Lemma adds_end {X} (l extra : list X) : adds (l ++ extra) l extra.
Proof. split; [apply app_length|]. intros x. apply in_app_iff. Qed.

Theorem enclose_plain t o t' :
  frag_css_tag (ft_frag o) = [] -> enclose_deep_first t o = Some t' ->
  adds (tags_of_tree t') (tags_of_tree t) (tags_of_tree o)
  /\ adds (fragments_of_tree t') (fragments_of_tree t) (fragments_of_tree o).
Proof.
  intros Tg. revert t'. induction t as [f tags kids IH] using ftree_ind'. intros t'. rewrite enclose_unfold.
  assert (K : forall kids', try_kids o kids = Some kids' ->
            adds (flat_map tags_of_tree kids') (flat_map tags_of_tree kids) (tags_of_tree o)
            /\ adds (flat_map fragments_of_tree kids') (flat_map fragments_of_tree kids) (fragments_of_tree o)).
  { induction IH as [|k r Hk Fr IHr]; cbn [try_kids]; intros kids' H; [discriminate|].
    destruct (enclose_deep_first k o) as [k'|] eqn:E.
    - inversion H; subst. destruct (Hk k' eq_refl) as [H1 H2]. cbn [flat_map]. split; apply adds_app_r; assumption.
    - destruct (try_kids o r) as [r'|]; cbn [option_map] in H; [|discriminate]. inversion H; subst.
      destruct (IHr r' eq_refl) as [H1 H2]. cbn [flat_map]. split; apply adds_app_l; assumption. }
  destruct (try_kids o kids) as [kids'|] eqn:T.
  - intros H; inversion H; subst. destruct (K kids' eq_refl) as [H1 H2]. cbn [fragments_of_tree tags_of_tree].
    split; [apply adds_app_l; exact H1|]. apply (adds_app_l [f]); exact H2.
  - destruct (can_fit f (ft_frag o)); [|discriminate]. rewrite Tg.
    intros H; inversion H; subst. cbn [fragments_of_tree tags_of_tree].
    rewrite !flat_map_app. cbn [flat_map]. rewrite !app_nil_r. split.
    + rewrite app_assoc. apply adds_end.
    + apply (adds_app_l [f]). apply adds_end.
Qed.

(** ** the taker is an innermost node
    [receives o tg t t']: [t'] is [t] with the names [tg] appended to the class names of ONE node [N] such that
    [o] fits inside [N], [o] fits inside no node below [N] (no shape nested in [N] contains the tag), and [o]
    fits in no subtree that precedes [N]'s branch among the children of any ancestor (the first such place,
    depth first).  Everything else of the tree is unchanged. *)
Inductive receives (o : fragment) (tg : list (list Z)) : ftree -> ftree -> Prop :=
| recv_here f tags kids :
    can_fit f o = true -> (forall k, In k kids -> fits_somewhere k o = false) ->
    receives o tg (FT f tags kids) (FT f (tags ++ tg) kids)
| recv_below f tags pre k k' post :
    (forall j, In j pre -> fits_somewhere j o = false) -> receives o tg k k' ->
    receives o tg (FT f tags (pre ++ k :: post)) (FT f tags (pre ++ k' :: post)).

Theorem enclose_tag_innermost t o t' :
  frag_css_tag (ft_frag o) <> [] -> enclose_deep_first t o = Some t' ->
  receives (ft_frag o) (frag_css_tag (ft_frag o)) t t'.
Proof.
  intros Tg. revert t'. induction t as [f tags kids IH] using ftree_ind'. intros t'. rewrite enclose_unfold.
  assert (K : forall kids', try_kids o kids = Some kids' ->
            exists pre k k' post, kids = pre ++ k :: post /\ kids' = pre ++ k' :: post
              /\ (forall j, In j pre -> fits_somewhere j (ft_frag o) = false)
              /\ receives (ft_frag o) (frag_css_tag (ft_frag o)) k k').
  { induction IH as [|k r Hk Fr IHr]; cbn [try_kids]; intros kids' H; [discriminate|].
    destruct (enclose_deep_first k o) as [k'|] eqn:E.
    - inversion H; subst. exists [], k, k', r. split; [reflexivity|]. split; [reflexivity|]. split; [intros j []|].
      apply Hk. reflexivity.
    - destruct (try_kids o r) as [r'|] eqn:Tr; cbn [option_map] in H; [|discriminate]. inversion H; subst.
      destruct (IHr r' eq_refl) as [pre [k0 [k0' [post [E1 [E2 [Fp R]]]]]]].
      exists (k :: pre), k0, k0', post. subst. split; [reflexivity|]. split; [reflexivity|]. split; [|exact R].
      intros j [<-|Hj]; [apply enclose_none_iff; exact E|apply Fp; exact Hj]. }
  destruct (try_kids o kids) as [kids'|] eqn:T.
  - intros H; inversion H; subst. destruct (K kids' eq_refl) as [pre [k [k' [post [E1 [E2 [Fp R]]]]]]]. subst.
    apply recv_below; assumption.
  - assert (NK : forall k, In k kids -> fits_somewhere k (ft_frag o) = false).
    { clear K. induction IH as [|k r Hk Fr IHr]; [intros k []|]. cbn [try_kids] in T.
      destruct (enclose_deep_first k o) eqn:E; [discriminate|].
      destruct (try_kids o r) eqn:Tr; [discriminate|].
      intros j [<-|Hj]; [apply enclose_none_iff; exact E|apply IHr; [reflexivity|exact Hj]]. }
    destruct (can_fit f (ft_frag o)) eqn:CF; [|discriminate].
    destruct (frag_css_tag (ft_frag o)) as [|x xs] eqn:Ft; [congruence|].
    intros H; inversion H; subst. apply recv_here; assumption.
Qed.
