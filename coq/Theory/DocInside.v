(** * DocInside: from the fragments inside the canvas (Canvas.v) to the numbers of the document (C12).
    [tick_points f]: the points, in ticks, whose images under the scale are the coordinates written into the node of
    [f] ([fragment_node]: the two ends of a line, a marked line or an arc, the corners of a rectangle (x, y and x +
    width, y + height), the corners of the box around a circle (cx -/+ r, cy -/+ r), the points of a polygon, the
    anchor of a text).  Every such point of a fragment inside a box lies in the box; scaling is monotone; the enclosure
    pass emits only fragments it was given.  Hence: every coordinate of every drawing node of the document lies
    between 0 and the canvas width / height, except for quoted text (known finding K1), at every scale >= 0. *)
Require Import SB.Model.Base SB.Model.Unicode SB.Model.Geom SB.Model.Fragment SB.Model.Merge SB.Model.Property
  SB.Model.FragBuf SB.Model.Endorse SB.Model.Text SB.Model.Tree SB.Model.Svg SB.Model.Lib
  SB.Theory.MergeTheory SB.Theory.TagTheory SB.Theory.Canvas.
From Coq Require Import QArith Qround.
#[local] Open Scope Z_scope.

Definition tick_points (f : fragment) : list point :=
  match f with
  | FLine l => [lstart l; lend l]
  | FMarkerLine m => [lstart (mlline m); lend (mlline m)]
  | FCircle c => [P (px (ccenter c) - cradius c) (py (ccenter c) - cradius c); P (px (ccenter c) + cradius c) (py (ccenter c) + cradius c)]
  | FArc a => [astart a; aend a]
  | FPolygon p => ppoints p
  | FRect r => [rstart r; rend r]
  | FCellText t => [cell_q (ctstart t)]
  end.

Lemma zmin_list_le x l : forall d, In x l -> zmin_list d l <= x.
Proof. induction l as [|y t IH]; intros d Hin; [destruct Hin|]. destruct Hin as [<-|H]; cbn [zmin_list]; [lia|]. specialize (IH y H). lia. Qed.
Lemma zmax_list_ge x l : forall d, In x l -> x <= zmax_list d l.
Proof. induction l as [|y t IH]; intros d Hin; [destruct Hin|]. destruct Hin as [<-|H]; cbn [zmax_list]; [lia|]. specialize (IH y H). lia. Qed.

Lemma tick_points_in_bbox f B : radius_ok f -> box_in (bbox f) B -> Forall (fun p => pt_in p B) (tick_points f).
Proof.
  destruct B as [[[u0 v0] u1] v1]. unfold bbox. intros Rd.
  destruct f as [l|m|c|a|p|r|t]; cbn [bounds tick_points]; cbn [radius_ok] in Rd.
  - intros H. apply seg_pts in H. destruct H as [Ha Hb]. constructor; [exact Ha|constructor; [exact Hb|constructor]].
  - intros H. apply seg_pts in H. destruct H as [Ha Hb]. constructor; [exact Ha|constructor; [exact Hb|constructor]].
  - unfold box_in, pt_in; cbn [px py]. intros H. constructor; [cbn [px py]; lia|constructor; [cbn [px py]; lia|constructor]].
  - intros H. apply seg_pts in H. destruct H as [Ha Hb]. constructor; [exact Ha|constructor; [exact Hb|constructor]].
  - unfold polygon_bounds. destruct (ppoints p) as [|q t] eqn:E; [constructor|].
    unfold box_in; cbn [px py]. intros [H1 [H2 [H3 H4]]]. apply Forall_forall. intros x Hx. unfold pt_in.
    pose proof (zmin_list_le (px x) (map px (q :: t)) (px q) (in_map px _ _ Hx)).
    pose proof (zmax_list_ge (px x) (map px (q :: t)) (px q) (in_map px _ _ Hx)).
    pose proof (zmin_list_le (py x) (map py (q :: t)) (py q) (in_map py _ _ Hx)).
    pose proof (zmax_list_ge (py x) (map py (q :: t)) (py q) (in_map py _ _ Hx)). lia.
  - intros H. apply seg_pts in H. destruct H as [Ha Hb]. constructor; [exact Ha|constructor; [exact Hb|constructor]].
  - unfold box_in, pt_in, top_left_most, bottom_right_most, celltext_last_cell, cell_q, cell_abs, grid, top_left_most, padd, UNIT, CW, CH; cbn [px py cx cy].
    intros H. constructor; [cbn [px py]; lia|constructor].
Qed.

(** scaling *)
Lemma sc_eq s t : (sc s t == inject_Z t * s / 40)%Q.
Proof. unfold sc. apply Qred_correct. Qed.
Lemma sc_mono s a b : (0 <= s)%Q -> a <= b -> (sc s a <= sc s b)%Q.
Proof.
  intros Hs Hab. rewrite !sc_eq. unfold Qdiv. apply Qmult_le_compat_r; [|discriminate].
  apply Qmult_le_compat_r; [|exact Hs]. rewrite <- Zle_Qle. exact Hab.
Qed.
Lemma sc_zero s : (sc s 0 == 0)%Q.
Proof. rewrite sc_eq. unfold Qdiv. rewrite !Qmult_0_l. reflexivity. Qed.
(** a circle's box and a rectangle's far corner in the numbers of the node *)
Lemma sc_add s a b : (sc s (a + b) == sc s a + sc s b)%Q.
Proof. rewrite !sc_eq, inject_Z_plus. field. Qed.
Lemma sc_sub s a b : (sc s (a - b) == sc s a - sc s b)%Q.
Proof. rewrite !sc_eq. unfold Z.sub. rewrite inject_Z_plus, inject_Z_opp. field. Qed.

Definition inside (s W H : Q) (f : fragment) : Prop :=
  Forall (fun p => (0 <= sc s (px p) <= W)%Q /\ (0 <= sc s (py p) <= H)%Q) (tick_points f).
Lemma within_inside s X1 Y1 f : (0 <= s)%Q -> radius_ok f -> within (0, 0, X1, Y1) f -> inside s (sc s X1) (sc s Y1) f.
Proof.
  intros Hs Rd W. apply within_bbox in W. apply (tick_points_in_bbox _ _ Rd) in W. unfold inside.
  eapply Forall_impl; [|exact W]. intros p [[A1 A2] [B1 B2]].
  split; (split; [rewrite <- (sc_zero s); apply sc_mono; assumption | apply sc_mono; assumption]).
Qed.

(** the enclosure pass emits only fragments it was given *)
Lemma map_fst_flatten t : map fst (flatten_tree t) = fragments_of_tree t.
Proof.
  induction t as [f tags kids IH] using ftree_ind'. cbn [flatten_tree fragments_of_tree map]. f_equal.
  induction IH as [|k r Hk Fr IHr]; cbn [flat_map]; [reflexivity|]. rewrite map_app, Hk, IHr. reflexivity.
Qed.
Section Keep.
Context (P : fragment -> Prop).
Definition tree_all (t : ftree) : Prop := Forall P (fragments_of_tree t).
Lemma enclose_keeps t o t' : enclose_deep_first t o = Some t' -> tree_all t -> tree_all o -> tree_all t'.
Proof.
  intros E Ht Ho. unfold tree_all in *. destruct (frag_css_tag (ft_frag o)) as [|x xs] eqn:Tg.
  - destruct (enclose_plain t o t' Tg E) as [_ [_ A]]. apply Forall_forall. intros f Hf. apply A in Hf.
    destruct Hf as [Hf|Hf]; [exact (proj1 (Forall_forall _ _) Ht f Hf)|exact (proj1 (Forall_forall _ _) Ho f Hf)].
  - assert (NE : frag_css_tag (ft_frag o) <> []) by (rewrite Tg; discriminate).
    destruct (enclose_tag t o t' NE E) as [A _]. rewrite A. exact Ht.
Qed.
Lemma enclose_fragments_keep fs trees : enclose_fragments fs = Ok trees -> Forall P fs ->
  Forall (fun p => P (fst p)) (flat_map flatten_tree trees).
Proof.
  intros E F. unfold enclose_fragments in E.
  assert (I0 : Forall tree_all (map (fun f => FT f [] []) fs)).
  { apply Forall_forall. intros t Ht. apply in_map_iff in Ht. destruct Ht as [f [<- Hf]]. unfold tree_all; cbn.
    constructor; [exact (proj1 (Forall_forall _ _) F f Hf)|constructor]. }
  pose proof (merge_recursive_inv enclose_deep_first tree_all (fun a b c M Ia Ib => enclose_keeps a b c M Ia Ib) _ _ E I0) as R.
  apply Forall_forall. intros p Hp. apply in_flat_map in Hp. destruct Hp as [t [Ht Hp]].
  pose proof (proj1 (Forall_forall _ _) R t Ht) as Rt. unfold tree_all in Rt. rewrite <- map_fst_flatten in Rt.
  exact (proj1 (Forall_forall _ _) Rt (fst p) (in_map fst _ _ Hp)).
Qed.
End Keep.

(** the canvas of the document in the scale *)
Lemma canvas_size_sc st cells :
  (fst (canvas_size st cells) == sc (scale st) ((cx (cells_max cells) + 2) * CW))%Q
  /\ (snd (canvas_size st cells) == sc (scale st) ((cy (cells_max cells) + 2) * CH))%Q.
Proof.
  unfold canvas_size, canvas_of; cbn [fst snd]. rewrite !Qred_correct, !sc_eq. unfold CW, CH.
  rewrite !inject_Z_mult, !inject_Z_plus. split; field.
Qed.

Definition quoted_of (cb : cellbuffer) (f : fragment) : Prop := In f (map (fun e => fs_frag (escaped_fragspan e)) (cb_escaped cb)).
Theorem document_points_inside input st cb frags groups trees :
  (0 <= scale st)%Q ->
  cellbuffer_from input = Ok cb -> fragments_of cb = Ok (frags, groups) -> enclose_fragments frags = Ok trees ->
  let W := fst (canvas_size st (cb_cells cb)) in let H := snd (canvas_size st (cb_cells cb)) in
  Forall (fun p => inside (scale st) W H (fst p) \/ quoted_of cb (fst p)) (flat_map flatten_tree trees)
  /\ Forall (Forall (inside (scale st) W H)) groups.
Proof.
  intros Hs Hcb Hf He W H. unfold fragments_of in Hf.
  destruct (endorse_cells (cb_cells cb)) as [[acc grp]|] eqn:E; [|discriminate]. cbn in Hf. inversion Hf; subst frags groups; clear Hf.
  destruct (recognised_good_inside_canvas input cb acc grp Hcb E) as [Fa Fg].
  destruct (canvas_size_sc st (cb_cells cb)) as [EW EH]. fold W in EW. fold H in EH.
  assert (K : forall f, radius_ok f /\ within (canvas_of_cells (cb_cells cb)) f -> inside (scale st) W H f).
  { intros f [Rd Wf]. unfold canvas_of_cells in Wf. pose proof (within_inside (scale st) _ _ f Hs Rd Wf) as I.
    unfold inside in *. eapply Forall_impl; [|exact I]. cbv beta. intros p. rewrite EW, EH. tauto. }
  split.
  - apply (enclose_fragments_keep (fun f => inside (scale st) W H f \/ quoted_of cb f) _ _ He).
    apply Forall_app. split.
    + apply Forall_forall. intros f Hf. apply in_map_iff in Hf. destruct Hf as [fs [<- Hfs]]. left. apply K.
      exact (proj1 (Forall_forall _ _) Fa fs Hfs).
    + apply Forall_forall. intros f Hf. right. exact Hf.
  - apply Forall_forall. intros g Hg. apply in_map_iff in Hg. destruct Hg as [c [<- Hc]].
    apply Forall_forall. intros f Hf. apply in_map_iff in Hf. destruct Hf as [fs [<- Hfs]]. apply K.
    exact (proj1 (Forall_forall _ _) (proj1 (Forall_forall _ _) Fg c Hc) fs Hfs).
Qed.
