(** * Juxta: the cells of two drawings stacked with blank lines between them are the cells of
    the upper one and the cells of the lower one moved down, and the two are separated; with
    SepOrder and ShiftEndorse: what is recognised in the stack is what is recognised in each
    drawing alone (C10, from the text to the accepted fragments). *)
Require Import SB.Model.Base SB.Model.Unicode SB.Model.Geom SB.Model.Fragment SB.Model.Merge SB.Model.Text
  SB.Model.Property SB.Model.FragBuf SB.Model.Endorse SB.Theory.MergeTheory SB.Theory.EndorseTotal
  SB.Theory.ShiftTheory SB.Theory.ShiftBuf SB.Theory.ShiftEndorse SB.Theory.ShiftText
  SB.Theory.SepTheory SB.Theory.PipeInv SB.Theory.SepOrder.

(** ** lines of a text followed by another *)
Lemma lines_aux_app a b : forall cur, lines_aux (a ++ 10 :: b) cur = lines_aux (a ++ [10]) cur ++ lines b.
Proof.
  induction a as [|c t IH]; intros cur; cbn [app lines_aux].
  - change (10 =? 10) with true. cbn [lines_aux app]. reflexivity.
  - destruct (c =? 10); [cbn [app]; f_equal; apply IH|apply IH].
Qed.
Lemma lines_app a b : lines (a ++ 10 :: b) = lines (a ++ [10]) ++ lines b.
Proof. apply lines_aux_app. Qed.

(** ** rows after rows *)
Lemma cells_of_rows_app r1 r2 : forall y,
  cells_of_rows y (r1 ++ r2) =
  match cells_of_rows y r1, cells_of_rows (y + Z.of_nat (length r1)) r2 with
  | Ok (c1, e1), Ok (c2, e2) => Ok (c1 ++ c2, e1 ++ e2)
  | Err e, _ => Err e
  | Ok _, Err e => Err e
  end.
Proof.
  induction r1 as [|row more IH]; intros y; cbn [app cells_of_rows length].
  - replace (y + Z.of_nat 0) with y by lia. destruct (cells_of_rows y r2) as [[c2 e2]|]; reflexivity.
  - destruct (escape_line y row) as [[esc un]|]; cbn [bind]; [|reflexivity].
    rewrite IH. replace (y + 1 + Z.of_nat (length more)) with (y + Z.of_nat (S (length more))) by lia.
    destruct (cells_of_rows (y + 1) more) as [[c1 e1]|]; cbn [bind]; [|reflexivity].
    destruct (cells_of_rows (y + Z.of_nat (S (length more))) r2) as [[c2 e2]|]; cbn [bind]; [|reflexivity].
    rewrite !app_assoc. reflexivity.
Qed.
Lemma cells_of_row_y_eq y row : forall x e, In e (cells_of_row y x row) -> cy (fst e) = y.
Proof.
  induction row as [|c t IH]; intros x e H; cbn [cells_of_row] in H; [destruct H|].
  destruct ((c =? 0) || is_whitespace c); [eapply IH; eauto|]. destruct H as [<-|H]; [reflexivity|eapply IH; eauto].
Qed.
Lemma cells_of_rows_range rows : forall y cells escs e, cells_of_rows y rows = Ok (cells, escs) -> In e cells ->
  y <= cy (fst e) < y + Z.of_nat (length rows).
Proof.
  induction rows as [|row more IH]; intros y cells escs e H Ie; cbn [cells_of_rows] in H; [inversion H; subst; destruct Ie|].
  destruct (escape_line y row) as [[esc un]|]; cbn [bind] in H; [|discriminate].
  destruct (cells_of_rows (y + 1) more) as [[cs es]|] eqn:E; cbn [bind] in H; [|discriminate]. inversion H; subst; clear H.
  cbn [length]. apply in_app_or in Ie. destruct Ie as [Ie|Ie].
  - apply cells_of_row_y_eq in Ie. lia.
  - specialize (IH (y + 1) cs es e E Ie). lia.
Qed.

(** ** a drawing stacked on another: [B], indented by [k] columns, [g] blank lines below [A] *)
Definition stacked (A B : list Z) (k g : nat) : list Z := A ++ 10 :: shift_text k g B.
Definition height (A : list Z) : Z := Z.of_nat (length (lines (A ++ [10]))).

Theorem cells_of_stack A B k g css cbA cbB :
  cellbuffer_of_text (A ++ [10]) css = Ok cbA -> cellbuffer_of_text B css = Ok cbB ->
  exists cb, cellbuffer_of_text (stacked A B k g) css = Ok cb
    /\ cb_cells cb = cb_cells cbA ++ map (shift_cc (Z.of_nat k) (height A + Z.of_nat g)) (cb_cells cbB)
    /\ cb_escaped cb = cb_escaped cbA ++ shift_cb_texts (Z.of_nat k) (height A + Z.of_nat g) (cb_escaped cbB).
Proof.
  unfold cellbuffer_of_text, stacked, string_buffer.
  destruct (cells_of_rows 0 (map row_of_line (lines (A ++ [10])))) as [[c1 e1]|] eqn:E1; cbn [bind]; [|discriminate].
  intros H1; inversion H1; subst; clear H1.
  pose proof (cellbuffer_of_text_shift k g B css) as SH. unfold cellbuffer_of_text, string_buffer in SH.
  destruct (cells_of_rows 0 (map row_of_line (lines B))) as [[c2 e2]|] eqn:E2; cbn [bind] in *; [|discriminate].
  intros H2; inversion H2; subst; clear H2.
  rewrite (lines_app A (shift_text k g B)), map_app, cells_of_rows_app, E1. rewrite map_length. fold (height A).
  (* the lower part starts at row [height A] instead of 0 *)
  assert (Y : forall rows y d, cells_of_rows (y + d) rows =
                match cells_of_rows y rows with Ok (cells, escs) => Ok (shift_cb_cells 0 d cells, shift_cb_texts 0 d escs) | Err e => Err e end).
  { intros rows y d. pose proof (cells_of_rows_shift 0 d rows y) as S0. cbn [spaces repeatZ] in S0.
    assert (M : map (app (@nil Z)) rows = rows) by (rewrite <- (map_id rows) at 2; apply map_ext; reflexivity). rewrite M in S0. exact S0. }
  rewrite (Y _ 0 (height A)).
  destruct (cells_of_rows 0 (map row_of_line (lines (shift_text k g B)))) as [[c3 e3]|] eqn:E3; cbn [bind] in SH; [|discriminate].
  inversion SH; subst; clear SH. cbn [bind]. eexists. split; [reflexivity|]. cbn [cb_cells cb_escaped]. split.
  - f_equal. unfold shift_cb_cells. rewrite map_map. apply map_ext. intros [c z]. unfold shift_cc, shift_cell; cbn. f_equal. f_equal; lia.
  - f_equal. unfold shift_cb_texts. rewrite map_map. apply map_ext. intros [c z]. unfold shift_cell; cbn. f_equal. f_equal; lia.
Qed.

(** ** what is recognised in the stack *)
Lemma stack_cells A B k g css cbA cbB cb : (1 <= g)%nat ->
  cellbuffer_of_text (A ++ [10]) css = Ok cbA -> cellbuffer_of_text B css = Ok cbB ->
  cellbuffer_of_text (stacked A B k g) css = Ok cb ->
  let upper := fun c => cy c <? height A in
  let mv := shift_cc (Z.of_nat k) (height A + Z.of_nat g) in
  filter (fun e => upper (fst e)) (cb_cells cb) = cb_cells cbA
  /\ filter (fun e => negb (upper (fst e))) (cb_cells cb) = map mv (cb_cells cbB)
  /\ separated upper (cb_cells cb)
  /\ cb_escaped cb = cb_escaped cbA ++ shift_cb_texts (Z.of_nat k) (height A + Z.of_nat g) (cb_escaped cbB).
Proof.
  intros G HA HB HAB upper mv.
  destruct (cells_of_stack A B k g css cbA cbB HA HB) as [cb' [H' [Cells Escs]]]. rewrite H' in HAB. inversion HAB; subst cb'; clear HAB.
  fold mv in Cells.
  assert (RA : forall e, In e (cb_cells cbA) -> 0 <= cy (fst e) < height A).
  { intros e Ie. unfold cellbuffer_of_text in HA. destruct (cells_of_rows 0 (string_buffer (A ++ [10]))) as [[c1 e1]|] eqn:E1; cbn [bind] in HA; [|discriminate].
    inversion HA; subst. cbn [cb_cells] in Ie. pose proof (cells_of_rows_range _ 0 c1 e1 e E1 Ie) as R. unfold string_buffer in R. rewrite map_length in R. unfold height. lia. }
  assert (RB : forall e, In e (cb_cells cbB) -> 0 <= cy (fst e)).
  { intros e Ie. unfold cellbuffer_of_text in HB. destruct (cells_of_rows 0 (string_buffer B)) as [[c1 e1]|] eqn:E1; cbn [bind] in HB; [|discriminate].
    inversion HB; subst. cbn [cb_cells] in Ie. pose proof (cells_of_rows_range _ 0 c1 e1 e E1 Ie) as R. lia. }
  assert (UA : Forall (fun e => upper (fst e) = true) (cb_cells cbA)).
  { apply Forall_forall. intros e Ie. unfold upper. apply Z.ltb_lt. apply RA; exact Ie. }
  assert (UB : Forall (fun e => upper (fst e) = false) (map mv (cb_cells cbB))).
  { apply Forall_forall. intros e Ie. apply in_map_iff in Ie. destruct Ie as [e0 [<- I0]]. unfold upper, mv, shift_cc, shift_cell; cbn [fst cy].
    apply Z.ltb_ge. specialize (RB e0 I0). lia. }
  split; [|split; [|split]].
  - rewrite Cells, filter_app, (filter_all _ true _ UA), (filter_all _ false _ UB). apply app_nil_r.
  - assert (LA : Forall (fun e => negb (upper (fst e)) = false) (cb_cells cbA)) by (eapply Forall_impl; [|exact UA]; cbn; intros e H; rewrite H; reflexivity).
    assert (LB : Forall (fun e => negb (upper (fst e)) = true) (map mv (cb_cells cbB))) by (eapply Forall_impl; [|exact UB]; cbn; intros e H; rewrite H; reflexivity).
    rewrite Cells, filter_app, (filter_all _ false _ LA), (filter_all _ true _ LB). reflexivity.
  - apply gap_row_separates. intros e Ie. rewrite Cells in Ie. apply in_app_or in Ie. destruct Ie as [Ie|Ie].
    + specialize (RA e Ie). lia.
    + apply in_map_iff in Ie. destruct Ie as [e0 [<- I0]]. specialize (RB e0 I0). unfold mv, shift_cc, shift_cell; cbn [fst cy]. lia.
  - exact Escs.
Qed.

Theorem stack_recognised_apart A B k g css cbA cbB cb acc groups : (1 <= g)%nat ->
  cellbuffer_of_text (A ++ [10]) css = Ok cbA -> cellbuffer_of_text B css = Ok cbB ->
  cellbuffer_of_text (stacked A B k g) css = Ok cb ->
  endorse_cells (cb_cells cb) = Ok (acc, groups) ->
  let upper := fun c => cy c <? height A in
  let lower := fun c => negb (cy c <? height A) in
  endorse_cells (cb_cells cbA) = Ok (filter (fsside upper) acc, filter (cside upper) groups)
  /\ map_res (shift_ec (Z.of_nat k) (height A + Z.of_nat g)) (endorse_cells (cb_cells cbB))
     = Ok (filter (fsside lower) acc, filter (cside lower) groups).
Proof.
  intros G HA HB HAB E upper lower.
  destruct (stack_cells A B k g css cbA cbB cb G HA HB HAB) as [FA [FB [Sep _]]]. fold upper in FA, FB, Sep.
  split.
  - rewrite <- FA. apply (endorse_cells_of_side upper); assumption.
  - rewrite <- (endorse_cells_shift (Z.of_nat k) (height A + Z.of_nat g)). rewrite <- FB.
    apply (endorse_cells_of_side lower); [apply separated_flip; exact Sep|exact E].
Qed.

(** the quoted texts of a row sit on that row *)
Lemma escape_segments_row y row : forall locs idx texts out, escape_segments y row locs idx = Ok (texts, out) -> Forall (fun e => cy (fst e) = y) texts.
Proof.
  induction locs as [|[s e] more IH]; intros idx texts out H; cbn [escape_segments] in H.
  - destruct (oslice (slice_from row idx)); cbn [bind] in H; inversion H; subst. constructor.
  - destruct (oslice (slice row (S s) e)) as [seg|]; cbn [bind] in H; [|discriminate].
    destruct (oslice (slice row idx s)) as [before|]; cbn [bind] in H; [|discriminate].
    destruct (escape_segments y row more (S e)) as [[t0 tl]|] eqn:E; cbn [bind] in H; [|discriminate].
    inversion H; subst. constructor; [reflexivity|]. eapply IH; eauto.
Qed.
Lemma escape_line_row y row texts out : escape_line y row = Ok (texts, out) -> Forall (fun e => cy (fst e) = y) texts.
Proof.
  unfold escape_line. destruct (line_parse row) as [locs|]; cbn [bind]; [|discriminate].
  destruct locs as [|l ls]; [intros H; inversion H; subst; constructor|]. apply escape_segments_row.
Qed.
Lemma cells_of_rows_esc_range rows : forall y cells escs e, cells_of_rows y rows = Ok (cells, escs) -> In e escs ->
  y <= cy (fst e) < y + Z.of_nat (length rows).
Proof.
  induction rows as [|row more IH]; intros y cells escs e H Ie; cbn [cells_of_rows] in H; [inversion H; subst; destruct Ie|].
  destruct (escape_line y row) as [[esc un]|] eqn:EL; cbn [bind] in H; [|discriminate].
  destruct (cells_of_rows (y + 1) more) as [[cs es]|] eqn:E; cbn [bind] in H; [|discriminate]. inversion H; subst; clear H.
  cbn [length]. apply in_app_or in Ie. destruct Ie as [Ie|Ie].
  - pose proof (escape_line_row _ _ _ _ EL) as F. rewrite Forall_forall in F. specialize (F e Ie). lia.
  - specialize (IH (y + 1) cs es e E Ie). lia.
Qed.
