(** * SepOrder: what the recognition of one group of cells returns is made of cells of that
    group (provenance), hence the accepted fragments of one part of a separated drawing are
    the accepted fragments of the whole that come from that part, in the same order (C10). *)
Require Import SB.Model.Base SB.Model.Unicode SB.Model.Geom SB.Model.Fragment SB.Model.Merge
  SB.Model.Property SB.Model.FragBuf SB.Model.Endorse SB.Theory.MergeTheory SB.Theory.EndorseTotal
  SB.Theory.ShiftBuf SB.Theory.SepTheory SB.Theory.PipeInv SB.Gen.CircleTables.

(** ** provenance *)
Definition from_cells (s : span) (f : fragspan) : Prop := fs_span f <> [] /\ incl (fs_span f) s.

Lemma span_bounds_nonempty (s : span) b : span_bounds s = Some b -> s <> [].
Proof. destruct s; [discriminate|discriminate]. Qed.
Lemma shapes_from_cells S s fs un : incl s S -> endorse_to_arcs_and_circles s = Ok (fs, un) -> Forall (from_cells S) fs.
Proof.
  intros Sub. unfold endorse_to_arcs_and_circles. destruct (span_bounds s) as [[tl br]|] eqn:B; [|discriminate].
  pose proof (span_bounds_nonempty s _ B) as N.
  assert (G : forall fr, Forall (from_cells S) [FS s fr]) by (intros fr; constructor; [split; assumption|constructor]).
  destruct (endorse_circle_span s) as [[c u]|]; [intros H; inversion H; subst; apply G|].
  destruct (endorse_arc_span three_arc_span s) as [[a u]|]; [intros H; inversion H; subst; apply G|].
  destruct (endorse_arc_span half_arc_span s) as [[a u]|]; [intros H; inversion H; subst; apply G|].
  destruct (endorse_arc_span quarter_arc_span s) as [[a u]|]; [intros H; inversion H; subst; apply G|].
  intros H; inversion H; subst. constructor.
Qed.

Theorem per_span_from_cells s acc cs : per_span s = Ok (acc, cs) ->
  Forall (from_cells s) acc /\ Forall (fun c => c <> [] /\ Forall (from_cells s) c) cs.
Proof.
  intros H. apply (per_span_R s (fun _ _ => True) (from_cells s)) with (s := s); auto.
  - intros e f Ie _. split; [discriminate|]. intros x [<-|[]]. exact Ie.
  - intros a b c M [Na Ia] [Nb Ib]. unfold fragspan_merge in M. destruct (fragment_merge (fs_frag a) (fs_frag b)); inversion M; subst; cbn.
    split; [destruct (fs_span a); [congruence|discriminate]|apply incl_app; assumption].
  - intros s' fs un Sub E. eapply shapes_from_cells; eauto.
  - intros c f Nc Fc _. unfold from_cells; cbn [fs_span]. destruct c as [|f0 t]; [congruence|]. inversion Fc as [|? ? [N0 I0] Ft]; subst. split.
    + unfold contacts_span; cbn [flat_map]. destruct (fs_span f0); [congruence|discriminate].
    + intros x Hx. unfold contacts_span in Hx. apply in_flat_map in Hx. destruct Hx as [g [Ig Hx]].
      rewrite Forall_forall in Fc. destruct (Fc g Ig) as [_ Sub]. apply Sub. exact Hx.
  - apply incl_refl.
Qed.

(** ** the side of a fragment and of a contact group *)
Section Order.
Variable inA : cell -> bool.
Definition fsside (f : fragspan) : bool := side inA (fs_span f).
Definition cside (c : contacts) : bool := match c with f :: _ => fsside f | [] => false end.

Lemma from_pure_side cells s f : pure_in inA cells s -> from_cells s f -> fsside f = side inA s.
Proof.
  intros [Ns Fs] [Nf If]. unfold fsside. destruct (fs_span f) as [|e t] eqn:E; [congruence|]. cbn [side].
  rewrite Forall_forall in Fs. destruct (Fs e (If e (or_introl eq_refl))) as [_ H]. exact H.
Qed.

Lemma filter_all {X} (p : X -> bool) b l : Forall (fun a => p a = b) l -> filter p l = if b then l else [].
Proof. induction 1 as [|a t Ha Ft IH]; cbn; [destruct b; reflexivity|]. rewrite Ha, IH. destruct b; reflexivity. Qed.

(** the results for the groups of one side, out of the results for all groups *)
Lemma mapM_side {X A B} (f : X -> res (list A * list B)) (P : X -> bool) (pa : A -> bool) (pb : B -> bool) l rs :
  (forall x y, In x l -> f x = Ok y -> Forall (fun a => pa a = P x) (fst y) /\ Forall (fun b => pb b = P x) (snd y)) ->
  mapM f l = Ok rs ->
  exists ra, mapM f (filter P l) = Ok ra /\ flat_map fst ra = filter pa (flat_map fst rs) /\ flat_map snd ra = filter pb (flat_map snd rs).
Proof.
  revert rs; induction l as [|x t IH]; cbn [mapM filter]; intros rs H E.
  - inversion E; subst. exists []. repeat split; reflexivity.
  - destruct (f x) as [y|] eqn:Fx; cbn [bind] in E; [|discriminate].
    destruct (mapM f t) as [ys|] eqn:Ft; cbn [bind] in E; [|discriminate]. inversion E; subst; clear E.
    destruct (IH ys (fun x' y' I' => H x' y' (or_intror I')) eq_refl) as [ra [Ha [H1 H2]]].
    destruct (H x y (or_introl eq_refl) Fx) as [Fa Fb]. cbn [flat_map]. rewrite !filter_app.
    rewrite (filter_all pa (P x) (fst y) Fa), (filter_all pb (P x) (snd y) Fb).
    destruct (P x) eqn:Px.
    + exists (y :: ra). cbn [mapM]. rewrite Fx, Ha; cbn [bind flat_map]. rewrite H1, H2. repeat split; reflexivity.
    + exists ra. rewrite Ha, H1, H2. repeat split; reflexivity.
Qed.

Lemma spans_pure cells r : separated inA cells -> spans_of_cells cells = Ok r -> Forall (pure_in inA cells) r.
Proof.
  intros Sep H. unfold spans_of_cells in H.
  eapply (merge_recursive_inv span_merge (pure_in inA cells) (pure_merge inA cells Sep)); [exact H|apply singletons_pure].
Qed.
Lemma filter_comm {X} (p q : X -> bool) l : filter p (filter q l) = filter q (filter p l).
Proof. induction l as [|x t IH]; cbn; [reflexivity|]. destruct (p x) eqn:Px, (q x) eqn:Qx; cbn; rewrite ?Px, ?Qx, IH; reflexivity. Qed.
Lemma singles_side (cs : list contacts) :
  concat (filter (fun c => Nat.eqb (length c) 1) (filter cside cs)) = filter fsside (concat (filter (fun c => Nat.eqb (length c) 1) cs)).
Proof.
  induction cs as [|c t IH]; cbn [filter concat]; [reflexivity|].
  destruct c as [|f [|g u]]; cbn [cside length Nat.eqb].
  - exact IH.
  - destruct (fsside f) eqn:F; cbn [filter length Nat.eqb concat app]; rewrite ?F, IH; reflexivity.
  - destruct (fsside f); cbn [filter length Nat.eqb]; exact IH.
Qed.

(** C10 at the recognition stage, with order: the fragments accepted for one part of a
    separated drawing, and its contact groups, are those of the whole drawing that come from
    cells of that part, in the same order *)
Theorem endorse_cells_of_side cells acc groups : separated inA cells ->
  endorse_cells cells = Ok (acc, groups) ->
  endorse_cells (filter (fun e => inA (fst e)) cells) = Ok (filter fsside acc, filter cside groups).
Proof.
  intros Sep H. rewrite endorse_cells_eq in H.
  destruct (spans_of_cells cells) as [r|] eqn:Sp; cbn [bind] in H; [|discriminate].
  destruct (mapM per_span r) as [rs|] eqn:Mp; cbn [bind] in H; [|discriminate].
  assert (HH : assemble rs = (acc, groups)) by congruence. clear H.
  pose proof (spans_pure cells r Sep Sp) as Pu. rewrite Forall_forall in Pu.
  destruct (mapM_side per_span (side inA) fsside cside r rs) as [ra [Ha [H1 H2]]]; [|exact Mp|].
  { intros s [a c] Is Es. cbn [fst snd]. destruct (per_span_from_cells s a c Es) as [Fa Fc]. split.
    - eapply Forall_impl; [|exact Fa]. intros f Hf. eapply from_pure_side; eauto.
    - eapply Forall_impl; [|exact Fc]. intros g [Ng Fg]. destruct g as [|f0 t]; [congruence|]. cbn [cside].
      inversion Fg; subst. eapply from_pure_side; eauto. }
  rewrite endorse_cells_eq. pose proof (spans_of_side inA cells Sep) as SA. rewrite Sp in SA; cbn [map_res] in SA.
  rewrite SA; cbn [bind]. rewrite Ha; cbn [bind]. f_equal.
  unfold assemble in *. rewrite H1, H2. inversion HH; subst; clear HH. f_equal.
  - rewrite filter_app. f_equal. apply singles_side.
  - apply filter_comm.
Qed.
End Order.

(** provenance for a whole drawing: every accepted fragment and every fragment of a contact
    group is made of cells of the drawing, and of at least one *)
Theorem endorse_cells_from_cells cells acc groups : endorse_cells cells = Ok (acc, groups) ->
  Forall (from_cells cells) acc /\ Forall (Forall (from_cells cells)) groups.
Proof.
  apply (endorse_cells_R cells (fun _ _ => True) (from_cells cells)); auto.
  - intros e f Ie _. split; [discriminate|]. intros x [<-|[]]. exact Ie.
  - intros a b c M [Na Ia] [Nb Ib]. unfold fragspan_merge in M. destruct (fragment_merge (fs_frag a) (fs_frag b)); inversion M; subst; cbn.
    split; [destruct (fs_span a); [congruence|discriminate]|apply incl_app; assumption].
  - intros s' fs un Sub E. eapply shapes_from_cells; eauto.
  - intros c f Nc Fc _. unfold from_cells; cbn [fs_span]. destruct c as [|f0 t]; [congruence|]. inversion Fc as [|? ? [N0 I0] Ft]; subst. split.
    + unfold contacts_span; cbn [flat_map]. destruct (fs_span f0); [congruence|discriminate].
    + intros x Hx. unfold contacts_span in Hx. apply in_flat_map in Hx. destruct Hx as [g [Ig Hx]].
      rewrite Forall_forall in Fc. destruct (Fc g Ig) as [_ Sub]. apply Sub. exact Hx.
Qed.
