(** * Parts: a drawing whose cells fall into two separated parts is drawn as the two parts
    (C10, from the cell map to the nodes of the document; generic form).
    Given a classifier of fragments [pA] and two predicates that place the fragments of the
    first part and those of the second part (moved) so that none of one part can fit in the
    bounds of one of the other, the drawing nodes of the whole are a permutation of the nodes
    of the first part and the nodes of the second part, moved. *)
Require Import SB.Model.Base SB.Model.Unicode SB.Model.Geom SB.Model.Fragment SB.Model.Merge SB.Model.Text
  SB.Model.Property SB.Model.FragBuf SB.Model.Endorse SB.Model.Tree SB.Model.Svg SB.Model.Lib
  SB.Theory.MergeTheory SB.Theory.EndorseTotal SB.Theory.Total
  SB.Theory.ShiftTheory SB.Theory.ShiftFrag SB.Theory.ShiftBuf SB.Theory.ShiftEndorse SB.Theory.ShiftText SB.Theory.ShiftDoc
  SB.Theory.SwitchTheory SB.Theory.SepTheory SB.Theory.PipeInv SB.Theory.SepOrder SB.Theory.TreeSep SB.Theory.StackDoc.
From Coq Require Import Permutation QArith String.
#[local] Open Scope Z_scope.

(** the fragments handed to the enclosure pass and the contact groups, from cells and quoted texts *)
Definition frags_of (cells : span) (escs : list (cell * list Z)) : res (list fragment * list (list fragment)) :=
  do r <- endorse_cells cells;
  Ok (map fs_frag (fst r) ++ map escf escs, map (map fs_frag) (snd r)).
Lemma fragments_of_frags cb : fragments_of cb = frags_of (cb_cells cb) (cb_escaped cb).
Proof. unfold fragments_of, frags_of. destruct (endorse_cells (cb_cells cb)) as [[a g]|]; reflexivity. Qed.

Section Parts.
Variables (cells cellsA cellsB : span) (escsA escsB : list (cell * list Z)) (kz nz : Z) (inA : cell -> bool).
Variables (isA isB : fragment -> Prop) (pA : fragment -> bool).
Hypothesis Sep : separated inA cells.
Hypothesis FA : filter (fun e => inA (fst e)) cells = cellsA.
Hypothesis FB : filter (fun e => negb (inA (fst e))) cells = map (shift_cc kz nz) cellsB.
Hypothesis PA1 : forall f, isA f -> pA f = true.
Hypothesis PB1 : forall f, isB f -> pA f = false.
Hypothesis NF : forall f h, (isA f \/ isB f) -> (isA h \/ isB h) -> pA f <> pA h -> can_fit f h = false.
Hypothesis AccA : forall acc groups, endorse_cells cellsA = Ok (acc, groups) -> Forall (fun f => isA (fs_frag f)) acc.
Hypothesis AccB : forall acc groups, endorse_cells cellsB = Ok (acc, groups) -> Forall (fun f => isB (fs_frag (shift_fs kz nz f))) acc.
Hypothesis EscA : forall e, In e escsA -> isA (escf e).
Hypothesis EscB : forall e, In e escsB -> isB (escf (shift_cell kz nz (fst e), snd e)).

Let notA := fun c : cell => negb (inA c).

Theorem parts_drawing (s : Q) :
  let dx := (inject_Z kz * s)%Q in
  let dy := (inject_Z nz * s * 2)%Q in
  exists fA gA fB gB fAB gAB nA nB nAB,
    frags_of cellsA escsA = Ok (fA, gA) /\ frags_of cellsB escsB = Ok (fB, gB)
    /\ frags_of cells (escsA ++ shift_cb_texts kz nz escsB) = Ok (fAB, gAB)
    /\ drawing_nodes s fA gA = Ok nA /\ drawing_nodes s fB gB = Ok nB /\ drawing_nodes s fAB gAB = Ok nAB
    /\ Permutation nAB (nA ++ map (tr_node dx dy) nB).
Proof.
  intros dx dy.
  destruct (endorse_cells_ok cells) as [[acc groups] E].
  destruct (endorse_cells_ok cellsA) as [[accA grpA] EA].
  destruct (endorse_cells_ok cellsB) as [[accB grpB] EB].
  (* the accepted fragments of the parts, with order *)
  pose proof (endorse_cells_of_side inA cells acc groups Sep E) as SA. rewrite FA, EA in SA. inversion SA as [[SA1 SA2]]. clear SA.
  pose proof (endorse_cells_of_side notA cells acc groups (separated_flip inA cells Sep) E) as SB.
  assert (SB' : endorse_cells (map (shift_cc kz nz) cellsB) = Ok (filter (fsside notA) acc, filter (cside notA) groups)) by (rewrite <- FB; exact SB).
  rewrite (endorse_cells_shift kz nz cellsB), EB in SB'. cbn [map_res shift_ec fst snd] in SB'. inversion SB' as [[SB1 SB2]]. clear SB SB'.
  (* the groups, as a multiset *)
  destruct (endorse_cells_separated inA cells acc groups Sep E) as [a1 [g1 [a2 [g2 [S1 [S2 [_ PG]]]]]]].
  assert (S1' : endorse_cells cellsA = Ok (a1, g1)) by (rewrite <- FA; exact S1).
  rewrite EA in S1'. inversion S1'; subst a1 g1; clear S1 S1'.
  assert (S2' : endorse_cells (map (shift_cc kz nz) cellsB) = Ok (a2, g2)) by (rewrite <- FB; exact S2).
  rewrite (endorse_cells_shift kz nz cellsB), EB in S2'. cbn [map_res shift_ec fst snd] in S2'. inversion S2'; subst a2 g2; clear S2 S2'.
  (* where the accepted fragments are *)
  pose proof (AccA accA grpA EA) as UA. pose proof (AccB accB grpB EB) as LB.
  destruct (endorse_cells_from_cells cells acc groups E) as [Prov _].
  assert (Cls : forall x, In x acc -> (fsside inA x = true /\ isA (fs_frag x)) \/ (fsside inA x = false /\ isB (fs_frag x))).
  { intros x Ix. rewrite Forall_forall in Prov. destruct (Prov x Ix) as [Nx _].
    destruct (fsside inA x) eqn:Sx.
    - left. split; [reflexivity|]. assert (In x accA) by (rewrite SA1; apply filter_In; split; assumption).
      rewrite Forall_forall in UA. apply UA. assumption.
    - right. split; [reflexivity|]. assert (Il : In x (map (shift_fs kz nz) accB)).
      { rewrite SB1. apply filter_In. split; [exact Ix|]. unfold fsside in *.
        transitivity (negb (side inA (fs_span x))); [exact (side_flip inA (fs_span x) Nx)|rewrite Sx; reflexivity]. }
      apply in_map_iff in Il. destruct Il as [x0 [<- I0]]. rewrite Forall_forall in LB. apply LB. exact I0. }
  set (fA := map fs_frag accA ++ map escf escsA).
  set (fB := map fs_frag accB ++ map escf escsB).
  set (fAB := map fs_frag acc ++ map escf (escsA ++ shift_cb_texts kz nz escsB)).
  assert (FrA : frags_of cellsA escsA = Ok (fA, map (map fs_frag) grpA)) by (unfold frags_of; rewrite EA; reflexivity).
  assert (FrB : frags_of cellsB escsB = Ok (fB, map (map fs_frag) grpB)) by (unfold frags_of; rewrite EB; reflexivity).
  assert (FrAB : frags_of cells (escsA ++ shift_cb_texts kz nz escsB) = Ok (fAB, map (map fs_frag) groups)) by (unfold frags_of; rewrite E; reflexivity).
  assert (EscShift : map escf (shift_cb_texts kz nz escsB) = map (shift_frag kz nz) (map escf escsB)).
  { unfold shift_cb_texts, escf. rewrite !map_map. apply map_ext. intros e. rewrite (escaped_shift_z kz nz e). reflexivity. }
  assert (Up : filter pA fAB = fA).
  { unfold fAB, fA. rewrite filter_app, map_app, filter_app. f_equal.
    - rewrite (filter_map_commute fs_frag pA (fsside inA) acc), <- SA1; [reflexivity|].
      intros x Ix. destruct (Cls x Ix) as [[-> Hu]|[-> Hl]]; [apply PA1; exact Hu|apply PB1; exact Hl].
    - rewrite (filter_all pA true), (filter_all pA false); [apply app_nil_r| |].
      + apply Forall_forall. intros f Hf. apply in_map_iff in Hf. destruct Hf as [e [<- Ie]]. unfold shift_cb_texts in Ie. apply in_map_iff in Ie. destruct Ie as [e0 [<- I0]].
        apply PB1. apply (EscB e0 I0).
      + apply Forall_forall. intros f Hf. apply in_map_iff in Hf. destruct Hf as [e [<- Ie]]. apply PA1. apply EscA. exact Ie. }
  assert (Lo : filter (fun f => negb (pA f)) fAB = map (shift_frag kz nz) fB).
  { unfold fAB, fB. rewrite filter_app, map_app, filter_app, map_app. f_equal.
    - rewrite (filter_map_commute fs_frag (fun f => negb (pA f)) (fsside notA) acc).
      + rewrite <- SB1, !map_map. reflexivity.
      + intros x Ix. rewrite Forall_forall in Prov. destruct (Prov x Ix) as [Nx _].
        transitivity (negb (fsside inA x)); [|symmetry; exact (side_flip inA (fs_span x) Nx)].
        destruct (Cls x Ix) as [[-> Hu]|[-> Hl]]; [rewrite (PA1 _ Hu)|rewrite (PB1 _ Hl)]; reflexivity.
    - rewrite (filter_all (fun f => negb (pA f)) false), (filter_all (fun f => negb (pA f)) true); [rewrite EscShift; reflexivity| |].
      + apply Forall_forall. intros f Hf. apply in_map_iff in Hf. destruct Hf as [e [<- Ie]]. unfold shift_cb_texts in Ie. apply in_map_iff in Ie. destruct Ie as [e0 [<- I0]].
        rewrite (PB1 _ (EscB e0 I0)). reflexivity.
      + apply Forall_forall. intros f Hf. apply in_map_iff in Hf. destruct Hf as [e [<- Ie]]. rewrite (PA1 _ (EscA e Ie)). reflexivity. }
  assert (Placed : forall f, In f fAB -> isA f \/ isB f).
  { intros f Hf. unfold fAB in Hf. apply in_app_or in Hf. destruct Hf as [Hf|Hf].
    - apply in_map_iff in Hf. destruct Hf as [x [<- Ix]]. destruct (Cls x Ix) as [[_ H]|[_ H]]; auto.
    - rewrite map_app in Hf. apply in_app_or in Hf. destruct Hf as [Hf|Hf]; apply in_map_iff in Hf; destruct Hf as [e [<- Ie]].
      + left. apply EscA. exact Ie.
      + right. unfold shift_cb_texts in Ie. apply in_map_iff in Ie. destruct Ie as [e0 [<- I0]]. apply (EscB e0 I0). }
  destruct (fragment_nodes_ok s fAB) as [nsAB NAB].
  destruct (fragment_nodes_separated pA s fAB nsAB (fun f h If Ih D => NF f h (Placed f If) (Placed h Ih) D) NAB) as [na [nb [Na [Nb Pn]]]].
  rewrite Up in Na. rewrite Lo in Nb.
  assert (WfB : Forall wf_frag fB).
  { unfold fB. apply Forall_app; split; apply Forall_forall; intros x Hx; apply in_map_iff in Hx; destruct Hx as [y [<- Hy]].
    - destruct (endorse_cells_wf _ _ _ EB) as [W _]. rewrite Forall_forall in W. apply W; exact Hy.
    - destruct y; exact I. }
  rewrite (fragment_nodes_shift kz nz s fB WfB) in Nb. destruct (fragment_nodes s fB) as [nb0|] eqn:NB0; [|discriminate]. inversion Nb; subst nb; clear Nb.
  fold dx dy in Pn.
  assert (GrShift : map (gnode s) (map (map fs_frag) (map (shift_contacts kz nz) grpB)) = map (tr_node dx dy) (map (gnode s) (map (map fs_frag) grpB))).
  { rewrite !map_map. apply map_ext. intros c. unfold gnode, shift_contacts. cbn [tr_node map]. f_equal. rewrite !map_map. apply map_ext. intros x.
    unfold shift_fs; cbn [fs_frag]. apply fragment_node_shift. }
  exists fA, (map (map fs_frag) grpA), fB, (map (map fs_frag) grpB), fAB, (map (map fs_frag) groups).
  exists (na ++ map (gnode s) (map (map fs_frag) grpA)), (nb0 ++ map (gnode s) (map (map fs_frag) grpB)), (nsAB ++ map (gnode s) (map (map fs_frag) groups)).
  repeat split; try assumption.
  - unfold drawing_nodes. rewrite Na. reflexivity.
  - unfold drawing_nodes. rewrite NB0. reflexivity.
  - unfold drawing_nodes. rewrite NAB. reflexivity.
  - rewrite map_app, <- GrShift.
    assert (PGn : Permutation (map (gnode s) (map (map fs_frag) groups))
                    (map (gnode s) (map (map fs_frag) grpA) ++ map (gnode s) (map (map fs_frag) (map (shift_contacts kz nz) grpB)))).
    { rewrite <- !map_app. apply Permutation_map, Permutation_map. exact PG. }
    eapply Permutation_trans; [apply Permutation_app; [exact Pn|exact PGn]|].
    rewrite <- !app_assoc. apply Permutation_app_head. rewrite !app_assoc. apply Permutation_app_tail. apply Permutation_app_comm.
Qed.
End Parts.
