(** * Utf8: decoding inverts encoding on scalar values (C20). *)
Require Import SB.Model.Base SB.Model.Server.
From Coq Require Import List.
Import ListNotations.
#[global] Open Scope Z_scope.

Ltac Zify.zify_post_hook ::= Z.div_mod_to_equations.

Lemma decode_encode_char c rest : is_scalar c = true -> utf8_decode_char (utf8_encode_char c ++ rest) = Some (c, rest).
Proof.
  unfold is_scalar. rewrite orb_true_iff, !andb_true_iff, !Z.leb_le. intros Hs.
  unfold utf8_encode_char.
  destruct (Z.ltb_spec c 128).
  - cbn [app utf8_decode_char]. destruct (Z.leb_spec 0 c); [|lia]. destruct (Z.ltb_spec c 128); [|lia]. reflexivity.
  - destruct (Z.ltb_spec c 2048).
    + cbn [app utf8_decode_char].
      assert (B0 : 194 <= 192 + c / 64 <= 223) by lia. assert (B1 : 128 <= 128 + c mod 64 <= 191) by lia.
      destruct (Z.leb_spec 0 (192 + c / 64)); [|lia]. destruct (Z.ltb_spec (192 + c / 64) 128); [lia|]. cbn [andb].
      destruct (Z.leb_spec 194 (192 + c / 64)); [|lia]. destruct (Z.leb_spec (192 + c / 64) 223); [|lia]. cbn [andb].
      unfold cont. destruct (Z.leb_spec 128 (128 + c mod 64)); [|lia]. destruct (Z.leb_spec (128 + c mod 64) 191); [|lia]. cbn [andb].
      f_equal. f_equal. lia.
    + destruct (Z.ltb_spec c 65536).
      * cbn [app utf8_decode_char].
        set (b0 := 224 + c / 4096). set (b1 := 128 + (c / 64) mod 64). set (b2 := 128 + c mod 64).
        assert (B0 : 224 <= b0 <= 239) by (unfold b0; lia). assert (B1 : 128 <= b1 <= 191) by (unfold b1; lia). assert (B2 : 128 <= b2 <= 191) by (unfold b2; lia).
        assert (V : (b0 - 224) * 4096 + (b1 - 128) * 64 + (b2 - 128) = c) by (unfold b0, b1, b2; lia).
        destruct (Z.leb_spec 0 b0); [|lia]. destruct (Z.ltb_spec b0 128); [lia|]. cbn [andb].
        destruct (Z.leb_spec 194 b0); [|lia]. destruct (Z.leb_spec b0 223); [lia|]. cbn [andb].
        destruct (Z.leb_spec 224 b0); [|lia]. destruct (Z.leb_spec b0 239); [|lia]. cbn [andb].
        rewrite V. unfold cont.
        destruct (Z.leb_spec 128 b1); [|lia]. destruct (Z.leb_spec b1 191); [|lia].
        destruct (Z.leb_spec 128 b2); [|lia]. destruct (Z.leb_spec b2 191); [|lia]. cbn [andb].
        destruct (Z.leb_spec 2048 c); [|lia]. cbn [andb].
        destruct (Z.leb_spec 55296 c); destruct (Z.leb_spec c 57343); cbn [andb negb]; try reflexivity. lia.
      * cbn [app utf8_decode_char].
        set (b0 := 240 + c / 262144). set (b1 := 128 + (c / 4096) mod 64). set (b2 := 128 + (c / 64) mod 64). set (b3 := 128 + c mod 64).
        assert (B0 : 240 <= b0 <= 244) by (unfold b0; lia). assert (B1 : 128 <= b1 <= 191) by (unfold b1; lia).
        assert (B2 : 128 <= b2 <= 191) by (unfold b2; lia). assert (B3 : 128 <= b3 <= 191) by (unfold b3; lia).
        assert (V : (b0 - 240) * 262144 + (b1 - 128) * 4096 + (b2 - 128) * 64 + (b3 - 128) = c) by (unfold b0, b1, b2, b3; lia).
        destruct (Z.leb_spec 0 b0); [|lia]. destruct (Z.ltb_spec b0 128); [lia|]. cbn [andb].
        destruct (Z.leb_spec 194 b0); [|lia]. destruct (Z.leb_spec b0 223); [lia|]. cbn [andb].
        destruct (Z.leb_spec 224 b0); [|lia]. destruct (Z.leb_spec b0 239); [lia|]. cbn [andb].
        destruct (Z.leb_spec 240 b0); [|lia]. destruct (Z.leb_spec b0 244); [|lia]. cbn [andb].
        rewrite V. unfold cont.
        destruct (Z.leb_spec 128 b1); [|lia]. destruct (Z.leb_spec b1 191); [|lia].
        destruct (Z.leb_spec 128 b2); [|lia]. destruct (Z.leb_spec b2 191); [|lia].
        destruct (Z.leb_spec 128 b3); [|lia]. destruct (Z.leb_spec b3 191); [|lia]. cbn [andb].
        destruct (Z.leb_spec 65536 c); [|lia]. destruct (Z.leb_spec c 1114111); [|lia]. reflexivity.
Qed.

Lemma encode_char_nonempty c : utf8_encode_char c <> [].
Proof. unfold utf8_encode_char. destruct (c <? 128), (c <? 2048), (c <? 65536); discriminate. Qed.

Lemma decode_fuel_encode s : Forall (fun c => is_scalar c = true) s -> forall fuel, (length (utf8_encode s) <= fuel)%nat ->
  utf8_decode_fuel fuel (utf8_encode s) = Some s.
Proof.
  induction 1 as [|c t Hc Ft IH]; intros fuel L; [destruct fuel; reflexivity|].
  unfold utf8_encode in *. cbn [flat_map] in *. rewrite app_length in L.
  destruct (utf8_encode_char c ++ flat_map utf8_encode_char t) as [|b r] eqn:E.
  - apply app_eq_nil in E. destruct E as [E _]. exfalso. exact (encode_char_nonempty c E).
  - destruct fuel as [|f].
    + assert (length (utf8_encode_char c) > 0)%nat by (pose proof (encode_char_nonempty c); destruct (utf8_encode_char c); [congruence|cbn; lia]). lia.
    + cbn [utf8_decode_fuel]. rewrite <- E. rewrite (decode_encode_char c _ Hc). rewrite IH; [reflexivity|].
      assert (length (utf8_encode_char c) > 0)%nat by (pose proof (encode_char_nonempty c); destruct (utf8_encode_char c); [congruence|cbn; lia]). lia.
Qed.

Theorem decode_encode s : Forall (fun c => is_scalar c = true) s -> utf8_decode (utf8_encode s) = Some s.
Proof. intros H. unfold utf8_decode. apply decode_fuel_encode; [exact H|lia]. Qed.
