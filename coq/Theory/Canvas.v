(** * Canvas: everything recognised from the cell map lies inside the canvas (C12).
    The canvas computed from the cell map is [(X + 2) * CW] by [(Y + 2) * CH] ticks, [X], [Y] the
    largest occupied column and row.  A sound box is attached to every fragment: its [bounds]
    and, for an arc, also the box of ExtentTheory around its bulge.  The table sweeps say how
    far a table fragment reaches from its own cell, and to the left or above only if it has a
    neighbour there; merging stays in the hull of what is merged; a recognised rectangle is
    the bounding box of its group; a recognised circle or arc lies within the cells of its
    group.  PipeInv carries this through the pipeline. *)
Require Import SB.Model.Base SB.Model.Unicode SB.Model.Geom SB.Model.Fragment SB.Model.Merge
  SB.Model.Property SB.Model.FragBuf SB.Model.Endorse SB.Theory.MergeTheory SB.Theory.EndorseTotal
  SB.Theory.ShiftTheory SB.Theory.ShiftFrag SB.Theory.ShiftBuf SB.Theory.ShiftEndorse
  SB.Theory.ExtentTheory SB.Theory.OrderTheory SB.Theory.FragInv SB.Theory.SepTheory SB.Theory.PipeInv SB.Theory.SepOrder
  SB.Gen.AsciiMap SB.Gen.UnicodeMap SB.Gen.CircleTables.

Definition box := (Z * Z * Z * Z)%type.
Definition bbox (f : fragment) : box := let '(lo, hi) := bounds f in (px lo, py lo, px hi, py hi).
Definition shiftbox (dx dy : Z) (b : box) : box := let '(x0, y0, x1, y1) := b in (x0 + dx, y0 + dy, x1 + dx, y1 + dy).
Definition box_in (inner outer : box) : Prop :=
  let '(x0, y0, x1, y1) := inner in let '(u0, v0, u1, v1) := outer in u0 <= x0 /\ v0 <= y0 /\ x1 <= u1 /\ y1 <= v1.

(** ** boxes under positioning *)
Lemma abs_origin f : wf_frag f -> bounds (fragment_abs (C 0 0) f) = bounds f.
Proof.
  assert (E : forall p, cell_abs (C 0 0) p = p) by (intros [x y]; reflexivity).
  destruct f; cbn [fragment_abs bounds]; unfold line_abs; cbn [lstart lend mlline ccenter cradius astart aend rstart rend]; rewrite ?E; auto.
  - intros W. unfold polygon_bounds; cbn [ppoints]. rewrite (map_ext _ (fun p => p) E), map_id. reflexivity.
  - intros _. destruct t as [[x y] s]; cbn. unfold celltext_last_cell, cell_add; cbn [ctstart ctcontent cx cy]. rewrite !Z.add_0_r. reflexivity.
Qed.
Lemma abs_as_shift c f : fragment_abs c f = shift_frag (cx c) (cy c) (fragment_abs (C 0 0) f).
Proof.
  rewrite <- (fragment_abs_shift (cx c) (cy c) (C 0 0) f). unfold shift_cell; cbn [cx cy]. destruct c as [x y]; reflexivity.
Qed.
Lemma bbox_abs c f : wf_frag f -> bbox (fragment_abs c f) = shiftbox (cx c * CW) (cy c * CH) (bbox f).
Proof.
  intros W. unfold bbox. rewrite abs_as_shift, (bounds_shift (cx c) (cy c) _ (abs_wf (C 0 0) f W)), (abs_origin f W).
  destruct (bounds f) as [lo hi]; cbn [fst snd]. unfold shift_point, shiftbox; cbn [px py]. reflexivity.
Qed.

Ltac tuple_lia := repeat match goal with |- (_, _) = (_, _) => f_equal end; lia.
Lemma arc_extent_shift (t : point) a :
  arc_extent (Arc (padd t (astart a)) (padd t (aend a)) (aradius a) (amajor a) (asweep a)) = shiftbox (px t) (py t) (arc_extent a).
Proof.
  destruct a as [[sx sy] [ex ey] r mj sw]. destruct t as [tx ty]. unfold arc_extent, sagitta2_ub, dist_sq, seg_bounds, padd, shiftbox.
  cbn [astart aend aradius amajor asweep px py fst snd].
  replace (tx + ex - (tx + sx)) with (ex - sx) by lia. replace (ty + ey - (ty + sy)) with (ey - sy) by lia.
  replace (tx + sx - (tx + ex)) with (sx - ex) by lia. replace (ty + sy - (ty + ey)) with (sy - ey) by lia.
  rewrite !Z.add_min_distr_l, !Z.add_max_distr_l.
  destruct mj.
  - destruct ((Z.abs (ex - sx) =? r) && (Z.abs (ey - sy) =? r)).
    + destruct (Bool.eqb (negb sw) (0 <? (ex - sx) * (ey - sy))); tuple_lia.
    + tuple_lia.
  - destruct (4 * r * r <? (sx - ex) * (sx - ex) + (sy - ey) * (sy - ey)).
    + replace (tx + Z.min sx ex + (tx + Z.max sx ex)) with (Z.min sx ex + Z.max sx ex + tx * 2) by lia.
      replace (ty + Z.min sy ey + (ty + Z.max sy ey)) with (Z.min sy ey + Z.max sy ey + ty * 2) by lia.
      rewrite !Z.div_add by lia. tuple_lia.
    + repeat match goal with |- context [if ?b then _ else _] => destruct b end; tuple_lia.
Qed.
Lemma extent_abs c f : wf_frag f -> extent (fragment_abs c f) = shiftbox (cx c * CW) (cy c * CH) (extent f).
Proof.
  intros W. destruct f; try (change (extent (fragment_abs c ?g)) with (bbox (fragment_abs c g)); rewrite (bbox_abs c _ W); reflexivity).
  cbn [fragment_abs extent]. unfold cell_abs. rewrite (arc_extent_shift (top_left_most c) a). reflexivity.
Qed.

(** ** the box of a fragment: its bounds together with, for an arc, the box around its bulge *)
Definition hull (a b : box) : box :=
  let '(x0, y0, x1, y1) := a in let '(u0, v0, u1, v1) := b in (Z.min x0 u0, Z.min y0 v0, Z.max x1 u1, Z.max y1 v1).
Definition fbox (f : fragment) : box := hull (bbox f) (extent f).
Definition within (B : box) (f : fragment) : Prop := box_in (fbox f) B.

Lemma hull_shift dx dy a b : hull (shiftbox dx dy a) (shiftbox dx dy b) = shiftbox dx dy (hull a b).
Proof. destruct a as [[[x0 y0] x1] y1], b as [[[u0 v0] u1] v1]. unfold hull, shiftbox. rewrite !Z.add_min_distr_r, !Z.add_max_distr_r. reflexivity. Qed.
Lemma fbox_abs c f : wf_frag f -> fbox (fragment_abs c f) = shiftbox (cx c * CW) (cy c * CH) (fbox f).
Proof. intros W. unfold fbox. rewrite (bbox_abs c f W), (extent_abs c f W). apply hull_shift. Qed.
Lemma box_in_hull a b B : box_in a B -> box_in b B -> box_in (hull a b) B.
Proof. destruct a as [[[x0 y0] x1] y1], b as [[[u0 v0] u1] v1], B as [[[p0 q0] p1] q1]. unfold box_in, hull. lia. Qed.
Lemma fbox_plain f : (match f with FArc _ => False | _ => True end) -> fbox f = bbox f.
Proof.
  intros N. unfold fbox. assert (E : extent f = bbox f) by (destruct f; try reflexivity; destruct N). rewrite E.
  destruct (bbox f) as [[[x0 y0] x1] y1]. unfold hull. rewrite !Z.min_id, !Z.max_id. reflexivity.
Qed.
Lemma box_in_shift dx dy a B : box_in a (shiftbox (- dx) (- dy) B) -> box_in (shiftbox dx dy a) B.
Proof. destruct a as [[[x0 y0] x1] y1], B as [[[p0 q0] p1] q1]. unfold box_in, shiftbox. lia. Qed.

(** a point inside a box *)
Definition pt_in (p : point) (B : box) : Prop := let '(u0, v0, u1, v1) := B in u0 <= px p <= u1 /\ v0 <= py p <= v1.
Lemma seg_in a b B : pt_in a B -> pt_in b B -> box_in (let '(lo, hi) := seg_bounds a b in (px lo, py lo, px hi, py hi)) B.
Proof. destruct B as [[[p0 q0] p1] q1]. unfold pt_in, seg_bounds, box_in; cbn [px py]. lia. Qed.
Lemma seg_pts a b B : box_in (let '(lo, hi) := seg_bounds a b in (px lo, py lo, px hi, py hi)) B -> pt_in a B /\ pt_in b B.
Proof. destruct B as [[[p0 q0] p1] q1]. unfold pt_in, seg_bounds, box_in; cbn [px py]. lia. Qed.

(** ** merging stays inside any box that holds what is merged *)
Lemma point_min_cases a b : point_min a b = a \/ point_min a b = b.
Proof. unfold point_min. destruct (is_lt (point_cmp b a)); auto. Qed.
Lemma point_max_cases a b : point_max a b = a \/ point_max a b = b.
Proof. unfold point_max. destruct (is_lt (point_cmp b a)); auto. Qed.
Lemma mk_line_ends a b br : (lstart (mk_line a b br) = a /\ lend (mk_line a b br) = b) \/ (lstart (mk_line a b br) = b /\ lend (mk_line a b br) = a).
Proof. unfold mk_line. destruct (is_lt (point_cmp b a)); cbn; auto. Qed.

Lemma text_columns_acc s : forall a, fold_left (fun acc c => if c =? 0 then acc else acc + char_cols c) s a = a + text_columns s.
Proof.
  unfold text_columns. induction s as [|c t IH]; intros a; cbn [fold_left]; [lia|].
  rewrite (IH (if c =? 0 then a else a + char_cols c)), (IH (if c =? 0 then 0 else 0 + char_cols c)). destruct (c =? 0); lia.
Qed.
Lemma text_columns_app a b : text_columns (a ++ b) = text_columns a + text_columns b.
Proof. unfold text_columns at 1. rewrite fold_left_app. fold (text_columns a). apply text_columns_acc. Qed.

(** circles have a non-negative radius (T1 sweep below for the tables) *)
Definition radius_ok (f : fragment) : Prop := match f with FCircle c => 0 <= cradius c | _ => True end.
Lemma merge_radius_ok a b c : fragment_merge a b = Some c -> radius_ok c.
Proof.
  destruct a, b; cbn [fragment_merge]; try discriminate.
  - destruct (line_merge l l0); cbn; intros H; inversion H; exact I.
  - unfold merge_circle. destruct (_ && _); intros H; inversion H; exact I.
  - unfold merge_circle. destruct (_ && _); intros H; inversion H; exact I.
  - destruct (celltext_merge t t0); cbn; intros H; inversion H; exact I.
Qed.

Lemma merge_within B a b c : fragment_merge a b = Some c -> radius_ok a -> radius_ok b -> within B a -> within B b -> within B c.
Proof.
  unfold within. destruct a, b; cbn [fragment_merge radius_ok]; try discriminate; intros H Ra Rb; revert H.
  - (* line + line *)
    unfold line_merge. destruct (line_can_merge l l0); cbn [option_map]; [|discriminate]. intros H; inversion H; subst; clear H.
    rewrite !fbox_plain by exact I. unfold bbox; cbn [bounds]. intros Ha Hb.
    apply seg_pts in Ha. apply seg_pts in Hb. destruct Ha as [A1 A2], Hb as [B1 B2].
    set (p := point_min (lstart l) (lstart l0)). set (q := point_max (lend l) (lend l0)).
    assert (Pp : pt_in p B) by (unfold p; destruct (point_min_cases (lstart l) (lstart l0)) as [-> | ->]; assumption).
    assert (Pq : pt_in q B) by (unfold q; destruct (point_max_cases (lend l) (lend l0)) as [-> | ->]; assumption).
    destruct (mk_line_ends p q (lbroken l || lbroken l0)) as [[-> ->]|[-> ->]]; apply seg_in; assumption.
  - (* line + circle *)
    unfold merge_circle. destruct (_ && _); [|discriminate]. intros H; inversion H; subst; clear H.
    rewrite !fbox_plain by exact I. unfold bbox; cbn [bounds mlline lstart lend]. intros Ha Hb.
    apply seg_pts in Ha. destruct Ha as [A1 A2].
    assert (Pc : pt_in (ccenter c0) B).
    { destruct B as [[[p0 q0] p1] q1]. unfold box_in in Hb; cbn [px py] in Hb. unfold pt_in. 
      lia. }
    destruct (dist_sq (lend l) (ccenter c0) <=? threshold_sq (heading l)); cbn [lstart lend]; apply seg_in; assumption.
  - (* circle + line *)
    unfold merge_circle. destruct (_ && _); [|discriminate]. intros H; inversion H; subst; clear H.
    rewrite !fbox_plain by exact I. unfold bbox; cbn [bounds mlline lstart lend]. intros Hb Ha.
    apply seg_pts in Ha. destruct Ha as [A1 A2].
    assert (Pc : pt_in (ccenter c0) B).
    { destruct B as [[[p0 q0] p1] q1]. unfold box_in in Hb; cbn [px py] in Hb. unfold pt_in.
      lia. }
    destruct (dist_sq (lend l) (ccenter c0) <=? threshold_sq (heading l)); cbn [lstart lend]; apply seg_in; assumption.
  - (* text + text *)
    unfold celltext_merge. destruct (celltext_can_merge t t0) eqn:CM; [|discriminate].
    unfold celltext_can_merge in CM. apply andb_true_iff in CM. destruct CM as [Ey Ex]. apply Z.eqb_eq in Ey.
    destruct B as [[[p0 q0] p1] q1].
    destruct (cx (ctstart t) <? cx (ctstart t0)) eqn:Lt; cbn [option_map]; intros H; inversion H; subst; clear H;
      rewrite !fbox_plain by exact I; unfold bbox; cbn [bounds];
      unfold box_in, top_left_most, bottom_right_most, celltext_last_cell; cbn [px py cx cy ctstart ctcontent];
      rewrite text_columns_app; intros Ha Hb; apply orb_true_iff in Ex; rewrite !Z.eqb_eq in Ex;
      unfold CW, CH in *; lia.
Qed.

(** ** T1 sweeps (re-run whenever the tables are regenerated from the source) *)
Definition radius_okb (f : fragment) : bool := match f with FCircle c => 0 <=? cradius c | _ => true end.
Lemma radius_okb_ok f : radius_okb f = true -> radius_ok f.
Proof. destruct f; cbn; auto. apply Z.leb_le. Qed.
(** a fragment emitted under condition [c] reaches at most one cell beyond its own cell, and to
    the left / to the top only if [c] proves a neighbour there; bounds and bulge box together *)
Definition reach_ok (c : cond) (f : fragment) : bool :=
  let '(x0, y0, x1, y1) := fbox f in
  (- CW <=? x0) && (- CH <=? y0) && (x1 <=? 2 * CW) && (y1 <=? 2 * CH)
  && ((0 <=? x0) || implies_present LEFTS c) && ((0 <=? y0) || implies_present TOPS c) && radius_okb f && wf_fragb f.
Definition tables_reach_ok : bool :=
  forallb (fun p => forallb (fun cf => forallb (reach_ok (fst cf)) (snd cf)) (pbeh p)) ascii_properties
  && forallb (fun e => forallb (reach_ok CTrue) (snd e)) unicode_fragments.
Lemma tables_reach : tables_reach_ok = true.
Proof. vm_compute. reflexivity. Qed.
Definition catalogue_reach_ok : bool :=
  forallb (fun e => within_drawing (fbox (FCircle (fst e))) (snd e) && (0 <=? cradius (fst e))) circles_span
  && forallb (fun e => within_drawing (fbox (FArc (fst e))) (snd e)) quarter_arc_span
  && forallb (fun e => within_drawing (fbox (FArc (fst e))) (snd e)) half_arc_span
  && forallb (fun e => within_drawing (fbox (FArc (fst e))) (snd e)) three_arc_span.
Lemma catalogue_reach : catalogue_reach_ok = true.
Proof. vm_compute. reflexivity. Qed.

Lemma ascii_reach p c fs f : In p ascii_properties -> In (c, fs) (pbeh p) -> In f fs -> reach_ok c f = true.
Proof.
  intros Hp Hc Hf. pose proof tables_reach as T. unfold tables_reach_ok in T. apply andb_true_iff in T. destruct T as [T _].
  rewrite forallb_forall in T. specialize (T p Hp). rewrite forallb_forall in T. specialize (T (c, fs) Hc). cbn [fst snd] in T.
  rewrite forallb_forall in T. auto.
Qed.
Lemma unicode_reach ch fs f : In (ch, fs) unicode_fragments -> In f fs -> reach_ok CTrue f = true.
Proof.
  intros H Hf. pose proof tables_reach as T. unfold tables_reach_ok in T. apply andb_true_iff in T. destruct T as [_ T].
  rewrite forallb_forall in T. specialize (T (ch, fs) H). cbn [snd] in T. rewrite forallb_forall in T. auto.
Qed.

(** ** the canvas of a drawing *)
Lemma cell_eqb_eq a b : cell_eqb a b = true -> a = b.
Proof. intros H. apply cell_eqb_cmp in H. apply cell_cmp_eq in H. exact H. Qed.

Section Canvas.
Variable cells : span.
Variables X Y : Z.
Hypothesis cells_in : forall e, In e cells ->
  0 <= cx (fst e) /\ cx (fst e) <= X /\ cx (fst e) + char_cols (snd e) - 1 <= X /\ 0 <= cy (fst e) /\ cy (fst e) <= Y.

Definition canvas : box := (0, 0, (X + 2) * CW, (Y + 2) * CH).
Definition good (f : fragment) : Prop := wf_frag f /\ radius_ok f.
Definition local_canvas (c : cell) : box := shiftbox (- (cx c * CW)) (- (cy c * CH)) canvas.
Definition Qc (e : cell * Z) (f : fragment) : Prop := good f /\ within (local_canvas (fst e)) f.
Definition Rc (f : fragspan) : Prop := from_cells cells f /\ good (fs_frag f) /\ within canvas (fs_frag f).

(** a neighbour that exists is a cell of the group *)
Lemma present_neighbour s c d : present (pb_env (propbuf_of_span s) c d) ->
  exists e, In e s /\ fst e = cell_add c (dir8_offset d).
Proof.
  unfold present, pb_env. destruct (pb_get (propbuf_of_span s) (cell_add c (dir8_offset d))) as [p|] eqn:G; [|congruence]. intros _.
  unfold pb_get in G. destruct (find (fun e => cell_eqb (fst e) (cell_add c (dir8_offset d))) (rev (propbuf_of_span s))) as [ent|] eqn:F; [|discriminate].
  apply find_some in F. destruct F as [Hin Heq]. apply in_rev in Hin. apply cell_eqb_eq in Heq.
  pose proof (propbuf_from_group s) as FG. rewrite Forall_forall in FG. destruct (FG ent Hin) as [e [Ie [Ek _]]].
  exists e. split; [exact Ie|congruence].
Qed.

(** a table fragment that fired, in the box of the canvas seen from its cell *)
Lemma reach_local s e c f : incl s cells -> In e s -> reach_ok c f = true ->
  eval (pb_env (propbuf_of_span s) (fst e)) c = true -> Qc e f.
Proof.
  intros Sub Ie RO Ev. unfold reach_ok in RO. destruct (fbox f) as [[[x0 y0] x1] y1] eqn:FB.
  rewrite !andb_true_iff, !orb_true_iff, !Z.leb_le in RO. destruct RO as [[[[[[[X1 X2] X3] X4] X5] X6] X7] X8].
  split; [split; [apply wf_fragb_ok; exact X8|apply radius_okb_ok; exact X7]|].
  destruct (cells_in e (Sub e Ie)) as [C1 [C2 [C3 [C4 C5]]]].
  assert (L : 0 <= x0 \/ 1 <= cx (fst e)).
  { destruct X5 as [X5|X5]; [left; exact X5|right].
    destruct (implies_present_sound LEFTS c _ X5 Ev) as [d [Hd Pd]]. destruct (present_neighbour s (fst e) d Pd) as [e' [Ie' Ee']].
    destruct (cells_in e' (Sub e' Ie')) as [D1 _]. rewrite Ee' in D1. unfold LEFTS in Hd. cbn in Hd.
    destruct Hd as [<-|[<-|[<-|[]]]]; cbn in D1; lia. }
  assert (T : 0 <= y0 \/ 1 <= cy (fst e)).
  { destruct X6 as [X6|X6]; [left; exact X6|right].
    destruct (implies_present_sound TOPS c _ X6 Ev) as [d [Hd Pd]]. destruct (present_neighbour s (fst e) d Pd) as [e' [Ie' Ee']].
    destruct (cells_in e' (Sub e' Ie')) as [_ [_ [_ [D4 _]]]]. rewrite Ee' in D4. unfold TOPS in Hd. cbn in Hd.
    destruct Hd as [<-|[<-|[<-|[]]]]; cbn in D4; lia. }
  unfold within, local_canvas, canvas, shiftbox, box_in. rewrite FB. unfold CW, CH in *. lia.
Qed.

Lemma Qc_fire s e p f : incl s cells -> In e s -> property_of_char (snd e) = Some p ->
  In f (property_fragments p (pb_env (propbuf_of_span s) (fst e))) -> Qc e f.
Proof.
  intros Sub Ie Ep Hf. unfold property_fragments in Hf. apply in_flat_map in Hf. destruct Hf as [[c fs] [Hc Hf]].
  destruct (eval (pb_env (propbuf_of_span s) (fst e)) c) eqn:Ev; [|destruct Hf].
  apply (reach_local s e c f Sub Ie); [|exact Ev].
  unfold property_of_char in Ep. destruct (find (fun p => pch p =? snd e) ascii_properties) as [q|] eqn:F.
  - inversion Ep; subst. apply find_some in F. destruct F as [F _]. eapply ascii_reach; eauto.
  - destruct (unicode_fragments_of (snd e)) as [ufs|] eqn:U; cbn [option_map] in Ep; inversion Ep; subst.
    cbn [pbeh strong_property] in Hc. destruct Hc as [Hc|[]]. inversion Hc; subst.
    apply assoc_z_in in U. eapply unicode_reach; eauto.
Qed.
Lemma Qc_unicode e fs f : In e cells -> unicode_fragments_of (snd e) = Some fs -> In f fs -> Qc e f.
Proof.
  intros Ie U Hf. apply assoc_z_in in U. pose proof (unicode_reach _ _ _ U Hf) as RO.
  apply (reach_local [e] e CTrue f); auto.
  - intros x [<-|[]]. exact Ie.
  - left; reflexivity.
Qed.
Lemma Qc_text e : In e cells -> Qc e (cell_text_frag (snd e)).
Proof.
  intros Ie. destruct (cells_in e Ie) as [C1 [C2 [C3 [C4 C5]]]]. split; [split; exact I|].
  unfold within. rewrite fbox_plain by exact I. unfold bbox, cell_text_frag; cbn [bounds].
  unfold top_left_most, bottom_right_most, celltext_last_cell, text_columns; cbn [ctstart ctcontent cx cy px py fold_left].
  unfold local_canvas, canvas, shiftbox, box_in.
  assert (CC : 1 <= char_cols (snd e)) by (unfold char_cols; destruct (char_width (snd e)); lia).
  destruct (snd e =? 0); unfold CW, CH in *; lia.
Qed.
Lemma Qc_merge e a b c : fragment_merge a b = Some c -> Qc e a -> Qc e b -> Qc e c.
Proof.
  intros M [[Wa Ra] Ia] [[Wb Rb] Ib]. split; [split; [eapply merge_wf; eauto|eapply merge_radius_ok; eauto]|].
  eapply merge_within; eauto.
Qed.
Lemma abs_radius_ok c f : radius_ok f -> radius_ok (fragment_abs c f).
Proof. destruct f; cbn; auto. Qed.
Lemma Qc_Rc e f : In e cells -> Qc e f -> Rc (FS [e] (fragment_abs (fst e) f)).
Proof.
  intros Ie [[W Rd] In]. split; [split; [discriminate|intros x [<-|[]]; exact Ie]|]. cbn [fs_frag].
  split; [split; [apply abs_wf; exact W|apply abs_radius_ok; exact Rd]|].
  unfold within. rewrite (fbox_abs _ _ W). apply box_in_shift. exact In.
Qed.
Lemma Rc_merge a b c : fragspan_merge a b = Some c -> Rc a -> Rc b -> Rc c.
Proof.
  unfold fragspan_merge. destruct (fragment_merge (fs_frag a) (fs_frag b)) as [m|] eqn:M; [|discriminate].
  intros H [[Na Ia] [[Wa Ra] Ina]] [[Nb Ib] [[Wb Rb] Inb]]. inversion H; subst; clear H. unfold Rc, from_cells; cbn [fs_span fs_frag].
  split; [split; [destruct (fs_span a); [congruence|discriminate]|apply incl_app; assumption]|].
  split; [split; [eapply merge_wf; eauto|eapply merge_radius_ok; eauto]|]. eapply merge_within; eauto.
Qed.

(** *** recognised rectangles: the corners are bound points of the group *)
Lemma zmax_list_le d l B : d <= B -> Forall (fun x => x <= B) l -> zmax_list d l <= B.
Proof. intros Hd F. revert d Hd. induction F as [|x t Hx Ft IH]; intros d Hd; cbn [zmax_list]; [exact Hd|]. specialize (IH x Hx). lia. Qed.
Lemma zmin_list_ge d l A : A <= d -> Forall (fun x => A <= x) l -> A <= zmin_list d l.
Proof. intros Hd F. revert d Hd. induction F as [|x t Hx Ft IH]; intros d Hd; cbn [zmin_list]; [exact Hd|]. specialize (IH x Hx). lia. Qed.
Lemma zmin_list_le_in d l x : In x l -> zmin_list d l <= x.
Proof. revert d. induction l as [|y t IH]; intros d H; [destruct H|]. destruct H as [->|H]; cbn [zmin_list]; [lia|]. specialize (IH y H). lia. Qed.
Lemma zmin_max_list d l : zmin_list d l <= zmax_list d l.
Proof. revert d. induction l as [|y t IH]; intros d; cbn [zmin_list zmax_list]; [lia|]. specialize (IH y). lia. Qed.

Lemma bounds_ordered f : good f -> px (fst (bounds f)) <= px (snd (bounds f)) /\ py (fst (bounds f)) <= py (snd (bounds f)).
Proof.
  intros [W Rd]. destruct f; cbn [bounds]; try (unfold seg_bounds; cbn [fst snd px py]; lia).
  - cbn in Rd. cbn [fst snd px py]. lia.
  - unfold polygon_bounds. destruct (ppoints p) as [|q t]; cbn [fst snd px py]; [lia|]. split; apply zmin_max_list.
  - unfold top_left_most, bottom_right_most, celltext_last_cell; cbn [fst snd px py cx cy].
    assert (0 <= text_columns (ctcontent t)).
    { unfold text_columns. assert (G : forall l a, 0 <= a -> 0 <= fold_left (fun acc c => if c =? 0 then acc else acc + char_cols c) l a).
      { induction l as [|c r IH]; intros a Ha; cbn [fold_left]; [exact Ha|]. apply IH. destruct (c =? 0); [exact Ha|].
        unfold char_cols. destruct (char_width c); lia. }
      apply G. lia. }
    unfold CW, CH. lia.
Qed.
Lemma bound_points_in fs p : Forall (fun f => good f /\ within canvas f) fs -> In p (all_bound_points fs) -> pt_in p canvas.
Proof.
  intros F Hp. unfold all_bound_points in Hp. apply in_flat_map in Hp. destruct Hp as [f [If Hp]].
  rewrite Forall_forall in F. destruct (F f If) as [G In]. pose proof (bounds_ordered f G) as [O1 O2].
  unfold within, fbox in In. assert (Bb : box_in (bbox f) canvas).
  { destruct (bbox f) as [[[x0 y0] x1] y1], (extent f) as [[[u0 v0] u1] v1]. unfold hull, canvas, box_in in *. lia. }
  unfold bbox in Bb. destruct (bounds f) as [lo hi]. cbn [fst snd] in *. unfold canvas, box_in, pt_in in *.
  destruct Hp as [<-|[<-|[]]]; lia.
Qed.
Lemma pmin_list_in d l : In (pmin_list d l) (d :: l).
Proof.
  revert d. induction l as [|x t IH]; intros d; cbn [pmin_list]; [left; reflexivity|].
  destruct (point_min_cases x (pmin_list x t)) as [-> | ->]; [right; left; reflexivity|]. right. apply IH.
Qed.
Lemma pmax_list_in d l : In (pmax_list d l) (d :: l).
Proof.
  revert d. induction l as [|x t IH]; intros d; cbn [pmax_list]; [left; reflexivity|].
  destruct (point_max_cases x (pmax_list x t)) as [-> | ->]; [right; left; reflexivity|]. right. apply IH.
Qed.
Lemma bounding_rect_within fs rad f : Forall (fun f => good f /\ within canvas f) fs -> bounding_rect fs rad = Some f -> good f /\ within canvas f.
Proof.
  intros F. unfold bounding_rect. destruct (all_bound_points fs) as [|p pts] eqn:E; [discriminate|]. intros H; inversion H; subst; clear H.
  split; [split; exact I|]. unfold within. rewrite fbox_plain by exact I. unfold bbox; cbn [bounds].
  assert (P1 : pt_in (pmin_list p (p :: pts)) canvas).
  { apply (bound_points_in fs); [exact F|]. rewrite E. destruct (pmin_list_in p (p :: pts)) as [H|H]; [rewrite <- H; left; reflexivity|exact H]. }
  assert (P2 : pt_in (pmax_list p (p :: pts)) canvas).
  { apply (bound_points_in fs); [exact F|]. rewrite E. destruct (pmax_list_in p (p :: pts)) as [H|H]; [rewrite <- H; left; reflexivity|exact H]. }
  unfold mk_rect. destruct (is_lt (point_cmp _ _)); cbn [rstart rend]; apply seg_in; assumption.
Qed.
Lemma Rc_rect c f : c <> [] -> Forall Rc c -> contacts_endorse_rect c = Ok (Some f) -> Rc (FS (contacts_span c) f).
Proof.
  intros Nc Fc H.
  assert (FG : Forall (fun f => good f /\ within canvas f) (map fs_frag c)).
  { apply Forall_forall. intros x Hx. apply in_map_iff in Hx. destruct Hx as [g [<- Ig]]. rewrite Forall_forall in Fc. destruct (Fc g Ig) as [_ K]. exact K. }
  assert (B : exists rad, bounding_rect (map fs_frag c) rad = Some f).
  { unfold contacts_endorse_rect in H. destruct (endorse_rect (map fs_frag c)) as [r|] eqn:E1; cbn [bind] in H; [|discriminate].
    destruct r as [g|].
    - inversion H; subst. unfold endorse_rect in E1. destruct (is_rect (map fs_frag c)) as [ok|]; cbn [bind] in E1; [|discriminate].
      destruct ok; inversion E1. eexists; eauto.
    - unfold endorse_rounded_rect in H. destruct (is_rounded_rect (map fs_frag c)) as [[ok orad]|]; cbn [bind] in H; [|discriminate].
      destruct ok; [|discriminate]. destruct orad as [rad|]; [|discriminate]. inversion H. eexists; eauto. }
  destruct B as [rad B]. destruct (bounding_rect_within _ _ _ FG B) as [G W].
  split; [|split; assumption]. unfold from_cells; cbn [fs_span]. destruct c as [|f0 t]; [congruence|]. inversion Fc as [|? ? [[N0 I0] _] Ft]; subst. split.
  - unfold contacts_span; cbn [flat_map]. destruct (fs_span f0); [congruence|discriminate].
  - intros x Hx. unfold contacts_span in Hx. apply in_flat_map in Hx. destruct Hx as [g [Ig Hx]].
    rewrite Forall_forall in Fc. destruct (Fc g Ig) as [[_ Sub] _]. apply Sub. exact Hx.
Qed.

(** *** recognised circles and arcs: within the cells of the drawing that matched *)
Lemma span_bounds_tl (s : span) tl br : incl s cells -> span_bounds s = Some (tl, br) ->
  0 <= cx tl <= X /\ 0 <= cy tl <= Y /\ span_localize s = map (fun e => (cell_sub (fst e) tl, snd e)) s.
Proof.
  intros Sub B. unfold span_localize. rewrite B. unfold span_bounds in B. destruct s as [|[c0 z0] t]; [discriminate|]. inversion B; subst; clear B. cbn [cx cy].
  assert (I0 : In (c0, z0) ((c0, z0) :: t)) by (left; reflexivity).
  destruct (cells_in _ (Sub _ I0)) as [C1 [C2 [_ [C4 C5]]]]. cbn [fst] in *.
  assert (Fx : Forall (fun x => 0 <= x) (map (fun e : cell * Z => cx (fst e)) ((c0, z0) :: t))).
  { apply Forall_forall. intros x Hx. apply in_map_iff in Hx. destruct Hx as [e [<- Ie]]. destruct (cells_in e (Sub e Ie)) as [D _]. exact D. }
  assert (Fy : Forall (fun x => 0 <= x) (map (fun e : cell * Z => cy (fst e)) ((c0, z0) :: t))).
  { apply Forall_forall. intros x Hx. apply in_map_iff in Hx. destruct Hx as [e [<- Ie]]. destruct (cells_in e (Sub e Ie)) as [_ [_ [_ [D _]]]]. exact D. }
  pose proof (zmin_list_ge (cx c0) _ 0 C1 Fx). pose proof (zmin_list_ge (cy c0) _ 0 C4 Fy).
  pose proof (zmin_list_le_in (cx c0) (map (fun e : cell * Z => cx (fst e)) ((c0, z0) :: t)) (cx c0) (or_introl eq_refl)).
  pose proof (zmin_list_le_in (cy c0) (map (fun e : cell * Z => cy (fst e)) ((c0, z0) :: t)) (cy c0) (or_introl eq_refl)).
  cbn [map zmin_list fst] in *. split; [lia|]. split; [lia|]. reflexivity.
Qed.
Lemma table_match_cells (s : span) tl br tspan un t : incl s cells -> span_bounds s = Some (tl, br) ->
  table_match tspan s = Some un -> In t tspan -> exists e, In e s /\ cell_sub (fst e) tl = fst t.
Proof.
  intros Sub B M It. destruct (span_bounds_tl s tl br Sub B) as [_ [_ L]]. unfold table_match in M. rewrite L in M.
  destruct (forallb _ tspan) eqn:F; [|discriminate]. rewrite forallb_forall in F. specialize (F t It).
  unfold mem in F. apply existsb_exists in F. destruct F as [l [Il El]]. apply in_map_iff in Il. destruct Il as [e [<- Ie]].
  unfold cellchar_eqb in El. apply andb_true_iff in El. destruct El as [El _]. apply cell_eqb_eq in El. cbn [fst] in El.
  exists e. split; [exact Ie|congruence].
Qed.
Lemma matched_within (s : span) tl br tspan un (b : box) : incl s cells -> span_bounds s = Some (tl, br) ->
  table_match tspan s = Some un -> within_drawing b tspan = true ->
  box_in (shiftbox (cx tl * CW) (cy tl * CH) b) canvas.
Proof.
  intros Sub B M WD. destruct (span_bounds_tl s tl br Sub B) as [Tx [Ty _]].
  assert (Wx : span_w tspan + cx tl <= X + 1).
  { unfold span_w. assert (zmax_list 0 (map (fun e : cell * Z => cx (fst e)) tspan) <= X - cx tl); [|lia].
    apply zmax_list_le; [lia|]. apply Forall_forall. intros x Hx. apply in_map_iff in Hx. destruct Hx as [t [<- It]].
    destruct (table_match_cells s tl br tspan un t Sub B M It) as [e [Ie Ee]]. destruct (cells_in e (Sub e Ie)) as [_ [D _]].
    rewrite <- Ee. unfold cell_sub; cbn [cx]. lia. }
  assert (Wy : span_h tspan + cy tl <= Y + 1).
  { unfold span_h. assert (zmax_list 0 (map (fun e : cell * Z => cy (fst e)) tspan) <= Y - cy tl); [|lia].
    apply zmax_list_le; [lia|]. apply Forall_forall. intros x Hx. apply in_map_iff in Hx. destruct Hx as [t [<- It]].
    destruct (table_match_cells s tl br tspan un t Sub B M It) as [e [Ie Ee]]. destruct (cells_in e (Sub e Ie)) as [_ [_ [_ [_ D]]]].
    rewrite <- Ee. unfold cell_sub; cbn [cy]. lia. }
  destruct b as [[[x0 y0] x1] y1]. unfold within_drawing in WD. rewrite !andb_true_iff, !Z.leb_le in WD.
  destruct WD as [[[W1 W2] W3] W4]. unfold shiftbox, canvas, box_in. unfold CW, CH in *.
  set (sw := span_w tspan) in *. set (sh := span_h tspan) in *. clearbody sw sh. lia.
Qed.

Lemma arc_table_entry table (s : span) a un : endorse_arc_span table s = Some (a, un) -> exists tspan, In (a, tspan) table /\ table_match tspan s = Some un.
Proof.
  unfold endorse_arc_span. intros H. apply find_map_some in H. destruct H as [[a' tspan] [Hin H]]. apply in_rev in Hin.
  destruct (table_match tspan s) as [u|] eqn:T; cbn [option_map] in H; [|discriminate]. inversion H; subst. exists tspan. split; assumption.
Qed.
Lemma Rc_arc table (s : span) tl br a un : incl s cells -> span_bounds s = Some (tl, br) ->
  forallb (fun e => within_drawing (fbox (FArc (fst e))) (snd e)) table = true ->
  endorse_arc_span table s = Some (a, un) -> Rc (FS s (FArc (arc_abs tl a))).
Proof.
  intros Sub B T E. destruct (arc_table_entry table s a un E) as [tspan [Hin M]]. rewrite forallb_forall in T. specialize (T _ Hin). cbn [fst snd] in T.
  split; [split; [eapply span_bounds_nonempty; eauto|exact Sub]|]. cbn [fs_frag]. split; [split; exact I|].
  unfold within. change (FArc (arc_abs tl a)) with (fragment_abs tl (FArc a)). rewrite fbox_abs by exact I.
  eapply matched_within; eauto.
Qed.
Lemma Rc_shape (s : span) fs un : incl s cells -> endorse_to_arcs_and_circles s = Ok (fs, un) -> Forall Rc fs.
Proof.
  intros Sub. unfold endorse_to_arcs_and_circles. destruct (span_bounds s) as [[tl br]|] eqn:B; [|discriminate].
  pose proof catalogue_reach as CR. unfold catalogue_reach_ok in CR. rewrite !andb_true_iff in CR. destruct CR as [[[T1 T2] T3] T4].
  destruct (endorse_circle_span s) as [[c u]|] eqn:E1.
  { intros H; inversion H; subst; clear H. constructor; [|constructor].
    unfold endorse_circle_span in E1. apply find_map_some in E1. destruct E1 as [[c' tspan] [Hin E1]]. apply in_rev in Hin.
    destruct (table_match tspan s) as [u'|] eqn:M; cbn [option_map] in E1; [|discriminate]. inversion E1; subst; clear E1.
    rewrite forallb_forall in T1. specialize (T1 _ Hin). cbn [fst snd] in T1. apply andb_true_iff in T1. destruct T1 as [T1 Rd]. apply Z.leb_le in Rd.
    split; [split; [eapply span_bounds_nonempty; eauto|exact Sub]|]. cbn [fs_frag]. split; [split; [exact I|exact Rd]|].
    unfold within. change (FCircle (circle_abs tl c)) with (fragment_abs tl (FCircle c)). rewrite fbox_abs by exact I.
    eapply matched_within; eauto. }
  destruct (endorse_arc_span three_arc_span s) as [[a u]|] eqn:E2; [intros H; inversion H; subst; constructor; [exact (Rc_arc three_arc_span s tl br a un Sub B T4 E2)|constructor]|].
  destruct (endorse_arc_span half_arc_span s) as [[a u]|] eqn:E3; [intros H; inversion H; subst; constructor; [exact (Rc_arc half_arc_span s tl br a un Sub B T3 E3)|constructor]|].
  destruct (endorse_arc_span quarter_arc_span s) as [[a u]|] eqn:E4; [intros H; inversion H; subst; constructor; [exact (Rc_arc quarter_arc_span s tl br a un Sub B T2 E4)|constructor]|].
  intros H; inversion H; subst. constructor.
Qed.

(** ** C12: everything recognised from the cell map lies inside the canvas *)
Theorem endorse_cells_in_canvas acc groups : endorse_cells cells = Ok (acc, groups) ->
  Forall Rc acc /\ Forall (Forall Rc) groups.
Proof.
  apply (endorse_cells_R cells Qc Rc).
  - intros f [P _]. exact P.
  - exact Qc_text.
  - exact Qc_fire.
  - exact Qc_unicode.
  - exact Qc_merge.
  - exact Qc_Rc.
  - exact Rc_merge.
  - exact Rc_shape.
  - exact Rc_rect.
Qed.
End Canvas.

(** ** from the input text *)
Require Import SB.Model.Text.
Lemma cells_of_row_nonneg y row : forall x e, 0 <= x -> 0 <= y -> In e (cells_of_row y x row) -> 0 <= cx (fst e) /\ 0 <= cy (fst e).
Proof.
  induction row as [|c t IH]; intros x e Hx Hy H; cbn [cells_of_row] in H; [destruct H|].
  destruct ((c =? 0) || is_whitespace c); [apply (IH (x + 1)); auto; lia|].
  destruct H as [<-|H]; [cbn; lia|apply (IH (x + 1)); auto; lia].
Qed.
Lemma cells_of_rows_nonneg rows : forall y cells escs e, 0 <= y -> cells_of_rows y rows = Ok (cells, escs) -> In e cells -> 0 <= cx (fst e) /\ 0 <= cy (fst e).
Proof.
  induction rows as [|row more IH]; intros y cells escs e Hy H Ie; cbn [cells_of_rows] in H; [inversion H; subst; destruct Ie|].
  destruct (escape_line y row) as [[esc un]|]; cbn [bind] in H; [|discriminate].
  destruct (cells_of_rows (y + 1) more) as [[cs es]|] eqn:E; cbn [bind] in H; [|discriminate]. inversion H; subst; clear H.
  apply in_app_or in Ie. destruct Ie as [Ie|Ie]; [eapply cells_of_row_nonneg; [| |exact Ie]; lia|].
  eapply (IH (y + 1)); [|exact E|exact Ie]. lia.
Qed.
Lemma cellbuffer_of_text_nonneg s css cb e : cellbuffer_of_text s css = Ok cb -> In e (cb_cells cb) -> 0 <= cx (fst e) /\ 0 <= cy (fst e).
Proof.
  intros H Ie. unfold cellbuffer_of_text in H. destruct (cells_of_rows 0 (string_buffer s)) as [[cells escs]|] eqn:E; cbn [bind] in H; [|discriminate].
  inversion H; subst. cbn [cb_cells] in Ie. eapply (cells_of_rows_nonneg _ 0); [|exact E|exact Ie]. lia.
Qed.
Lemma cellbuffer_nonneg input cb e : cellbuffer_from input = Ok cb -> In e (cb_cells cb) -> 0 <= cx (fst e) /\ 0 <= cy (fst e).
Proof.
  assert (G : forall s css, cellbuffer_of_text s css = Ok cb -> In e (cb_cells cb) -> 0 <= cx (fst e) /\ 0 <= cy (fst e)).
  { intros s css H Ie. eapply cellbuffer_of_text_nonneg; eauto. }
  unfold cellbuffer_from. destruct (find_sub LEGEND_MARK input []) as [[before from]|]; [destruct (parse_css_legend (uncrlf from))|]; apply G.
Qed.

Lemma cells_max_bounds cells e : In e cells ->
  cx (fst e) <= cx (cells_max cells) /\ cx (fst e) + char_cols (snd e) - 1 <= cx (cells_max cells) /\ cy (fst e) <= cy (cells_max cells).
Proof.
  intros H. destruct cells as [|[c0 z0] t]; [destruct H|].
  assert (G : forall (f : cell * Z -> Z) d l x, In x l -> f x <= zmax_list d (map f l)).
  { intros f d l. revert d. induction l as [|y r IH]; intros d x Hx; [destruct Hx|]. cbn [map zmax_list].
    destruct Hx as [->|Hx]; [apply Z.le_max_l|]. etransitivity; [apply (IH (f y) x Hx)|apply Z.le_max_r]. }
  unfold cells_max; cbn [cx cy].
  pose proof (G (fun e => cx (fst e) + char_cols (snd e) - 1) (cx c0 + char_cols z0 - 1) _ e H) as G1.
  pose proof (G (fun e => cy (fst e)) (cy c0) _ e H) as G2. cbn beta in G1, G2.
  assert (1 <= char_cols (snd e)) by (unfold char_cols; destruct (char_width (snd e)); lia). lia.
Qed.

(** C12, from the input to the recognised fragments: every accepted fragment and every
    fragment of every contact group lies inside the canvas computed from the cell map
    (quoted text is not in the cell map: known finding K1) *)
Definition canvas_of_cells (cells : list (cell * Z)) : box :=
  (0, 0, (cx (cells_max cells) + 2) * CW, (cy (cells_max cells) + 2) * CH).
Theorem recognised_inside_canvas input cb acc groups :
  cellbuffer_from input = Ok cb -> endorse_cells (cb_cells cb) = Ok (acc, groups) ->
  Forall (fun f => within (canvas_of_cells (cb_cells cb)) (fs_frag f)) acc
  /\ Forall (Forall (fun f => within (canvas_of_cells (cb_cells cb)) (fs_frag f))) groups.
Proof.
  intros CB E.
  assert (CI : forall e, In e (cb_cells cb) ->
     0 <= cx (fst e) /\ cx (fst e) <= cx (cells_max (cb_cells cb)) /\ cx (fst e) + char_cols (snd e) - 1 <= cx (cells_max (cb_cells cb))
     /\ 0 <= cy (fst e) /\ cy (fst e) <= cy (cells_max (cb_cells cb))).
  { intros e Ie. destruct (cellbuffer_nonneg input cb e CB Ie) as [N1 N2]. destruct (cells_max_bounds _ e Ie) as [M1 [M2 M3]]. repeat split; assumption. }
  destruct (endorse_cells_in_canvas (cb_cells cb) _ _ CI acc groups E) as [A G]. split.
  - eapply Forall_impl; [|exact A]. intros f [_ [_ W]]. exact W.
  - eapply Forall_impl; [|exact G]. intros g Fg. eapply Forall_impl; [|exact Fg]. intros f [_ [_ W]]. exact W.
Qed.

(** the same with the side facts the pipeline invariant carries: circles have a non-negative radius *)
Theorem recognised_good_inside_canvas input cb acc groups :
  cellbuffer_from input = Ok cb -> endorse_cells (cb_cells cb) = Ok (acc, groups) ->
  Forall (fun f => radius_ok (fs_frag f) /\ within (canvas_of_cells (cb_cells cb)) (fs_frag f)) acc
  /\ Forall (Forall (fun f => radius_ok (fs_frag f) /\ within (canvas_of_cells (cb_cells cb)) (fs_frag f))) groups.
Proof.
  intros CB E.
  assert (CI : forall e, In e (cb_cells cb) ->
     0 <= cx (fst e) /\ cx (fst e) <= cx (cells_max (cb_cells cb)) /\ cx (fst e) + char_cols (snd e) - 1 <= cx (cells_max (cb_cells cb))
     /\ 0 <= cy (fst e) /\ cy (fst e) <= cy (cells_max (cb_cells cb))).
  { intros e Ie. destruct (cellbuffer_nonneg input cb e CB Ie) as [N1 N2]. destruct (cells_max_bounds _ e Ie) as [M1 [M2 M3]]. repeat split; assumption. }
  destruct (endorse_cells_in_canvas (cb_cells cb) _ _ CI acc groups E) as [A G]. split.
  - eapply Forall_impl; [|exact A]. intros f [_ [[_ Rd] W]]. split; assumption.
  - eapply Forall_impl; [|exact G]. intros g Fg. eapply Forall_impl; [|exact Fg]. intros f [_ [[_ Rd] W]]. split; assumption.
Qed.

(** the bounds of a fragment lie within its box *)
Lemma within_bbox B f : within B f -> box_in (bbox f) B.
Proof.
  unfold within, fbox. destruct (bbox f) as [[[x0 y0] x1] y1], (extent f) as [[[u0 v0] u1] v1], B as [[[p0 q0] p1] q1]. unfold hull, box_in. lia.
Qed.
(** the facts the canvas theorem needs, for any cell map with non-negative cells *)
Lemma cells_in_max cells : (forall e, In e cells -> 0 <= cx (fst e) /\ 0 <= cy (fst e)) ->
  forall e, In e cells ->
    0 <= cx (fst e) /\ cx (fst e) <= cx (cells_max cells) /\ cx (fst e) + char_cols (snd e) - 1 <= cx (cells_max cells)
    /\ 0 <= cy (fst e) /\ cy (fst e) <= cy (cells_max cells).
Proof.
  intros N e Ie. destruct (N e Ie) as [N1 N2]. destruct (cells_max_bounds _ e Ie) as [M1 [M2 M3]]. repeat split; assumption.
Qed.
Lemma cells_max_row_lt cells h : cells <> [] -> (forall e, In e cells -> cy (fst e) < h) -> cy (cells_max cells) < h.
Proof.
  destruct cells as [|[c0 z0] t]; [congruence|]. intros _ H. unfold cells_max; cbn [cy].
  assert (zmax_list (cy c0) (map (fun e : cell * Z => cy (fst e)) ((c0, z0) :: t)) <= h - 1); [|lia].
  apply zmax_list_le; [specialize (H (c0, z0) (or_introl eq_refl)); cbn in H; lia|].
  apply Forall_forall. intros x Hx. apply in_map_iff in Hx. destruct Hx as [e [<- Ie]]. specialize (H e Ie). lia.
Qed.
