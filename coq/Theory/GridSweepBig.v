(** * GridSweepBig: the sweep of GridSweep over all 3x2, 2x3, 5x1 and 1x5 grids of '-', '|', '+' and blanks
    (10240 grids; minutes of evaluation, built by setup and by the thorough tier). *)
Require Import SB.Model.Base SB.Theory.DashBarPlus SB.Theory.GridSweep.
Lemma grid_sweep_big_ok :
  forallb grid_ok (grids_over DRAW 3 2) && forallb grid_ok (grids_over DRAW 2 3)
  && forallb grid_ok (grids_over DRAW 5 1) && forallb grid_ok (grids_over DRAW 1 5) = true.
Proof. vm_cast_no_check (eq_refl true). Qed.
Theorem grids_as_specified g :
  in_shape DRAW 3 2 g \/ in_shape DRAW 2 3 g \/ in_shape DRAW 5 1 g \/ in_shape DRAW 1 5 g -> grid_strokes_as_specified g.
Proof.
  pose proof grid_sweep_big_ok as S. apply andb_prop in S. destruct S as [S S4]. apply andb_prop in S. destruct S as [S S3].
  apply andb_prop in S. destruct S as [S1 S2].
  intros [H|[H|[H|H]]]; apply grid_ok_spec.
  - exact (proj1 (forallb_forall _ _) S1 g (grids_over_all _ _ _ _ H)).
  - exact (proj1 (forallb_forall _ _) S2 g (grids_over_all _ _ _ _ H)).
  - exact (proj1 (forallb_forall _ _) S3 g (grids_over_all _ _ _ _ H)).
  - exact (proj1 (forallb_forall _ _) S4 g (grids_over_all _ _ _ _ H)).
Qed.
Print Assumptions grids_as_specified.
