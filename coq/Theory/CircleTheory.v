(** * CircleTheory: the catalogue of circle drawings, checked drawing by drawing (C13).
    [Gen/CircleTables.v] is regenerated from the implementation's tables on every run, so an
    edited drawing or offset re-runs this sweep. *)
Require Import SB.Model.Base SB.Model.Unicode SB.Model.Geom SB.Model.Fragment SB.Model.Merge
  SB.Model.Property SB.Model.FragBuf SB.Model.Endorse SB.Gen.CircleTables.

Definition sort_cells (s : span) : span := isort (fun a b => is_lt (cell_cmp (fst a) (fst b))) s.

(** squared distance bounds from a point to the closed box of a cell *)
Definition clampd (lo hi v : Z) : Z := if v <? lo then lo - v else if hi <? v then v - hi else 0.
Definition fard (lo hi v : Z) : Z := Z.max (Z.abs (v - lo)) (Z.abs (v - hi)).
(** "within about one cell": some point of the cell's box is at most [NEAR] = 60 ticks (one and
    a half cell widths, three quarters of a cell height) from the circle line *)
Definition NEAR : Z := 60.
Definition cell_near_circle (k : circle) (c : cell) : bool :=
  let x0 := cx c * CW in let y0 := cy c * CH in
  let dmin := clampd x0 (x0 + CW) (px (ccenter k)) * clampd x0 (x0 + CW) (px (ccenter k))
              + clampd y0 (y0 + CH) (py (ccenter k)) * clampd y0 (y0 + CH) (py (ccenter k)) in
  let dmax := fard x0 (x0 + CW) (px (ccenter k)) * fard x0 (x0 + CW) (px (ccenter k))
              + fard y0 (y0 + CH) (py (ccenter k)) * fard y0 (y0 + CH) (py (ccenter k)) in
  (dmin <=? (cradius k + NEAR) * (cradius k + NEAR))
  && ((cradius k <=? NEAR) || ((cradius k - NEAR) * (cradius k - NEAR) <=? dmax)).

(** width of a localised drawing in cells *)
Definition span_width (s : span) : Z := zmax_list 0 (map (fun e => cx (fst e)) s) + 1.
Definition starts_with_slash (s : span) : bool :=
  existsb (fun e => (cx (fst e) =? 0) && ((snd e =? 47) || (snd e =? 92))) s.

(** what C13 asks of one catalogue drawing placed at the origin *)
Definition chk_drawing (entry : circle * span) : bool :=
  let '(_, art) := entry in
  let cells := sort_cells art in
  match endorse_cells cells with
  | Ok ([FS _ (FCircle k)], []) =>
      let w := span_width art in
      let left := px (ccenter k) - cradius k in
      let right := px (ccenter k) + cradius k in
      negb (cfilled k)
      (* radius (n-1)/2 cells, or n/2 when the drawing starts flush with a slash *)
      && ((2 * cradius k =? (w - 1) * CW) || (starts_with_slash art && (2 * cradius k =? w * CW)))
      (* horizontal extent = the drawing's: centred, from the mid-line (or the edge) of the first column *)
      && (left + right =? w * CW)
      && ((left =? CW / 2) || (left =? 0))
      && forallb (fun e => cell_near_circle k (fst e)) art
  | _ => false
  end.

Lemma catalogue_ok : forallb chk_drawing circles_span = true.
Proof. vm_compute. reflexivity. Qed.

Lemma catalogue_size : length circles_span = 22%nat.
Proof. reflexivity. Qed.

Lemma chk_drawing_inv entry : chk_drawing entry = true ->
  exists s c, endorse_cells (sort_cells (snd entry)) = Ok ([FS s (FCircle c)], []).
Proof.
  unfold chk_drawing. destruct entry as [c0 art]. cbn [snd].
  destruct (endorse_cells (sort_cells art)) as [[acc groups]|]; [|discriminate].
  destruct acc as [|[s f] acc']; [discriminate|]. destruct f; try discriminate.
  destruct acc'; [|discriminate]. destruct groups; [|discriminate]. intros _. eauto.
Qed.
