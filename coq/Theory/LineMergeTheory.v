(** * LineMergeTheory: what a fixpoint of the merge loop means for lines, and that a chain of
    collinear touching segments of any length collapses to a single line (C09). *)
Require Import SB.Model.Base SB.Model.Unicode SB.Model.Geom SB.Model.Fragment SB.Model.Merge
  SB.Model.Property SB.Model.FragBuf SB.Theory.MergeTheory.
From Coq Require Import Arith.

(** ** at the fixpoint no earlier line can merge with a later one *)
Definition mergeable_lines (a b : line) : Prop := line_can_merge a b = true.

Lemma line_merge_none a b : line_merge a b = None <-> line_can_merge a b = false.
Proof. unfold line_merge. destruct (line_can_merge a b); split; congruence. Qed.

Theorem merged_lines_unmergeable fb m : merge_fragment_spans fb = Ok m ->
  forall i j sa la sb lb, (i < j)%nat ->
    nth_error m i = Some (FS sa (FLine la)) -> nth_error m j = Some (FS sb (FLine lb)) ->
    line_can_merge la lb = false.
Proof.
  unfold merge_fragment_spans. intros H i j sa la sb lb Hij Hi Hj.
  destruct (merge_recursive_ok fragspan_merge (abs_fragment_spans fb)) as [r [E U]]. rewrite E in H. inversion H; subst r.
  pose proof (unmerge_pairs fragspan_merge m U i j _ _ Hij Hi Hj) as N.
  unfold fragspan_merge in N. cbn [fs_frag fragment_merge] in N.
  destruct (line_merge la lb) eqn:LM; [discriminate|]. apply line_merge_none. exact LM.
Qed.

(** [line_can_merge] is exactly: touching, and both end points of the second on the line
    through the first (exact cross products) *)
Lemma line_can_merge_spec a b :
  line_can_merge a b = true <->
  line_is_touching a b = true /\ Z.abs (cross (lstart a) (lend a) (lstart b)) < 32 /\ Z.abs (cross (lstart a) (lend a) (lend b)) < 32.
Proof.
  unfold line_can_merge, is_collinear. rewrite !andb_true_iff, !Z.ltb_lt. tauto.
Qed.

Lemma point_cmp_antisym a b : point_cmp b a = CompOpp (point_cmp a b).
Proof.
  unfold point_cmp, cmp_then. rewrite (Z.compare_antisym (py a) (py b)), (Z.compare_antisym (px a) (px b)).
  destruct (py a ?= py b); reflexivity.
Qed.

(** ** a chain of segments along one direction *)
Section Chain.
Context (p0 : point) (dx dy : Z) (broken : bool).
Context (Hd : 0 < dy \/ (dy = 0 /\ 0 < dx)).

Definition pt (i : nat) : point := P (px p0 + Z.of_nat i * dx) (py p0 + Z.of_nat i * dy).
Definition seg (i : nat) : line := Line (pt i) (pt (S i)) broken.
Definition hull (k : nat) : line := Line (pt 0) (pt k) broken.
Fixpoint segs_from (i n : nat) : list line := match n with O => [] | S m => seg i :: segs_from (S i) m end.

Lemma pt_lt i j : (i < j)%nat -> point_cmp (pt i) (pt j) = Lt.
Proof.
  intros H. unfold point_cmp, pt, cmp_then; cbn [px py].
  destruct Hd as [Hy|[Hy Hx]].
  - replace (py p0 + Z.of_nat i * dy ?= py p0 + Z.of_nat j * dy) with Lt; [reflexivity|]. symmetry. apply Z.compare_lt_iff. nia.
  - subst dy. replace (py p0 + Z.of_nat i * 0 ?= py p0 + Z.of_nat j * 0) with Eq by (symmetry; apply Z.compare_eq_iff; lia).
    apply Z.compare_lt_iff. nia.
Qed.
Lemma pt_min i j : (i <= j)%nat -> point_min (pt i) (pt j) = pt i.
Proof.
  intros H. unfold point_min. destruct (Nat.eq_dec i j) as [->|N].
  - destruct (is_lt _); reflexivity.
  - assert (L : point_cmp (pt i) (pt j) = Lt) by (apply pt_lt; lia).
    assert (G : point_cmp (pt j) (pt i) = Gt) by (rewrite point_cmp_antisym, L; reflexivity).
    rewrite G. reflexivity.
Qed.
Lemma pt_max i j : (i <= j)%nat -> point_max (pt i) (pt j) = pt j.
Proof.
  intros H. unfold point_max. destruct (Nat.eq_dec i j) as [->|N].
  - destruct (is_lt _); reflexivity.
  - assert (L : point_cmp (pt i) (pt j) = Lt) by (apply pt_lt; lia).
    assert (G : point_cmp (pt j) (pt i) = Gt) by (rewrite point_cmp_antisym, L; reflexivity).
    rewrite G. reflexivity.
Qed.

Lemma cross_chain i j m : cross (pt i) (pt j) (pt m) = 0.
Proof. unfold cross, pt; cbn [px py]. ring. Qed.

Lemma contains_end k : (0 < k)%nat -> line_contains (hull k) (pt k) = true.
Proof.
  intros H. unfold line_contains, hull; cbn [lstart lend]. rewrite cross_chain. cbn [Z.eqb andb].
  rewrite !andb_true_iff, !Z.leb_le. repeat split; try apply Z.le_min_r; try apply Z.le_max_r.
Qed.

Lemma hull_merge k : (0 < k)%nat -> line_merge (hull k) (seg k) = Some (hull (S k)).
Proof.
  intros H. unfold line_merge.
  assert (CM : line_can_merge (hull k) (seg k) = true).
  { unfold line_can_merge, line_is_touching, touching_line, is_collinear. cbn [lstart lend hull seg].
    rewrite (contains_end k H), !cross_chain. reflexivity. }
  rewrite CM. cbn [lstart lend lbroken hull seg]. rewrite (pt_min 0 k) by lia. rewrite (pt_max k (S k)) by lia.
  unfold mk_line. replace (is_lt (point_cmp (pt (S k)) (pt 0))) with false.
  - rewrite orb_diag. reflexivity.
  - assert (L : point_cmp (pt 0) (pt (S k)) = Lt) by (apply pt_lt; lia).
    rewrite point_cmp_antisym, L. reflexivity.
Qed.

Notation fm := fragment_merge.

Lemma pass_chain : forall n k, (0 < k)%nat ->
  fold_left (step fm) (map FLine (segs_from k n)) [FLine (hull k)] = [FLine (hull (k + n))].
Proof.
  induction n as [|n IH]; intros k H; cbn [segs_from map fold_left].
  - rewrite Nat.add_0_r. reflexivity.
  - unfold step at 2. cbn [try_merge_rev fragment_merge]. rewrite (hull_merge k H). cbn [option_map].
    rewrite IH by lia. f_equal. f_equal. f_equal. lia.
Qed.

(** a run of [n >= 1] collinear touching segments, in order, becomes the single line from its
    first point to its last, whatever [n] is *)
Theorem chain_merges_to_one n : (1 <= n)%nat ->
  merge_recursive fm (map FLine (segs_from 0 n)) = Ok [FLine (hull n)].
Proof.
  intros H. destruct n as [|n]; [lia|].
  assert (SP : second_pass fm (map FLine (segs_from 0 (S n))) = [FLine (hull (S n))]).
  { unfold second_pass. cbn [segs_from map fold_left]. unfold step at 2. cbn [try_merge_rev app].
    change (seg 0) with (hull 1). rewrite (pass_chain n 1) by lia. reflexivity. }
  assert (SP1 : second_pass fm [FLine (hull (S n))] = [FLine (hull (S n))]) by reflexivity.
  unfold merge_recursive. cbn [merge_rec]. rewrite SP. rewrite map_length.
  assert (Ln : length (segs_from 0 (S n)) = S n) by (clear; generalize 0%nat; induction (S n); intros; cbn; [reflexivity|f_equal; auto]).
  rewrite Ln. cbn [length]. destruct n as [|n]; cbn [Nat.ltb Nat.leb].
  - reflexivity.
  - cbn [merge_rec]. rewrite SP1. cbn [length Nat.ltb Nat.leb]. reflexivity.
Qed.
End Chain.
