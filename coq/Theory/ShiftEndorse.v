(** * ShiftEndorse: recognition of rectangles, circles and arcs under translation, and the whole
    path from the cell map to the accepted fragments (C06, fourth part). *)
Require Import SB.Model.Base SB.Model.Unicode SB.Model.Geom SB.Model.Fragment SB.Model.Merge
  SB.Model.Property SB.Model.FragBuf SB.Model.Endorse SB.Theory.MergeTheory SB.Theory.EndorseTotal
  SB.Theory.ShiftTheory SB.Theory.ShiftFrag SB.Theory.ShiftBuf SB.Theory.FragInv
  SB.Gen.AsciiMap SB.Gen.UnicodeMap SB.Gen.CircleTables.

(** ** every polygon of the tables has at least one point (T1 sweep, re-run on regenerated tables) *)
Definition wf_frag (f : fragment) : Prop := match f with FPolygon p => ppoints p <> [] | _ => True end.
Definition wf_fragb (f : fragment) : bool := match f with FPolygon p => negb (Nat.eqb (length (ppoints p)) 0) | _ => true end.
Lemma wf_fragb_ok f : wf_fragb f = true -> wf_frag f.
Proof. destruct f; cbn; auto. destruct (ppoints p); cbn; [discriminate|]. intros _; discriminate. Qed.

Lemma tables_wf_b :
  forallb (fun p => forallb (fun cf => forallb wf_fragb (snd cf)) (pbeh p)) ascii_properties
  && forallb (fun e => forallb wf_fragb (snd e)) unicode_fragments = true.
Proof. vm_compute. reflexivity. Qed.

Lemma ascii_wf p c fs : In p ascii_properties -> In (c, fs) (pbeh p) -> Forall wf_frag fs.
Proof.
  intros Hp Hc. pose proof tables_wf_b as T. apply andb_true_iff in T. destruct T as [T _].
  rewrite forallb_forall in T. specialize (T p Hp). rewrite forallb_forall in T. specialize (T (c, fs) Hc). cbn in T.
  rewrite forallb_forall in T. apply Forall_forall. intros f Hf. apply wf_fragb_ok. auto.
Qed.
Lemma unicode_wf ch fs : In (ch, fs) unicode_fragments -> Forall wf_frag fs.
Proof.
  intros H. pose proof tables_wf_b as T. apply andb_true_iff in T. destruct T as [_ T].
  rewrite forallb_forall in T. specialize (T (ch, fs) H). cbn in T.
  rewrite forallb_forall in T. apply Forall_forall. intros f Hf. apply wf_fragb_ok. auto.
Qed.
Lemma merge_wf a b c : fragment_merge a b = Some c -> wf_frag a -> wf_frag b -> wf_frag c.
Proof.
  destruct a, b; cbn; try discriminate; intros H _ _.
  - destruct (line_merge l l0); inversion H; subst; exact I.
  - unfold merge_circle in H. destruct (_ && _); inversion H; subst; exact I.
  - unfold merge_circle in H. destruct (_ && _); inversion H; subst; exact I.
  - destruct (celltext_merge t t0); inversion H; subst; exact I.
Qed.
Lemma abs_wf c f : wf_frag f -> wf_frag (fragment_abs c f).
Proof. destruct f; cbn; auto. destruct (ppoints p); cbn; [congruence|discriminate]. Qed.

(** every fragment of every contact group of every span is well formed *)
Theorem contacts_wf s cs : contacts_of_span s = Ok cs -> Forall (Forall (fun f => wf_frag (fs_frag f))) cs.
Proof.
  apply (contacts_of_span_R wf_frag wf_frag (fun _ => I) ascii_wf unicode_wf merge_wf abs_wf merge_wf).
Qed.

Section Shift.
Context (k n : Z).
Notation sp := (shift_point k n).
Notation sc := (shift_cell k n).
Notation ss := (shift_span k n).
Notation sf := (shift_frag k n).
Notation sfs := (shift_fs k n).
Notation sct := (shift_contacts k n).

(** ** bounds *)
Lemma seg_bounds_shift a b : seg_bounds (sp a) (sp b) = (sp (fst (seg_bounds a b)), sp (snd (seg_bounds a b))).
Proof.
  unfold seg_bounds, shift_point; cbn [px py fst snd]. rewrite !Z.add_min_distr_r, !Z.add_max_distr_r. reflexivity.
Qed.
Lemma bounds_shift f : wf_frag f -> bounds (sf f) = (sp (fst (bounds f)), sp (snd (bounds f))).
Proof.
  intros W. destruct f; cbn [shift_frag bounds]; try apply seg_bounds_shift.
  - unfold shift_point; cbn [px py fst snd ccenter cradius]. f_equal; f_equal; ring.
  - cbn in W. unfold polygon_bounds; cbn [ppoints]. destruct (ppoints p) as [|q t] eqn:E; [congruence|].
    assert (Mx : forall l, map px (map sp l) = map (fun x => x + k * CW) (map px l)) by (intros l; rewrite !map_map; reflexivity).
    assert (My : forall l, map py (map sp l) = map (fun x => x + n * CH) (map py l)) by (intros l; rewrite !map_map; reflexivity).
    change (map sp (q :: t)) with (sp q :: map sp t). cbv iota beta.
    change (sp q :: map sp t) with (map sp (q :: t)). rewrite Mx, My.
    change (px (sp q)) with (px q + k * CW). change (py (sp q)) with (py q + n * CH).
    rewrite !zmin_list_shift, !zmax_list_shift. reflexivity.
  - unfold celltext_last_cell; cbn [ctstart ctcontent]. rewrite top_left_shift. f_equal.
    unfold bottom_right_most, shift_cell, shift_point, CW, CH; cbn [cx cy px py fst snd]. f_equal; lia.
Qed.

Lemma pmin_list_shift d l : pmin_list (sp d) (map sp l) = sp (pmin_list d l).
Proof. revert d. induction l as [|x t IH]; intros d; cbn [map pmin_list]; [reflexivity|]. rewrite IH, point_min_shift. reflexivity. Qed.
Lemma pmax_list_shift d l : pmax_list (sp d) (map sp l) = sp (pmax_list d l).
Proof. revert d. induction l as [|x t IH]; intros d; cbn [map pmax_list]; [reflexivity|]. rewrite IH, point_max_shift. reflexivity. Qed.

Lemma all_bound_points_shift fs : Forall wf_frag fs -> all_bound_points (map sf fs) = map sp (all_bound_points fs).
Proof.
  induction 1 as [|f t W Ft IH]; cbn [map all_bound_points flat_map]; [reflexivity|].
  unfold all_bound_points in IH. rewrite IH, (bounds_shift f W). destruct (bounds f) as [a b]. reflexivity.
Qed.
Lemma is_broken_shift f : is_broken (sf f) = is_broken f.
Proof. destruct f; reflexivity. Qed.
Lemma mk_rect_shift a b fl r br : mk_rect (sp a) (sp b) fl r br = Rect (sp (rstart (mk_rect a b fl r br))) (sp (rend (mk_rect a b fl r br))) fl r br.
Proof. unfold mk_rect. rewrite point_cmp_shift. destruct (is_lt (point_cmp b a)); reflexivity. Qed.

Lemma bounding_rect_shift fs r : Forall wf_frag fs -> bounding_rect (map sf fs) r = option_map sf (bounding_rect fs r).
Proof.
  intros W. unfold bounding_rect. rewrite (all_bound_points_shift fs W).
  destruct (all_bound_points fs) as [|p t]; [reflexivity|]. cbn [map option_map].
  change (sp p :: map sp t) with (map sp (p :: t)). rewrite pmin_list_shift, pmax_list_shift, mk_rect_shift.
  rewrite existsb_map'. rewrite (existsb_ext' _ is_broken) by (intros x; apply is_broken_shift).
  cbn [shift_frag]. f_equal. f_equal.
  unfold mk_rect. destruct (is_lt (point_cmp (pmax_list p (p :: t)) (pmin_list p (p :: t)))); reflexivity.
Qed.

(** ** [is_rect] / [is_rounded_rect] see only differences *)
Lemma frag_aabb_parallel_shift a b : frag_aabb_parallel (sf a) (sf b) = frag_aabb_parallel a b.
Proof.
  destruct a, b; cbn [shift_frag frag_aabb_parallel]; try reflexivity.
  unfold line_aabb_parallel, line_is_horizontal, line_is_vertical, shift_line, shift_point; cbn [lstart lend px py].
  repeat (f_equal; try (apply Bool.eq_iff_eq_true; rewrite !Z.eqb_eq; lia)).
Qed.
Lemma index_from_map {X Y} (g : X -> Y) l : forall i, index_from i (map g l) = map (fun e => (fst e, g (snd e))) (index_from i l).
Proof. induction l as [|x t IH]; intros i; cbn [map index_from]; [reflexivity|]. rewrite IH. reflexivity. Qed.

Lemma parallel_aabb_group_shift fs : parallel_aabb_group (map sf fs) = parallel_aabb_group fs.
Proof.
  unfold parallel_aabb_group, enumerate. rewrite index_from_map.
  set (idx := index_from 0 fs).
  assert (Inner : forall i f1 l ps,
    fold_left (fun ps '(j, f2) => if negb (Nat.eqb i j) && negb (pair_uses ps i) && negb (pair_uses ps j) && frag_aabb_parallel (sf f1) f2 then ps ++ [(i, j)] else ps)
              (map (fun e => (fst e, sf (snd e))) l) ps
    = fold_left (fun ps '(j, f2) => if negb (Nat.eqb i j) && negb (pair_uses ps i) && negb (pair_uses ps j) && frag_aabb_parallel f1 f2 then ps ++ [(i, j)] else ps) l ps).
  { intros i f1. induction l as [|[j f2] t IH]; intros ps; cbn [map fold_left fst snd]; [reflexivity|].
    rewrite frag_aabb_parallel_shift. apply IH. }
  assert (Outer : forall inner outer ps,
    fold_left (fun ps '(i, f1) =>
                 fold_left (fun ps '(j, f2) => if negb (Nat.eqb i j) && negb (pair_uses ps i) && negb (pair_uses ps j) && frag_aabb_parallel f1 f2 then ps ++ [(i, j)] else ps)
                           (map (fun e => (fst e, sf (snd e))) inner) ps)
              (map (fun e => (fst e, sf (snd e))) outer) ps
    = fold_left (fun ps '(i, f1) =>
                 fold_left (fun ps '(j, f2) => if negb (Nat.eqb i j) && negb (pair_uses ps i) && negb (pair_uses ps j) && frag_aabb_parallel f1 f2 then ps ++ [(i, j)] else ps)
                           inner ps) outer ps).
  { intros inner. induction outer as [|[i f1] t IH]; intros ps; cbn [map fold_left fst snd]; [reflexivity|].
    rewrite Inner. apply IH. }
  apply Outer.
Qed.

Lemma as_line_shift fs i : as_line (map sf fs) i = option_map (shift_line k n) (as_line fs i).
Proof.
  unfold as_line. rewrite nth_error_map. destruct (nth_error fs i) as [f|]; [|reflexivity]. destruct f; reflexivity.
Qed.
Lemma line_aabb_perpendicular_shift a b : line_aabb_perpendicular (shift_line k n a) (shift_line k n b) = line_aabb_perpendicular a b.
Proof.
  unfold line_aabb_perpendicular, line_is_horizontal, line_is_vertical, shift_line, shift_point; cbn [lstart lend px py].
  repeat (f_equal; try (apply Bool.eq_iff_eq_true; rewrite !Z.eqb_eq; lia)).
Qed.
Lemma line_is_shift l p q : line_is (shift_line k n l) (px (sp p)) (py (sp p)) (px (sp q)) (py (sp q)) = line_is l (px p) (py p) (px q) (py q).
Proof.
  unfold line_is, shift_line, shift_point; cbn [lstart lend px py].
  repeat (f_equal; try (apply Bool.eq_iff_eq_true; rewrite !Z.eqb_eq; lia)).
Qed.
Lemma is_outline_shift ls : is_outline_of_bounds (map (shift_line k n) ls) = is_outline_of_bounds ls.
Proof.
  unfold is_outline_of_bounds.
  assert (E : flat_map (fun l => [lstart l; lend l]) (map (shift_line k n) ls) = map sp (flat_map (fun l => [lstart l; lend l]) ls)).
  { induction ls as [|l t IH]; cbn [map flat_map app]; [reflexivity|]. rewrite IH. reflexivity. }
  rewrite E. destruct (flat_map (fun l => [lstart l; lend l]) ls) as [|p t]; [reflexivity|]. cbn [map].
  change (sp p :: map sp t) with (map sp (p :: t)). rewrite pmin_list_shift, pmax_list_shift.
  set (mn := pmin_list p (p :: t)). set (mx := pmax_list p (p :: t)).
  rewrite !existsb_map'.
  assert (L : forall a b c d, existsb (fun x => line_is (shift_line k n x) (px (sp a)) (py (sp b)) (px (sp c)) (py (sp d))) ls
                              = existsb (fun l => line_is l (px a) (py b) (px c) (py d)) ls).
  { intros a b c d. apply existsb_ext'. intros l.
    pose proof (line_is_shift l (P (px a) (py b)) (P (px c) (py d))) as H. cbn [px py shift_point] in H |- *. exact H. }
  rewrite !L. unfold shift_point; cbn [px py].
  replace (px mn + k * CW <? px mx + k * CW) with (px mn <? px mx) by (apply Bool.eq_iff_eq_true; rewrite !Z.ltb_lt; lia).
  replace (py mn + n * CH <? py mx + n * CH) with (py mn <? py mx) by (apply Bool.eq_iff_eq_true; rewrite !Z.ltb_lt; lia).
  reflexivity.
Qed.

Lemma is_rect_shift fs : is_rect (map sf fs) = is_rect fs.
Proof.
  unfold is_rect. rewrite map_length, parallel_aabb_group_shift. destruct (Nat.eqb (length fs) 4); [|reflexivity].
  destruct (parallel_aabb_group fs) as [|[a1 a2] [|[b1 b2] [|? ?]]]; try reflexivity.
  rewrite !as_line_shift.
  destruct (as_line fs a1) as [la1|], (as_line fs b1) as [lb1|], (as_line fs a2) as [la2|], (as_line fs b2) as [lb2|]; cbn [option_map]; try reflexivity.
  rewrite !line_is_touching_shift, !line_aabb_perpendicular_shift.
  change [shift_line k n la1; shift_line k n la2; shift_line k n lb1; shift_line k n lb2] with (map (shift_line k n) [la1; la2; lb1; lb2]).
  rewrite is_outline_shift. reflexivity.
Qed.

Lemma arc_is_right_angle_shift a :
  arc_is_right_angle (Arc (sp (astart a)) (sp (aend a)) (aradius a) (amajor a) (asweep a)) = arc_is_right_angle a.
Proof.
  unfold arc_is_right_angle, shift_point; cbn [astart aend aradius px py].
  replace (px (aend a) + k * CW - (px (astart a) + k * CW)) with (px (aend a) - px (astart a)) by ring.
  replace (py (aend a) + n * CH - (py (astart a) + n * CH)) with (py (aend a) - py (astart a)) by ring. reflexivity.
Qed.
Lemma right_angle_arcs_shift fs : right_angle_arcs (map sf fs) = right_angle_arcs fs.
Proof.
  unfold right_angle_arcs, enumerate. rewrite index_from_map. generalize (index_from 0 fs) as l.
  induction l as [|[i f] t IH]; cbn [map flat_map fst snd]; [reflexivity|]. rewrite IH. f_equal.
  destruct f; cbn [shift_frag]; try reflexivity. rewrite arc_is_right_angle_shift. reflexivity.
Qed.
Lemma is_rounded_rect_shift fs : is_rounded_rect (map sf fs) = is_rounded_rect fs.
Proof.
  unfold is_rounded_rect. rewrite map_length, parallel_aabb_group_shift, right_angle_arcs_shift.
  destruct (Nat.eqb (length fs) 8); [|reflexivity].
  destruct (parallel_aabb_group fs) as [|[a1 a2] [|[b1 b2] [|? ?]]]; try reflexivity.
  destruct (right_angle_arcs fs) as [|r0 [|r1 [|r2 [|r3 [|? ?]]]]]; try reflexivity.
  rewrite nth_error_map. destruct (nth_error fs r0) as [f|]; cbn [option_map]; [|reflexivity].
  destruct f; cbn [shift_frag]; try reflexivity.
  rewrite !as_line_shift.
  destruct (as_line fs a1) as [la1|], (as_line fs b1) as [lb1|], (as_line fs a2) as [la2|], (as_line fs b2) as [lb2|]; cbn [option_map]; try reflexivity.
  rewrite !line_aabb_perpendicular_shift. reflexivity.
Qed.

Definition shift_ofrag (o : option fragment) : option fragment := option_map sf o.

Lemma contacts_endorse_rect_shift c : Forall (fun f => wf_frag (fs_frag f)) c ->
  contacts_endorse_rect (sct c) = map_res shift_ofrag (contacts_endorse_rect c).
Proof.
  intros W. unfold contacts_endorse_rect, endorse_rect, endorse_rounded_rect. cbv zeta.
  assert (M : map fs_frag (sct c) = map sf (map fs_frag c)) by (unfold shift_contacts; rewrite !map_map; reflexivity).
  assert (Wf : Forall wf_frag (map fs_frag c)) by (apply Forall_forall; intros x Hx; apply in_map_iff in Hx; destruct Hx as [f [<- Hf]]; rewrite Forall_forall in W; auto).
  rewrite M, is_rect_shift, is_rounded_rect_shift.
  destruct (is_rect (map fs_frag c)) as [b|er]; cbn [bind map_res]; [|reflexivity].
  destruct b; cbn [bind].
  - rewrite (bounding_rect_shift _ None Wf). destruct (bounding_rect (map fs_frag c) None); cbn [option_map map_res shift_ofrag]; [reflexivity|].
    destruct (is_rounded_rect (map fs_frag c)) as [[b2 o]|er]; cbn [bind map_res]; [|reflexivity].
    destruct b2; [|reflexivity]. destruct o; [|reflexivity]. rewrite (bounding_rect_shift _ _ Wf). reflexivity.
  - destruct (is_rounded_rect (map fs_frag c)) as [[b2 o]|er]; cbn [bind map_res]; [|reflexivity].
    destruct b2; [|reflexivity]. destruct o; [|reflexivity]. rewrite (bounding_rect_shift _ _ Wf). reflexivity.
Qed.
End Shift.

Section Shift2.
Context (k n : Z).
Notation sp := (shift_point k n).
Notation sc := (shift_cell k n).
Notation ss := (shift_span k n).
Notation sf := (shift_frag k n).
Notation sfs := (shift_fs k n).
Notation sct := (shift_contacts k n).

Definition wf_contacts (c : contacts) : Prop := Forall (fun f => wf_frag (fs_frag f)) c.

Lemma endorse_rects_shift cs : Forall wf_contacts cs ->
  endorse_rects (map sct cs) = map_res (fun r => (map sfs (fst r), map sct (snd r))) (endorse_rects cs).
Proof.
  induction 1 as [|c t W Ft IH]; cbn [map endorse_rects]; [reflexivity|].
  rewrite (contacts_endorse_rect_shift k n c W). destruct (contacts_endorse_rect c) as [r|er]; cbn [map_res bind]; [|reflexivity].
  rewrite IH. destruct (endorse_rects t) as [[acc rej]|er]; cbn [map_res bind fst snd]; [|reflexivity].
  destruct r as [f|]; cbn [shift_ofrag option_map map fst snd]; [|reflexivity].
  rewrite contacts_span_shift. reflexivity.
Qed.

(** ** circles and arcs: matching works on the localised span, which does not move *)
Lemma table_match_shift table s : table_match table (ss s) = option_map ss (table_match table s).
Proof.
  unfold table_match. rewrite span_localize_shift. destruct (forallb _ table); [|reflexivity]. cbn [option_map]. f_equal.
  generalize (span_localize s) as loc. unfold shift_span. induction s as [|x t IH]; intros loc; cbn [map combine filter]; [reflexivity|].
  destruct loc as [|l loc']; [reflexivity|]. cbn [combine filter map]. destruct (negb (mem cellchar_eqb l table)); cbn [map fst]; rewrite IH; reflexivity.
Qed.

Definition shift_cellspan (s : list cell) : list cell := map sc s.

Lemma circle_abs_shift c kk : circle_abs (sc c) kk = Circle (sp (ccenter (circle_abs c kk))) (cradius kk) (cfilled kk).
Proof. unfold circle_abs; cbn [ccenter cradius cfilled]. rewrite cell_abs_shift. reflexivity. Qed.
Lemma arc_abs_shift c a : arc_abs (sc c) a = Arc (sp (astart (arc_abs c a))) (sp (aend (arc_abs c a))) (aradius a) (amajor a) (asweep a).
Proof. unfold arc_abs; cbn [astart aend aradius amajor asweep]. rewrite !cell_abs_shift. reflexivity. Qed.

Lemma find_map_ext {X Y} (f g : X -> option Y) l : (forall x, f x = g x) -> find_map f l = find_map g l.
Proof. intros H. induction l as [|x t IH]; cbn; [reflexivity|]. rewrite H, IH. reflexivity. Qed.
Lemma find_map_option_map {X Y Z'} (f : X -> option Y) (h : Y -> Z') l : find_map (fun x => option_map h (f x)) l = option_map h (find_map f l).
Proof. induction l as [|x t IH]; cbn; [reflexivity|]. destruct (f x); cbn; [reflexivity|exact IH]. Qed.

Lemma endorse_circle_span_shift s :
  endorse_circle_span (ss s) = option_map (fun r => (fst r, ss (snd r))) (endorse_circle_span s).
Proof.
  unfold endorse_circle_span. rewrite <- find_map_option_map. apply find_map_ext. intros [c t].
  rewrite table_match_shift. destruct (table_match t s); reflexivity.
Qed.
Lemma endorse_arc_span_shift table s :
  endorse_arc_span table (ss s) = option_map (fun r => (fst r, ss (snd r))) (endorse_arc_span table s).
Proof.
  unfold endorse_arc_span. rewrite <- find_map_option_map. apply find_map_ext. intros [a t].
  rewrite table_match_shift. destruct (table_match t s); reflexivity.
Qed.

Definition shift_ac (r : list fragspan * span) : list fragspan * span := (map sfs (fst r), ss (snd r)).

Lemma endorse_to_arcs_and_circles_shift s :
  endorse_to_arcs_and_circles (ss s) = map_res shift_ac (endorse_to_arcs_and_circles s).
Proof.
  unfold endorse_to_arcs_and_circles. rewrite span_bounds_shift.
  destruct (span_bounds s) as [[tl br]|]; cbn [option_map fst snd map_res]; [|reflexivity].
  rewrite endorse_circle_span_shift. destruct (endorse_circle_span s) as [[c un]|]; cbn [option_map fst snd map_res].
  { unfold shift_ac; cbn [fst snd map shift_fs fs_span fs_frag shift_frag]. rewrite circle_abs_shift. reflexivity. }
  rewrite endorse_arc_span_shift. destruct (endorse_arc_span three_arc_span s) as [[a un]|]; cbn [option_map fst snd map_res].
  { unfold shift_ac; cbn [fst snd map shift_fs fs_span fs_frag shift_frag]. rewrite arc_abs_shift. reflexivity. }
  rewrite endorse_arc_span_shift. destruct (endorse_arc_span half_arc_span s) as [[a un]|]; cbn [option_map fst snd map_res].
  { unfold shift_ac; cbn [fst snd map shift_fs fs_span fs_frag shift_frag]. rewrite arc_abs_shift. reflexivity. }
  rewrite endorse_arc_span_shift. destruct (endorse_arc_span quarter_arc_span s) as [[a un]|]; cbn [option_map fst snd map_res].
  { unfold shift_ac; cbn [fst snd map shift_fs fs_span fs_frag shift_frag]. rewrite arc_abs_shift. reflexivity. }
  reflexivity.
Qed.

Lemma mapM_shift {X Y} (f : X -> res Y) (gx : X -> X) (gy : Y -> Y) l :
  (forall x, In x l -> f (gx x) = map_res gy (f x)) -> mapM f (map gx l) = map_res (map gy) (mapM f l).
Proof.
  induction l as [|x t IH]; intros H; cbn [map mapM]; [reflexivity|].
  rewrite (H x (or_introl eq_refl)). destruct (f x); cbn [map_res bind]; [|reflexivity].
  rewrite IH by (intros y Hy; apply H; right; exact Hy). destruct (mapM f t); reflexivity.
Qed.

Lemma re_endorse_shift rej :
  re_endorse (map sct rej) = map_res (fun r => (map sfs (fst r), map ss (snd r))) (re_endorse rej).
Proof.
  unfold re_endorse.
  replace (map contacts_span (map sct rej)) with (map ss (map contacts_span rej))
    by (rewrite !map_map; apply map_ext; intros c; symmetry; apply contacts_span_shift).
  rewrite (merge_recursive_map span_merge ss (span_merge_shift k n)).
  destruct (merge_recursive span_merge (map contacts_span rej)) as [spans|er]; cbn [bind map_res]; [|reflexivity].
  rewrite (mapM_shift endorse_to_arcs_and_circles ss shift_ac spans) by (intros x _; apply endorse_to_arcs_and_circles_shift).
  destruct (mapM endorse_to_arcs_and_circles spans) as [rs|er]; cbn [bind map_res fst snd]; [|reflexivity].
  f_equal. f_equal.
  - induction rs as [|r t IH]; cbn [map flat_map]; [reflexivity|]. rewrite IH, map_app. reflexivity.
  - rewrite !map_map. reflexivity.
Qed.

Definition shift_se (r : list fragspan * list span) : list fragspan * list span := (map sfs (fst r), map ss (snd r)).

Lemma span_endorse_shift s : span_endorse (ss s) = map_res shift_se (span_endorse s).
Proof.
  unfold span_endorse. rewrite endorse_to_arcs_and_circles_shift.
  destruct (endorse_to_arcs_and_circles s) as [[acc1 un]|er]; cbn [map_res bind shift_ac fst snd]; [|reflexivity].
  rewrite contacts_of_span_shift. destruct (contacts_of_span un) as [cs|er] eqn:E; cbn [map_res bind]; [|reflexivity].
  pose proof (contacts_wf un cs E) as W.
  rewrite (endorse_rects_shift cs W).
  destruct (endorse_rects_ok cs) as [[acc2 rej] [E2 Inc]]. rewrite E2. cbn [map_res bind fst snd].
  rewrite re_endorse_shift. destruct (re_endorse rej) as [[acc3 rejspans]|er]; cbn [map_res bind fst snd]; [|reflexivity].
  unfold shift_se; cbn [fst snd]. rewrite !map_app. reflexivity.
Qed.

Definition shift_ec (r : list fragspan * list contacts) : list fragspan * list contacts := (map sfs (fst r), map sct (snd r)).

Theorem endorse_cells_shift cells : endorse_cells (map (shift_cc k n) cells) = map_res shift_ec (endorse_cells cells).
Proof.
  unfold endorse_cells. rewrite spans_of_cells_shift.
  destruct (spans_of_cells cells) as [spans|er]; cbn [bind map_res]; [|reflexivity].
  set (F := fun s : span => do r <- span_endorse s; let '(acc, rejspans) := r in do css <- mapM contacts_of_span rejspans; Ok (acc, concat css)).
  assert (HF : forall s, F (ss s) = map_res shift_ec (F s)).
  { intros s. unfold F. rewrite span_endorse_shift. destruct (span_endorse s) as [[acc rejspans]|er]; cbn [map_res bind shift_se fst snd]; [|reflexivity].
    rewrite (mapM_shift contacts_of_span ss (map sct) rejspans) by (intros x _; apply contacts_of_span_shift).
    destruct (mapM contacts_of_span rejspans) as [css|er]; cbn [map_res bind]; [|reflexivity].
    unfold shift_ec; cbn [fst snd]. rewrite concat_map. reflexivity. }
  rewrite (mapM_shift F ss shift_ec spans) by (intros x _; apply HF).
  destruct (mapM F spans) as [rs|er]; cbn [bind map_res]; [|reflexivity].
  unfold shift_ec; cbn [fst snd]. f_equal.
  assert (A1 : flat_map fst (map (fun r : list fragspan * list contacts => (map sfs (fst r), map sct (snd r))) rs) = map sfs (flat_map fst rs)).
  { induction rs as [|r t IH]; cbn [map flat_map fst]; [reflexivity|]. rewrite IH, map_app. reflexivity. }
  assert (A2 : flat_map snd (map (fun r : list fragspan * list contacts => (map sfs (fst r), map sct (snd r))) rs) = map sct (flat_map snd rs)).
  { clear A1. induction rs as [|r t IH]; cbn [map flat_map snd]; [reflexivity|]. rewrite IH, map_app. reflexivity. }
  rewrite A1, A2.
  assert (FL : forall (p : contacts -> bool) l, (forall c, p (sct c) = p c) -> filter p (map sct l) = map sct (filter p l)).
  { intros p l Hp. induction l as [|c t IH]; cbn [map filter]; [reflexivity|]. rewrite Hp. destruct (p c); cbn [map]; rewrite IH; reflexivity. }
  rewrite !FL by (intros c; unfold shift_contacts; rewrite map_length; reflexivity).
  rewrite map_app, concat_map. reflexivity.
Qed.
End Shift2.
