(** * ShiftBuf: the fragment buffer, the merged fragments and the contact groups of a span
    under translation (C06, third part). *)
Require Import SB.Model.Base SB.Model.Unicode SB.Model.Geom SB.Model.Fragment SB.Model.Merge
  SB.Model.Property SB.Model.FragBuf SB.Theory.MergeTheory SB.Theory.ShiftTheory SB.Theory.ShiftFrag.

Ltac res_case e := destruct e; cbn [bind]; try reflexivity.

Lemma eval_env_ext c (e1 e2 : dir8 -> property) : (forall d, e1 d = e2 d) -> eval e1 c = eval e2 c.
Proof.
  intros H. induction c as [|d ch|d lvl a b|d a b|c IH|c1 IH1 c2 IH2|c1 IH1 c2 IH2]; cbn [eval]; rewrite ?H, ?IH, ?IH1, ?IH2; reflexivity.
Qed.
Lemma property_fragments_env_ext p (e1 e2 : dir8 -> property) : (forall d, e1 d = e2 d) -> property_fragments p e1 = property_fragments p e2.
Proof.
  intros H. unfold property_fragments. induction (pbeh p) as [|[c fs] t IH]; cbn [flat_map]; [reflexivity|].
  rewrite (eval_env_ext c e1 e2 H), IH. reflexivity.
Qed.

Section Shift.
Context (k n : Z).
Notation sp := (shift_point k n).
Notation sc := (shift_cell k n).
Notation ss := (shift_span k n).
Notation sf := (shift_frag k n).

(** fragment spans inside the buffer are cell-local: only their cell span moves *)
Definition shift_local (f : fragspan) : fragspan := FS (ss (fs_span f)) (fs_frag f).
Definition shift_fs (f : fragspan) : fragspan := FS (ss (fs_span f)) (sf (fs_frag f)).
Definition shift_fb (fb : fragbuf) : fragbuf := map (fun e => (sc (fst e), map shift_local (snd e))) fb.
Definition shift_pb (pb : propbuf) : propbuf := map (fun e => (sc (fst e), snd e)) pb.

Definition map_res {X Y} (f : X -> Y) (r : res X) : res Y := match r with Ok x => Ok (f x) | Err e => Err e end.

(** ** sorting commutes with a map that does not change the order *)
Lemma ins_map {X} (less : X -> X -> bool) (g : X -> X) (Hg : forall a b, less (g a) (g b) = less a b) x l :
  ins less (g x) (map g l) = (map g (fst (ins less x l)), snd (ins less x l)).
Proof.
  induction l as [|e t IH]; cbn [map ins]; [reflexivity|].
  rewrite IH. destruct (ins less x t) as [t' fl]; cbn [fst snd]. destruct fl; [|reflexivity].
  rewrite Hg. destruct (less x e); cbn [fst snd map]; [|reflexivity]. destruct t'; reflexivity.
Qed.
Lemma isort_map {X} (less : X -> X -> bool) (g : X -> X) (Hg : forall a b, less (g a) (g b) = less a b) l :
  isort less (map g l) = map g (isort less l).
Proof.
  unfold isort. change (@nil X) with (map g []) at 1. generalize (@nil X) as acc.
  induction l as [|x t IH]; intros acc; cbn [map fold_left]; [reflexivity|].
  rewrite (ins_map less g Hg). cbn [fst]. apply IH.
Qed.
Lemma sort_cell_shift v : sort_cell (map shift_local v) = map shift_local (sort_cell v).
Proof. unfold sort_cell. apply isort_map. intros a b. reflexivity. Qed.

(** ** the sorted map *)
Lemma fb_update_shift c f g fb :
  (forall o, g (option_map (map shift_local) o) = map shift_local (f o)) ->
  fb_update (sc c) g (shift_fb fb) = shift_fb (fb_update c f fb).
Proof.
  intros H. induction fb as [|[kc v] t IH]; cbn [shift_fb map fb_update fst snd].
  - rewrite <- (H None). reflexivity.
  - rewrite cell_cmp_shift. destruct (cell_cmp c kc); cbn [map fst snd].
    + rewrite <- (H (Some v)). reflexivity.
    + rewrite <- (H None). reflexivity.
    + f_equal. exact IH.
Qed.

Lemma cellchar_eqb_shift x y : cellchar_eqb (shift_cc k n x) (shift_cc k n y) = cellchar_eqb x y.
Proof. unfold cellchar_eqb, shift_cc; cbn [fst snd]. rewrite cell_eqb_shift. reflexivity. Qed.
Lemma span_eqb_shift a b : span_eqb (ss a) (ss b) = span_eqb a b.
Proof.
  unfold span_eqb, shift_span. revert b. induction a as [|x t IH]; intros [|y t']; cbn [map list_eqb]; try reflexivity.
  rewrite cellchar_eqb_shift, IH. reflexivity.
Qed.
Lemma fragspan_eqb_local a b : fragspan_eqb (shift_local a) (shift_local b) = fragspan_eqb a b.
Proof. unfold fragspan_eqb, shift_local; cbn. rewrite span_eqb_shift. reflexivity. Qed.

Lemma add_fragments_shift c ch fs fb :
  add_fragments_to_cell (sc c) ch fs (shift_fb fb) = shift_fb (add_fragments_to_cell c ch fs fb).
Proof.
  unfold add_fragments_to_cell. apply fb_update_shift. intros o. rewrite <- sort_cell_shift. f_equal.
  destruct o as [ex|]; cbn [option_map]; rewrite ?map_app, map_map; reflexivity.
Qed.
Lemma add_fragment_shift c ch f fb :
  add_fragment_to_cell (sc c) ch f (shift_fb fb) = shift_fb (add_fragment_to_cell c ch f fb).
Proof.
  unfold add_fragment_to_cell. apply fb_update_shift. intros o. rewrite <- sort_cell_shift. f_equal.
  destruct o as [ex|]; cbn [option_map]; [|reflexivity].
  change (FS [(sc c, ch)] f) with (shift_local (FS [(c, ch)] f)).
  assert (M : mem fragspan_eqb (shift_local (FS [(c, ch)] f)) (map shift_local ex) = mem fragspan_eqb (FS [(c, ch)] f) ex).
  { unfold mem. rewrite existsb_map'. apply existsb_ext'. intros x. apply fragspan_eqb_local. }
  rewrite M. destruct (mem fragspan_eqb (FS [(c, ch)] f) ex); [reflexivity|]. rewrite map_app. reflexivity.
Qed.

(** ** the property buffer *)
Lemma propbuf_of_span_shift s : propbuf_of_span (ss s) = shift_pb (propbuf_of_span s).
Proof.
  unfold propbuf_of_span, shift_pb, shift_span. induction s as [|[c z] t IH]; cbn [map flat_map]; [reflexivity|].
  rewrite IH. cbn [fst snd shift_cc]. destruct (property_of_char z); reflexivity.
Qed.
Lemma pb_get_shift pb c : pb_get (shift_pb pb) (sc c) = pb_get pb c.
Proof.
  unfold pb_get, shift_pb. rewrite <- map_rev. induction (rev pb) as [|[c' p] t IH]; cbn [map find fst snd]; [reflexivity|].
  rewrite cell_eqb_shift. destruct (cell_eqb c' c); [reflexivity|exact IH].
Qed.
Lemma pb_env_shift pb c d : pb_env (shift_pb pb) (sc c) d = pb_env pb c d.
Proof.
  unfold pb_env. replace (cell_add (sc c) (dir8_offset d)) with (sc (cell_add c (dir8_offset d)))
    by (unfold cell_add, shift_cell; cbn; f_equal; lia).
  rewrite pb_get_shift. reflexivity.
Qed.
Lemma pb_entries_shift pb : pb_entries (shift_pb pb) = shift_pb (pb_entries pb).
Proof.
  unfold shift_pb. induction pb as [|[c p] t IH]; cbn [map pb_entries fst snd]; [reflexivity|].
  rewrite existsb_map'. cbn [fst]. rewrite (existsb_ext' _ (fun e => cell_eqb (fst e) c)) by (intros x; apply cell_eqb_shift).
  destruct (existsb (fun e => cell_eqb (fst e) c) t); [exact IH|]. cbn [map fst snd]. f_equal. exact IH.
Qed.

Lemma add_entry_shift pb fbr e :
  add_entry (shift_pb pb) (map_res shift_fb fbr) (sc (fst e), snd e) = map_res shift_fb (add_entry pb fbr e).
Proof.
  destruct fbr as [fb|er]; [|reflexivity]. destruct e as [c p]. unfold add_entry; cbn [map_res bind fst snd].
  rewrite (property_fragments_env_ext p (pb_env (shift_pb pb) (sc c)) (pb_env pb c)) by (intros d; apply pb_env_shift).
  destruct (property_fragments p (pb_env pb c)) as [|f0 fs0].
  - destruct (unicode_fragments_of (pch p)) as [ufs|].
    + destruct (merge_recursive fragment_merge ufs); cbn [bind map_res]; [|reflexivity]. rewrite add_fragments_shift. reflexivity.
    + cbn [map_res]. rewrite add_fragment_shift. reflexivity.
  - cbn [map_res]. rewrite add_fragments_shift. reflexivity.
Qed.

Lemma fold_add_entry_shift pb order : forall fbr,
  fold_left (add_entry (shift_pb pb)) (shift_pb order) (map_res shift_fb fbr)
  = map_res shift_fb (fold_left (add_entry pb) order fbr).
Proof.
  induction order as [|e t IH]; intros fbr; cbn [shift_pb map fold_left]; [reflexivity|].
  fold (shift_pb t). rewrite (add_entry_shift pb fbr e). apply IH.
Qed.

Theorem fragbuf_of_span_shift s : fragbuf_of_span (ss s) = map_res shift_fb (fragbuf_of_span s).
Proof.
  unfold fragbuf_of_span, fragbuf_of_entries. cbv zeta. rewrite propbuf_of_span_shift, pb_entries_shift.
  set (pb := propbuf_of_span s). clearbody pb.
  change (@Ok fragbuf []) with (map_res shift_fb (@Ok fragbuf [])) at 1. rewrite fold_add_entry_shift.
  destruct (fold_left (add_entry pb) (pb_entries pb) (@Ok fragbuf [])) as [fb|er]; cbn [map_res bind]; [|reflexivity].
  f_equal. revert fb. unfold shift_span. induction s as [|[c z] t IH]; intros fb; cbn [map fold_left]; [reflexivity|].
  cbn [shift_cc fst snd]. rewrite pb_get_shift.
  destruct (pb_get pb c).
  - apply IH.
  - destruct (unicode_fragments_of z); [rewrite add_fragments_shift|rewrite add_fragment_shift]; apply IH.
Qed.

(** ** absolute positions *)
Lemma fragment_abs_shift c f : fragment_abs (sc c) f = sf (fragment_abs c f).
Proof.
  destruct f; cbn [fragment_abs shift_frag]; unfold line_abs, shift_line; cbn [lstart lend lbroken mlline mlstart mlend ccenter cradius cfilled astart aend aradius amajor asweep ppoints pfilled ptags rstart rend rfilled rradius rbroken ctstart ctcontent];
    rewrite ?cell_abs_shift; try reflexivity.
  - f_equal. f_equal. rewrite map_map. apply map_ext. intros q. apply cell_abs_shift.
  - f_equal. f_equal. unfold cell_add, shift_cell; cbn. f_equal; lia.
Qed.
Lemma abs_fragment_spans_shift fb : abs_fragment_spans (shift_fb fb) = map shift_fs (abs_fragment_spans fb).
Proof.
  unfold abs_fragment_spans, shift_fb. induction fb as [|[c v] t IH]; cbn [map flat_map fst snd]; [reflexivity|].
  rewrite IH, map_app, !map_map. f_equal. apply map_ext. intros f. unfold fragspan_abs, shift_local, shift_fs; cbn [fs_span fs_frag].
  rewrite fragment_abs_shift. reflexivity.
Qed.

Lemma fragspan_merge_shift a b : fragspan_merge (shift_fs a) (shift_fs b) = option_map shift_fs (fragspan_merge a b).
Proof.
  unfold fragspan_merge, shift_fs; cbn [fs_frag fs_span]. rewrite fragment_merge_shift.
  destruct (fragment_merge (fs_frag a) (fs_frag b)); cbn [option_map fs_span fs_frag]; [|reflexivity].
  unfold shift_span. rewrite map_app. reflexivity.
Qed.
Theorem merge_fragment_spans_shift fb :
  merge_fragment_spans (shift_fb fb) = map_res (map shift_fs) (merge_fragment_spans fb).
Proof.
  unfold merge_fragment_spans. rewrite abs_fragment_spans_shift.
  rewrite (merge_recursive_map fragspan_merge shift_fs fragspan_merge_shift). reflexivity.
Qed.

(** ** contact groups *)
Definition shift_contacts (c : contacts) : contacts := map shift_fs c.
Lemma contacts_is_contacting_shift a b : contacts_is_contacting (shift_contacts a) (shift_contacts b) = contacts_is_contacting a b.
Proof.
  unfold contacts_is_contacting, shift_contacts. rewrite existsb_map'. apply existsb_ext'. intros o.
  rewrite existsb_map'. apply existsb_ext'. intros f. cbn [shift_fs fs_frag]. apply is_contacting_shift.
Qed.
Lemma contacts_merge_shift a b : contacts_merge (shift_contacts a) (shift_contacts b) = option_map shift_contacts (contacts_merge a b).
Proof.
  unfold contacts_merge. rewrite contacts_is_contacting_shift. destruct (contacts_is_contacting a b); [|reflexivity].
  cbn [option_map]. unfold shift_contacts. rewrite map_app. reflexivity.
Qed.
Theorem contacts_of_span_shift s : contacts_of_span (ss s) = map_res (map shift_contacts) (contacts_of_span s).
Proof.
  unfold contacts_of_span. rewrite fragbuf_of_span_shift. destruct (fragbuf_of_span s) as [fb|er]; cbn [map_res bind]; [|reflexivity].
  rewrite merge_fragment_spans_shift. destruct (merge_fragment_spans fb) as [m|er]; cbn [map_res bind]; [|reflexivity].
  replace (map (fun f => [f]) (map shift_fs m)) with (map shift_contacts (map (fun f => [f]) m)) by (rewrite !map_map; reflexivity).
  rewrite (merge_recursive_map contacts_merge shift_contacts contacts_merge_shift). reflexivity.
Qed.
Lemma contacts_span_shift c : contacts_span (shift_contacts c) = ss (contacts_span c).
Proof.
  unfold contacts_span, shift_contacts, shift_span. induction c as [|f t IH]; cbn [map flat_map]; [reflexivity|].
  rewrite IH, map_app. reflexivity.
Qed.
End Shift.
