(** * TextTotal: the text stage never fails (C01, first part): [line_parse] has enough fuel,
    the positions it returns are in range and increasing, so the three slices of
    [escape_line] never panic; hence [cellbuffer_from] always returns. *)
Require Import SB.Model.Base SB.Model.Unicode SB.Model.Geom SB.Model.Text.
From Coq Require Import Arith.

Lemma skip_nq_spec s : forall pos s' pos', skip_nq s pos = (s', pos') ->
  (pos' + length s' = pos + length s /\ pos <= pos')%nat.
Proof.
  induction s as [|c t IH]; cbn; intros pos s' pos' H.
  - inversion H; subst; cbn; lia.
  - destruct (c =? 34).
    + inversion H; subst; cbn; lia.
    + apply IH in H. cbn in *. lia.
Qed.

Lemma char_strings_spec : forall n s, (length s <= n)%nat -> forall pos s' pos', char_strings s pos = (s', pos') ->
  (pos' + length s' = pos + length s /\ pos <= pos')%nat.
Proof.
  induction n as [|n IH]; intros s L pos s' pos' H.
  - destruct s; [|cbn in L; lia]. cbn in H. inversion H; subst; cbn; lia.
  - destruct s as [|c t]; [cbn in H; inversion H; subst; cbn; lia|].
    cbn [length] in L. cbn [char_strings] in H.
    destruct t as [|d t'].
    + destruct (c =? 34); [inversion H; subst; cbn; lia|].
      cbn in H. inversion H; subst; cbn; lia.
    + destruct ((c =? 92) && (d =? 34)).
      * apply IH in H; [|cbn [length] in L; lia]. cbn [length] in *. lia.
      * destruct (c =? 34); [inversion H; subst; cbn; lia|].
        apply IH in H; [|lia]. cbn [length] in *. lia.
Qed.

(** a successful [escape_string] match from position [pos] with [pos + length s = n]:
    the quotes are at [p1 < p3 < n] and parsing resumes at [p5 > p3] *)
Lemma escape_string_spec s pos p1 p3 s5 p5 :
  escape_string s pos = Some ((p1, p3), s5, p5) ->
  (pos <= p1 /\ p1 < p3 /\ p3 < p5 /\ p5 + length s5 = pos + length s)%nat.
Proof.
  unfold escape_string. destruct (skip_nq s pos) as [s1 q1] eqn:E1.
  apply skip_nq_spec in E1. destruct s1 as [|q s2]; [discriminate|].
  destruct (q =? 34); [|discriminate].
  destruct (char_strings s2 (S q1)) as [s3 q3] eqn:E3.
  apply (char_strings_spec (length s2) s2 (le_n _)) in E3.
  destruct s3 as [|q' s4]; [discriminate|]. destruct (q' =? 34); [|discriminate].
  destruct (skip_nq s4 (S q3)) as [s6 q5] eqn:E5. apply skip_nq_spec in E5.
  intros H; inversion H; subst. cbn [length] in *. lia.
Qed.

(** the segments returned from index [idx] on a row of length [n] *)
Fixpoint ordered (idx n : nat) (locs : list (nat * nat)) : Prop :=
  match locs with
  | [] => (idx <= n)%nat
  | (s, e) :: more => (idx <= s /\ s < e /\ e < n)%nat /\ ordered (S e) n more
  end.

Lemma line_parse_aux_spec : forall fuel s pos n, (length s <= fuel)%nat -> (pos + length s = n)%nat ->
  exists locs, line_parse_aux fuel s pos = Some locs /\ ordered pos n locs.
Proof.
  induction fuel as [|f IH]; intros s pos n L N.
  - destruct s; [|cbn in L; lia]. cbn. exists []; split; [reflexivity|cbn; lia].
  - cbn [line_parse_aux]. destruct (escape_string s pos) as [[[[p1 p3] s5] p5]|] eqn:E.
    + apply escape_string_spec in E.
      destruct (IH s5 p5 n) as [locs [E2 O]]; [lia|lia|].
      rewrite E2. cbn. exists ((p1, p3) :: locs). split; [reflexivity|].
      cbn. split; [lia|].
      (* the next segment starts after p3: ordered is monotone in its start index *)
      clear - O E. destruct E as [_ [_ [E _]]].
      revert O. generalize dependent p5. generalize dependent p3.
      destruct locs as [|[a b] more]; cbn; intros; lia || (destruct O; split; [lia|assumption]).
    + exists []. split; [reflexivity|]. cbn; lia.
Qed.

Lemma line_parse_ok row : exists locs, line_parse row = Ok locs /\ ordered 0 (length row) locs.
Proof.
  unfold line_parse. destruct (line_parse_aux_spec (length row) row 0 (length row)) as [locs [E O]]; auto.
  rewrite E. eauto.
Qed.

Lemma slice_ok {A} (v : list A) a b : (a <= b)%nat -> (b <= length v)%nat -> exists l, slice v a b = Some l.
Proof.
  intros H1 H2. unfold slice.
  destruct (Nat.leb_spec a b); [|lia]. destruct (Nat.leb_spec b (length v)); [|lia]. cbn. eauto.
Qed.
Lemma slice_from_ok {A} (v : list A) a : (a <= length v)%nat -> exists l, slice_from v a = Some l.
Proof. intros H. unfold slice_from. destruct (Nat.leb_spec a (length v)); [|lia]. eauto. Qed.

Lemma escape_segments_ok y row : forall locs idx, ordered idx (length row) locs ->
  exists r, escape_segments y row locs idx = Ok r.
Proof.
  induction locs as [|[s e] more IH]; intros idx O; cbn [escape_segments].
  - cbn in O. destruct (slice_from_ok row idx O) as [l ->]. cbn. eauto.
  - cbn in O. destruct O as [[O1 [O2 O3]] O4].
    destruct (slice_ok row (S s) e) as [l1 ->]; [lia|lia|].
    destruct (slice_ok row idx s) as [l2 ->]; [lia|lia|]. cbn.
    destruct (IH (S e) O4) as [[texts tail] ->]. cbn. eauto.
Qed.

Lemma escape_line_ok y row : exists r, escape_line y row = Ok r.
Proof.
  unfold escape_line. destruct (line_parse_ok row) as [locs [-> O]]. cbn.
  destruct locs; [eauto|]. apply escape_segments_ok; exact O.
Qed.

Lemma cells_of_rows_ok rows : forall y, exists r, cells_of_rows y rows = Ok r.
Proof.
  induction rows as [|row more IH]; intros y; cbn [cells_of_rows]; [eauto|].
  destruct (escape_line_ok y row) as [[esc un] ->]. cbn.
  destruct (IH (y + 1)) as [[cells escs] ->]. cbn. eauto.
Qed.

Lemma cellbuffer_of_text_ok s css : exists cb, cellbuffer_of_text s css = Ok cb /\ cb_css cb = css.
Proof.
  unfold cellbuffer_of_text. destruct (cells_of_rows_ok (string_buffer s) 0) as [[cells escs] ->]. cbn. eauto.
Qed.

Theorem cellbuffer_from_ok input : exists cb, cellbuffer_from input = Ok cb.
Proof.
  unfold cellbuffer_from.
  destruct (find_sub LEGEND_MARK input []) as [[before from]|].
  - destruct (parse_css_legend (uncrlf from)).
    + destruct (cellbuffer_of_text_ok before l) as [cb [-> _]]; eauto.
    + destruct (cellbuffer_of_text_ok input []) as [cb [-> _]]; eauto.
  - destruct (cellbuffer_of_text_ok input []) as [cb [-> _]]; eauto.
Qed.
