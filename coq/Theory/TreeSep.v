(** * TreeSep: the enclosure pass keeps separated parts apart (C10, last stage).
    The pass has the shape of the merge loop with [enclose_deep_first] as the merge, so M3 for
    the whole loop applies: when no fragment of one part fits inside a fragment of the other,
    the trees of the whole drawing are the trees of the parts, in order. *)
Require Import SB.Model.Base SB.Model.Geom SB.Model.Text SB.Model.Merge SB.Model.Tree SB.Model.Svg SB.Model.Lib
  SB.Theory.MergeTheory SB.Theory.TagTheory SB.Theory.ShiftBuf SB.Theory.SepTheory.
From Coq Require Import Permutation QArith.

Section TreeSep.
Variable pA : fragment -> bool.
Variable fs : list fragment.
Hypothesis nofit : forall f g, In f fs -> In g fs -> pA f <> pA g -> can_fit f g = false.

Definition tside (t : ftree) : bool := pA (ft_frag t).
Definition tpure (t : ftree) : Prop := Forall (fun f => In f fs /\ pA f = tside t) (fragments_of_tree t).

Lemma root_in t : In (ft_frag t) (fragments_of_tree t).
Proof. destruct t; cbn. left; reflexivity. Qed.
Lemma fits_nowhere t o : Forall (fun f => can_fit f o = false) (fragments_of_tree t) -> fits_somewhere t o = false.
Proof.
  induction t as [f tags kids IH] using ftree_ind'. cbn [fragments_of_tree fits_somewhere]. intros H.
  inversion H as [|x l Hf Hk]; subst. rewrite Hf. cbn [orb].
  induction IH as [|k r Hkk Fr IHr]; cbn [existsb flat_map] in *; [reflexivity|].
  apply Forall_app in Hk. destruct Hk as [K1 K2]. rewrite (Hkk K1). cbn [orb]. apply IHr; [constructor; assumption|exact K2].
Qed.
Lemma t_cross a b : tpure a -> tpure b -> tside a <> tside b -> enclose_deep_first a b = None.
Proof.
  intros Pa Pb D. apply enclose_none_iff. apply fits_nowhere.
  unfold tpure in *. rewrite Forall_forall in *. intros f If. destruct (Pa f If) as [F1 S1].
  destruct (Pb _ (root_in b)) as [F2 S2]. apply nofit; auto. unfold tside in *. congruence.
Qed.
Lemma t_stay a b c : tpure a -> tpure b -> enclose_deep_first a b = Some c -> tside c = tside a.
Proof.
  intros _ _. destruct a as [f tags kids]. rewrite enclose_unfold. unfold tside.
  destruct (try_kids b kids); [intros H; inversion H; reflexivity|].
  destruct (can_fit f (ft_frag b)); [|discriminate]. destruct (frag_css_tag (ft_frag b)); intros H; inversion H; reflexivity.
Qed.
Lemma t_merge a b c : enclose_deep_first a b = Some c -> tpure a -> tpure b -> tpure c.
Proof.
  intros M Pa Pb.
  destruct (Bool.bool_dec (tside a) (tside b)) as [E|D]; [|rewrite (t_cross a b Pa Pb D) in M; discriminate].
  pose proof (t_stay a b c Pa Pb M) as Sc. unfold tpure in *. rewrite Sc.
  destruct (frag_css_tag (ft_frag b)) as [|x xs] eqn:Tg.
  - destruct (enclose_plain a b c Tg M) as [_ [_ Hin]]. apply Forall_forall. intros f If. apply Hin in If.
    rewrite Forall_forall in Pa, Pb. destruct If as [If|If]; [apply Pa; exact If|]. destruct (Pb f If) as [H1 H2]. split; [exact H1|congruence].
  - assert (N : frag_css_tag (ft_frag b) <> []) by (rewrite Tg; discriminate).
    destruct (enclose_tag a b c N M) as [-> _]. exact Pa.
Qed.
Lemma leaves_pure : Forall tpure (map (fun f => FT f [] []) fs).
Proof.
  apply Forall_forall. intros t H. apply in_map_iff in H. destruct H as [f [<- If]].
  unfold tpure; cbn. constructor; [|constructor]. split; [exact If|reflexivity].
Qed.
Lemma filter_leaves l : filter tside (map (fun f => FT f [] []) l) = map (fun f => FT f [] []) (filter pA l).
Proof. induction l as [|f t IH]; cbn; [reflexivity|]. unfold tside at 1; cbn. rewrite IH. destruct (pA f); reflexivity. Qed.

(** the trees built for one part alone are the trees of the whole whose root lies in that part *)
Theorem enclose_fragments_side : enclose_fragments (filter pA fs) = map_res (filter tside) (enclose_fragments fs).
Proof.
  unfold enclose_fragments. rewrite <- filter_leaves.
  rewrite (merge_recursive_filter enclose_deep_first tside tpure t_merge t_cross t_stay) by apply leaves_pure.
  destruct (merge_recursive enclose_deep_first _); reflexivity.
Qed.
End TreeSep.

Definition nodes_of_trees (s : Q) (trees : list ftree) : list node :=
  map (fun '(f, tags) => with_tags (fragment_node s f) tags) (flat_map flatten_tree trees).
Lemma nodes_of_trees_perm s a b : Permutation a b -> Permutation (nodes_of_trees s a) (nodes_of_trees s b).
Proof. intros H. unfold nodes_of_trees. apply Permutation_map. apply Permutation_flat_map. exact H. Qed.
Lemma nodes_of_trees_app s a b : nodes_of_trees s (a ++ b) = nodes_of_trees s a ++ nodes_of_trees s b.
Proof. unfold nodes_of_trees. rewrite flat_map_app, map_app. reflexivity. Qed.

(** C10 at the last stage: the nodes drawn for the whole list of fragments are those drawn for
    the two parts, when no fragment of one part fits in the bounds of a fragment of the other *)
Theorem fragment_nodes_separated (pA : fragment -> bool) (s : Q) (fs : list fragment) nodes :
  (forall f g, In f fs -> In g fs -> pA f <> pA g -> can_fit f g = false) ->
  fragment_nodes s fs = Ok nodes ->
  exists na nb, fragment_nodes s (filter pA fs) = Ok na /\
                fragment_nodes s (filter (fun f => negb (pA f)) fs) = Ok nb /\
                Permutation nodes (na ++ nb).
Proof.
  intros NF H. unfold fragment_nodes in *.
  pose proof (enclose_fragments_side pA fs NF) as SA.
  assert (NF' : forall f g, In f fs -> In g fs -> negb (pA f) <> negb (pA g) -> can_fit f g = false).
  { intros f g If Ig D. apply NF; auto. intros E. apply D. rewrite E. reflexivity. }
  pose proof (enclose_fragments_side (fun f => negb (pA f)) fs NF') as SB.
  destruct (enclose_fragments fs) as [trees|e]; cbn [bind map_res] in *; [|discriminate].
  rewrite SA, SB. cbn [bind]. do 2 eexists. split; [reflexivity|]. split; [reflexivity|].
  inversion H; subst. fold (nodes_of_trees s trees). fold (nodes_of_trees s (filter (tside pA) trees)).
  fold (nodes_of_trees s (filter (tside (fun f => negb (pA f))) trees)). rewrite <- nodes_of_trees_app.
  apply nodes_of_trees_perm. apply (filter_split_perm (tside pA)).
Qed.
