(** * BulletMid: a bullet ('*', 'o', 'O') in the middle of a straight run, to the right, downwards or down-right: L1 line
    characters, the bullet, L2 line characters (1..8 each).  Through the whole recognition of the model: no group, no
    text; the first fragment is a solid marked line from the start of the run to the centre of the bullet's cell, marked
    there with the bullet's kind; every other fragment is an unmarked solid line on the axis of the run, between the
    start of the run and its end (C14, "at an end or mid-line"; finite sweep, bounds in the statement). *)
Require Import SB.Model.Base SB.Model.Unicode SB.Model.Geom SB.Model.Fragment SB.Model.Merge SB.Model.Property
  SB.Model.FragBuf SB.Model.Endorse SB.Theory.ArrowTheory SB.Theory.BoxDefs SB.Theory.ArrowDefs.

Definition mid_cells (k : acase) (L1 L2 : nat) : list (cell * Z) :=
  map (fun i => (C (i * adx k) (i * ady k), alc k)) (seqZ 0 L1)
  ++ [(C (Z.of_nat L1 * adx k) (Z.of_nat L1 * ady k), aac k)]
  ++ map (fun i => (C ((Z.of_nat L1 + 1 + i) * adx k) ((Z.of_nat L1 + 1 + i) * ady k), alc k)) (seqZ 0 L2).
(** the three forward directions: right, down, down-right *)
Definition mcases : list acase :=
  flat_map (fun '(dx, dy, lc) => map (fun b => AC dx dy lc b) [42; 111; 79]) [(1, 0, 45); (0, 1, 124); (1, 1, 92)].
Definition mid_chk (k : acase) (L1 L2 : nat) : bool :=
  match endorse_cells (mid_cells k L1 L2) with
  | Ok (m :: rest, []) =>
      match fs_frag m with
      | FMarkerLine ml =>
          let far := P (20 - adx k * 20) (40 - ady k * 40) in
          let centre := P (Z.of_nat L1 * adx k * 40 + 20) (Z.of_nat L1 * ady k * 80 + 40) in
          let n := Z.of_nat L1 + Z.of_nat L2 in
          let last := P (n * adx k * 40 + 20 + adx k * 20) (n * ady k * 80 + 40 + ady k * 40) in
          let l := mlline ml in
          negb (lbroken l) && point_eqb (lstart l) far && point_eqb (lend l) centre
          && match mlstart ml with None => true | Some _ => false end
          && marker_eqb (mlend ml) (bullet_marker (aac k))
          && forallb (fun f => match fs_frag f with
                               | FLine s => negb (lbroken s) && on_segment far last (lstart s) && on_segment far last (lend s)
                               | _ => false
                               end) rest
      | _ => false
      end
  | _ => false
  end.
Definition MMAX := 8%nat.
Lemma mid_sweep_ok : forallb (fun k => forallb (fun L1 => forallb (fun L2 => mid_chk k L1 L2) (seq 1 MMAX)) (seq 1 MMAX)) mcases = true.
Proof. vm_cast_no_check (eq_refl true). Qed.
Theorem bullet_mid_line k L1 L2 : In k mcases -> (1 <= L1 <= MMAX)%nat -> (1 <= L2 <= MMAX)%nat -> mid_chk k L1 L2 = true.
Proof.
  intros Hk H1 H2.
  assert (I1 : In L1 (seq 1 MMAX)) by (apply in_seq; unfold MMAX in *; lia).
  assert (I2 : In L2 (seq 1 MMAX)) by (apply in_seq; unfold MMAX in *; lia).
  exact (proj1 (forallb_forall _ _) (proj1 (forallb_forall _ _) (proj1 (forallb_forall _ _) mid_sweep_ok k Hk) L1 I1) L2 I2).
Qed.
