(** * DocSafe: every document the model builds is a safe tree (C02, C08): element and attribute
    names from the fixed vocabulary, attribute values free of quote, < and &, character data
    escaped.  For every input and every settings value. *)
Require Import SB.Model.Base SB.Model.Unicode SB.Model.Geom SB.Model.Fragment SB.Model.Merge SB.Model.Text
  SB.Model.FragBuf SB.Model.Endorse SB.Model.Tree SB.Model.Svg SB.Model.Lib SB.Theory.Xml SB.Theory.SwitchTheory
  SB.Gen.Style SB.Gen.Defaults.
From Coq Require Import QArith String.
From Coq Require Import List.
Import ListNotations.
#[global] Open Scope Z_scope.

(** ** printable pieces *)
Definition plain_char (c : Z) : bool := (32 <=? c) && (c <=? 126) && negb ((c =? 34) || (c =? 38) || (c =? 60) || (c =? 62)).
Ltac decide_cmp :=
  repeat match goal with
         | |- context [?a <=? ?b] => destruct (Z.leb_spec a b)
         | |- context [?a =? ?b] => destruct (Z.eqb_spec a b)
         end; cbn; try reflexivity; try lia.
Lemma plain_bounds c : plain_char c = true -> 32 <= c <= 126 /\ c <> 34 /\ c <> 38 /\ c <> 60 /\ c <> 62.
Proof.
  unfold plain_char. rewrite !andb_true_iff, negb_true_iff, !orb_false_iff, !Z.leb_le, !Z.eqb_neq. tauto.
Qed.
Lemma plain_att c : plain_char c = true -> att_ok c = true.
Proof. intros H. apply plain_bounds in H. unfold att_ok, non_xml. decide_cmp. Qed.
Lemma plain_text c : plain_char c = true -> text_ok c = true.
Proof. intros H. apply plain_bounds in H. unfold text_ok, non_xml. decide_cmp. Qed.
Definition plain (s : list Z) : bool := forallb plain_char s.
Lemma plain_app a b : plain (a ++ b) = plain a && plain b.
Proof. apply forallb_app. Qed.
Lemma plain_atts s : plain s = true -> forallb att_ok s = true.
Proof. unfold plain. rewrite !forallb_forall. intros H c Hc. apply plain_att. auto. Qed.
Lemma plain_texts s : plain s = true -> forallb text_ok s = true.
Proof. unfold plain. rewrite !forallb_forall. intros H c Hc. apply plain_text. auto. Qed.

Definition digit (c : Z) : Prop := 48 <= c <= 57.
Lemma digit_plain c : digit c -> plain_char c = true.
Proof.
  unfold digit, plain_char. intros H. rewrite !andb_true_iff, negb_true_iff, !orb_false_iff, !Z.leb_le, !Z.eqb_neq. lia.
Qed.
Lemma digits_aux_digits fuel : forall n acc, 0 <= n -> Forall digit acc -> Forall digit (digits_aux fuel n acc).
Proof.
  induction fuel as [|f IH]; intros n acc Hn Ha; cbn [digits_aux]; [exact Ha|].
  destruct (Z.ltb_spec n 10).
  - constructor; [unfold digit; lia|exact Ha].
  - apply IH; [apply Z.div_pos; lia|]. constructor; [|exact Ha]. unfold digit. pose proof (Z.mod_pos_bound n 10 ltac:(lia)). lia.
Qed.
Lemma print_z_nonneg_digits n : 0 <= n -> Forall digit (print_z_nonneg n).
Proof. intros H. unfold print_z_nonneg. apply digits_aux_digits; [exact H|constructor]. Qed.
Lemma frac_digits_digits fuel : forall r d, 0 <= r < d -> Forall digit (frac_digits fuel r d).
Proof.
  induction fuel as [|f IH]; intros r d H; cbn [frac_digits]; [constructor|].
  destruct (r =? 0); [constructor|]. constructor.
  - unfold digit. assert (0 <= r * 10 / d) by (apply Z.div_pos; lia).
    assert (r * 10 / d < 10) by (apply Z.div_lt_upper_bound; lia). lia.
  - apply IH. apply Z.mod_pos_bound. lia.
Qed.
Lemma Forall_digit_plain l : Forall digit l -> plain l = true.
Proof. unfold plain. intros F. apply forallb_forall. rewrite Forall_forall in F. intros c Hc. apply digit_plain. auto. Qed.
Lemma strip_zeros_rev_sub l : forall c, In c (strip_zeros_rev l) -> In c l.
Proof.
  induction l as [|x t IH]; cbn [strip_zeros_rev]; intros c H; [exact H|].
  destruct (x =? 48); [right; apply IH; exact H|exact H].
Qed.

Theorem print_q_plain q : plain (print_q q) = true.
Proof.
  unfold print_q. set (qr := Qred q). set (n := Qnum qr). set (d := Zpos (Qden qr)).
  assert (Hd : 0 < d) by (unfold d; lia).
  rewrite !plain_app. apply andb_true_iff. split; [destruct (n <? 0); reflexivity|]. apply andb_true_iff. split.
  - apply Forall_digit_plain. apply print_z_nonneg_digits. apply Z.div_pos; [apply Z.abs_nonneg|exact Hd].
  - assert (F : Forall digit (rev (strip_zeros_rev (rev (frac_digits 9 (Z.abs n mod d) d))))).
    { apply Forall_forall. intros c Hc. apply in_rev in Hc. apply strip_zeros_rev_sub in Hc. apply in_rev in Hc.
      pose proof (frac_digits_digits 9 (Z.abs n mod d) d (Z.mod_pos_bound _ _ Hd)) as G. rewrite Forall_forall in G. auto. }
    destruct (rev (strip_zeros_rev (rev (frac_digits 9 (Z.abs n mod d) d)))) as [|x t]; [reflexivity|].
    cbn [plain forallb]. apply andb_true_iff. split; [reflexivity|]. apply Forall_digit_plain in F. exact F.
Qed.
Lemma print_z_plain n : plain (print_z n) = true.
Proof.
  unfold print_z. destruct (Z.ltb_spec n 0).
  - cbn [plain forallb]. apply andb_true_iff. split; [reflexivity|]. apply Forall_digit_plain, print_z_nonneg_digits. lia.
  - apply Forall_digit_plain, print_z_nonneg_digits. lia.
Qed.

(** ** attributes *)
Definition aval_ok (v : aval) : Prop := forallb att_ok (print_aval v) = true.
Definition attr_ok (a : attr) : Prop := is_name (fst a) = true /\ Forall aval_ok (snd a).

Lemma join_sp_ok l : Forall (fun s => forallb att_ok s = true) l -> forallb att_ok (join_sp l) = true.
Proof.
  induction 1 as [|s t Hs Ft IH]; [reflexivity|]. cbn [join_sp]. destruct t as [|s2 t2]; [exact Hs|].
  rewrite forallb_app. rewrite Hs. cbn [andb forallb]. change (att_ok 32) with true. exact IH.
Qed.
Lemma attr_ok_safe a : attr_ok a -> safe_attr a.
Proof.
  intros [Hn Hv]. split; [exact Hn|]. unfold attr_raw. apply join_sp_ok.
  apply Forall_forall. intros s Hs. apply in_map_iff in Hs. destruct Hs as [v [<- Hin]]. rewrite Forall_forall in Hv. apply Hv; exact Hin.
Qed.
Lemma merge_attribute_ok a l : attr_ok a -> Forall attr_ok l -> Forall attr_ok (merge_attribute a l).
Proof.
  intros Ha. induction 1 as [|[n vs] t [Hn Hv] Ft IH]; cbn [merge_attribute]; [constructor; [exact Ha|constructor]|].
  destruct (zs_eqb n (fst a)).
  - constructor; [|exact Ft]. split; [exact Hn|]. cbn [snd] in *. apply Forall_app; split; [exact Hv|apply Ha].
  - constructor; [split; assumption|exact IH].
Qed.
Lemma merge_same_name_ok l : Forall attr_ok l -> Forall safe_attr (merge_same_name l).
Proof.
  intros F. unfold merge_same_name.
  assert (G : forall acc, Forall attr_ok acc -> Forall attr_ok (fold_left (fun acc a => merge_attribute a acc) l acc)).
  { induction F as [|a t Ha Ft IH]; intros acc Hacc; cbn [fold_left]; [exact Hacc|]. apply IH. apply merge_attribute_ok; assumption. }
  specialize (G [] (Forall_nil _)). apply Forall_forall. intros a Hin. rewrite Forall_forall in G. apply attr_ok_safe, G, Hin.
Qed.

Lemma num_ok name q : is_name (zs name) = true -> attr_ok (Lib.num name q).
Proof. intros H. split; [exact H|]. constructor; [|constructor]. apply plain_atts. apply print_q_plain. Qed.
Lemma sattr_ok n v : is_name (zs n) = true -> plain (zs v) = true -> attr_ok (sattr n v).
Proof. intros H P. split; [exact H|]. constructor; [|constructor]. apply plain_atts. exact P. Qed.

Definition names_ok (names : list string) : Prop := Forall (fun n => plain (zs n) = true) names.
Lemma class_of_ok names : names_ok names -> attr_ok (class_of names).
Proof.
  intros F. split; [reflexivity|]. unfold class_of; cbn [snd]. apply Forall_forall. intros v Hv. apply in_map_iff in Hv. destruct Hv as [n [<- Hn]].
  unfold names_ok in F. rewrite Forall_forall in F. apply plain_atts. apply F; exact Hn.
Qed.

(** ** the nodes of fragments *)
Lemma b01_plain b : plain (b01 b) = true. Proof. destruct b; reflexivity. Qed.
Lemma points_plain pts : plain (print_aval (VPoints pts)) = true.
Proof.
  cbn [print_aval]. assert (P1 : forall p : Q * Q, plain (let '(x, y) := p in print_q x ++ [44] ++ print_q y) = true).
  { intros [x y]. rewrite !plain_app, !print_q_plain. reflexivity. }
  destruct pts as [|p t]; [reflexivity|]. cbn [map concat]. rewrite plain_app, P1. cbn [andb].
  induction t as [|p2 t2 IH]; [reflexivity|]. cbn [map concat]. rewrite plain_app. cbn [plain forallb] in *. rewrite IH.
  change (plain_char 32) with true. cbn [andb]. fold (plain (let '(x, y) := p2 in print_q x ++ [44] ++ print_q y)). rewrite P1. reflexivity.
Qed.
Lemma arc_plain x1 y1 r mj sw x2 y2 : plain (print_aval (VArc x1 y1 r mj sw x2 y2)) = true.
Proof. cbn [print_aval]. rewrite !plain_app, !print_q_plain, !b01_plain. reflexivity. Qed.

Lemma line_attrs_ok s l : Forall attr_ok (line_attrs s l).
Proof.
  unfold line_attrs. do 4 (apply Forall_cons; [apply num_ok; reflexivity|]).
  apply Forall_cons; [|constructor]. apply class_of_ok. destruct (lbroken l); cbn [flag negb app]; constructor; try reflexivity; constructor.
Qed.
Lemma start_marker_ok k : names_ok [String.append "start_marked_" (marker_name k)].
Proof. destruct k; (constructor; [vm_compute; reflexivity|constructor]). Qed.
Lemma end_marker_ok k : names_ok [String.append "end_marked_" (marker_name k)].
Proof. destruct k; (constructor; [vm_compute; reflexivity|constructor]). Qed.

Lemma flags2_ok (n1 n2 : string) b : plain (zs n1) = true -> plain (zs n2) = true -> names_ok (flag n1 b ++ flag n2 (negb b)).
Proof. intros H1 H2. destruct b; cbn [flag negb app]; (constructor; [assumption|constructor]). Qed.

(** attribute lists of the node of every fragment *)
Theorem fragment_node_safe s f : safe (fragment_node s f).
Proof.
  destruct f as [l|m|c|a|p|r|t]; cbn [fragment_node]; apply safe_elem.
  - split; [reflexivity|split; [|exact I]]. apply merge_same_name_ok. apply line_attrs_ok.
  - split; [reflexivity|split; [|exact I]]. apply merge_same_name_ok. apply Forall_app; split; [apply line_attrs_ok|].
    apply Forall_app; split.
    + destruct (mlstart m); [|constructor]. constructor; [|constructor]. apply class_of_ok, start_marker_ok.
    + destruct (mlend m); [|constructor]. constructor; [|constructor]. apply class_of_ok, end_marker_ok.
  - split; [reflexivity|split; [|exact I]]. apply merge_same_name_ok.
    do 3 (apply Forall_cons; [apply num_ok; reflexivity|]). apply Forall_cons; [|constructor].
    apply class_of_ok. apply flags2_ok; reflexivity.
  - split; [reflexivity|split; [|exact I]]. apply merge_same_name_ok.
    apply Forall_cons; [|apply Forall_cons; [|constructor]].
    + split; [reflexivity|]. constructor; [|constructor]. apply plain_atts, arc_plain.
    + apply class_of_ok. constructor; [reflexivity|constructor].
  - split; [reflexivity|split; [|exact I]]. apply merge_same_name_ok.
    apply Forall_cons; [|apply Forall_cons; [|constructor]].
    + split; [reflexivity|]. constructor; [|constructor]. apply plain_atts, points_plain.
    + apply class_of_ok. apply flags2_ok; reflexivity.
  - split; [reflexivity|split; [|exact I]]. apply merge_same_name_ok.
    do 4 (apply Forall_cons; [apply num_ok; reflexivity|]). apply Forall_cons; [|apply Forall_cons; [apply num_ok; reflexivity|constructor]].
    apply class_of_ok. unfold names_ok. rewrite app_assoc. apply Forall_app; split; [apply (flags2_ok "broken" "solid"); reflexivity|apply (flags2_ok "filled" "nofill"); reflexivity].
  - split; [reflexivity|split].
    + apply merge_same_name_ok. do 2 (apply Forall_cons; [apply num_ok; reflexivity|]). constructor.
    + cbn [safe_all safe]. split; [|exact I]. eexists. apply escape_round_trip.
Qed.

(** ** class tokens taken from the input are identifiers *)
Lemma alnum_att c : alphanum_or_underscore c = true -> att_ok c = true.
Proof.
  intros H. unfold att_ok. apply andb_true_iff. split.
  - apply negb_true_iff. destruct (non_xml c) eqn:NX; [|reflexivity]. exfalso.
    unfold non_xml in NX. unfold alphanum_or_underscore, low_byte, byte_alpha, byte_digit in H.
    assert (Small : (0 <= c <= 31) \/ c = 65534 \/ c = 65535).
    { rewrite !orb_true_iff, !andb_true_iff, !Z.leb_le, !Z.eqb_eq in NX. lia. }
    destruct Small as [S|[->| ->]]; [|vm_compute in H; discriminate|vm_compute in H; discriminate].
    rewrite (Z.mod_small c 256) in H by lia.
    rewrite !orb_true_iff, !andb_true_iff, !Z.leb_le, Z.eqb_eq in H. lia.
  - apply negb_true_iff. repeat (apply orb_false_iff; split); apply Z.eqb_neq; intros ->; vm_compute in H; discriminate.
Qed.
Lemma alpha_alnum c : alpha_or_underscore c = true -> alphanum_or_underscore c = true.
Proof. unfold alpha_or_underscore, alphanum_or_underscore. rewrite !orb_true_iff. tauto. Qed.

Definition ident_ok (id : list Z) : Prop := forallb att_ok id = true.
Lemma take_while_all f s : forallb f (take_while f s) = true.
Proof. induction s as [|c t IH]; cbn [take_while]; [reflexivity|]. destruct (f c) eqn:E; [cbn [forallb]; rewrite E; exact IH|reflexivity]. Qed.
Lemma p_ident_ok s id r : p_ident s = Some (id, r) -> ident_ok id.
Proof.
  unfold p_ident. destruct s as [|c t]; [discriminate|]. destruct (alpha_or_underscore c) eqn:E; [|discriminate].
  intros H; inversion H; subst. unfold ident_ok. cbn [forallb]. rewrite (alnum_att c (alpha_alnum c E)). cbn [andb].
  apply forallb_forall. intros x Hx. apply alnum_att.
  pose proof (take_while_all alphanum_or_underscore t) as A. rewrite forallb_forall in A. auto.
Qed.
Lemma p_more_idents_ok fuel : forall s ids r, p_more_idents fuel s = (ids, r) -> Forall ident_ok ids.
Proof.
  induction fuel as [|f IH]; cbn [p_more_idents]; intros s ids r H; [inversion H; constructor|].
  destruct (p_sym 44 s) as [s1|]; [|inversion H; constructor].
  destruct (p_ident s1) as [[id s2]|] eqn:E; [|inversion H; constructor].
  destruct (p_more_idents f s2) as [ids' r'] eqn:E2. inversion H; subst. constructor; [eapply p_ident_ok; eauto|eapply IH; eauto].
Qed.
Lemma as_css_tag_ok s : Forall ident_ok (as_css_tag s).
Proof.
  unfold as_css_tag, parse_css_tag. destruct (p_sym 123 s) as [s1|]; [|constructor].
  unfold p_classes. destruct (p_ident s1) as [[id s2]|] eqn:E.
  - destruct (p_more_idents (length s2) s2) as [ids r] eqn:E2. destruct (p_sym 125 r) as [[|? ?]|]; try constructor.
    + eapply p_ident_ok; eauto.
    + eapply p_more_idents_ok; eauto.
  - destruct (p_sym 125 s1) as [[|? ?]|]; constructor.
Qed.
Lemma frag_css_tag_ok f : Forall ident_ok (frag_css_tag f).
Proof. destruct f; try constructor. apply as_css_tag_ok. Qed.

(** every class list in the enclosure tree consists of identifiers *)
Require Import SB.Theory.MergeTheory SB.Theory.TagTheory.
Fixpoint tree_tags_ok (t : ftree) : Prop :=
  match t with FT _ tags kids => Forall ident_ok tags /\ (fix all (l : list ftree) : Prop := match l with [] => True | x :: r => tree_tags_ok x /\ all r end) kids end.
Fixpoint trees_tags_ok (l : list ftree) : Prop := match l with [] => True | x :: r => tree_tags_ok x /\ trees_tags_ok r end.
Lemma tree_tags_unfold f tags kids : tree_tags_ok (FT f tags kids) <-> Forall ident_ok tags /\ trees_tags_ok kids.
Proof.
  cbn [tree_tags_ok]. assert (E : forall l, (fix all (l : list ftree) : Prop := match l with [] => True | x :: r => tree_tags_ok x /\ all r end) l <-> trees_tags_ok l).
  { induction l as [|x r IH]; cbn; [tauto|]. rewrite IH. tauto. }
  rewrite E. tauto.
Qed.
Lemma trees_tags_app a b : trees_tags_ok (a ++ b) <-> trees_tags_ok a /\ trees_tags_ok b.
Proof. induction a as [|x r IH]; cbn [app trees_tags_ok]; [tauto|]. rewrite IH. tauto. Qed.

Lemma enclose_tags_ok t : forall o t', tree_tags_ok t -> tree_tags_ok o -> enclose_deep_first t o = Some t' -> tree_tags_ok t'.
Proof.
  induction t as [f tags kids IH] using ftree_ind'. intros o t' Wt Wo. destruct (proj1 (tree_tags_unfold f tags kids) Wt) as [Wf Wk].
  rewrite enclose_unfold.
  assert (K : forall kids', try_kids o kids = Some kids' -> trees_tags_ok kids').
  { clear Wt Wf. induction IH as [|x r Hx Fr IHr]; cbn [try_kids]; intros kids' H; [discriminate|].
    cbn [trees_tags_ok] in Wk. destruct Wk as [Wx Wr]. destruct (enclose_deep_first x o) as [x'|] eqn:E.
    - inversion H; subst. cbn [trees_tags_ok]. split; [exact (Hx o x' Wx Wo E)|exact Wr].
    - destruct (try_kids o r) as [r'|]; cbn [option_map] in H; [|discriminate]. inversion H; subst. cbn [trees_tags_ok]. split; [exact Wx|exact (IHr Wr r' eq_refl)]. }
  destruct (try_kids o kids) as [kids'|] eqn:T.
  - intros H; inversion H; subst. apply tree_tags_unfold. split; [exact Wf|apply K; reflexivity].
  - destruct (can_fit f (ft_frag o)); [|discriminate]. destruct (frag_css_tag (ft_frag o)) as [|tg tgs] eqn:Ft.
    + intros H; inversion H; subst. apply tree_tags_unfold. split; [exact Wf|]. apply trees_tags_app. split; [exact Wk|]. cbn [trees_tags_ok]. split; [exact Wo|exact I].
    + intros H; inversion H; subst. apply tree_tags_unfold. split; [|exact Wk]. apply Forall_app. split; [exact Wf|].
      rewrite <- Ft. apply frag_css_tag_ok.
Qed.

Lemma flatten_tags_ok t : tree_tags_ok t -> Forall (fun p => Forall ident_ok (snd p)) (flatten_tree t).
Proof.
  induction t as [f tags kids IH] using ftree_ind'. intros W. destruct (proj1 (tree_tags_unfold f tags kids) W) as [Wf Wk].
  cbn [flatten_tree]. constructor; [exact Wf|]. clear W Wf. induction IH as [|x r Hx Fr IHr]; cbn [flat_map]; [constructor|].
  cbn [trees_tags_ok] in Wk. destruct Wk as [Wx Wr]. apply Forall_app. split; [apply Hx; exact Wx|apply IHr; exact Wr].
Qed.

Lemma with_tags_safe n tags : safe n -> Forall ident_ok tags -> (exists tg a k, n = Elem tg a k /\ Forall attr_ok a) -> safe (with_tags n tags).
Proof.
  intros S T [tg [a [k [-> Ha]]]]. cbn [with_tags]. apply safe_elem in S. destruct S as [Hn [_ Sk]]. apply safe_elem.
  split; [exact Hn|split; [|exact Sk]]. apply merge_same_name_ok. apply merge_attribute_ok; [|exact Ha].
  split; [reflexivity|]. cbn [snd]. apply Forall_forall. intros v Hv. apply in_map_iff in Hv. destruct Hv as [id [<- Hid]].
  rewrite Forall_forall in T. exact (T id Hid).
Qed.

(** ** the nodes of all fragments, the style, defs and backdrop, the document *)
Lemma fragment_node_shape s f : exists tg a k, fragment_node s f = Elem tg a k /\ Forall attr_ok a.
Proof.
  destruct f as [l|m|c|a|p|r|t]; cbn [fragment_node]; do 3 eexists; (split; [reflexivity|]).
  - apply line_attrs_ok.
  - apply Forall_app; split; [apply line_attrs_ok|]. apply Forall_app; split.
    + destruct (mlstart m); [|constructor]. constructor; [|constructor]. apply class_of_ok, start_marker_ok.
    + destruct (mlend m); [|constructor]. constructor; [|constructor]. apply class_of_ok, end_marker_ok.
  - do 3 (apply Forall_cons; [apply num_ok; reflexivity|]). apply Forall_cons; [|constructor]. apply class_of_ok. apply flags2_ok; reflexivity.
  - apply Forall_cons; [|apply Forall_cons; [|constructor]].
    + split; [reflexivity|]. constructor; [|constructor]. apply plain_atts, arc_plain.
    + apply class_of_ok. constructor; [reflexivity|constructor].
  - apply Forall_cons; [|apply Forall_cons; [|constructor]].
    + split; [reflexivity|]. constructor; [|constructor]. apply plain_atts, points_plain.
    + apply class_of_ok. apply flags2_ok; reflexivity.
  - do 4 (apply Forall_cons; [apply num_ok; reflexivity|]). apply Forall_cons; [|apply Forall_cons; [apply num_ok; reflexivity|constructor]].
    apply class_of_ok. unfold names_ok. rewrite app_assoc. apply Forall_app; split; [apply (flags2_ok "broken" "solid"); reflexivity|apply (flags2_ok "filled" "nofill"); reflexivity].
  - do 2 (apply Forall_cons; [apply num_ok; reflexivity|]). constructor.
Qed.

Theorem fragment_nodes_safe s fs ns : fragment_nodes s fs = Ok ns -> safe_all ns.
Proof.
  unfold fragment_nodes, enclose_fragments. destruct (merge_recursive enclose_deep_first (map (fun f => FT f [] []) fs)) as [trees|] eqn:E; cbn [bind]; [|discriminate].
  intros H; inversion H; subst; clear H.
  assert (T : Forall tree_tags_ok trees).
  { eapply (merge_recursive_inv enclose_deep_first tree_tags_ok); [|exact E|].
    - intros a b c Hm Ha Hb. exact (enclose_tags_ok a b c Ha Hb Hm).
    - apply Forall_forall. intros x Hx. apply in_map_iff in Hx. destruct Hx as [f [<- _]]. apply tree_tags_unfold. split; [constructor|exact I]. }
  assert (F : Forall (fun p : fragment * list (list Z) => Forall ident_ok (snd p)) (flat_map flatten_tree trees)).
  { clear E. induction T as [|x r Hx Fr IH]; cbn [flat_map]; [constructor|]. apply Forall_app; split; [apply flatten_tags_ok; exact Hx|exact IH]. }
  induction F as [|[f tags] r Hp Fr IH]; cbn [map safe_all]; [exact I|]. split; [|exact IH].
  apply with_tags_safe; [apply fragment_node_safe|exact Hp|apply fragment_node_shape].
Qed.

(** a boolean check for fixed subtrees and literal text *)
Definition style_lits_plain : bool :=
  forallb (fun p => match p with Lit s => forallb text_ok s | _ => true end) style_template.
Lemma style_lits : style_lits_plain = true.
Proof. vm_compute. reflexivity. Qed.

Lemma safe_text_app a b : safe_text a -> safe_text b -> safe_text (a ++ b).
Proof. intros [va Ha] [vb Hb]. exists (va ++ vb). apply chars_ref_app; assumption. Qed.
Lemma safe_text_plain s : forallb text_ok s = true -> safe_text s.
Proof. intros H. exists s. apply chars_ref_plain; exact H. Qed.
Lemma safe_text_escape s : safe_text (escape_html_text s).
Proof. eexists. apply escape_round_trip. Qed.

Lemma style_node_safe st legend : safe (style_node st legend).
Proof.
  unfold style_node. apply safe_elem. split; [reflexivity|split; [constructor|]]. cbn [safe_all safe]. split; [|exact I].
  pose proof style_lits as L. unfold style_lits_plain in L. rewrite forallb_forall in L.
  induction style_template as [|p t IH]; cbn [flat_map]; [exists []; constructor|].
  apply safe_text_app.
  - specialize (L p (or_introl eq_refl)). destruct p; cbn [fill_piece]; try apply safe_text_escape.
    + apply safe_text_plain; exact L.
    + apply safe_text_plain, plain_texts, print_z_plain.
    + apply safe_text_plain, plain_texts, print_q_plain.
  - apply IH. intros x Hx. apply L. right; exact Hx.
Qed.

(** [defs] is a fixed subtree: checked by computation *)
Fixpoint safeb (n : node) : bool :=
  match n with
  | TextLeaf s => forallb text_ok s
  | Elem tag attrs kids =>
      is_name tag && forallb (fun a => is_name (fst a) && forallb att_ok (attr_raw a)) (merge_same_name attrs)
      && (fix all (l : list node) : bool := match l with [] => true | k :: r => safeb k && all r end) kids
  end.
Lemma safeb_safe n : safeb n = true -> safe n.
Proof.
  induction n as [s|tag attrs kids IH] using node_ind'; cbn [safeb]; intros H.
  - apply safe_text_plain; exact H.
  - apply andb_true_iff in H. destruct H as [H Hk]. apply andb_true_iff in H. destruct H as [Hn Ha]. apply safe_elem. split; [exact Hn|split].
    + apply Forall_forall. intros a Hin. rewrite forallb_forall in Ha. specialize (Ha a Hin). apply andb_true_iff in Ha. exact Ha.
    + clear Hn Ha. induction IH as [|k r Hk0 Fr IHr]; cbn [safe_all]; [exact I|].
      apply andb_true_iff in Hk. destruct Hk as [H1 H2]. split; [apply Hk0; exact H1|apply IHr; exact H2].
Qed.
Lemma defs_safe : safe defs_node.
Proof. apply safeb_safe. vm_compute. reflexivity. Qed.

Lemma backdrop_safe w h : safe (backdrop_node w h).
Proof.
  unfold backdrop_node. apply safe_elem. split; [reflexivity|split; [|exact I]]. apply merge_same_name_ok.
  do 3 (apply Forall_cons; [apply sattr_ok; reflexivity|]). do 2 (apply Forall_cons; [apply num_ok; reflexivity|]). constructor.
Qed.

Lemma safe_all_app a b : safe_all (a ++ b) <-> safe_all a /\ safe_all b.
Proof. induction a as [|x r IH]; cbn [app safe_all]; [tauto|]. rewrite IH. tauto. Qed.

Theorem doc_emit_safe frags groups legend st w h d : doc_emit frags groups legend st w h = Ok d -> safe d.
Proof.
  unfold doc_emit. destruct (fragment_nodes (scale st) frags) as [ns|] eqn:E; cbn [bind]; [|discriminate].
  intros H; inversion H; subst; clear H. apply safe_elem. split; [reflexivity|split].
  - apply merge_same_name_ok. apply Forall_cons; [apply sattr_ok; reflexivity|]. do 2 (apply Forall_cons; [apply num_ok; reflexivity|]).
    apply Forall_cons; [apply sattr_ok; reflexivity|constructor].
  - repeat (apply safe_all_app; split).
    + destruct (include_styles st); cbn [safe_all]; [split; [apply style_node_safe|exact I]|exact I].
    + destruct (include_defs st); cbn [safe_all]; [split; [apply defs_safe|exact I]|exact I].
    + destruct (include_backdrop st); cbn [safe_all]; [split; [apply backdrop_safe|exact I]|exact I].
    + eapply fragment_nodes_safe; eauto.
    + induction groups as [|g r IH]; cbn [map safe_all]; [exact I|]. split; [|exact IH].
      apply safe_elem. split; [reflexivity|split; [constructor|]].
      induction g as [|f t IHg]; cbn [map safe_all]; [exact I|]. split; [apply fragment_node_safe|exact IHg].
Qed.

Theorem doc_safe input st d : doc input st = Ok d -> safe d.
Proof.
  unfold doc. destruct (cellbuffer_from input) as [cb|]; cbn [bind]; [|discriminate].
  destruct (canvas_size st (cb_cells cb)) as [w h]. unfold doc_of.
  destruct (fragments_of cb) as [[frags groups]|]; cbn [bind]; [|discriminate]. apply doc_emit_safe.
Qed.
