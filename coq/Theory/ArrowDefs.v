(** * ArrowDefs: runs ended by an arrowhead or a bullet, and the small predicates the sweeps share (definitions only). *)
Require Import SB.Model.Base SB.Model.Unicode SB.Model.Geom SB.Model.Fragment SB.Model.Merge SB.Model.Property
  SB.Model.FragBuf SB.Model.Endorse SB.Theory.ArrowTheory SB.Theory.BoxDefs.

Record acase := AC { adx : Z; ady : Z; alc : Z; aac : Z }.    (* direction in cells, line character, arrowhead character *)
(** the run of [L] line characters stepping by the direction, then the arrowhead; placed so that no cell is negative *)
Definition a_origin (k : acase) (L : nat) : cell :=
  C (if adx k <? 0 then Z.of_nat L else 0) (if ady k <? 0 then Z.of_nat L else 0).
Definition a_cell (k : acase) (L : nat) (i : Z) : cell := C (cx (a_origin k L) + i * adx k) (cy (a_origin k L) + i * ady k).
Definition arrow_cells (k : acase) (L : nat) : list (cell * Z) :=
  map (fun i => (a_cell k L i, alc k)) (seqZ 0 L) ++ [(a_cell k L (Z.of_nat L), aac k)].
Definition in_cell (c : cell) (p : point) : bool :=
  (cx c * 40 <=? px p) && (px p <=? (cx c + 1) * 40) && (cy c * 80 <=? py p) && (py p <=? (cy c + 1) * 80).
Definition bullet_marker (ch : Z) : option marker :=
  if ch =? 42 then Some MCircle else if ch =? 111 then Some MOpenCircle else if ch =? 79 then Some MBigOpenCircle else None.
Definition marker_eqb (a b : option marker) : bool :=
  match a, b with
  | Some MCircle, Some MCircle | Some MOpenCircle, Some MOpenCircle | Some MBigOpenCircle, Some MBigOpenCircle => true
  | _, _ => false
  end.
Definition on_segment (a b p : point) : bool :=
  (vcross (psub b a) (psub p a) =? 0) && (0 <=? dot (psub p a) (psub b a)) && (dot (psub p a) (psub b a) <=? dot (psub b a) (psub b a)).
(** the bullet ends the run in reading order (it is to the right of, or below, the run) *)
Definition forward (k : acase) : bool := (0 <? ady k) || ((ady k =? 0) && (0 <? adx k)).
