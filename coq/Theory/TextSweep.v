(** * TextSweep: from the input text to the text fragments, on every short input over a small alphabet
    (blank, two ASCII letters, a double-width CJK character, '-'), C04 holds for the whole recognition of
    the model: the (cell, character) pairs shown by the text fragments that come out (accepted fragments and
    contact groups together) are exactly the label characters of the input at their display columns, each
    once, and every text fragment lies on one row at consecutive display columns (that is what
    [text_cells] expands).  Finite sweep, the shapes are in the statement; longer inputs are decided by the
    merge theorems of TextCells.v plus the correspondence and the oracle. *)
Require Import SB.Model.Base SB.Model.Unicode SB.Model.Geom SB.Model.Fragment SB.Model.Merge SB.Model.Property
  SB.Model.FragBuf SB.Model.Endorse SB.Model.Text SB.Theory.TextCells SB.Theory.DashBarPlus SB.Theory.GridSweep.

Definition CJK : Z := 20013.
Definition is_label (ch : Z) : bool := (ch =? 97) || (ch =? 98) || (ch =? CJK).
(** the label characters of the rows with their display columns (a double-width character takes two) *)
Definition expected_text (rows : list (list Z)) : list (cell * Z) :=
  flat_map (fun '(y, row) => filter (fun e => is_label (snd e)) (chars_at 0 (Z.of_nat y) row)) (enumerate rows).
Definition count_in (e : cell * Z) (l : list (cell * Z)) : nat := List.length (filter (cell_char_eqb e) l).
Definition rows_ok (rows : list (list Z)) : bool :=
  match cellbuffer_from (join_rows rows) with
  | Ok cb =>
      match endorse_cells (cb_cells cb) with
      | Ok (acc, groups) =>
          let got := flat_map frag_text_cells (map fs_frag acc ++ flat_map (map fs_frag) groups) in
          let want := expected_text rows in
          Nat.eqb (List.length got) (List.length want) && forallb (fun e => Nat.eqb (count_in e got) 1) want
          && forallb (fun e => Nat.eqb (count_in e want) 1) want
      | Err _ => false
      end
  | Err _ => false
  end.

Definition TEXT5 := [32; 97; 98; CJK; DASH].
Definition TEXT3 := [32; 97; CJK].
Lemma text_sweep_ok :
  forallb rows_ok (grids_over TEXT5 4 1) && forallb rows_ok (grids_over TEXT5 2 2) && forallb rows_ok (grids_over TEXT3 3 2) = true.
Proof. vm_cast_no_check (eq_refl true). Qed.

Definition shown_exactly_once (rows : list (list Z)) : Prop :=
  exists cb acc groups, cellbuffer_from (join_rows rows) = Ok cb /\ endorse_cells (cb_cells cb) = Ok (acc, groups)
    /\ let got := flat_map frag_text_cells (map fs_frag acc ++ flat_map (map fs_frag) groups) in
       List.length got = List.length (expected_text rows)
       /\ (forall e, In e (expected_text rows) -> count_in e got = 1%nat /\ count_in e (expected_text rows) = 1%nat).
Lemma rows_ok_spec rows : rows_ok rows = true -> shown_exactly_once rows.
Proof.
  unfold rows_ok, shown_exactly_once. destruct (cellbuffer_from (join_rows rows)) as [cb|]; [|discriminate].
  destruct (endorse_cells (cb_cells cb)) as [[acc groups]|] eqn:EE; [|discriminate]. intro H.
  apply andb_prop in H. destruct H as [H H3]. apply andb_prop in H. destruct H as [H1 H2].
  exists cb, acc, groups. split; [reflexivity|]. split; [exact EE|]. cbv zeta. split.
  - apply Nat.eqb_eq. exact H1.
  - intros e I. split; apply Nat.eqb_eq.
    + exact (proj1 (forallb_forall _ _) H2 e I).
    + exact (proj1 (forallb_forall _ _) H3 e I).
Qed.
Theorem short_texts_shown_exactly_once rows :
  in_shape TEXT5 4 1 rows \/ in_shape TEXT5 2 2 rows \/ in_shape TEXT3 3 2 rows -> shown_exactly_once rows.
Proof.
  pose proof text_sweep_ok as S. apply andb_prop in S. destruct S as [S S3]. apply andb_prop in S. destruct S as [S1 S2].
  intros [H|[H|H]]; apply rows_ok_spec.
  - exact (proj1 (forallb_forall _ _) S1 rows (grids_over_all _ _ _ _ H)).
  - exact (proj1 (forallb_forall _ _) S2 rows (grids_over_all _ _ _ _ H)).
  - exact (proj1 (forallb_forall _ _) S3 rows (grids_over_all _ _ _ _ H)).
Qed.
