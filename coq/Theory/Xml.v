(** * Xml: the part of the XML 1.0 grammar svgbob's output uses, as an inductive relation
    between abstract trees and strings, and the theorem that rendering a safe tree yields a
    serialisation of it (C02, C08).

    Grammar (XML 1.0, productions 1-3, 5, 10, 14, 39-43, 66-68, restricted):
      element   ::= < Name (S Attribute)* S? > content </ Name >
      Attribute ::= Name = DQUOTE (any character but <, &, DQUOTE | Reference)* DQUOTE   (names distinct)
      content   ::= (CharData | element)*      CharData ::= (any character but <, &, > | Reference)*
      Reference ::= &lt; | &gt; | &amp; | &quot; | &#39; | &#13;
    Character data is taken without '>' at all (stricter than XML, which only forbids the sequence ]]>).
    Characters are XML characters relative to Unicode scalar values: a scalar value is allowed
    unless it is a C0 control other than TAB, LF, CR, or U+FFFE / U+FFFF ([non_xml]).
    A literal CR is not taken as character data, and a literal TAB, LF or CR is not taken in an
    attribute value: a parser replaces them before the application sees them (XML 1.0, 2.11 and
    3.3.3), so they would not come back as written; CR is written as the reference &#13;. *)
Require Import SB.Model.Base SB.Model.Unicode SB.Model.Geom SB.Model.Svg.
From Coq Require Import String.
From Coq Require Import List.
Import ListNotations.
#[global] Open Scope Z_scope.

Inductive xnode := XElem (tag : list Z) (attrs : list (list Z * list Z)) (kids : list xnode) | XText (v : list Z).

Definition is_alpha (c : Z) : bool := ((65 <=? c) && (c <=? 90)) || ((97 <=? c) && (c <=? 122)).
Definition is_digit (c : Z) : bool := (48 <=? c) && (c <=? 57).
Definition name_start (c : Z) : bool := is_alpha c || (c =? 95) || (c =? 58).
Definition name_char (c : Z) : bool := name_start c || is_digit c || (c =? 45) || (c =? 46).
Definition is_name (s : list Z) : bool := match s with [] => false | c :: t => name_start c && forallb name_char t end.

Definition att_ok (c : Z) : bool := negb (non_xml c) && negb ((c =? 60) || (c =? 38) || (c =? 34) || (c =? 9) || (c =? 10) || (c =? 13)).
Definition text_ok (c : Z) : bool := negb (non_xml c) && negb ((c =? 60) || (c =? 38) || (c =? 62) || (c =? 13)).

(** raw text with references, and the value it denotes *)
Inductive chars_ref (ok : Z -> bool) : list Z -> list Z -> Prop :=
| cr_nil : chars_ref ok [] []
| cr_char c raw v : ok c = true -> chars_ref ok raw v -> chars_ref ok (c :: raw) (c :: v)
| cr_lt raw v : chars_ref ok raw v -> chars_ref ok (zs "&lt;" ++ raw) (60 :: v)
| cr_gt raw v : chars_ref ok raw v -> chars_ref ok (zs "&gt;" ++ raw) (62 :: v)
| cr_amp raw v : chars_ref ok raw v -> chars_ref ok (zs "&amp;" ++ raw) (38 :: v)
| cr_quot raw v : chars_ref ok raw v -> chars_ref ok (zs "&quot;" ++ raw) (34 :: v)
| cr_apos raw v : chars_ref ok raw v -> chars_ref ok (zs "&#39;" ++ raw) (39 :: v)
| cr_cr raw v : chars_ref ok raw v -> chars_ref ok (zs "&#13;" ++ raw) (13 :: v).

Inductive ser_attrs : list (list Z * list Z) -> list Z -> Prop :=
| sa_nil : ser_attrs [] []
| sa_space rest s : ser_attrs rest s -> ser_attrs rest (32 :: s)
| sa_cons n v raw rest s : is_name n = true -> chars_ref att_ok raw v -> ser_attrs rest s ->
    ser_attrs ((n, v) :: rest) (32 :: n ++ [61; 34] ++ raw ++ [34] ++ s).

Inductive ser : xnode -> list Z -> Prop :=
| ser_text raw v : chars_ref text_ok raw v -> ser (XText v) raw
| ser_elem tag attrs kids sa sk :
    is_name tag = true -> NoDup (map fst attrs) -> ser_attrs attrs sa -> ser_list kids sk ->
    ser (XElem tag attrs kids) ([60] ++ tag ++ sa ++ [62] ++ sk ++ [60; 47] ++ tag ++ [62])
with ser_list : list xnode -> list Z -> Prop :=
| sl_nil : ser_list [] []
| sl_cons k ks s1 s2 : ser k s1 -> ser_list ks s2 -> ser_list (k :: ks) (s1 ++ s2).

(** ** character data *)
Lemma chars_ref_app ok a va b vb : chars_ref ok a va -> chars_ref ok b vb -> chars_ref ok (a ++ b) (va ++ vb).
Proof.
  induction 1 as [|c raw v Hc H IH|raw v H IH|raw v H IH|raw v H IH|raw v H IH|raw v H IH|raw v H IH]; intros Hb.
  - exact Hb.
  - cbn [app]. apply cr_char; auto.
  - rewrite <- app_assoc. cbn [app]. apply cr_lt; auto.
  - rewrite <- app_assoc. cbn [app]. apply cr_gt; auto.
  - rewrite <- app_assoc. cbn [app]. apply cr_amp; auto.
  - rewrite <- app_assoc. cbn [app]. apply cr_quot; auto.
  - rewrite <- app_assoc. cbn [app]. apply cr_apos; auto.
  - rewrite <- app_assoc. cbn [app]. apply cr_cr; auto.
Qed.
Lemma chars_ref_plain ok s : forallb ok s = true -> chars_ref ok s s.
Proof. induction s as [|c t IH]; cbn [forallb]; intros H; [constructor|]. apply andb_true_iff in H. destruct H. constructor; auto. Qed.

(** the characters XML cannot represent are dropped, the five special ones become references,
    everything else stands for itself: the text comes back exactly *)
Definition drop_nonxml (s : list Z) : list Z := filter (fun c => negb (non_xml c)) s.
Theorem escape_round_trip s : chars_ref text_ok (escape_html_text s) (drop_nonxml s).
Proof.
  unfold escape_html_text, drop_nonxml. induction s as [|c t IH]; cbn [flat_map filter]; [constructor|].
  unfold replace_html_char.
  destruct (Z.eqb_spec c 62) as [->|N62]; [change (non_xml 62) with false; cbn [negb]; apply cr_gt; exact IH|].
  destruct (Z.eqb_spec c 60) as [->|N60]; [change (non_xml 60) with false; cbn [negb]; apply cr_lt; exact IH|].
  destruct (Z.eqb_spec c 38) as [->|N38]; [change (non_xml 38) with false; cbn [negb]; apply cr_amp; exact IH|].
  destruct (Z.eqb_spec c 39) as [->|N39]; [change (non_xml 39) with false; cbn [negb]; apply cr_apos; exact IH|].
  destruct (Z.eqb_spec c 34) as [->|N34]; [change (non_xml 34) with false; cbn [negb]; apply cr_quot; exact IH|].
  destruct (Z.eqb_spec c 13) as [->|N13]; [change (non_xml 13) with false; cbn [negb]; apply cr_cr; exact IH|].
  destruct (non_xml c) eqn:NX; cbn [negb app]; [exact IH|].
  constructor; [|exact IH]. unfold text_ok. rewrite NX. cbn [negb andb].
  replace (c =? 13) with false by (symmetry; apply Z.eqb_neq; exact N13).
  replace (c =? 60) with false by (symmetry; apply Z.eqb_neq; exact N60).
  replace (c =? 38) with false by (symmetry; apply Z.eqb_neq; exact N38).
  replace (c =? 62) with false by (symmetry; apply Z.eqb_neq; exact N62). reflexivity.
Qed.

(** ** safe trees *)
Definition safe_text (s : list Z) : Prop := exists v, chars_ref text_ok s v.
Definition attr_raw (a : attr) : list Z := join_sp (map print_aval (snd a)).
Definition safe_attr (a : attr) : Prop := is_name (fst a) = true /\ forallb att_ok (attr_raw a) = true.
Fixpoint safe (n : node) : Prop :=
  match n with
  | TextLeaf s => safe_text s
  | Elem tag attrs kids =>
      is_name tag = true /\ Forall safe_attr (merge_same_name attrs)
      /\ (fix all (l : list node) : Prop := match l with [] => True | k :: r => safe k /\ all r end) kids
  end.
Fixpoint safe_all (l : list node) : Prop := match l with [] => True | k :: r => safe k /\ safe_all r end.
Lemma safe_elem tag attrs kids : safe (Elem tag attrs kids) <-> is_name tag = true /\ Forall safe_attr (merge_same_name attrs) /\ safe_all kids.
Proof.
  cbn [safe]. assert (E : forall l, (fix all (l : list node) : Prop := match l with [] => True | k :: r => safe k /\ all r end) l <-> safe_all l).
  { induction l as [|k r IH]; cbn; [tauto|]. rewrite IH. tauto. }
  rewrite E. tauto.
Qed.

Section NodeInd.
Context (P : node -> Prop) (Ht : forall s, P (TextLeaf s)) (He : forall tag attrs kids, Forall P kids -> P (Elem tag attrs kids)).
Fixpoint node_ind' (n : node) : P n :=
  match n with
  | TextLeaf s => Ht s
  | Elem tag attrs kids =>
      He tag attrs kids ((fix go (l : list node) : Forall P l :=
                           match l with [] => Forall_nil _ | k :: r => Forall_cons _ (node_ind' k) (go r) end) kids)
  end.
End NodeInd.

(** ** attributes *)
Definition xattrs (l : list attr) : list (list Z * list Z) :=
  flat_map (fun a => match snd a with [] => [] | _ => [(fst a, attr_raw a)] end) l.

Lemma render_attrs_ser l : Forall safe_attr l -> ser_attrs (xattrs l) (flat_map render_attr l).
Proof.
  induction 1 as [|a t [Hn Hv] Ft IH]; cbn [xattrs flat_map]; [constructor|].
  unfold render_attr at 1. destruct (snd a) as [|v0 vs] eqn:E; cbn [app].
  - apply sa_space. exact IH.
  - assert (R : join_sp (map print_aval (v0 :: vs)) = attr_raw a) by (unfold attr_raw; rewrite E; reflexivity).
    rewrite R.
    match goal with |- ser_attrs _ (32 :: ?s) =>
      replace s with (fst a ++ [61; 34] ++ attr_raw a ++ [34] ++ flat_map render_attr t)
        by (cbn [app]; rewrite <- ?app_assoc; cbn [app]; rewrite <- ?app_assoc; reflexivity) end.
    apply sa_cons; [exact Hn|apply chars_ref_plain; exact Hv|exact IH].
Qed.

Lemma NoDup_app_snoc {X} (l : list X) x : NoDup l -> ~ In x l -> NoDup (l ++ [x]).
Proof.
  induction 1 as [|y t Hy Nt IH]; intros Hx; cbn [app]; [constructor; [intros []|constructor]|].
  constructor.
  - intros Hin. apply in_app_or in Hin. destruct Hin as [Hin|[->|[]]]; [contradiction|]. apply Hx; left; reflexivity.
  - apply IH. intros Hin. apply Hx; right; exact Hin.
Qed.

Lemma merge_attribute_names a l : map fst (merge_attribute a l) = if existsb (fun n => zs_eqb n (fst a)) (map fst l) then map fst l else map fst l ++ [fst a].
Proof.
  induction l as [|[n vs] t IH]; cbn [merge_attribute map existsb fst]; [reflexivity|].
  destruct (zs_eqb n (fst a)); cbn [orb map fst]; [reflexivity|]. rewrite IH. destruct (existsb _ (map fst t)); reflexivity.
Qed.
Lemma zs_eqb_eq a b : zs_eqb a b = true <-> a = b.
Proof.
  unfold zs_eqb. revert b. induction a as [|x t IH]; intros [|y u]; cbn [list_eqb]; split; intros H; try discriminate; try reflexivity.
  - apply andb_true_iff in H. destruct H as [H1 H2]. apply Z.eqb_eq in H1. apply IH in H2. congruence.
  - inversion H; subst. rewrite Z.eqb_refl. cbn. apply IH. reflexivity.
Qed.
Lemma merge_same_name_nodup l : NoDup (map fst (merge_same_name l)).
Proof.
  unfold merge_same_name. assert (G : forall acc, NoDup (map fst acc) -> NoDup (map fst (fold_left (fun acc a => merge_attribute a acc) l acc))).
  { induction l as [|a t IH]; intros acc N; cbn [fold_left]; [exact N|]. apply IH. rewrite merge_attribute_names.
    destruct (existsb (fun n => zs_eqb n (fst a)) (map fst acc)) eqn:E; [exact N|].
    apply NoDup_app_snoc; [exact N|]. intros Hin.
    assert (existsb (fun n => zs_eqb n (fst a)) (map fst acc) = true); [|congruence].
    apply existsb_exists. exists (fst a). split; [exact Hin|apply zs_eqb_eq; reflexivity]. }
  apply G. constructor.
Qed.

Lemma xattrs_names_sub l : forall n, In n (map fst (xattrs l)) -> In n (map fst l).
Proof.
  induction l as [|a t IH]; cbn [xattrs flat_map map]; intros n H; [exact H|].
  rewrite map_app in H. apply in_app_or in H. destruct H as [H|H]; [|right; apply IH; exact H].
  destruct (snd a); cbn in H; [destruct H|]. destruct H as [<-|[]]. left; reflexivity.
Qed.
Lemma xattrs_nodup l : NoDup (map fst l) -> NoDup (map fst (xattrs l)).
Proof.
  induction l as [|a t IH]; cbn [xattrs flat_map map]; intros N; [constructor|]. inversion N as [|? ? Hn Nt]; subst.
  rewrite map_app. destruct (snd a); cbn [map app]; [apply IH; exact Nt|].
  constructor; [|apply IH; exact Nt]. intros Hin. apply Hn. apply xattrs_names_sub. exact Hin.
Qed.

(** ** rendering a safe tree *)
Lemma indent_text c d : chars_ref text_ok (indent c d) (indent c d).
Proof.
  apply chars_ref_plain. unfold indent. destruct c; [reflexivity|]. cbn [forallb]. change (text_ok 10) with true. cbn [andb].
  induction (2 * d)%nat as [|m IH]; cbn [repeatZ forallb]; [reflexivity|]. change (text_ok 32) with true. exact IH.
Qed.

(** element names, attribute names (those that are written) and element children, text ignored *)
Inductive shape := Shape (tag : list Z) (attr_names : list (list Z)) (kids : list shape).
Fixpoint xshape1 (x : xnode) : list shape :=
  match x with
  | XElem tag attrs kids =>
      [Shape tag (map fst attrs) ((fix go (l : list xnode) : list shape := match l with [] => [] | k :: r => xshape1 k ++ go r end) kids)]
  | XText _ => []
  end.
Definition xshapes (l : list xnode) : list shape := flat_map xshape1 l.
Lemma xshape1_elem tag attrs kids : xshape1 (XElem tag attrs kids) = [Shape tag (map fst attrs) (xshapes kids)].
Proof.
  cbn [xshape1].
  assert (E : forall l, (fix go (l : list xnode) : list shape := match l with [] => [] | k :: r => xshape1 k ++ go r end) l = xshapes l).
  { unfold xshapes. induction l as [|k r IH]; cbn [flat_map]; [reflexivity|]. rewrite IH. reflexivity. }
  rewrite E. reflexivity.
Qed.
Fixpoint nshape1 (n : node) : list shape :=
  match n with
  | Elem tag attrs kids =>
      [Shape tag (map fst (xattrs (merge_same_name attrs)))
         ((fix go (l : list node) : list shape := match l with [] => [] | k :: r => nshape1 k ++ go r end) kids)]
  | TextLeaf _ => []
  end.
Definition nshapes (l : list node) : list shape := flat_map nshape1 l.
Lemma nshape1_elem tag attrs kids : nshape1 (Elem tag attrs kids) = [Shape tag (map fst (xattrs (merge_same_name attrs))) (nshapes kids)].
Proof.
  cbn [nshape1].
  assert (E : forall l, (fix go (l : list node) : list shape := match l with [] => [] | k :: r => nshape1 k ++ go r end) l = nshapes l).
  { unfold nshapes. induction l as [|k r IH]; cbn [flat_map]; [reflexivity|]. rewrite IH. reflexivity. }
  rewrite E. reflexivity.
Qed.
Lemma xshapes_app a b : xshapes (a ++ b) = xshapes a ++ xshapes b.
Proof. apply flat_map_app. Qed.
Lemma nshapes_app a b : nshapes (a ++ b) = nshapes a ++ nshapes b.
Proof. apply flat_map_app. Qed.

Lemma ser_list_single x s : ser x s -> ser_list [x] s.
Proof. intros H. pose proof (sl_cons x [] s [] H sl_nil) as G. rewrite app_nil_r in G. exact G. Qed.

Theorem render_is_xml c : forall n d, safe n ->
  exists x, ser x (render c d n) /\ xshapes [x] = nshapes [n].
Proof.
  induction n as [s|tag attrs kids IH] using node_ind'; intros d S.
  - destruct S as [v Hv]. exists (XText v). split; [constructor; exact Hv|reflexivity].
  - apply safe_elem in S. destruct S as [Hn [Ha Sk]].
    (* the children, as rendered in the general case *)
    assert (K : forall dd, exists xs, ser_list xs (flat_map (fun k => indent c dd ++ render c dd k) kids) /\ xshapes xs = nshapes kids).
    { intros dd. clear Hn Ha. induction IH as [|k r Hk Fr IHr]; cbn [flat_map].
      - exists []. split; [constructor|reflexivity].
      - cbn [safe_all] in Sk. destruct Sk as [Sk1 Sk2]. destruct (Hk dd Sk1) as [xk [Xk Shk]]. destruct (IHr Sk2) as [xr [Xr Shr]].
        exists (XText (indent c dd) :: xk :: xr). split.
        + rewrite <- app_assoc. apply sl_cons; [constructor; apply indent_text|]. apply sl_cons; assumption.
        + change (XText (indent c dd) :: xk :: xr) with ([XText (indent c dd)] ++ [xk] ++ xr).
          rewrite !xshapes_app, Shr, Shk. change (nshapes (k :: r)) with (nshapes ([k] ++ r)). rewrite nshapes_app. reflexivity. }
    assert (Body : exists xs, ser_list xs (match kids with
                                           | [TextLeaf s] => s
                                           | [] => []
                                           | _ => flat_map (fun k => indent c (S d) ++ render c (S d) k) kids ++ indent c d
                                           end) /\ xshapes xs = nshapes kids).
    { destruct kids as [|k0 r0].
      - exists []. split; [constructor|reflexivity].
      - destruct (K (S d)) as [xs [Xs Shs]].
        assert (General : exists xs0, ser_list xs0 (flat_map (fun k => indent c (S d) ++ render c (S d) k) (k0 :: r0) ++ indent c d) /\ xshapes xs0 = nshapes (k0 :: r0)).
        { exists (xs ++ [XText (indent c d)]). split.
          - clear - Xs. induction Xs as [|k ks s1 s2 H1 H2 IHs]; cbn [app].
            + apply ser_list_single. constructor. apply indent_text.
            + rewrite <- app_assoc. apply sl_cons; assumption.
          - rewrite xshapes_app. unfold xshapes at 2; cbn [flat_map xshape1 app]. rewrite app_nil_r. exact Shs. }
        destruct k0 as [t0 a0 kk0|s0]; [exact General|]. destruct r0 as [|k1 r1]; [|exact General].
        cbn [safe_all safe] in Sk. destruct Sk as [[v Hv] _]. exists [XText v]. split.
        + apply ser_list_single. constructor. exact Hv.
        + reflexivity. }
    destruct Body as [xs [Xs Shs]].
    exists (XElem tag (xattrs (merge_same_name attrs)) xs). split.
    + cbn [render]. apply ser_elem; [exact Hn|apply xattrs_nodup; apply merge_same_name_nodup|apply render_attrs_ser; exact Ha|exact Xs].
    + unfold xshapes, nshapes; cbn [flat_map]. rewrite xshape1_elem, nshape1_elem, Shs. reflexivity.
Qed.

(** ** the pretty and the compressed rendering are the same document (C18)
    Two trees are the same document up to the pretty printer's white space when they differ
    only by text children that are empty or a line feed followed by blanks (what [indent]
    writes).  White space that is the content of a text element, such as the quoted text of one
    blank, has no line feed and must be present in both. *)
Inductive indent_ws : list Z -> Prop :=
| iw_nil : indent_ws []
| iw_nl n : indent_ws (10 :: repeatZ 32 n).
Inductive same_doc : xnode -> xnode -> Prop :=
| sd_text v : same_doc (XText v) (XText v)
| sd_elem t a k1 k2 : same_kids k1 k2 -> same_doc (XElem t a k1) (XElem t a k2)
with same_kids : list xnode -> list xnode -> Prop :=
| sk_nil : same_kids [] []
| sk_cons x y r1 r2 : same_doc x y -> same_kids r1 r2 -> same_kids (x :: r1) (y :: r2)
| sk_left v r1 r2 : indent_ws v -> same_kids r1 r2 -> same_kids (XText v :: r1) r2
| sk_right v r1 r2 : indent_ws v -> same_kids r1 r2 -> same_kids r1 (XText v :: r2).

Lemma indent_is_ws c d : indent_ws (indent c d).
Proof. unfold indent. destruct c; constructor. Qed.
Lemma same_kids_app a1 a2 b1 b2 : same_kids a1 a2 -> same_kids b1 b2 -> same_kids (a1 ++ b1) (a2 ++ b2).
Proof.
  intros Ha Hb. revert a1 a2 Ha.
  fix IH 3. intros a1 a2 Ha. destruct Ha as [|x y r1 r2 Hx Hr|v r1 r2 Hv Hr|v r1 r2 Hv Hr]; cbn [app].
  - exact Hb.
  - apply sk_cons; [exact Hx|apply IH; exact Hr].
  - apply sk_left; [exact Hv|apply IH; exact Hr].
  - apply sk_right; [exact Hv|apply IH; exact Hr].
Qed.

Theorem render_same_doc : forall n d, safe n ->
  exists xp xc, ser xp (render false d n) /\ ser xc (render true d n) /\ same_doc xp xc.
Proof.
  induction n as [s|tag attrs kids IH] using node_ind'; intros d S.
  - destruct S as [v Hv]. exists (XText v), (XText v). split; [constructor; exact Hv|]. split; [constructor; exact Hv|constructor].
  - apply safe_elem in S. destruct S as [Hn [Ha Sk]].
    assert (K : forall dd, exists xp xc,
                  ser_list xp (flat_map (fun k => indent false dd ++ render false dd k) kids)
                  /\ ser_list xc (flat_map (fun k => indent true dd ++ render true dd k) kids) /\ same_kids xp xc).
    { intros dd. clear Hn Ha. induction IH as [|k r Hk Fr IHr]; cbn [flat_map].
      - exists [], []. repeat split; constructor.
      - cbn [safe_all] in Sk. destruct Sk as [Sk1 Sk2]. destruct (Hk dd Sk1) as [kp [kc [Kp [Kc Ks]]]]. destruct (IHr Sk2) as [rp [rc [Rp [Rc Rs]]]].
        exists (XText (indent false dd) :: kp :: rp), (XText (indent true dd) :: kc :: rc). split; [|split].
        + rewrite <- app_assoc. apply sl_cons; [constructor; apply indent_text|]. apply sl_cons; assumption.
        + rewrite <- app_assoc. apply sl_cons; [constructor; apply indent_text|]. apply sl_cons; assumption.
        + apply sk_left; [apply indent_is_ws|]. apply sk_right; [apply indent_is_ws|]. apply sk_cons; assumption. }
    assert (Body : exists xp xc,
       ser_list xp (match kids with [TextLeaf s] => s | [] => [] | _ => flat_map (fun k => indent false (S d) ++ render false (S d) k) kids ++ indent false d end)
       /\ ser_list xc (match kids with [TextLeaf s] => s | [] => [] | _ => flat_map (fun k => indent true (S d) ++ render true (S d) k) kids ++ indent true d end)
       /\ same_kids xp xc).
    { destruct kids as [|k0 r0].
      - exists [], []. repeat split; constructor.
      - destruct (K (S d)) as [xp [xc [Xp [Xc Xs]]]].
        assert (General : exists xp0 xc0,
           ser_list xp0 (flat_map (fun k => indent false (S d) ++ render false (S d) k) (k0 :: r0) ++ indent false d)
           /\ ser_list xc0 (flat_map (fun k => indent true (S d) ++ render true (S d) k) (k0 :: r0) ++ indent true d)
           /\ same_kids xp0 xc0).
        { exists (xp ++ [XText (indent false d)]), (xc ++ [XText (indent true d)]). split; [|split].
          - clear - Xp. induction Xp as [|k ks s1 s2 H1 H2 IHs]; cbn [app].
            + apply ser_list_single. constructor. apply indent_text.
            + rewrite <- app_assoc. apply sl_cons; assumption.
          - clear - Xc. induction Xc as [|k ks s1 s2 H1 H2 IHs]; cbn [app].
            + apply ser_list_single. constructor. apply indent_text.
            + rewrite <- app_assoc. apply sl_cons; assumption.
          - apply same_kids_app; [exact Xs|]. apply sk_left; [apply indent_is_ws|]. apply sk_right; [apply indent_is_ws|]. constructor. }
        destruct k0 as [t0 a0 kk0|s0]; [exact General|]. destruct r0 as [|k1 r1]; [|exact General].
        cbn [safe_all safe] in Sk. destruct Sk as [[v Hv] _]. exists [XText v], [XText v]. split; [|split].
        + apply ser_list_single. constructor. exact Hv.
        + apply ser_list_single. constructor. exact Hv.
        + apply sk_cons; constructor. }
    destruct Body as [xp [xc [Xp [Xc Xs]]]].
    exists (XElem tag (xattrs (merge_same_name attrs)) xp), (XElem tag (xattrs (merge_same_name attrs)) xc). split; [|split].
    + cbn [render]. apply ser_elem; [exact Hn|apply xattrs_nodup; apply merge_same_name_nodup|apply render_attrs_ser; exact Ha|exact Xp].
    + cbn [render]. apply ser_elem; [exact Hn|apply xattrs_nodup; apply merge_same_name_nodup|apply render_attrs_ser; exact Ha|exact Xc].
    + constructor. exact Xs.
Qed.
