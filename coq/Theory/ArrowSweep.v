(** * ArrowSweep: a straight run of 1..40 line characters ended by an arrowhead character, in each of the eight
    directions, is recognised by the whole recognition of the model as exactly one line and one filled polygon tagged
    as an arrow, nothing else: the line starts where the run starts and ends inside the arrowhead's cell, the tip of the
    polygon is its unique farthest point along the direction, lies on the line's axis strictly beyond the line's end,
    inside the arrowhead's cell, and the base has points strictly on both sides of the axis (C14, first clause; finite
    sweep with the bound in the statement, re-run whenever the tables are regenerated).  ArrowTheory sweeps the table
    entries; this adds grouping, merging and endorsement. *)
Require Import SB.Model.Base SB.Model.Unicode SB.Model.Geom SB.Model.Fragment SB.Model.Merge SB.Model.Property
  SB.Model.FragBuf SB.Model.Endorse SB.Theory.ArrowTheory SB.Theory.BoxDefs SB.Theory.ArrowDefs.

Definition acases : list acase :=
  [AC 1 0 45 62; AC (-1) 0 45 60; AC 0 1 124 118; AC 0 1 124 86; AC 0 (-1) 124 94;
   AC 1 1 92 118; AC 1 1 92 86; AC (-1) (-1) 92 94; AC 1 (-1) 47 94; AC (-1) 1 47 118; AC (-1) 1 47 86;
   AC 1 0 45 9654; AC (-1) 0 45 9664; AC 0 1 124 9660; AC 0 (-1) 124 9650].
Definition arrow_pair_ok (k : acase) (L : nat) (l : line) (p : polygon) : bool :=
  let v := P (adx k * 40) (ady k * 80) in
  let c0 := a_cell k L 0 in
  let far := P (cx c0 * 40 + 20 - adx k * 20) (cy c0 * 80 + 40 - ady k * 40) in
  let head := a_cell k L (Z.of_nat L) in
  let '(a, b) := if 0 <? dot (psub (lend l) (lstart l)) v then (lstart l, lend l) else (lend l, lstart l) in
  negb (lbroken l) && point_eqb a far && in_cell head b && negb (point_eqb a b)
  && pfilled p && Nat.eqb (List.length (filter is_arrow_tag (ptags p))) 1
  && arrow_geometry_ok v a b (ppoints p)
  && match tip_of v (ppoints p) with Some tip => in_cell head tip | None => false end.
Definition arrow_chk (k : acase) (L : nat) : bool :=
  match endorse_cells (arrow_cells k L) with
  | Ok ([f; g], []) =>
      match fs_frag f, fs_frag g with
      | FLine l, FPolygon p => arrow_pair_ok k L l p
      | FPolygon p, FLine l => arrow_pair_ok k L l p
      | _, _ => false
      end
  | _ => false
  end.
Definition AMAX := 40%nat.
Lemma arrow_sweep_ok : forallb (fun k => forallb (fun L => arrow_chk k L) (seq 1 AMAX)) acases = true.
Proof. vm_cast_no_check (eq_refl true). Qed.

Theorem arrow_recognised k L : In k acases -> (1 <= L <= AMAX)%nat ->
  exists f g l p, endorse_cells (arrow_cells k L) = Ok ([f; g], [])
    /\ ((fs_frag f = FLine l /\ fs_frag g = FPolygon p) \/ (fs_frag f = FPolygon p /\ fs_frag g = FLine l))
    /\ arrow_pair_ok k L l p = true.
Proof.
  intros Hk HL.
  assert (IL : In L (seq 1 AMAX)) by (apply in_seq; unfold AMAX in *; lia).
  pose proof (proj1 (forallb_forall _ _) (proj1 (forallb_forall _ _) arrow_sweep_ok k Hk) L IL) as Ck. cbv beta in Ck.
  unfold arrow_chk in Ck. destruct (endorse_cells (arrow_cells k L)) as [[acc groups]|]; [|discriminate Ck].
  destruct acc as [|f [|g [|h t]]]; try discriminate Ck. destruct groups; [|discriminate Ck].
  destruct (fs_frag f) eqn:Ef; try discriminate Ck; destruct (fs_frag g) eqn:Eg; try discriminate Ck.
  - exists f, g, l, p. split; [reflexivity|]. split; [left; split; assumption | exact Ck].
  - exists f, g, l, p. split; [reflexivity|]. split; [right; split; assumption | exact Ck].
Qed.
