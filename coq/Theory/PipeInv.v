(** * PipeInv: an invariant of positioned fragments carried through the whole recognition
    pipeline of one group of cells, with provenance (C10, C12).
    [S] is a set of cells; every group the pipeline works on is a subset of it.  [Q e f] speaks
    of a fragment [f] local to the cell element [e]; [R] of a positioned fragment together with
    the cells it came from.  If [Q] holds of everything the tables emit in their actual
    environment and [R] is kept by positioning, merging and the three recognisers, then [R]
    holds of every accepted fragment and of every fragment of every contact group. *)
Require Import SB.Model.Base SB.Model.Unicode SB.Model.Geom SB.Model.Fragment SB.Model.Merge
  SB.Model.Property SB.Model.FragBuf SB.Model.Endorse SB.Theory.MergeTheory SB.Theory.EndorseTotal SB.Theory.OrderTheory
  SB.Theory.SepTheory SB.Gen.AsciiMap SB.Gen.UnicodeMap SB.Gen.CircleTables.

Section Pipe.
Variable S : span.
Variable Q : cell * Z -> fragment -> Prop.
Variable R : fragspan -> Prop.
Hypothesis Rprov : forall f, R f -> fs_span f <> [] /\ incl (fs_span f) S.
Hypothesis Qtext : forall e, In e S -> Q e (cell_text_frag (snd e)).
Hypothesis Qfire : forall s e p f, incl s S -> In e s -> property_of_char (snd e) = Some p ->
  In f (property_fragments p (pb_env (propbuf_of_span s) (fst e))) -> Q e f.
Hypothesis Qunicode : forall e fs f, In e S -> unicode_fragments_of (snd e) = Some fs -> In f fs -> Q e f.
Hypothesis Qmerge : forall e a b c, fragment_merge a b = Some c -> Q e a -> Q e b -> Q e c.
Hypothesis QR : forall e f, In e S -> Q e f -> R (FS [e] (fragment_abs (fst e) f)).
Hypothesis Rmerge : forall a b c, fragspan_merge a b = Some c -> R a -> R b -> R c.
Hypothesis Rshape : forall s fs un, incl s S -> endorse_to_arcs_and_circles s = Ok (fs, un) -> Forall R fs.
Hypothesis Rrect : forall c f, c <> [] -> Forall R c -> contacts_endorse_rect c = Ok (Some f) -> R (FS (contacts_span c) f).

(** ** the characters of the tables *)
Lemma property_of_char_pch ch p : property_of_char ch = Some p -> pch p = ch.
Proof.
  unfold property_of_char. destruct (find (fun p => pch p =? ch) ascii_properties) as [q|] eqn:F.
  - intros H; inversion H; subst. apply find_some in F. destruct F as [_ F]. apply Z.eqb_eq in F. exact F.
  - destruct (unicode_fragments_of ch); cbn [option_map]; intros H; inversion H; reflexivity.
Qed.

(** ** the fragment buffer of a group *)
(** what is stored under key [k]: fragments local to a cell element of the group at [k] *)
Definition stored (s : span) (k : cell) (f : fragspan) : Prop :=
  exists e, In e s /\ fst e = k /\ fs_span f = [e] /\ Q e (fs_frag f).
Definition fbS (s : span) (fb : fragbuf) : Prop := Forall (fun ent => Forall (stored s (fst ent)) (snd ent)) fb.

Lemma fb_update_keyed (I : cell -> list fragspan -> Prop) c f fb :
  Forall (fun e => I (fst e) (snd e)) fb -> (forall o, (forall v, o = Some v -> I c v) -> I c (f o)) ->
  Forall (fun e => I (fst e) (snd e)) (fb_update c f fb).
Proof.
  intros F Hf. induction F as [|[k v] t Hv Ft IH]; cbn [fb_update].
  - constructor; [|constructor]. apply Hf. intros; discriminate.
  - destruct (cell_cmp c k) eqn:E.
    + apply cell_cmp_eq in E. subst k. constructor; [|exact Ft]. cbn [fst snd] in *. apply Hf. intros v0 H0; inversion H0; subst; exact Hv.
    + constructor; [|constructor; [exact Hv|exact Ft]]. apply Hf. intros; discriminate.
    + constructor; [exact Hv|exact IH].
Qed.

Lemma add_fragments_S s e fs fb : In e s -> Forall (Q e) fs -> fbS s fb -> fbS s (add_fragments_to_cell (fst e) (snd e) fs fb).
Proof.
  intros Ie F G. unfold add_fragments_to_cell. apply (fb_update_keyed (fun k v => Forall (stored s k) v)); [exact G|].
  intros o Ho. apply sort_cell_Forall.
  assert (N : Forall (stored s (fst e)) (map (fun f => FS [(fst e, snd e)] f) fs)).
  { apply Forall_forall. intros x Hx. apply in_map_iff in Hx. destruct Hx as [f [<- Hf]].
    exists e. rewrite Forall_forall in F. repeat split; auto. cbn. destruct e; reflexivity. }
  destruct o as [ex|]; [|exact N]. apply Forall_app; split; [apply Ho; reflexivity|exact N].
Qed.
Lemma add_fragment_S s e f fb : In e s -> Q e f -> fbS s fb -> fbS s (add_fragment_to_cell (fst e) (snd e) f fb).
Proof.
  intros Ie F G. unfold add_fragment_to_cell. apply (fb_update_keyed (fun k v => Forall (stored s k) v)); [exact G|].
  intros o Ho. apply sort_cell_Forall.
  assert (N : stored s (fst e) (FS [(fst e, snd e)] f)) by (exists e; repeat split; auto; cbn; destruct e; reflexivity).
  destruct o as [ex|]; [|constructor; [exact N|constructor]].
  destruct (mem fragspan_eqb (FS [(fst e, snd e)] f) ex); [apply Ho; reflexivity|]. apply Forall_app; split; [apply Ho; reflexivity|constructor; [exact N|constructor]].
Qed.

(** the entries of the property buffer of a group come from its cell elements *)
Definition from_group (s : span) (ent : cell * property) : Prop :=
  exists e, In e s /\ fst e = fst ent /\ property_of_char (snd e) = Some (snd ent).
Lemma propbuf_from_group s : Forall (from_group s) (propbuf_of_span s).
Proof.
  unfold propbuf_of_span. apply Forall_forall. intros [c p] H. apply in_flat_map in H. destruct H as [e [Ie H]].
  destruct (property_of_char (snd e)) eqn:E; [|destruct H]. destruct H as [H|[]]. inversion H; subst.
  exists e. repeat split; auto.
Qed.
Lemma pb_entries_sub pb : incl (pb_entries pb) pb.
Proof.
  induction pb as [|[c p] t IH]; cbn [pb_entries]; [intros x []|].
  destruct (existsb (fun e => cell_eqb (fst e) c) t); intros x Hx; [right; apply IH; exact Hx|].
  destruct Hx as [<-|Hx]; [left; reflexivity|right; apply IH; exact Hx].
Qed.

Lemma add_entry_S s fb ent fb' : incl s S -> from_group s ent -> fbS s fb ->
  add_entry (propbuf_of_span s) (Ok fb) ent = Ok fb' -> fbS s fb'.
Proof.
  intros Sub [e [Ie [Ek Ep]]] G. unfold add_entry; cbn [bind]. destruct ent as [c p]. cbn [fst snd] in *. subst c.
  pose proof (property_of_char_pch _ _ Ep) as Pc. rewrite Pc.
  pose proof (fun f => Qfire s e p f Sub Ie Ep) as PF.
  destruct (property_fragments p (pb_env (propbuf_of_span s) (fst e))) as [|f0 fs0].
  - destruct (unicode_fragments_of (snd e)) as [ufs|] eqn:U.
    + destruct (merge_recursive fragment_merge ufs) as [m|] eqn:M; cbn [bind]; intros H; inversion H; subst.
      apply add_fragments_S; auto.
      eapply (merge_recursive_inv fragment_merge (Q e) (Qmerge e)); [exact M|].
      apply Forall_forall. intros f Hf. eapply Qunicode; eauto.
    + intros H; inversion H; subst. apply add_fragment_S; auto.
  - intros H; inversion H; subst. apply add_fragments_S; auto. apply Forall_forall. exact PF.
Qed.

Lemma fragbuf_of_span_S s fb : incl s S -> fragbuf_of_span s = Ok fb -> fbS s fb.
Proof.
  intros Sub. unfold fragbuf_of_span, fragbuf_of_entries. cbv zeta.
  assert (EQ : Forall (from_group s) (pb_entries (propbuf_of_span s))).
  { apply Forall_forall. intros x Hx. apply pb_entries_sub in Hx. pose proof (propbuf_from_group s) as F. rewrite Forall_forall in F. auto. }
  assert (G : forall order fb0 fb1, Forall (from_group s) order -> fbS s fb0 ->
             fold_left (add_entry (propbuf_of_span s)) order (@Ok fragbuf fb0) = Ok fb1 -> fbS s fb1).
  { induction order as [|e t IH]; cbn [fold_left]; intros fb0 fb1 Ho G0 H; [inversion H; subst; auto|].
    inversion Ho as [|? ? He Ht]; subst. destruct (add_entry_ok (propbuf_of_span s) fb0 e) as [fb2 E2]. rewrite E2 in H.
    apply (IH fb2 fb1 Ht); [|exact H]. eapply add_entry_S; eauto. }
  destruct (fold_left (add_entry (propbuf_of_span s)) (pb_entries (propbuf_of_span s)) (@Ok fragbuf [])) as [fb0|] eqn:E; cbn [bind]; [|discriminate].
  intros H; inversion H; subst; clear H. assert (G0 : fbS s fb0) by (eapply G; [exact EQ| |exact E]; constructor).
  clear E EQ G.
  assert (L : forall l fb1, incl l s -> fbS s fb1 ->
     fbS s (fold_left (fun fb e => match pb_get (propbuf_of_span s) (fst e) with
                                  | Some _ => fb
                                  | None => match unicode_fragments_of (snd e) with
                                            | Some fs => add_fragments_to_cell (fst e) (snd e) fs fb
                                            | None => add_fragment_to_cell (fst e) (snd e) (cell_text_frag (snd e)) fb
                                            end
                                  end) l fb1)).
  { induction l as [|e t IH]; cbn [fold_left]; intros fb1 Hl G1; [exact G1|].
    apply IH; [intros x Hx; apply Hl; right; exact Hx|].
    assert (Ie : In e s) by (apply Hl; left; reflexivity).
    destruct (pb_get (propbuf_of_span s) (fst e)); [exact G1|].
    destruct (unicode_fragments_of (snd e)) eqn:U.
    - apply add_fragments_S; auto. apply Forall_forall. intros f Hf. eapply Qunicode; eauto.
    - apply add_fragment_S; auto. }
  apply L; [apply incl_refl|exact G0].
Qed.

(** ** positioned and merged fragments, contact groups *)
Lemma abs_fragment_spans_R s fb : incl s S -> fbS s fb -> Forall R (abs_fragment_spans fb).
Proof.
  intros Sub. unfold abs_fragment_spans. induction 1 as [|[c v] t Hv Ft IH]; cbn [flat_map]; [constructor|].
  apply Forall_app; split; [|exact IH]. cbn [fst snd] in Hv. apply Forall_forall. intros x Hx.
  apply in_map_iff in Hx. destruct Hx as [f [<- Hf]]. rewrite Forall_forall in Hv. destruct (Hv f Hf) as [e [Ie [Ek [Es Qe]]]].
  unfold fragspan_abs. rewrite Es, <- Ek. apply QR; auto.
Qed.
Lemma contacts_merge_R a b c : contacts_merge a b = Some c -> (a <> [] /\ Forall R a) -> (b <> [] /\ Forall R b) -> (c <> [] /\ Forall R c).
Proof.
  unfold contacts_merge. destruct (contacts_is_contacting a b); intros H [Na Ha] [Nb Hb]; inversion H; subst.
  split; [destruct a; [congruence|discriminate]|apply Forall_app; auto].
Qed.
Theorem contacts_of_span_R s cs : incl s S -> contacts_of_span s = Ok cs -> Forall (fun c => c <> [] /\ Forall R c) cs.
Proof.
  intros Sub. unfold contacts_of_span. destruct (fragbuf_of_span s) as [fb|] eqn:E; cbn [bind]; [|discriminate].
  unfold merge_fragment_spans. destruct (merge_recursive fragspan_merge (abs_fragment_spans fb)) as [m|] eqn:E2; cbn [bind]; [|discriminate].
  intros H. eapply (merge_recursive_inv contacts_merge _ contacts_merge_R); [exact H|].
  assert (Fm : Forall R m).
  { eapply (merge_recursive_inv fragspan_merge R Rmerge); [exact E2|]. eapply abs_fragment_spans_R; eauto. eapply fragbuf_of_span_S; eauto. }
  apply Forall_forall. intros x Hx. apply in_map_iff in Hx. destruct Hx as [f [<- Hf]].
  rewrite Forall_forall in Fm. split; [discriminate|constructor; auto].
Qed.

(** ** the recognisers *)
Lemma mapM_Forall {X Y} (f : X -> res Y) (P : Y -> Prop) l rs :
  (forall x y, In x l -> f x = Ok y -> P y) -> mapM f l = Ok rs -> Forall P rs.
Proof.
  revert rs; induction l as [|x t IH]; cbn [mapM]; intros rs H E; [inversion E; constructor|].
  destruct (f x) as [y|] eqn:Fx; cbn [bind] in E; [|discriminate].
  destruct (mapM f t) as [ys|] eqn:Ft; cbn [bind] in E; [|discriminate]. inversion E; subst.
  constructor; [apply (H x y); [left; reflexivity|exact Fx]|]. apply IH; [|reflexivity]. intros x' y' I'. apply H. right; exact I'.
Qed.

Lemma table_match_sub table search un : table_match table search = Some un -> incl un search.
Proof.
  unfold table_match. destruct (forallb _ table); [|discriminate]. intros H; inversion H; subst; clear H.
  intros x Hx. apply in_map_iff in Hx. destruct Hx as [[a b] [<- Hx]]. apply filter_In in Hx. destruct Hx as [Hx _].
  apply in_combine_l in Hx. exact Hx.
Qed.
Lemma find_map_some {X Y} (f : X -> option Y) l y : find_map f l = Some y -> exists x, In x l /\ f x = Some y.
Proof.
  induction l as [|x t IH]; cbn [find_map]; [discriminate|]. destruct (f x) eqn:E.
  - intros H; inversion H; subst. exists x. split; [left; reflexivity|exact E].
  - intros H. destruct (IH H) as [x' [I' E']]. exists x'. split; [right; exact I'|exact E'].
Qed.
Lemma endorse_arc_span_sub table s a un : endorse_arc_span table s = Some (a, un) -> incl un s.
Proof.
  unfold endorse_arc_span. intros H. apply find_map_some in H. destruct H as [[a' tspan] [_ H]].
  destruct (table_match tspan s) as [u|] eqn:T; cbn [option_map] in H; [|discriminate]. inversion H; subst. eapply table_match_sub; eauto.
Qed.
Lemma endorse_circle_span_sub s c un : endorse_circle_span s = Some (c, un) -> incl un s.
Proof.
  unfold endorse_circle_span. intros H. apply find_map_some in H. destruct H as [[c' tspan] [_ H]].
  destruct (table_match tspan s) as [u|] eqn:T; cbn [option_map] in H; [|discriminate]. inversion H; subst. eapply table_match_sub; eauto.
Qed.
Lemma shapes_unmatched_sub s fs un : endorse_to_arcs_and_circles s = Ok (fs, un) -> incl un s.
Proof.
  unfold endorse_to_arcs_and_circles. destruct (span_bounds s) as [[tl br]|]; [|discriminate].
  destruct (endorse_circle_span s) as [[c u]|] eqn:E1; [intros H; inversion H; subst; eapply endorse_circle_span_sub; eauto|].
  destruct (endorse_arc_span three_arc_span s) as [[a u]|] eqn:E2; [intros H; inversion H; subst; eapply endorse_arc_span_sub; eauto|].
  destruct (endorse_arc_span half_arc_span s) as [[a u]|] eqn:E3; [intros H; inversion H; subst; eapply endorse_arc_span_sub; eauto|].
  destruct (endorse_arc_span quarter_arc_span s) as [[a u]|] eqn:E4; [intros H; inversion H; subst; eapply endorse_arc_span_sub; eauto|].
  intros H; inversion H; subst. apply incl_refl.
Qed.

Definition goodc (c : contacts) : Prop := c <> [] /\ Forall R c.
Lemma endorse_rects_R cs acc rej : Forall goodc cs -> endorse_rects cs = Ok (acc, rej) -> Forall R acc /\ Forall goodc rej.
Proof.
  revert acc rej; induction cs as [|c t IH]; cbn [endorse_rects]; intros acc rej F H.
  - inversion H; subst. split; constructor.
  - inversion F as [|? ? [Nc Rc] Ft]; subst.
    destruct (contacts_endorse_rect c) as [r|] eqn:E; cbn [bind] in H; [|discriminate].
    destruct (endorse_rects t) as [[acc0 rej0]|] eqn:E2; cbn [bind] in H; [|discriminate].
    destruct (IH acc0 rej0 Ft eq_refl) as [A0 J0].
    destruct r as [f|]; inversion H; subst.
    + split; [constructor; [apply Rrect; auto|exact A0]|exact J0].
    + split; [exact A0|constructor; [split; assumption|exact J0]].
Qed.

Lemma contacts_span_sub c : Forall R c -> incl (contacts_span c) S.
Proof.
  intros F x Hx. unfold contacts_span in Hx. apply in_flat_map in Hx. destruct Hx as [f [If Hx]].
  rewrite Forall_forall in F. destruct (Rprov f (F f If)) as [_ Sub]. apply Sub. exact Hx.
Qed.
Lemma span_merge_sub a b c : span_merge a b = Some c -> incl a S -> incl b S -> incl c S.
Proof. unfold span_merge. destruct (span_can_merge a b); intros H Ha Hb; inversion H; subst. apply incl_app; assumption. Qed.

Lemma re_endorse_R rej acc spans : Forall goodc rej -> re_endorse rej = Ok (acc, spans) -> Forall R acc /\ Forall (fun r => incl r S) spans.
Proof.
  intros F. unfold re_endorse. destruct (merge_recursive span_merge (map contacts_span rej)) as [ms|] eqn:E; cbn [bind]; [|discriminate].
  destruct (mapM endorse_to_arcs_and_circles ms) as [rs|] eqn:E2; cbn [bind]; [|discriminate]. intros H; inversion H; subst; clear H.
  assert (Fm : Forall (fun r => incl r S) ms).
  { eapply (merge_recursive_inv span_merge (fun r => incl r S) span_merge_sub); [exact E|].
    apply Forall_forall. intros x Hx. apply in_map_iff in Hx. destruct Hx as [c [<- Ic]].
    rewrite Forall_forall in F. destruct (F c Ic) as [_ Rc]. apply contacts_span_sub. exact Rc. }
  assert (G : Forall (fun r => Forall R (fst r) /\ incl (snd r) S) rs).
  { eapply mapM_Forall; [|exact E2]. intros x [fs un] Ix Ex. cbn [fst snd]. rewrite Forall_forall in Fm. split.
    - eapply Rshape; [apply Fm; exact Ix|exact Ex].
    - intros y Hy. apply (Fm x Ix). eapply shapes_unmatched_sub; eauto. }
  split.
  - apply Forall_forall. intros f Hf. apply in_flat_map in Hf. destruct Hf as [r [Ir Hf]].
    rewrite Forall_forall in G. destruct (G r Ir) as [G1 _]. rewrite Forall_forall in G1. auto.
  - apply Forall_forall. intros u Hu. apply in_map_iff in Hu. destruct Hu as [r [<- Ir]].
    rewrite Forall_forall in G. destruct (G r Ir) as [_ G2]. exact G2.
Qed.

Lemma span_endorse_R s acc rejspans : incl s S -> span_endorse s = Ok (acc, rejspans) -> Forall R acc /\ Forall (fun r => incl r S) rejspans.
Proof.
  intros Sub. unfold span_endorse.
  destruct (endorse_to_arcs_and_circles s) as [[acc1 un]|] eqn:E1; cbn [bind]; [|discriminate].
  destruct (contacts_of_span un) as [cs|] eqn:E2; cbn [bind]; [|discriminate].
  destruct (endorse_rects cs) as [[acc2 rej]|] eqn:E3; cbn [bind]; [|discriminate].
  destruct (re_endorse rej) as [[acc3 rs]|] eqn:E4; cbn [bind]; [|discriminate]. intros H; inversion H; subst; clear H.
  assert (SubU : incl un S) by (intros x Hx; apply Sub; eapply shapes_unmatched_sub; eauto).
  pose proof (contacts_of_span_R un cs SubU E2) as Fc.
  destruct (endorse_rects_R cs acc2 rej Fc E3) as [A2 J2].
  destruct (re_endorse_R rej acc3 rejspans J2 E4) as [A3 J3].
  split; [|exact J3]. apply Forall_app; split; [exact (Rshape s acc1 un Sub E1)|]. apply Forall_app; split; assumption.
Qed.

(** one group of cells: every accepted fragment and every fragment of every remaining contact
    group satisfies [R] *)
Theorem per_span_R s acc cs : incl s S -> per_span s = Ok (acc, cs) -> Forall R acc /\ Forall goodc cs.
Proof.
  intros Sub. unfold per_span. destruct (span_endorse s) as [[acc0 rejspans]|] eqn:E; cbn [bind]; [|discriminate].
  destruct (mapM contacts_of_span rejspans) as [css|] eqn:E2; cbn [bind]; [|discriminate]. intros H; inversion H; subst; clear H.
  destruct (span_endorse_R s acc rejspans Sub E) as [A J]. split; [exact A|].
  assert (G : Forall (Forall goodc) css).
  { eapply mapM_Forall; [|exact E2]. intros x y Ix Ex. rewrite Forall_forall in J. eapply contacts_of_span_R; [apply J; exact Ix|exact Ex]. }
  apply Forall_forall. intros c Hc. apply in_concat in Hc. destruct Hc as [l [Il Hc]].
  rewrite Forall_forall in G. specialize (G l Il). rewrite Forall_forall in G. auto.
Qed.
End Pipe.

(** ** the whole drawing: [S] is the set of all its cells *)
Section Whole.
Variable cells : list (cell * Z).
Variable Q : cell * Z -> fragment -> Prop.
Variable R : fragspan -> Prop.
Hypothesis Rprov : forall f, R f -> fs_span f <> [] /\ incl (fs_span f) cells.
Hypothesis Qtext : forall e, In e cells -> Q e (cell_text_frag (snd e)).
Hypothesis Qfire : forall s e p f, incl s cells -> In e s -> property_of_char (snd e) = Some p ->
  In f (property_fragments p (pb_env (propbuf_of_span s) (fst e))) -> Q e f.
Hypothesis Qunicode : forall e fs f, In e cells -> unicode_fragments_of (snd e) = Some fs -> In f fs -> Q e f.
Hypothesis Qmerge : forall e a b c, fragment_merge a b = Some c -> Q e a -> Q e b -> Q e c.
Hypothesis QR : forall e f, In e cells -> Q e f -> R (FS [e] (fragment_abs (fst e) f)).
Hypothesis Rmerge : forall a b c, fragspan_merge a b = Some c -> R a -> R b -> R c.
Hypothesis Rshape : forall s fs un, incl s cells -> endorse_to_arcs_and_circles s = Ok (fs, un) -> Forall R fs.
Hypothesis Rrect : forall c f, c <> [] -> Forall R c -> contacts_endorse_rect c = Ok (Some f) -> R (FS (contacts_span c) f).

Lemma spans_sub r : spans_of_cells cells = Ok r -> Forall (fun s => incl s cells) r.
Proof.
  intros H. unfold spans_of_cells in H.
  eapply (merge_recursive_inv span_merge (fun s => incl s cells) (span_merge_sub cells)); [exact H|].
  apply Forall_forall. intros s I. apply in_map_iff in I. destruct I as [e [<- Ie]]. intros x [<-|[]]. exact Ie.
Qed.

Theorem endorse_cells_R acc groups : endorse_cells cells = Ok (acc, groups) -> Forall R acc /\ Forall (Forall R) groups.
Proof.
  rewrite endorse_cells_eq. destruct (spans_of_cells cells) as [r|] eqn:Sp; cbn [bind]; [|discriminate].
  destruct (mapM per_span r) as [rs|] eqn:Mp; cbn [bind]; [|discriminate]. intros H.
  assert (HH : assemble rs = (acc, groups)) by congruence. clear H.
  assert (G : Forall (fun x => Forall R (fst x) /\ Forall (goodc R) (snd x)) rs).
  { eapply mapM_Forall; [|exact Mp]. intros s [a c] Is Es. cbn [fst snd]. pose proof (spans_sub r Sp) as SS. rewrite Forall_forall in SS.
    eapply (per_span_R cells Q R); eauto. }
  assert (GA : Forall R (flat_map fst rs)).
  { apply Forall_forall. intros f Hf. apply in_flat_map in Hf. destruct Hf as [x [Ix Hf]]. rewrite Forall_forall in G. destruct (G x Ix) as [G1 _]. rewrite Forall_forall in G1; auto. }
  assert (GC : Forall (Forall R) (flat_map snd rs)).
  { apply Forall_forall. intros c Hc. apply in_flat_map in Hc. destruct Hc as [x [Ix Hc]]. rewrite Forall_forall in G. destruct (G x Ix) as [_ G2]. rewrite Forall_forall in G2. apply G2; auto. }
  unfold assemble in HH. inversion HH; subst; clear HH. split.
  - apply Forall_app; split; [exact GA|]. apply Forall_forall. intros f Hf. apply in_concat in Hf. destruct Hf as [c [Ic Hf]].
    apply filter_In in Ic. destruct Ic as [Ic _]. rewrite Forall_forall in GC. specialize (GC c Ic). rewrite Forall_forall in GC; auto.
  - apply Forall_forall. intros c Ic. apply filter_In in Ic. destruct Ic as [Ic _]. rewrite Forall_forall in GC; auto.
Qed.
End Whole.
