(** * OrderTheory: the fragment buffer built from the property buffer does not depend on the
    order in which the (hash) map is iterated (C07). *)
Require Import SB.Model.Base SB.Model.Unicode SB.Model.Geom SB.Model.Fragment SB.Model.Merge
  SB.Model.Property SB.Model.FragBuf SB.Theory.MergeTheory SB.Theory.EndorseTotal.
From Coq Require Import Permutation.

(** ** [Cell::cmp] is a strict total order *)
Lemma cell_cmp_eq a b : cell_cmp a b = Eq -> a = b.
Proof.
  destruct a as [ax ay], b as [bx by_]; unfold cell_cmp, cmp_then; cbn.
  destruct (Z.compare_spec ay by_); try discriminate. destruct (Z.compare_spec ax bx); try discriminate. congruence.
Qed.
Lemma cell_cmp_refl a : cell_cmp a a = Eq.
Proof. destruct a; unfold cell_cmp, cmp_then; cbn. rewrite !Z.compare_refl. reflexivity. Qed.
Lemma cell_cmp_antisym a b : cell_cmp b a = CompOpp (cell_cmp a b).
Proof.
  destruct a as [ax ay], b as [bx by_]; unfold cell_cmp, cmp_then; cbn.
  rewrite (Z.compare_antisym ay by_), (Z.compare_antisym ax bx).
  destruct (ay ?= by_); cbn; try reflexivity.
Qed.
Lemma cell_cmp_lt_trans a b c : cell_cmp a b = Lt -> cell_cmp b c = Lt -> cell_cmp a c = Lt.
Proof.
  destruct a as [ax ay], b as [bx by_], c as [cx0 cy0]; unfold cell_cmp, cmp_then; cbn.
  destruct (Z.compare_spec ay by_), (Z.compare_spec by_ cy0), (Z.compare_spec ay cy0); try discriminate; try lia; intros;
    try reflexivity;
    destruct (Z.compare_spec ax bx), (Z.compare_spec bx cx0), (Z.compare_spec ax cx0); try discriminate; try lia; reflexivity.
Qed.
Lemma cell_cmp_gt_lt a b : cell_cmp a b = Gt <-> cell_cmp b a = Lt.
Proof. rewrite (cell_cmp_antisym a b). destruct (cell_cmp a b); cbn; split; congruence. Qed.

(** ** sorted buffers *)
Fixpoint lt_all (c : cell) (fb : fragbuf) : Prop :=
  match fb with [] => True | (k, _) :: t => cell_cmp c k = Lt /\ lt_all c t end.
Fixpoint sorted (fb : fragbuf) : Prop :=
  match fb with [] => True | (k, _) :: t => lt_all k t /\ sorted t end.

Lemma lt_all_trans a b fb : cell_cmp a b = Lt -> lt_all b fb -> lt_all a fb.
Proof.
  induction fb as [|[k v] t IH]; cbn; auto. intros H [H1 H2]. split; [eapply cell_cmp_lt_trans; eauto|auto].
Qed.
Lemma lt_all_update a c f fb : cell_cmp a c = Lt -> lt_all a fb -> lt_all a (fb_update c f fb).
Proof.
  induction fb as [|[k v] t IH]; cbn; intros H L; [auto|].
  destruct L as [L1 L2]. destruct (cell_cmp c k); cbn; auto.
Qed.
Lemma sorted_update c f fb : sorted fb -> sorted (fb_update c f fb).
Proof.
  induction fb as [|[k v] t IH]; cbn; intros S; [auto|].
  destruct S as [S1 S2]. destruct (cell_cmp c k) eqn:E; cbn.
  - apply cell_cmp_eq in E; subst. auto.
  - split; [split; [exact E|eapply lt_all_trans; eauto]|auto].
  - split; [|auto]. apply lt_all_update; auto. apply cell_cmp_gt_lt; exact E.
Qed.

(** on a buffer all of whose keys are above [c], the update puts [c] in front *)
Lemma update_lt_all c f fb : lt_all c fb -> fb_update c f fb = (c, f None) :: fb.
Proof. destruct fb as [|[k v] t]; cbn; auto. intros [H _]. rewrite H. reflexivity. Qed.

Lemma fb_update_comm c1 f1 c2 f2 fb :
  cell_cmp c1 c2 <> Eq -> sorted fb ->
  fb_update c1 f1 (fb_update c2 f2 fb) = fb_update c2 f2 (fb_update c1 f1 fb).
Proof.
  intros N. induction fb as [|[k v] t IH]; intros S.
  - cbn. destruct (cell_cmp c1 c2) eqn:E; [congruence| |].
    + rewrite (cell_cmp_antisym c1 c2), E. reflexivity.
    + rewrite (cell_cmp_antisym c1 c2), E. reflexivity.
  - cbn in S. destruct S as [S1 S2].
    destruct (cell_cmp c1 c2) eqn:E; [congruence| |];
    pose proof (cell_cmp_antisym c1 c2) as E'; rewrite E in E'; cbn [CompOpp] in E';
    destruct (cell_cmp c2 k) eqn:E2; destruct (cell_cmp c1 k) eqn:E1;
    try (apply cell_cmp_eq in E2; subst c2); try (apply cell_cmp_eq in E1; subst c1);
    try (rewrite cell_cmp_refl in E; discriminate);
    try (exfalso; match goal with
         | H1 : cell_cmp ?a ?b = Lt, H2 : cell_cmp ?b ?c = Lt, H3 : cell_cmp ?a ?c = Gt |- _ =>
             rewrite (cell_cmp_lt_trans a b c H1 H2) in H3; discriminate
         | H1 : cell_cmp ?a ?b = Lt, H2 : cell_cmp ?c ?b = Gt, H3 : cell_cmp ?a ?c = Gt |- _ =>
             apply cell_cmp_gt_lt in H2; rewrite (cell_cmp_lt_trans a b c H1 H2) in H3; discriminate
         | H1 : cell_cmp ?a ?b = Lt, H2 : cell_cmp ?b ?a = Lt |- _ =>
             apply cell_cmp_gt_lt in H2; congruence
         end);
    cbn [fb_update]; rewrite ?E1, ?E2, ?E, ?E', ?cell_cmp_refl; cbn [fb_update]; rewrite ?E1, ?E2, ?E, ?E', ?cell_cmp_refl;
    try reflexivity; try (rewrite IH; auto; fail).
Qed.

(** ** adding the entries of the property buffer in any order *)
Definition entry_update (pb : propbuf) (e : cell * property) (fb : fragbuf) : fragbuf :=
  match add_entry pb (Ok fb) e with Ok fb' => fb' | Err _ => fb end.

Lemma add_entry_is_update pb e : exists f, forall fb : fragbuf, add_entry pb (@Ok fragbuf fb) e = @Ok fragbuf (fb_update (fst e) f fb).
Proof.
  destruct e as [c p]. unfold add_entry; cbn [bind fst].
  destruct (property_fragments p (pb_env pb c)) as [|f0 fs0].
  - destruct (unicode_fragments_of (pch p)) as [ufs|].
    + destruct (merge_recursive_ok fragment_merge ufs) as [m [-> _]]. cbn [bind]. eexists. intros fb. reflexivity.
    + eexists. intros fb. reflexivity.
  - eexists. intros fb. reflexivity.
Qed.

Lemma fold_add_entry_sorted pb order : forall fb : fragbuf, sorted fb ->
  exists fb', fold_left (add_entry pb) order (@Ok fragbuf fb) = Ok fb' /\ sorted fb'.
Proof.
  induction order as [|e t IH]; cbn [fold_left]; intros fb S; [eauto|].
  destruct (add_entry_is_update pb e) as [f Hf]. rewrite Hf. apply IH. apply sorted_update; exact S.
Qed.

Definition keys_distinct (l : propbuf) : Prop :=
  forall i j a b, i <> j -> nth_error l i = Some a -> nth_error l j = Some b -> cell_cmp (fst a) (fst b) <> Eq.

Lemma add_entry_swap pb a b (fb : fragbuf) : cell_cmp (fst a) (fst b) <> Eq -> sorted fb ->
  fold_left (add_entry pb) [a; b] (@Ok fragbuf fb) = fold_left (add_entry pb) [b; a] (@Ok fragbuf fb).
Proof.
  intros N S. cbn [fold_left].
  destruct (add_entry_is_update pb a) as [fa Ha]. destruct (add_entry_is_update pb b) as [fb0 Hb].
  repeat (rewrite Ha || rewrite Hb). f_equal. symmetry. apply fb_update_comm; auto.
Qed.

Inductive distinct_keys : propbuf -> Prop :=
| dk_nil : distinct_keys []
| dk_cons e t : Forall (fun x => cell_cmp (fst e) (fst x) <> Eq) t -> distinct_keys t -> distinct_keys (e :: t).

Lemma distinct_keys_perm l l' : Permutation l l' -> distinct_keys l -> distinct_keys l'.
Proof.
  induction 1 as [|x l l' P IH|x y l|l l' l'' P1 IH1 P2 IH2]; intros D; auto.
  - inversion D; subst. constructor; auto. eapply Permutation_Forall; eauto.
  - inversion D as [|? ? F1 D1]; subst. inversion D1 as [|? ? F2 D2]; subst. inversion F1; subst.
    constructor; [constructor; auto|constructor; auto].
    rewrite cell_cmp_antisym. destruct (cell_cmp (fst y) (fst x)) eqn:E; cbn; congruence.
Qed.

Theorem fragbuf_order_independent pb order order' :
  Permutation order order' -> distinct_keys order ->
  forall fb : fragbuf, sorted fb -> fold_left (add_entry pb) order (@Ok fragbuf fb) = fold_left (add_entry pb) order' (@Ok fragbuf fb).
Proof.
  induction 1 as [|x l l' P IH|x y l|l l' l'' P1 IH1 P2 IH2]; intros D fb S.
  - reflexivity.
  - cbn [fold_left]. destruct (add_entry_is_update pb x) as [f Hf]. rewrite Hf.
    inversion D; subst. apply IH; auto. apply sorted_update; auto.
  - inversion D as [|? ? F1 D1]; subst. inversion F1 as [|? ? N _]; subst.
    change (fold_left (add_entry pb) (y :: x :: l) (Ok fb)) with (fold_left (add_entry pb) l (fold_left (add_entry pb) [y; x] (Ok fb))).
    change (fold_left (add_entry pb) (x :: y :: l) (Ok fb)) with (fold_left (add_entry pb) l (fold_left (add_entry pb) [x; y] (Ok fb))).
    rewrite (add_entry_swap pb y x fb); auto.
  - rewrite IH1; auto. apply IH2; auto. eapply distinct_keys_perm; eauto.
Qed.

(** the entries of a property buffer have distinct keys *)
Lemma cell_eqb_cmp a b : cell_eqb a b = true <-> cell_cmp a b = Eq.
Proof.
  destruct a as [ax ay], b as [bx by_]; unfold cell_eqb, cell_cmp, cmp_then; cbn.
  rewrite andb_true_iff, !Z.eqb_eq. destruct (Z.compare_spec ay by_), (Z.compare_spec ax bx); split; intros; try discriminate; try lia; auto.
  all: try (destruct H1; lia).
Qed.
Lemma pb_entries_distinct pb : distinct_keys (pb_entries pb).
Proof.
  induction pb as [|[c p] t IH]; cbn; [constructor|].
  destruct (existsb (fun e => cell_eqb (fst e) c) t) eqn:E; auto.
  constructor; auto. apply Forall_forall. intros x Hx. cbn. intros Eq.
  assert (Hin : In x t).
  { clear - Hx. induction t as [|[c' p'] t IH]; cbn in *; auto.
    destruct (existsb (fun e => cell_eqb (fst e) c') t); [right; auto|]. destruct Hx as [<-|Hx]; auto. }
  assert (existsb (fun e => cell_eqb (fst e) c) t = true); [|congruence].
  apply existsb_exists. exists x. split; auto. apply cell_eqb_cmp. rewrite cell_cmp_antisym, Eq. reflexivity.
Qed.

(** C07 (a): whatever order the hash map yields its entries in, the fragment buffer is the same *)
Theorem fragbuf_of_entries_order_independent pb order :
  Permutation (pb_entries pb) order -> fragbuf_of_entries pb order = fragbuf_of_entries pb (pb_entries pb).
Proof.
  intros P. unfold fragbuf_of_entries. symmetry. apply fragbuf_order_independent; auto.
  - apply pb_entries_distinct.
  - exact I.
Qed.
