(** * BulletSweep: a straight run of 1..40 line characters ended by a bullet character ('*', 'o', 'O'), in each of the
    eight directions, is recognised by the whole recognition of the model as one marked line ending at the centre of
    the bullet's cell, marked at that end with the bullet's kind (filled, open, big open), plus unmarked lines that lie on
    the segment from the start of the run to that centre; when the bullet follows the run in reading order (to its right
    or below it) the marked line is the whole segment from the start of the run, otherwise it may be a stub at the
    bullet (down to a point: observation O1 of DESIGN.md) with the run as an unmarked line next to it; the bullet is not shown as text and no other shape appears (C14, second
    clause; finite sweep with the bound in the statement, re-run whenever the tables are regenerated). *)
Require Import SB.Model.Base SB.Model.Unicode SB.Model.Geom SB.Model.Fragment SB.Model.Merge SB.Model.Property
  SB.Model.FragBuf SB.Model.Endorse SB.Theory.ArrowTheory SB.Theory.BoxDefs SB.Theory.ArrowDefs.

Definition bcases : list acase :=
  flat_map (fun '(dx, dy, lc) => map (fun b => AC dx dy lc b) [42; 111; 79])
           [(1, 0, 45); (-1, 0, 45); (0, 1, 124); (0, -1, 124); (1, 1, 92); (-1, -1, 92); (1, -1, 47); (-1, 1, 47)].
Definition bullet_chk (k : acase) (L : nat) : bool :=
  match endorse_cells (arrow_cells k L) with
  | Ok (m :: rest, []) =>
      match fs_frag m with
      | FMarkerLine ml =>
          let c0 := a_cell k L 0 in
          let far := P (cx c0 * 40 + 20 - adx k * 20) (cy c0 * 80 + 40 - ady k * 40) in
          let head := a_cell k L (Z.of_nat L) in
          let centre := P (cx head * 40 + 20) (cy head * 80 + 40) in
          let l := mlline ml in
          negb (lbroken l) && on_segment far centre (lstart l) && (if forward k then point_eqb (lstart l) far else true) && point_eqb (lend l) centre
          && match mlstart ml with None => true | Some _ => false end
          && marker_eqb (mlend ml) (bullet_marker (aac k))
          && forallb (fun f => match fs_frag f with
                               | FLine s => on_segment far centre (lstart s) && on_segment far centre (lend s)
                               | _ => false
                               end) rest
      | _ => false
      end
  | _ => false
  end.
Definition BMAX := 40%nat.
Lemma bullet_sweep_ok : forallb (fun k => forallb (fun L => bullet_chk k L) (seq 1 BMAX)) bcases = true.
Proof. vm_cast_no_check (eq_refl true). Qed.

Theorem bullet_recognised k L : In k bcases -> (1 <= L <= BMAX)%nat -> bullet_chk k L = true.
Proof.
  intros Hk HL.
  assert (IL : In L (seq 1 BMAX)) by (apply in_seq; unfold BMAX in *; lia).
  exact (proj1 (forallb_forall _ _) (proj1 (forallb_forall _ _) bullet_sweep_ok k Hk) L IL).
Qed.
