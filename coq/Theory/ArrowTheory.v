(** * ArrowTheory: arrowheads and bullets of the tables (C14, T1 sweeps re-run on the
    regenerated tables) and what [merge_circle] does with a bullet. *)
Require Import SB.Model.Base SB.Model.Unicode SB.Model.Geom SB.Model.Fragment SB.Model.Property
  SB.Model.FragBuf SB.Gen.AsciiMap SB.Gen.UnicodeMap.

Definition is_arrow_tag (t : ptag) : bool := match t with DiamondBullet => false | _ => true end.
Definition dot (a b : point) : Z := px a * px b + py a * py b.
Definition vcross (v w : point) : Z := px v * py w - py v * px w.

(** the point of a polygon farthest along [v], if it is unique *)
Definition tip_of (v : point) (pts : list point) : option point :=
  match pts with
  | [] => None
  | p :: t =>
      let best := fold_left (fun b q => if dot b v <? dot q v then q else b) t p in
      if Nat.eqb (length (filter (fun q => dot q v =? dot best v) pts)) 1 then Some best else None
  end.

(** an arrowhead [pts] at the end of a line arriving along the segment [a]-[b] (cell
    coordinates) in direction [v]: the tip lies on the line's axis, strictly beyond both end
    points of the arriving segment, and the other vertices lie strictly on both sides of the axis *)
Definition arrow_geometry_ok (v a b : point) (pts : list point) : bool :=
  match tip_of v pts with
  | None => false
  | Some tip =>
      let base := filter (fun q => negb (point_eqb q tip)) pts in
      (vcross (psub b a) (psub tip a) =? 0) && (vcross v (psub b a) =? 0)
      && (0 <? dot (psub tip a) v) && (0 <? dot (psub tip b) v)
      && existsb (fun q => 0 <? vcross v (psub q tip)) base
      && existsb (fun q => vcross v (psub q tip) <? 0) base
  end.

(** an entry whose condition is "a line arrives from direction [d] along [a]-[b]" and which
    draws a polygon tagged as an arrow *)
Definition arriving (c : cond) : option (dir8 * point * point) :=
  match c with COverlap d _ a b => Some (d, a, b) | _ => None end.
Definition entry_arrows_ok (cf : cond * list fragment) : bool :=
  match arriving (fst cf) with
  | None => true
  | Some (d, a, b) =>
      let o := dir8_offset d in
      let sh := P (cx o * CW) (cy o * CH) in
      let v := P (- cx o * CW) (- cy o * CH) in
      forallb (fun f => match f with
                        | FPolygon p => if existsb is_arrow_tag (ptags p) then arrow_geometry_ok v (padd a sh) (padd b sh) (ppoints p) else true
                        | _ => true
                        end) (snd cf)
  end.
Definition ascii_arrows_ok : bool := forallb (fun p => forallb entry_arrows_ok (pbeh p)) ascii_properties.

(** the triangle glyphs: tagged polygons whose tip lies on the axis through the cell centre in
    the direction of the tag and whose base straddles that axis *)
Definition tag_dir (t : ptag) : point :=
  match t with
  | ArrowTopLeft => P (-40) (-80) | ArrowTop => P 0 (-80) | ArrowTopRight => P 40 (-80)
  | ArrowLeft => P (-40) 0 | ArrowRight => P 40 0
  | ArrowBottomLeft => P (-40) 80 | ArrowBottom => P 0 80 | ArrowBottomRight => P 40 80
  | DiamondBullet => P 0 0
  end.
Definition glyph_ok (f : fragment) : bool :=
  match f with
  | FPolygon p =>
      match filter is_arrow_tag (ptags p) with
      | [t] => let v := tag_dir t in
               match tip_of v (ppoints p) with
               | None => false
               | Some tip =>
                   let base := filter (fun q => negb (point_eqb q tip)) (ppoints p) in
                   (vcross v (psub tip (P 20 40)) =? 0)
                   && existsb (fun q => 0 <? vcross v (psub q tip)) base && existsb (fun q => vcross v (psub q tip) <? 0) base
               end
      | _ => true
      end
  | _ => true
  end.
Definition unicode_arrows_ok : bool := forallb (fun e => forallb glyph_ok (snd e)) unicode_fragments.

Lemma arrows_sweep : ascii_arrows_ok && unicode_arrows_ok = true.
Proof. vm_compute. reflexivity. Qed.

(** ** bullets: a circle of the tables sits at the centre of its cell *)
Definition bullet_ok (f : fragment) : bool :=
  match f with FCircle c => point_eqb (ccenter c) (P 20 40) && (0 <? cradius c) && (cradius c <=? 30) | _ => true end.
Definition bullets_ok : bool :=
  forallb (fun p => forallb (fun cf => forallb bullet_ok (snd cf)) (pbeh p)) ascii_properties
  && forallb (fun e => forallb (fun f => match f with FCircle c => point_eqb (ccenter c) (P 20 40) | _ => true end) (snd e)) unicode_fragments.
Lemma bullets_sweep : bullets_ok = true.
Proof. vm_compute. reflexivity. Qed.

(** merging a line with a bullet: the result is that line with its far end moved to the
    centre of the bullet and marked with the bullet's kind; for every line and circle *)
Theorem merge_circle_spec l c f : merge_circle l c = Some f ->
  exists keep, f = FMarkerLine (MarkerLine (Line keep (ccenter c) (lbroken l)) None
                                (Some (if cfilled c then MCircle else if 20 <=? cradius c then MBigOpenCircle else MOpenCircle)))
               /\ (keep = lstart l \/ keep = lend l).
Proof.
  unfold merge_circle. destruct (_ && _); [|discriminate]. intros H. inversion H; subst; clear H.
  destruct (dist_sq (lend l) (ccenter c) <=? threshold_sq (heading l)); eexists; split; try reflexivity; auto.
Qed.
