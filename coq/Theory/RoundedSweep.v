(** * RoundedSweep: a rounded outline with a stub attached (so that it is not turned into a rectangle) is recognised by
    the whole recognition of the model as ONE contact group of exactly four quarter arcs and five solid lines (the four
    sides and the stub): each arc has radius half a cell width, its centre lies strictly inside the outline (so it
    bulges outward), and at each of its two ends a line of the group ends at that very point and leaves it at a right
    angle to the radius (the outline is continuous and smooth); each side joins two arc ends.  For the two ASCII rounded
    corner styles (. . ' ' and , . ` '), every interior size 1..12 x 1..6 and a '-' stub on the left or the right side (C14, third clause; finite
    sweep with the bound in the statement, re-run whenever the tables are regenerated). *)
Require Import SB.Model.Base SB.Model.Unicode SB.Model.Geom SB.Model.Fragment SB.Model.Merge SB.Model.Property
  SB.Model.FragBuf SB.Model.Endorse SB.Theory.ShiftTheory SB.Theory.CornerTheory SB.Theory.BoxDefs.

Inductive stub := StubRight | StubLeft.
Definition stub_cell (w h : nat) (st : stub) : cell * Z :=
  match st with
  | StubRight => (C (Z.of_nat w + 3) 2, 45)
  | StubLeft => (C 0 2, 45)
  end.
(** the box moved one cell right and down, plus the stub *)
Definition outline_cells (s : bstyle) (w h : nat) (st : stub) : list (cell * Z) :=
  map (shift_cc 1 1) (box_cells s w h) ++ [stub_cell w h st].
Definition arcs_of (g : list fragment) : list arc := flat_map (fun f => match f with FArc a => [a] | _ => [] end) g.
Definition lines_of (g : list fragment) : list line := flat_map (fun f => match f with FLine l => [l] | _ => [] end) g.
Definition arc_ends (g : list fragment) : list point := flat_map (fun a => [astart a; aend a]) (arcs_of g).
Definition is_arc_end (g : list fragment) (p : point) : bool := existsb (point_eqb p) (arc_ends g).
Definition outline_chk (s : bstyle) (w h : nat) (st : stub) : bool :=
  match endorse_cells (outline_cells s w h st) with
  | Ok ([], [grp]) =>
      let g := map fs_frag grp in
      let x0 := 60 in let y0 := 120 in
      let x1 := (Z.of_nat w + 2) * 40 + 20 in let y1 := (Z.of_nat h + 2) * 80 + 40 in
      Nat.eqb (List.length g) 9 && Nat.eqb (List.length (arcs_of g)) 4 && Nat.eqb (List.length (lines_of g)) 5
      && forallb (fun l => negb (lbroken l)) (lines_of g)
      && forallb (fun a =>
                    let c := ra_centre a in
                    arc_is_right_angle a && (aradius a =? 20)
                    && (dist_sq c (astart a) =? 400) && (dist_sq c (aend a) =? 400)
                    && (x0 <? px c) && (px c <? x1) && (y0 <? py c) && (py c <? y1)
                    && tangent_sibling g c (astart a) && tangent_sibling g c (aend a)) (arcs_of g)
      && Nat.eqb (List.length (filter (fun l => is_arc_end g (lstart l) && is_arc_end g (lend l)) (lines_of g))) 4
  | _ => false
  end.
Definition rounded_styles : list bstyle := filter (fun s => match rad s with Some _ => negb (dashed_h s) && (vt s =? 124) | None => false end) styles.
Definition stubs := [StubRight; StubLeft].
Definition RW := 12%nat.
Definition RH := 6%nat.
Lemma rounded_sweep_ok :
  forallb (fun s => forallb (fun st => forallb (fun w => forallb (fun h => outline_chk s w h st) (seq 1 RH)) (seq 1 RW)) stubs) rounded_styles = true.
Proof. vm_cast_no_check (eq_refl true). Qed.

Theorem rounded_outline_recognised s st w h : In s rounded_styles -> (1 <= w <= RW)%nat -> (1 <= h <= RH)%nat -> outline_chk s w h st = true.
Proof.
  intros Hs Hw Hh.
  assert (Ist : In st stubs) by (destruct st; cbn; tauto).
  assert (Iw : In w (seq 1 RW)) by (apply in_seq; unfold RW in *; lia).
  assert (Ih : In h (seq 1 RH)) by (apply in_seq; unfold RH in *; lia).
  exact (proj1 (forallb_forall _ _) (proj1 (forallb_forall _ _) (proj1 (forallb_forall _ _) (proj1 (forallb_forall _ _) rounded_sweep_ok s Hs) st Ist) w Iw) h Ih).
Qed.
Example rounded_styles_are_two : List.length rounded_styles = 2%nat.
Proof. reflexivity. Qed.
