(** * ScaleTheory: the scale setting only multiplies lengths (C11). *)
Require Import SB.Model.Base SB.Model.Geom SB.Model.Text SB.Model.Tree SB.Model.Svg SB.Model.Lib
  SB.Model.Endorse SB.Model.FragBuf.
From Coq Require Import QArith.
#[global] Open Scope Z_scope.

Definition qs (f q : Q) : Q := Qred (f * q).

Definition scale_aval (f : Q) (v : aval) : aval :=
  match v with
  | VStr s => VStr s
  | VNum q => VNum (qs f q)
  | VArc x1 y1 r mj sw x2 y2 => VArc (qs f x1) (qs f y1) (qs f r) mj sw (qs f x2) (qs f y2)
  | VPoints pts => VPoints (map (fun p => (qs f (fst p), qs f (snd p))) pts)
  end.
Definition scale_attr (f : Q) (a : attr) : attr := (fst a, map (scale_aval f) (snd a)).

(** multiplies every number of the tree by [f]; names, strings, order, counts and text stay *)
Fixpoint scale_node (f : Q) (n : node) : node :=
  match n with
  | Elem tag attrs kids => Elem tag (map (scale_attr f) attrs) (map (scale_node f) kids)
  | TextLeaf s => TextLeaf s
  end.

Definition set_scale (st : settings) (s : Q) : settings :=
  Settings (font_size st) (font_family st) (fill_color st) (background st) (stroke_color st)
           (stroke_width st) s (include_backdrop st) (include_styles st) (include_defs st).

Lemma sc_mul f s t : sc (f * s) t = qs f (sc s t).
Proof.
  unfold sc, qs. apply Qred_complete. rewrite Qred_correct. field.
Qed.

Lemma qs_zero f : qs f 0 = 0%Q.
Proof. unfold qs. apply Qred_complete with (q := 0%Q). ring. Qed.

Lemma class_of_scale f names : scale_attr f (class_of names) = class_of names.
Proof.
  unfold class_of, scale_attr; cbn [fst snd]. f_equal. rewrite map_map. reflexivity.
Qed.

Lemma num_scale f n q : scale_attr f (Lib.num n q) = Lib.num n (qs f q).
Proof. reflexivity. Qed.

Lemma line_attrs_scale f s l : map (scale_attr f) (line_attrs s l) = line_attrs (f * s) l.
Proof.
  unfold line_attrs. cbn [map]. rewrite class_of_scale, !num_scale, !sc_mul. reflexivity.
Qed.

Lemma fragment_node_scale f s fr :
  fragment_node (f * s) fr = scale_node f (fragment_node s fr).
Proof.
  destruct fr as [l|m|c|a|p|r|t]; cbn [fragment_node scale_node map].
  - rewrite line_attrs_scale. reflexivity.
  - rewrite !map_app, line_attrs_scale.
    destruct (mlstart m), (mlend m); cbn [map app]; rewrite ?class_of_scale; reflexivity.
  - rewrite class_of_scale, !num_scale, !sc_mul. reflexivity.
  - rewrite class_of_scale, !sc_mul. reflexivity.
  - rewrite class_of_scale. unfold Lib.A at 2. unfold scale_attr at 1. cbn [fst snd map scale_aval].
    rewrite map_map. unfold Lib.A. do 5 f_equal.
    apply map_ext; intros q; cbn [fst snd]. rewrite !sc_mul. reflexivity.
  - rewrite class_of_scale, !num_scale, !sc_mul.
    destruct (rradius r); rewrite ?sc_mul, ?qs_zero; reflexivity.
  - rewrite !num_scale, !sc_mul. reflexivity.
Qed.

Lemma merge_attribute_scale f a l :
  map (scale_attr f) (merge_attribute a l) = merge_attribute (scale_attr f a) (map (scale_attr f) l).
Proof.
  induction l as [|[n vs] t IH]; [reflexivity|].
  cbn [map]. change (scale_attr f (n, vs)) with (n, map (scale_aval f) vs).
  cbn [merge_attribute]. change (fst (scale_attr f a)) with (fst a).
  destruct (zs_eqb n (fst a)); cbn [map].
  - change (scale_attr f (n, vs ++ snd a)) with (n, map (scale_aval f) (vs ++ snd a)).
    rewrite map_app. reflexivity.
  - change (scale_attr f (n, vs)) with (n, map (scale_aval f) vs). rewrite IH. reflexivity.
Qed.

Lemma with_tags_scale f n tags : scale_node f (with_tags n tags) = with_tags (scale_node f n) tags.
Proof.
  destruct n as [tg attrs kids|s]; cbn [with_tags scale_node]; [|reflexivity].
  rewrite merge_attribute_scale. unfold scale_attr at 1; cbn [fst snd]. rewrite map_map. reflexivity.
Qed.

Lemma fragment_nodes_scale f s fs :
  fragment_nodes (f * s) fs =
  match fragment_nodes s fs with Ok ns => Ok (map (scale_node f) ns) | Err e => Err e end.
Proof.
  unfold fragment_nodes. destruct (enclose_fragments fs) as [trees|e]; cbn [bind]; [|reflexivity].
  f_equal. rewrite map_map. apply map_ext. intros [fr tags].
  rewrite with_tags_scale, fragment_node_scale. reflexivity.
Qed.

Lemma defs_node_scale f : scale_node f defs_node = defs_node.
Proof. reflexivity. Qed.

Lemma style_node_scale f st legend : scale_node f (style_node st legend) = style_node st legend.
Proof. reflexivity. Qed.

Lemma backdrop_scale f w h : scale_node f (backdrop_node w h) = backdrop_node (qs f w) (qs f h).
Proof. reflexivity. Qed.

Lemma canvas_size_scale f st cells :
  canvas_size (set_scale st (f * scale st)) cells =
  (qs f (fst (canvas_size st cells)), qs f (snd (canvas_size st cells))).
Proof.
  unfold canvas_size, canvas_of, set_scale, qs; cbn [scale fst snd].
  f_equal; apply Qred_complete; rewrite Qred_correct; ring.
Qed.

Lemma style_node_set_scale st s legend : style_node (set_scale st s) legend = style_node st legend.
Proof.
  reflexivity.
Qed.

Lemma doc_emit_scale f frags groups legend st w h :
  doc_emit frags groups legend (set_scale st (f * scale st)) (qs f w) (qs f h) =
  match doc_emit frags groups legend st w h with Ok d => Ok (scale_node f d) | Err e => Err e end.
Proof.
  unfold doc_emit.
  change (scale (set_scale st (f * scale st))) with (f * scale st)%Q.
  change (include_styles (set_scale st (f * scale st))) with (include_styles st).
  change (include_defs (set_scale st (f * scale st))) with (include_defs st).
  change (include_backdrop (set_scale st (f * scale st))) with (include_backdrop st).
  rewrite fragment_nodes_scale, style_node_set_scale.
  destruct (fragment_nodes (scale st) frags) as [ns|e]; cbn [bind]; [|reflexivity].
  f_equal. cbn [scale_node]. f_equal. rewrite !map_app. f_equal; [|f_equal; [|f_equal; [|f_equal]]].
  - destruct (include_styles st); reflexivity.
  - destruct (include_defs st); reflexivity.
  - destruct (include_backdrop st); reflexivity.
  - rewrite map_map. apply map_ext. intros g. cbn [scale_node map]. f_equal.
    rewrite map_map. apply map_ext. intros fr. apply fragment_node_scale.
Qed.

Lemma doc_of_scale f cb st w h :
  doc_of cb (set_scale st (f * scale st)) (qs f w) (qs f h) =
  match doc_of cb st w h with Ok d => Ok (scale_node f d) | Err e => Err e end.
Proof.
  unfold doc_of. destruct (fragments_of cb) as [[frags groups]|e]; cbn [bind]; [|reflexivity].
  apply doc_emit_scale.
Qed.

(** C11, first clause: multiplying the scale setting by [f] multiplies every number of the
    document by [f] and changes nothing else *)
Theorem doc_scale input st f :
  doc input (set_scale st (f * scale st)) =
  match doc input st with Ok d => Ok (scale_node f d) | Err e => Err e end.
Proof.
  unfold doc. destruct (cellbuffer_from input) as [cb|e]; cbn [bind]; [|reflexivity].
  rewrite canvas_size_scale. destruct (canvas_size st (cb_cells cb)) as [w h]; cbn [fst snd].
  apply doc_of_scale.
Qed.

(** C11, second clause: at scale 8 the cell (i, j) has its top-left corner at (8 i, 16 j),
    so one cell measures 8 by 16 units *)
Lemma cell_corner_at_8 i j :
  (sc 8 (px (top_left_most (C i j))) == inject_Z (8 * i))%Q
  /\ (sc 8 (py (top_left_most (C i j))) == inject_Z (16 * j))%Q.
Proof.
  unfold sc, top_left_most, CW, CH; cbn [px py cx cy]. rewrite !Qred_correct. split.
  - rewrite !inject_Z_mult. change (inject_Z 40) with 40%Q. change (inject_Z 8) with 8%Q. field.
  - rewrite !inject_Z_mult. change (inject_Z 80) with 80%Q. change (inject_Z 16) with 16%Q. field.
Qed.
