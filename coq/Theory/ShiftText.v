(** * ShiftText: indenting every line by [k] spaces and prepending [n] line feeds shifts the
    cell map and the quoted texts by (k, n) and changes nothing else (C06, first part). *)
Require Import SB.Model.Base SB.Model.Unicode SB.Model.Geom SB.Model.Text SB.Theory.TextTotal SB.Theory.LineTheory
  SB.Theory.QuoteTheory SB.Theory.ShiftTheory.
From Coq Require Import Arith.

Definition spaces (k : nat) : list Z := repeatZ 32 k.

(** [k] spaces in front of every line (every maximal run between line feeds, the last one
    only if it is not empty) *)
Fixpoint indent_aux (k : nat) (at_start : bool) (s : list Z) : list Z :=
  match s with
  | [] => []
  | c :: t => (if at_start then spaces k else []) ++ c :: indent_aux k (c =? 10) t
  end.
Definition shift_text (k n : nat) (s : list Z) : list Z := repeatZ 10 n ++ indent_aux k true s.

Lemma rev_spaces k : rev (spaces k) = spaces k.
Proof.
  unfold spaces. induction k as [|k IH]; [reflexivity|]. cbn [repeatZ rev]. rewrite IH.
  clear IH. induction k as [|k IH]; [reflexivity|]. cbn [repeatZ app]. f_equal. exact IH.
Qed.

Lemma lines_aux_spaces k rest : forall cur, lines_aux (spaces k ++ rest) cur = lines_aux rest (spaces k ++ cur).
Proof.
  unfold spaces. induction k as [|k IH]; intros cur; [reflexivity|].
  cbn [repeatZ app lines_aux]. change (32 =? 10) with false. cbv iota. rewrite IH.
  f_equal. clear. induction k as [|k IH]; [reflexivity|]. cbn [repeatZ app]. f_equal. exact IH.
Qed.

Lemma strip_cr_app cur k : cur <> [] -> strip_cr_rev (cur ++ spaces k) = strip_cr_rev cur ++ spaces k.
Proof. destruct cur as [|d r]; [congruence|]. intros _. cbn [app strip_cr_rev]. destruct (d =? 13); reflexivity. Qed.
Lemma strip_cr_spaces k : strip_cr_rev (spaces k) = spaces k.
Proof. destruct k; reflexivity. Qed.

Lemma lines_aux_indent k s : forall cur,
  lines_aux (indent_aux k (match cur with [] => true | _ => false end) s) (match cur with [] => [] | _ => cur ++ spaces k end)
  = map (app (spaces k)) (lines_aux s cur).
Proof.
  induction s as [|c t IH]; intros cur.
  - cbn [indent_aux lines_aux]. destruct cur as [|d r]; [reflexivity|]. cbn [map]. rewrite rev_app_distr, rev_spaces. reflexivity.
  - destruct cur as [|d r].
    + cbn [indent_aux]. rewrite lines_aux_spaces, app_nil_r. cbn [lines_aux].
      destruct (c =? 10) eqn:E.
      * rewrite strip_cr_spaces, rev_spaces. cbn [map strip_cr_rev rev]. rewrite app_nil_r. f_equal. apply (IH []).
      * change (c :: spaces k) with ([c] ++ spaces k). apply (IH [c]).
    + cbn [indent_aux app lines_aux]. destruct (c =? 10) eqn:E.
      * change (d :: r ++ spaces k) with ((d :: r) ++ spaces k). rewrite strip_cr_app by discriminate.
        rewrite rev_app_distr, rev_spaces. cbn [map]. f_equal. apply (IH []).
      * change (c :: d :: r ++ spaces k) with ((c :: d :: r) ++ spaces k). apply (IH (c :: d :: r)).
Qed.

Theorem lines_indent k s : lines (indent_aux k true s) = map (app (spaces k)) (lines s).
Proof. unfold lines. apply (lines_aux_indent k s []). Qed.

Lemma lines_feeds n s : lines (repeatZ 10 n ++ s) = repeatZ [] n ++ lines s.
Proof.
  unfold lines. induction n as [|n IH]; [reflexivity|]. cbn [repeatZ app lines_aux]. change (10 =? 10) with true. cbv iota.
  cbn [strip_cr_rev rev]. f_equal. exact IH.
Qed.

Theorem lines_shift_text k n s : lines (shift_text k n s) = repeatZ [] n ++ map (app (spaces k)) (lines s).
Proof. unfold shift_text. rewrite lines_feeds, lines_indent. reflexivity. Qed.

(** ** rows *)
Lemma row_of_spaces k : row_of_line (spaces k) = spaces k.
Proof.
  unfold spaces. induction k as [|k IH]; [reflexivity|]. cbn [repeatZ].
  change (row_of_line (32 :: repeatZ 32 k)) with (row_of_line [32] ++ row_of_line (repeatZ 32 k)). rewrite IH. vm_compute (row_of_line [32]). reflexivity.
Qed.

Lemma spaces_quote_free k : quote_free (spaces k).
Proof. unfold spaces. induction k; cbn; constructor; [discriminate|assumption]. Qed.
Lemma spaces_length k : length (spaces k) = k.
Proof. apply repeatZ_length. Qed.

Lemma skip_nq_spaces k s pos : skip_nq (spaces k ++ s) pos = skip_nq s (pos + k)%nat.
Proof.
  revert pos. unfold spaces. induction k as [|k IH]; intros pos; cbn [repeatZ app skip_nq]; [f_equal; lia|].
  change (32 =? 34) with false. cbv iota. rewrite IH. f_equal. lia.
Qed.

(** positions are relative: starting the scan [d] later adds [d] to every position *)
Lemma skip_nq_pos s d : forall pos, skip_nq s (pos + d)%nat = (fst (skip_nq s pos), (snd (skip_nq s pos) + d)%nat).
Proof.
  induction s as [|c t IH]; intros pos; cbn [skip_nq]; [reflexivity|].
  destruct (c =? 34); [reflexivity|]. rewrite <- IH. f_equal.
Qed.
Lemma char_strings_pos d : forall m s, (length s <= m)%nat -> forall pos,
  char_strings s (pos + d)%nat = (fst (char_strings s pos), (snd (char_strings s pos) + d)%nat).
Proof.
  induction m as [|m IH]; intros s L pos.
  - destruct s; [reflexivity|cbn in L; lia].
  - destruct s as [|c t]; [reflexivity|]. cbn [length] in L. destruct t as [|e t'].
    + rewrite !char_strings_cons1. destruct (c =? 34); reflexivity.
    + rewrite !char_strings_cons2. destruct ((c =? 92) && (e =? 34)).
      * change (S (S (pos + d))) with (S (S pos) + d)%nat. apply IH. cbn [length] in L. lia.
      * destruct (c =? 34); [reflexivity|]. change (S (pos + d)) with (S pos + d)%nat. apply IH. lia.
Qed.

Definition shift_loc (d : nat) (l : nat * nat) : nat * nat := (fst l + d, snd l + d)%nat.

Lemma escape_string_pos s d pos :
  escape_string s (pos + d)%nat =
  option_map (fun r => (shift_loc d (fst (fst r)), snd (fst r), (snd r + d)%nat)) (escape_string s pos).
Proof.
  unfold escape_string. rewrite skip_nq_pos. destruct (skip_nq s pos) as [s1 p1]; cbn [fst snd].
  destruct s1 as [|q s2]; [reflexivity|]. destruct (q =? 34); [|reflexivity].
  change (S (p1 + d)) with (S p1 + d)%nat. rewrite (char_strings_pos d (length s2) s2 (le_n _)).
  destruct (char_strings s2 (S p1)) as [s3 p3]; cbn [fst snd]. destruct s3 as [|q' s4]; [reflexivity|].
  destruct (q' =? 34); [|reflexivity]. change (S (p3 + d)) with (S p3 + d)%nat. rewrite skip_nq_pos.
  destruct (skip_nq s4 (S p3)) as [s5 p5]; reflexivity.
Qed.

Lemma lp_pos d : forall m s, (length s <= m)%nat -> forall pos, lp s (pos + d)%nat = option_map (map (shift_loc d)) (lp s pos).
Proof.
  induction m as [|m IH]; intros s L pos.
  - destruct s; [|cbn in L; lia]. rewrite !lp_unfold. reflexivity.
  - rewrite (lp_unfold s (pos + d)), (lp_unfold s pos), escape_string_pos.
    destruct (escape_string s pos) as [[[[p1 p3] s5] p5]|] eqn:E; cbn [option_map fst snd]; [|reflexivity].
    pose proof (escape_string_spec _ _ _ _ _ _ E) as Sp.
    rewrite IH by lia. destruct (lp s5 p5); reflexivity.
Qed.

Lemma lp_spaces k s : lp (spaces k ++ s) 0 = option_map (map (shift_loc k)) (lp s 0).
Proof.
  rewrite <- (lp_pos k (length s) s (le_n _) 0). cbn [Nat.add].
  rewrite (lp_unfold (spaces k ++ s) 0), (lp_unfold s k).
  assert (E : escape_string (spaces k ++ s) 0 = escape_string s k).
  { unfold escape_string. rewrite skip_nq_spaces. reflexivity. }
  rewrite E. reflexivity.
Qed.

(** ** [escape_line] of an indented row *)
Lemma slice_prefix {X} (p v : list X) k a b : length p = k -> (a <= b)%nat -> (b <= length v)%nat ->
  slice (p ++ v) (a + k) (b + k) = slice v a b.
Proof.
  intros <- H1 H2. unfold slice. rewrite app_length.
  destruct (Nat.leb_spec (a + length p) (b + length p)); [|lia]. destruct (Nat.leb_spec (b + length p) (length p + length v)); [|lia].
  destruct (Nat.leb_spec a b); [|lia]. destruct (Nat.leb_spec b (length v)); [|lia]. cbn [andb].
  rewrite skipn_app. replace (a + length p - length p)%nat with a by lia.
  rewrite (skipn_all2 p) by lia. cbn [app]. f_equal. f_equal. lia.
Qed.
Lemma slice_prefix0 {X} (p v : list X) k b : length p = k -> (b <= length v)%nat ->
  slice (p ++ v) 0 (b + k) = option_map (app p) (slice v 0 b).
Proof.
  intros <- H2. unfold slice. rewrite app_length. cbn [Nat.leb andb skipn].
  destruct (Nat.leb_spec (b + length p) (length p + length v)); [|lia]. destruct (Nat.leb_spec b (length v)); [|lia].
  cbn [option_map]. f_equal. rewrite !Nat.sub_0_r, firstn_app. replace (b + length p - length p)%nat with b by lia.
  rewrite firstn_all2 by lia. reflexivity.
Qed.
Lemma slice_from_prefix {X} (p v : list X) k a : length p = k -> (a <= length v)%nat -> slice_from (p ++ v) (a + k) = slice_from v a.
Proof.
  intros <- H. unfold slice_from. rewrite app_length.
  destruct (Nat.leb_spec (a + length p) (length p + length v)); [|lia]. destruct (Nat.leb_spec a (length v)); [|lia].
  rewrite skipn_app. replace (a + length p - length p)%nat with a by lia. rewrite (skipn_all2 p) by lia. reflexivity.
Qed.

Definition shift_text_cell (k : nat) (e : cell * list Z) : cell * list Z := (C (cx (fst e) + Z.of_nat k) (cy (fst e)), snd e).

Lemma escape_segments_prefix y k row : forall locs idx, ordered idx (length row) locs ->
  escape_segments y (spaces k ++ row) (map (shift_loc k) locs) (idx + k) =
  match escape_segments y row locs idx with
  | Ok (texts, out) => Ok (map (shift_text_cell k) texts, out)
  | Err e => Err e
  end.
Proof.
  induction locs as [|[s e] more IH]; intros idx O; cbn [map escape_segments shift_loc fst snd].
  - cbn in O. rewrite (slice_from_prefix (spaces k) row k idx (spaces_length k) O).
    destruct (slice_from_ok row idx O) as [l ->]. reflexivity.
  - cbn in O. destruct O as [[O1 [O2 O3]] O4].
    change (S (s + k)) with (S s + k)%nat.
    rewrite (slice_prefix (spaces k) row k (S s) e (spaces_length k)) by lia. rewrite (slice_prefix (spaces k) row k idx s (spaces_length k)) by lia.
    destruct (slice_ok row (S s) e) as [l1 ->]; [lia|lia|]. destruct (slice_ok row idx s) as [l2 ->]; [lia|lia|]. cbn [oslice bind].
    change (S (e + k)) with (S e + k)%nat. rewrite (IH (S e) O4).
    destruct (escape_segments y row more (S e)) as [[texts tail]|]; cbn [bind]; [|reflexivity].
    unfold shift_text_cell at 2; cbn [map fst snd cx cy]. rewrite Nat2Z.inj_add. reflexivity.
Qed.

Theorem escape_line_indent y k row :
  escape_line y (spaces k ++ row) =
  match escape_line y row with
  | Ok (texts, out) => Ok (map (shift_text_cell k) texts, spaces k ++ out)
  | Err e => Err e
  end.
Proof.
  unfold escape_line, line_parse. fold (lp (spaces k ++ row) 0). fold (lp row 0). rewrite lp_spaces.
  destruct (line_parse_ok row) as [locs [LP O]]. unfold line_parse in LP. fold (lp row 0) in LP.
  destruct (lp row 0) as [locs'|]; [|discriminate]. inversion LP; subst locs'. cbn [option_map bind].
  destruct locs as [|[s e] more]; [reflexivity|]. cbn [map].
  (* the first piece keeps the indentation *)
  cbn in O. destruct O as [[O1 [O2 O3]] O4]. cbn [escape_segments shift_loc fst snd].
  change (S (s + k)) with (S s + k)%nat.
  rewrite (slice_prefix (spaces k) row k (S s) e (spaces_length k)) by lia. rewrite (slice_prefix0 (spaces k) row k s (spaces_length k)) by lia.
  destruct (slice_ok row (S s) e) as [l1 ->]; [lia|lia|]. destruct (slice_ok row 0 s) as [l2 ->]; [lia|lia|]. cbn [oslice bind option_map].
  change (S (e + k)) with (S e + k)%nat. rewrite (escape_segments_prefix y k row more (S e) O4).
  destruct (escape_segments y row more (S e)) as [[texts tail]|]; cbn [bind]; [|reflexivity].
  unfold shift_text_cell at 2; cbn [map fst snd cx cy]. rewrite Nat2Z.inj_add, <- !app_assoc. reflexivity.
Qed.

(** ** cells *)
Definition shift_cellx (k : Z) (e : cell * Z) : cell * Z := (C (cx (fst e) + k) (cy (fst e)), snd e).
Lemma cells_of_row_x y row : forall x d, cells_of_row y (x + d) row = map (shift_cellx d) (cells_of_row y x row).
Proof.
  induction row as [|c t IH]; intros x d; cbn [cells_of_row map]; [reflexivity|].
  replace (x + d + 1) with (x + 1 + d) by lia. destruct ((c =? 0) || is_whitespace c); [apply IH|].
  cbn [map shift_cellx fst snd cx cy]. f_equal. apply IH.
Qed.
Lemma cells_of_row_spaces y k row x : cells_of_row y x (spaces k ++ row) = cells_of_row y (x + Z.of_nat k) row.
Proof.
  revert x. unfold spaces. induction k as [|k IH]; intros x; cbn [repeatZ app]; [f_equal; lia|].
  cbn [cells_of_row]. replace ((32 =? 0) || is_whitespace 32) with true by (vm_compute; reflexivity).
  rewrite IH. f_equal. lia.
Qed.

Definition shift_cb_cells (k n : Z) (l : list (cell * Z)) := map (shift_cc k n) l.
Definition shift_cb_texts (k n : Z) (l : list (cell * list Z)) := map (fun e => (shift_cell k n (fst e), snd e)) l.

Lemma escape_line_y y d row :
  escape_line (y + d) row =
  match escape_line y row with
  | Ok (texts, out) => Ok (map (fun e => (C (cx (fst e)) (cy (fst e) + d), snd e)) texts, out)
  | Err e => Err e
  end.
Proof.
  unfold escape_line. destruct (line_parse row) as [locs|]; cbn [bind]; [|reflexivity].
  destruct locs as [|l more]; [reflexivity|].
  generalize (l :: more) as ls. generalize 0%nat as idx. intros idx ls. revert idx.
  induction ls as [|[s e] t IH]; intros idx; cbn [escape_segments].
  - destruct (oslice (slice_from row idx)); reflexivity.
  - destruct (oslice (slice row (S s) e)); cbn [bind]; [|reflexivity]. destruct (oslice (slice row idx s)); cbn [bind]; [|reflexivity].
    rewrite IH. destruct (escape_segments y row t (S e)) as [[texts tail]|]; reflexivity.
Qed.
Lemma cells_of_row_y d row : forall y x, cells_of_row (y + d) x row = map (fun e => (C (cx (fst e)) (cy (fst e) + d), snd e)) (cells_of_row y x row).
Proof.
  induction row as [|c t IH]; intros y x; cbn [cells_of_row map]; [reflexivity|].
  destruct ((c =? 0) || is_whitespace c); [apply IH|]. cbn [map fst snd cx cy]. f_equal. apply IH.
Qed.

Theorem cells_of_rows_shift (k : nat) (d : Z) rows : forall y,
  cells_of_rows (y + d) (map (app (spaces k)) rows) =
  match cells_of_rows y rows with
  | Ok (cells, escs) => Ok (shift_cb_cells (Z.of_nat k) d cells, shift_cb_texts (Z.of_nat k) d escs)
  | Err e => Err e
  end.
Proof.
  induction rows as [|row more IH]; intros y; cbn [map cells_of_rows]; [reflexivity|].
  rewrite escape_line_y, escape_line_indent. destruct (escape_line y row) as [[esc un]|]; cbn [bind]; [|reflexivity].
  replace (y + d + 1) with (y + 1 + d) by lia. rewrite IH.
  destruct (cells_of_rows (y + 1) more) as [[cells escs]|]; cbn [bind]; [|reflexivity].
  unfold shift_cb_cells, shift_cb_texts. rewrite !map_app. f_equal. f_equal.
  - f_equal. rewrite cells_of_row_y, cells_of_row_spaces, (cells_of_row_x y un 0 (Z.of_nat k)). rewrite !map_map.
    apply map_ext. intros [c z]. reflexivity.
  - f_equal. rewrite !map_map. apply map_ext. intros [c z]. reflexivity.
Qed.

Lemma cells_of_rows_empty n rows : forall y, cells_of_rows y (repeatZ [] n ++ rows) = cells_of_rows (y + Z.of_nat n) rows.
Proof.
  induction n as [|n IH]; intros y; cbn [repeatZ app]; [f_equal; lia|].
  cbn [cells_of_rows]. change (escape_line y []) with (@Ok (list (cell * list Z) * list Z) ([], [])). cbn [bind cells_of_row app].
  rewrite IH. replace (y + 1 + Z.of_nat n) with (y + Z.of_nat (S n)) by lia.
  destruct (cells_of_rows (y + Z.of_nat (S n)) rows) as [[cells escs]|]; reflexivity.
Qed.

Theorem cellbuffer_of_text_shift k n s css :
  cellbuffer_of_text (shift_text k n s) css =
  match cellbuffer_of_text s css with
  | Ok cb => Ok (CellBuffer (shift_cb_cells (Z.of_nat k) (Z.of_nat n) (cb_cells cb)) css (shift_cb_texts (Z.of_nat k) (Z.of_nat n) (cb_escaped cb)))
  | Err e => Err e
  end.
Proof.
  unfold cellbuffer_of_text, string_buffer. rewrite lines_shift_text, map_app.
  assert (R0 : map row_of_line (repeatZ [] n) = repeatZ [] n) by (induction n as [|m IH]; cbn; [reflexivity|f_equal; exact IH]).
  rewrite R0, cells_of_rows_empty. rewrite map_map.
  assert (R1 : map (fun x => row_of_line (spaces k ++ x)) (lines s) = map (app (spaces k)) (map row_of_line (lines s))).
  { rewrite map_map. apply map_ext. intros l. rewrite row_of_line_app, row_of_spaces. reflexivity. }
  rewrite R1. rewrite (cells_of_rows_shift k (Z.of_nat n) _ 0).
  destruct (cells_of_rows 0 (map row_of_line (lines s))) as [[cells escs]|]; reflexivity.
Qed.
