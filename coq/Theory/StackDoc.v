(** * StackDoc: a drawing stacked on another, two or more blank lines apart, is drawn as the
    two drawings, the lower one moved (C10, from the text to the nodes of the document).
    Provenance gives the accepted fragments of each part (SepOrder, Juxta); the canvas theorem,
    applied to each part, places the fragments of the upper part above those of the lower part
    (Canvas); hence no fragment of one part fits in the bounds of a fragment of the other and the
    enclosure pass keeps them apart (TreeSep); moving commutes with everything (ShiftDoc). *)
Require Import SB.Model.Base SB.Model.Unicode SB.Model.Geom SB.Model.Fragment SB.Model.Merge SB.Model.Text
  SB.Model.Property SB.Model.FragBuf SB.Model.Endorse SB.Model.Tree SB.Model.Svg SB.Model.Lib
  SB.Theory.MergeTheory SB.Theory.EndorseTotal SB.Theory.Total
  SB.Theory.ShiftTheory SB.Theory.ShiftFrag SB.Theory.ShiftBuf SB.Theory.ShiftEndorse SB.Theory.ShiftText SB.Theory.ShiftDoc
  SB.Theory.SwitchTheory SB.Theory.ExtentTheory SB.Theory.SepTheory SB.Theory.PipeInv SB.Theory.SepOrder SB.Theory.TreeSep
  SB.Theory.Canvas SB.Theory.Juxta.
From Coq Require Import Permutation QArith String.
#[local] Open Scope Z_scope.

Lemma filter_map_commute {X Y} (f : X -> Y) (p : Y -> bool) (q : X -> bool) l :
  (forall x, In x l -> p (f x) = q x) -> filter p (map f l) = map f (filter q l).
Proof.
  induction l as [|x t IH]; intros H; cbn [map filter]; [reflexivity|].
  rewrite (H x (or_introl eq_refl)), IH by (intros y Hy; apply H; right; exact Hy). destruct (q x); reflexivity.
Qed.

Lemma zmax_list_app l1 : forall l2 d d1 d2, l1 <> [] -> l2 <> [] -> zmax_list d (l1 ++ l2) = Z.max (zmax_list d1 l1) (zmax_list d2 l2).
Proof.
  induction l1 as [|x t IH]; intros l2 d d1 d2 N1 N2; [congruence|]. cbn [app zmax_list].
  destruct t as [|y t'].
  - cbn [app zmax_list]. destruct l2 as [|z r]; [congruence|]. cbn [zmax_list]. lia.
  - rewrite (IH l2 x x d2); [lia|discriminate|exact N2].
Qed.
Lemma cells_max_app a b : a <> [] -> b <> [] ->
  cells_max (a ++ b) = C (Z.max (cx (cells_max a)) (cx (cells_max b))) (Z.max (cy (cells_max a)) (cy (cells_max b))).
Proof.
  destruct a as [|[c0 z0] ta]; [congruence|]. destruct b as [|[c1 z1] tb]; [congruence|]. intros _ _.
  change (((c0, z0) :: ta) ++ (c1, z1) :: tb) with ((c0, z0) :: (ta ++ (c1, z1) :: tb)). unfold cells_max at 1. cbn [cx cy].
  change ((c0, z0) :: ta ++ (c1, z1) :: tb) with (((c0, z0) :: ta) ++ ((c1, z1) :: tb)). rewrite !map_app.
  rewrite (zmax_list_app _ _ _ (cx c0 + char_cols z0 - 1) (cx c1 + char_cols z1 - 1)) by discriminate.
  rewrite (zmax_list_app _ _ _ (cy c0) (cy c1)) by discriminate. reflexivity.
Qed.

Definition escf (e : cell * list Z) : fragment := fs_frag (escaped_fragspan e).
Definition gnode (s : Q) (g : list fragment) : node := Elem (zs "g"%string) [] (map (fragment_node s) g).
Lemma escaped_shift_z kz nz e : escaped_fragspan (shift_cell kz nz (fst e), snd e) = shift_fs kz nz (escaped_fragspan e).
Proof.
  destruct e as [c t]. unfold escaped_fragspan, shift_fs; cbn [fst snd fs_span fs_frag shift_frag ctstart ctcontent]. f_equal.
  unfold shift_span. rewrite map_map. apply map_ext. intros [i ch]. unfold shift_cc, shift_cell; cbn [fst snd cx cy]. f_equal. f_equal. lia.
Qed.

Section Stack.
Variables (A B : list Z) (k g : nat) (css : list (list Z * list Z)) (cbA cbB cb : cellbuffer).
Hypothesis G2 : (2 <= g)%nat.
Hypothesis HA : cellbuffer_of_text (A ++ [10]) css = Ok cbA.
Hypothesis HB : cellbuffer_of_text B css = Ok cbB.
Hypothesis HAB : cellbuffer_of_text (stacked A B k g) css = Ok cb.

Let hA := height A.
Let kz := Z.of_nat k.
Let nz := hA + Z.of_nat g.
Let U := (hA + 1) * CH.
Let upper := fun c : cell => cy c <? hA.
Let lower := fun c : cell => negb (cy c <? hA).

(** a fragment is above the line [U] or at least a cell below it *)
Definition pU (f : fragment) : bool := py (snd (bounds f)) <=? U.
Definition placed (f : fragment) : Prop :=
  py (fst (bounds f)) <= py (snd (bounds f)) /\ (py (snd (bounds f)) <= U \/ U + CH <= py (fst (bounds f))).
Definition is_upper (f : fragment) : Prop := py (fst (bounds f)) <= py (snd (bounds f)) /\ py (snd (bounds f)) <= U.
Definition is_lower (f : fragment) : Prop := py (fst (bounds f)) <= py (snd (bounds f)) /\ U + CH <= py (fst (bounds f)).
Lemma upper_pU f : is_upper f -> pU f = true.
Proof. intros [_ H]. unfold pU. apply Z.leb_le. exact H. Qed.
Lemma lower_pU f : is_lower f -> pU f = false.
Proof. intros [H1 H2]. unfold pU. apply Z.leb_gt. unfold CH in *. lia. Qed.
Lemma nofit_placed f h : (is_upper f \/ is_lower f) -> (is_upper h \/ is_lower h) -> pU f <> pU h -> can_fit f h = false.
Proof.
  intros Ff Fh D. unfold can_fit. destruct (bounds f) as [tl br] eqn:Bf, (bounds h) as [otl obr] eqn:Bh.
  assert (Rf : tl = fst (bounds f) /\ br = snd (bounds f)) by (rewrite Bf; split; reflexivity).
  assert (Rh : otl = fst (bounds h) /\ obr = snd (bounds h)) by (rewrite Bh; split; reflexivity).
  destruct Rf as [-> ->], Rh as [-> ->].
  destruct Ff as [Uf|Lf], Fh as [Uh|Lh].
  - rewrite (upper_pU f Uf), (upper_pU h Uh) in D. congruence.
  - destruct Uf as [_ U1], Lh as [L1 L2]. apply andb_false_iff. right. apply Z.leb_gt. unfold CH in *. lia.
  - destruct Lf as [L1 L2], Uh as [U1 U2]. apply andb_false_iff. left. apply andb_false_iff. left. apply andb_false_iff. right. apply Z.leb_gt. unfold CH in *. lia.
  - rewrite (lower_pU f Lf), (lower_pU h Lh) in D. congruence.
Qed.

(** rows of the cells and of the quoted texts of the two parts *)
Lemma rows_A e : In e (cb_cells cbA) -> 0 <= cx (fst e) /\ 0 <= cy (fst e) < hA.
Proof.
  intros Ie. pose proof (cellbuffer_of_text_nonneg _ _ _ e HA Ie) as [N1 N2]. split; [exact N1|].
  unfold cellbuffer_of_text in HA. destruct (cells_of_rows 0 (string_buffer (A ++ [10]))) as [[c1 e1]|] eqn:E1; cbn [bind] in HA; [|discriminate].
  inversion HA; subst. cbn [cb_cells] in Ie. pose proof (cells_of_rows_range _ 0 c1 e1 e E1 Ie) as R. unfold string_buffer in R. rewrite map_length in R. unfold hA, height. lia.
Qed.
Lemma rows_escA e : In e (cb_escaped cbA) -> 0 <= cy (fst e) < hA.
Proof.
  intros Ie. unfold cellbuffer_of_text in HA. destruct (cells_of_rows 0 (string_buffer (A ++ [10]))) as [[c1 e1]|] eqn:E1; cbn [bind] in HA; [|discriminate].
  inversion HA; subst. cbn [cb_escaped] in Ie. pose proof (cells_of_rows_esc_range _ 0 c1 e1 e E1 Ie) as R. unfold string_buffer in R. rewrite map_length in R. unfold hA, height. lia.
Qed.
Lemma rows_escB e : In e (cb_escaped cbB) -> 0 <= cy (fst e).
Proof.
  intros Ie. unfold cellbuffer_of_text in HB. destruct (cells_of_rows 0 (string_buffer B)) as [[c1 e1]|] eqn:E1; cbn [bind] in HB; [|discriminate].
  inversion HB; subst. cbn [cb_escaped] in Ie. pose proof (cells_of_rows_esc_range _ 0 c1 e1 e E1 Ie) as R. lia.
Qed.

(** what is accepted for the upper part lies above [U] *)
Lemma accepted_A_upper acc groups : endorse_cells (cb_cells cbA) = Ok (acc, groups) ->
  Forall (fun f => is_upper (fs_frag f)) acc /\ Forall (Forall (fun f => is_upper (fs_frag f))) groups.
Proof.
  intros E.
  assert (CI := cells_in_max (cb_cells cbA) (fun e Ie => cellbuffer_of_text_nonneg _ _ _ e HA Ie)).
  destruct (endorse_cells_in_canvas (cb_cells cbA) _ _ CI acc groups E) as [Fa Fg].
  assert (K : forall f, Rc (cb_cells cbA) (cx (cells_max (cb_cells cbA))) (cy (cells_max (cb_cells cbA))) f -> is_upper (fs_frag f)).
  { intros f [[Nf If] [Gd W]]. destruct (bounds_ordered _ Gd) as [_ O2]. split; [exact O2|].
    assert (NE : cb_cells cbA <> []).
    { destruct (fs_span f) as [|e0 t] eqn:Es; [congruence|]. intros E0. specialize (If e0 (or_introl eq_refl)). rewrite E0 in If. destruct If. }
    pose proof (cells_max_row_lt (cb_cells cbA) hA NE (fun e Ie => proj2 (proj2 (rows_A e Ie)))) as YA.
    apply within_bbox in W. unfold bbox in W. destruct (bounds (fs_frag f)) as [lo hi]. unfold canvas, box_in in W. cbn [fst snd].
    unfold U, CH in *. lia. }
  split; [eapply Forall_impl; [exact K|exact Fa]|]. eapply Forall_impl; [|exact Fg]. intros c Fc. eapply Forall_impl; [exact K|exact Fc].
Qed.
(** what is accepted for the lower part, moved, lies a cell or more below [U] *)
Lemma accepted_B_lower acc groups : endorse_cells (cb_cells cbB) = Ok (acc, groups) ->
  Forall (fun f => is_lower (fs_frag (shift_fs kz nz f))) acc /\ Forall (Forall (fun f => is_lower (fs_frag (shift_fs kz nz f)))) groups.
Proof.
  intros E.
  assert (CI := cells_in_max (cb_cells cbB) (fun e Ie => cellbuffer_of_text_nonneg _ _ _ e HB Ie)).
  destruct (endorse_cells_in_canvas (cb_cells cbB) _ _ CI acc groups E) as [Fa Fg].
  assert (K : forall f, Rc (cb_cells cbB) (cx (cells_max (cb_cells cbB))) (cy (cells_max (cb_cells cbB))) f -> is_lower (fs_frag (shift_fs kz nz f))).
  { intros f [_ [Gd W]]. destruct (bounds_ordered _ Gd) as [_ O2]. destruct Gd as [Wf _].
    unfold is_lower, shift_fs; cbn [fs_frag]. rewrite (bounds_shift kz nz _ Wf). cbn [fst snd]. unfold shift_point; cbn [py].
    apply within_bbox in W. unfold bbox in W. destruct (bounds (fs_frag f)) as [lo hi]. unfold canvas, box_in in W. cbn [fst snd] in *.
    unfold U, nz, CH in *. split; lia. }
  split; [eapply Forall_impl; [exact K|exact Fa]|]. eapply Forall_impl; [|exact Fg]. intros c Fc. eapply Forall_impl; [exact K|exact Fc].
Qed.
(** the quoted texts *)
Lemma escaped_bounds e : bounds (fs_frag (escaped_fragspan e)) =
  (top_left_most (fst e), bottom_right_most (C (cx (fst e) + Z.max (text_columns (snd e) - 1) 0) (cy (fst e)))).
Proof. destruct e as [c s]. reflexivity. Qed.
Lemma escaped_A_upper e : In e (cb_escaped cbA) -> is_upper (fs_frag (escaped_fragspan e)).
Proof.
  intros Ie. pose proof (rows_escA e Ie) as R. unfold is_upper. rewrite escaped_bounds. cbn [fst snd]. unfold top_left_most, bottom_right_most; cbn [py cy].
  unfold U, CH. lia.
Qed.
Lemma escaped_B_lower e : In e (cb_escaped cbB) -> is_lower (fs_frag (escaped_fragspan (shift_cell kz nz (fst e), snd e))).
Proof.
  intros Ie. pose proof (rows_escB e Ie) as R. unfold is_lower. rewrite escaped_bounds. cbn [fst snd]. unfold top_left_most, bottom_right_most, shift_cell; cbn [py cy].
  unfold U, nz, CH. lia.
Qed.

Lemma escaped_shift e : escaped_fragspan (shift_cell kz nz (fst e), snd e) = shift_fs kz nz (escaped_fragspan e).
Proof.
  destruct e as [c t]. unfold escaped_fragspan, shift_fs; cbn [fst snd fs_span fs_frag shift_frag ctstart ctcontent]. f_equal.
  unfold shift_span. rewrite map_map. apply map_ext. intros [i ch]. unfold shift_cc, shift_cell; cbn [fst snd cx cy]. f_equal. f_equal. lia.
Qed.

(** C10 for a stack, from the text to the nodes of the document *)
Theorem stacked_drawing (s : Q) :
  let dx := (inject_Z kz * s)%Q in
  let dy := (inject_Z nz * s * 2)%Q in
  exists fA gA fB gB fAB gAB nA nB nAB,
    fragments_of cbA = Ok (fA, gA) /\ fragments_of cbB = Ok (fB, gB) /\ fragments_of cb = Ok (fAB, gAB)
    /\ drawing_nodes s fA gA = Ok nA /\ drawing_nodes s fB gB = Ok nB /\ drawing_nodes s fAB gAB = Ok nAB
    /\ Permutation nAB (nA ++ map (tr_node dx dy) nB).
Proof.
  intros dx dy.
  assert (G1 : (1 <= g)%nat) by lia.
  destruct (endorse_cells_ok (cb_cells cb)) as [[acc groups] E].
  destruct (endorse_cells_ok (cb_cells cbA)) as [[accA grpA] EA].
  destruct (endorse_cells_ok (cb_cells cbB)) as [[accB grpB] EB].
  destruct (stack_cells A B k g css cbA cbB cb G1 HA HB HAB) as [FA [FB [Sep Escs]]]. fold hA upper in FA, FB, Sep. fold hA kz nz in Escs.
  destruct (stack_recognised_apart A B k g css cbA cbB cb acc groups G1 HA HB HAB E) as [SA SB]. fold hA upper lower kz nz in SA, SB.
  rewrite EA in SA. rewrite EB in SB. cbn [map_res shift_ec fst snd] in SB. inversion SA as [[SA1 SA2]]. inversion SB as [[SB1 SB2]]. clear SA SB.
  (* groups, as a multiset *)
  destruct (endorse_cells_separated upper (cb_cells cb) acc groups Sep E) as [a1 [g1 [a2 [g2 [S1 [S2 [_ PG]]]]]]].
  assert (S1' : endorse_cells (cb_cells cbA) = Ok (a1, g1)) by (rewrite <- FA; exact S1).
  rewrite EA in S1'. inversion S1'; subst a1 g1; clear S1 S1'.
  assert (S2' : endorse_cells (map (shift_cc kz nz) (cb_cells cbB)) = Ok (a2, g2)).
  { change (map (shift_cc kz nz) (cb_cells cbB)) with (map (shift_cc (Z.of_nat k) (hA + Z.of_nat g)) (cb_cells cbB)). rewrite <- FB. exact S2. }
  rewrite (endorse_cells_shift kz nz (cb_cells cbB)), EB in S2'. cbn [map_res shift_ec fst snd] in S2'. inversion S2'; subst a2 g2; clear S2 S2'.
  (* where the accepted fragments are *)
  destruct (accepted_A_upper accA grpA EA) as [UA _]. destruct (accepted_B_lower accB grpB EB) as [LB _].
  assert (CI := cells_in_max (cb_cells cb) (fun e Ie => cellbuffer_of_text_nonneg _ _ _ e HAB Ie)).
  destruct (endorse_cells_in_canvas (cb_cells cb) _ _ CI acc groups E) as [RAcc _].
  assert (Cls : forall x, In x acc -> (fsside upper x = true /\ is_upper (fs_frag x)) \/ (fsside upper x = false /\ is_lower (fs_frag x))).
  { intros x Ix. rewrite Forall_forall in RAcc. destruct (RAcc x Ix) as [[Nx _] _].
    destruct (fsside upper x) eqn:Sx.
    - left. split; [reflexivity|]. assert (In x accA) by (rewrite SA1; apply filter_In; split; assumption).
      rewrite Forall_forall in UA. apply UA. assumption.
    - right. split; [reflexivity|]. assert (Il : In x (map (shift_fs kz nz) accB)).
      { rewrite SB1. apply filter_In. split; [exact Ix|]. unfold fsside in *.
        transitivity (negb (side upper (fs_span x))); [exact (side_flip upper (fs_span x) Nx)|rewrite Sx; reflexivity]. }
      apply in_map_iff in Il. destruct Il as [x0 [<- I0]]. rewrite Forall_forall in LB. apply LB. exact I0. }
  (* the three fragment lists *)
  set (fA := map fs_frag accA ++ map escf (cb_escaped cbA)).
  set (fB := map fs_frag accB ++ map escf (cb_escaped cbB)).
  set (fAB := map fs_frag acc ++ map escf (cb_escaped cb)).
  assert (FrA : fragments_of cbA = Ok (fA, map (map fs_frag) grpA)) by (unfold fragments_of; rewrite EA; reflexivity).
  assert (FrB : fragments_of cbB = Ok (fB, map (map fs_frag) grpB)) by (unfold fragments_of; rewrite EB; reflexivity).
  assert (FrAB : fragments_of cb = Ok (fAB, map (map fs_frag) groups)) by (unfold fragments_of; rewrite E; reflexivity).
  assert (EscShift : map escf (shift_cb_texts kz nz (cb_escaped cbB)) = map (shift_frag kz nz) (map escf (cb_escaped cbB))).
  { unfold shift_cb_texts, escf. rewrite !map_map. apply map_ext. intros e. rewrite escaped_shift. reflexivity. }
  assert (Up : filter pU fAB = fA).
  { unfold fAB, fA. rewrite filter_app, Escs, map_app, filter_app. f_equal.
    - rewrite (filter_map_commute fs_frag pU (fsside upper) acc), <- SA1; [reflexivity|].
      intros x Ix. destruct (Cls x Ix) as [[-> Hu]|[-> Hl]]; [apply upper_pU; exact Hu|apply lower_pU; exact Hl].
    - rewrite (filter_all pU true), (filter_all pU false); [apply app_nil_r| |].
      + apply Forall_forall. intros f Hf. apply in_map_iff in Hf. destruct Hf as [e [<- Ie]]. unfold shift_cb_texts in Ie. apply in_map_iff in Ie. destruct Ie as [e0 [<- I0]].
        apply lower_pU. apply (escaped_B_lower e0 I0).
      + apply Forall_forall. intros f Hf. apply in_map_iff in Hf. destruct Hf as [e [<- Ie]]. apply upper_pU. apply escaped_A_upper. exact Ie. }
  assert (Lo : filter (fun f => negb (pU f)) fAB = map (shift_frag kz nz) fB).
  { unfold fAB, fB. rewrite filter_app, Escs, map_app, filter_app, map_app. f_equal.
    - rewrite (filter_map_commute fs_frag (fun f => negb (pU f)) (fsside lower) acc).
      + rewrite <- SB1, !map_map. reflexivity.
      + intros x Ix. rewrite Forall_forall in RAcc. destruct (RAcc x Ix) as [[Nx _] _].
        transitivity (negb (fsside upper x)); [|symmetry; exact (side_flip upper (fs_span x) Nx)].
        destruct (Cls x Ix) as [[-> Hu]|[-> Hl]]; [rewrite (upper_pU _ Hu)|rewrite (lower_pU _ Hl)]; reflexivity.
    - rewrite (filter_all (fun f => negb (pU f)) false), (filter_all (fun f => negb (pU f)) true); [rewrite EscShift; reflexivity| |].
      + apply Forall_forall. intros f Hf. apply in_map_iff in Hf. destruct Hf as [e [<- Ie]]. unfold shift_cb_texts in Ie. apply in_map_iff in Ie. destruct Ie as [e0 [<- I0]].
        unfold escf. rewrite (lower_pU _ (escaped_B_lower e0 I0)). reflexivity.
      + apply Forall_forall. intros f Hf. apply in_map_iff in Hf. destruct Hf as [e [<- Ie]]. unfold escf. rewrite (upper_pU _ (escaped_A_upper e Ie)). reflexivity. }
  assert (Placed : forall f, In f fAB -> is_upper f \/ is_lower f).
  { intros f Hf. unfold fAB in Hf. apply in_app_or in Hf. destruct Hf as [Hf|Hf].
    - apply in_map_iff in Hf. destruct Hf as [x [<- Ix]]. destruct (Cls x Ix) as [[_ H]|[_ H]]; auto.
    - rewrite Escs, map_app in Hf. apply in_app_or in Hf. destruct Hf as [Hf|Hf]; apply in_map_iff in Hf; destruct Hf as [e [<- Ie]].
      + left. apply escaped_A_upper. exact Ie.
      + right. unfold shift_cb_texts in Ie. apply in_map_iff in Ie. destruct Ie as [e0 [<- I0]]. apply (escaped_B_lower e0 I0). }
  (* the enclosure pass keeps the parts apart *)
  destruct (fragment_nodes_ok s fAB) as [nsAB NAB].
  destruct (fragment_nodes_separated pU s fAB nsAB (fun f h If Ih D => nofit_placed f h (Placed f If) (Placed h Ih) D) NAB) as [na [nb [Na [Nb Pn]]]].
  rewrite Up in Na. rewrite Lo in Nb.
  assert (WfB : Forall wf_frag fB).
  { unfold fB. apply Forall_app; split; apply Forall_forall; intros x Hx; apply in_map_iff in Hx; destruct Hx as [y [<- Hy]].
    - destruct (endorse_cells_wf _ _ _ EB) as [W _]. rewrite Forall_forall in W. apply W; exact Hy.
    - destruct y; exact I. }
  rewrite (fragment_nodes_shift kz nz s fB WfB) in Nb. destruct (fragment_nodes s fB) as [nb0|] eqn:NB0; [|discriminate]. inversion Nb; subst nb; clear Nb.
  fold dx dy in Pn.
  (* the groups *)
  assert (GrShift : map (gnode s) (map (map fs_frag) (map (shift_contacts kz nz) grpB)) = map (tr_node dx dy) (map (gnode s) (map (map fs_frag) grpB))).
  { rewrite !map_map. apply map_ext. intros c. unfold gnode, shift_contacts. cbn [tr_node map]. f_equal. rewrite !map_map. apply map_ext. intros x.
    unfold shift_fs; cbn [fs_frag]. apply fragment_node_shift. }
  exists fA, (map (map fs_frag) grpA), fB, (map (map fs_frag) grpB), fAB, (map (map fs_frag) groups).
  exists (na ++ map (gnode s) (map (map fs_frag) grpA)), (nb0 ++ map (gnode s) (map (map fs_frag) grpB)), (nsAB ++ map (gnode s) (map (map fs_frag) groups)).
  repeat split; try assumption.
  - unfold drawing_nodes. rewrite Na. reflexivity.
  - unfold drawing_nodes. rewrite NB0. reflexivity.
  - unfold drawing_nodes. rewrite NAB. reflexivity.
  - rewrite map_app, <- GrShift.
    assert (PGn : Permutation (map (gnode s) (map (map fs_frag) groups))
                    (map (gnode s) (map (map fs_frag) grpA) ++ map (gnode s) (map (map fs_frag) (map (shift_contacts kz nz) grpB)))).
    { rewrite <- !map_app. apply Permutation_map, Permutation_map. exact PG. }
    eapply Permutation_trans; [apply Permutation_app; [exact Pn|exact PGn]|].
    rewrite <- !app_assoc. apply Permutation_app_head. rewrite !app_assoc. apply Permutation_app_tail. apply Permutation_app_comm.
Qed.

(** the canvas of the stack covers both parts: it is as wide as the wider of the two (the lower
    one moved) and as high as the lower one moved *)
Theorem stacked_canvas : (1 <= g)%nat -> cb_cells cbA <> [] -> cb_cells cbB <> [] ->
  cells_max (cb_cells cb)
  = C (Z.max (cx (cells_max (cb_cells cbA))) (cx (cells_max (cb_cells cbB)) + kz)) (cy (cells_max (cb_cells cbB)) + nz).
Proof.
  intros G1 NA NB.
  destruct (cells_of_stack A B k g css cbA cbB HA HB) as [cb' [H' [Cells _]]]. rewrite H' in HAB. inversion HAB; subst cb'; clear HAB.
  fold hA kz nz in Cells. rewrite Cells.
  rewrite cells_max_app; [|exact NA|destruct (cb_cells cbB); [congruence|discriminate]].
  assert (SH : cells_max (map (shift_cc kz nz) (cb_cells cbB)) = shift_cell kz nz (cells_max (cb_cells cbB))).
  { pose proof (cells_max_shift k (List.length (lines (A ++ [10])) + g) (cb_cells cbB) NB) as S0.
    rewrite Nat2Z.inj_add in S0. exact S0. }
  rewrite SH. unfold shift_cell; cbn [cx cy]. f_equal.
  assert (cy (cells_max (cb_cells cbA)) < hA).
  { apply cells_max_row_lt; [exact NA|]. intros e Ie. apply (rows_A e Ie). }
  assert (0 <= cy (cells_max (cb_cells cbB))).
  { destruct (cb_cells cbB) as [|[c1 z1] tb] eqn:EB; [congruence|]. destruct (cells_max_bounds ((c1, z1) :: tb) (c1, z1) (or_introl eq_refl)) as [_ [_ M]].
    assert (In (c1, z1) (cb_cells cbB)) by (rewrite EB; left; reflexivity).
    pose proof (cellbuffer_of_text_nonneg _ _ _ _ HB H0) as [_ N]. cbn [fst] in *. lia. }
  unfold nz. lia.
Qed.
End Stack.
