(** * CornerTheory: the quarter arcs of the tables join their lines smoothly (C14, rounded
    corners; T1 sweep, re-run whenever the tables are regenerated).
    A right-angle arc (|dx| = |dy| = r) has its centre at the corner of its chord's box on the
    side the sweep flag selects.  For every such arc of the behaviour table: the centre is at
    distance r from both ends, and at each end the arc is continued by a line that is tangent
    to it (perpendicular to the radius there): either a line of the same behaviour ending at
    that point, or the neighbour's line which the firing condition requires to pass through
    that point of the cell boundary.  For the box-drawing corners (no condition) the outer end
    is the mid-point of a cell edge with the tangent along the axis through it. *)
Require Import SB.Model.Base SB.Model.Unicode SB.Model.Geom SB.Model.Fragment SB.Model.Property SB.Model.FragBuf
  SB.Gen.AsciiMap SB.Gen.UnicodeMap.

Fixpoint conjuncts (c : cond) : list cond :=
  match c with CAnd a b => conjuncts a ++ conjuncts b | _ => [c] end.
Lemma conjuncts_hold env c : eval env c = true -> forall k, In k (conjuncts c) -> eval env k = true.
Proof.
  induction c as [|d ch|d lvl a b|d a b|c IH|c1 IH1 c2 IH2|c1 IH1 c2 IH2]; cbn [conjuncts]; intros E k Hk;
    try (destruct Hk as [<-|[]]; exact E).
  cbn [eval] in E. apply andb_true_iff in E. destruct E as [E1 E2]. apply in_app_or in Hk. destruct Hk; auto.
Qed.

Definition on_seg (a b p : point) : bool :=
  (cross a b p =? 0) && (Z.min (px a) (px b) <=? px p) && (px p <=? Z.max (px a) (px b)) && (Z.min (py a) (py b) <=? py p) && (py p <=? Z.max (py a) (py b)).
(** a point of this cell in the coordinates of the neighbour in direction [d] *)
Definition to_nb (d : dir8) (p : point) : point := P (px p - cx (dir8_offset d) * CW) (py p - cy (dir8_offset d) * CH).
Definition ra_centre (a : arc) : point :=
  let s := astart a in let e := aend a in
  let c1 := P (px s) (py e) in let c2 := P (px e) (py s) in
  let cr := fun c => (px e - px s) * (py c - py s) - (py e - py s) * (px c - px s) in
  if asweep a then (if 0 <? cr c1 then c1 else c2) else (if cr c1 <? 0 then c1 else c2).
Definition dot (u v : point) : Z := px u * px v + py u * py v.
Definition tangent_sibling (fs : list fragment) (c p : point) : bool :=
  existsb (fun f => match f with
                    | FLine l => (point_eqb p (lstart l) && (dot (psub (lend l) p) (psub p c) =? 0) && negb (point_eqb (lend l) p))
                                 || (point_eqb p (lend l) && (dot (psub (lstart l) p) (psub p c) =? 0) && negb (point_eqb (lstart l) p))
                    | _ => false end) fs.
Definition tangent_cond (cd : cond) (c p : point) : bool :=
  existsb (fun k => match k with
                    | COverlap d _ a b => on_seg a b (to_nb d p) && (dot (psub b a) (psub p c) =? 0) && negb (point_eqb a b)
                    | _ => false end) (conjuncts cd).
Definition tangent_edge (c p : point) : bool :=
  (((px p =? 0) || (px p =? CW)) && (py p =? CH / 2) && (px p =? px c))
  || (((py p =? 0) || (py p =? CH)) && (px p =? CW / 2) && (py p =? py c)).
Definition corner_ok (unconditional : bool) (cd : cond) (fs : list fragment) (f : fragment) : bool :=
  match f with
  | FArc a =>
      if arc_is_right_angle a then
        let c := ra_centre a in
        (dist_sq c (astart a) =? aradius a * aradius a) && (dist_sq c (aend a) =? aradius a * aradius a)
        && (tangent_sibling fs c (astart a) || tangent_cond cd c (astart a) || (unconditional && tangent_edge c (astart a)))
        && (tangent_sibling fs c (aend a) || tangent_cond cd c (aend a) || (unconditional && tangent_edge c (aend a)))
      else true
  | _ => true
  end.
Definition corners_ok : bool :=
  forallb (fun p => forallb (fun cf => forallb (corner_ok false (fst cf) (snd cf)) (snd cf)) (pbeh p)) ascii_properties
  && forallb (fun e => forallb (corner_ok true CTrue (snd e)) (snd e)) unicode_fragments.
Lemma corners_sweep : corners_ok = true.
Proof. vm_compute. reflexivity. Qed.

Definition right_angle_arcs_of_tables : nat :=
  length (flat_map (fun p => flat_map (fun cf => filter (fun f => match f with FArc a => arc_is_right_angle a | _ => false end) (snd cf)) (pbeh p)) ascii_properties)
  + length (flat_map (fun e => filter (fun f => match f with FArc a => arc_is_right_angle a | _ => false end) (snd e)) unicode_fragments).

(** entry by entry, and what the condition part means when the behaviour fires *)
Theorem ascii_corner p cd fs a : In p ascii_properties -> In (cd, fs) (pbeh p) -> In (FArc a) fs -> arc_is_right_angle a = true ->
  corner_ok false cd fs (FArc a) = true.
Proof.
  intros Hp Hc Hf _. pose proof corners_sweep as T. unfold corners_ok in T. apply andb_true_iff in T. destruct T as [T _].
  rewrite forallb_forall in T. specialize (T p Hp). rewrite forallb_forall in T. specialize (T (cd, fs) Hc). cbn [fst snd] in T.
  rewrite forallb_forall in T. auto.
Qed.
(** a condition that anchors an end really puts a neighbour's line through it when it holds *)
Theorem tangent_cond_fires env cd c p : tangent_cond cd c p = true -> eval env cd = true ->
  exists d lvl a b, prop_line_overlap (env d) lvl a b = true /\ on_seg a b (to_nb d p) = true /\ dot (psub b a) (psub p c) = 0 /\ a <> b.
Proof.
  intros T E. unfold tangent_cond in T. apply existsb_exists in T. destruct T as [k [Hk T]].
  pose proof (conjuncts_hold env cd E k Hk) as Ek. destruct k; try discriminate.
  rewrite !andb_true_iff in T. destruct T as [[T1 T2] T3]. exists d, lvl, a, b. cbn [eval] in Ek. repeat split; auto.
  - apply Z.eqb_eq. exact T2.
  - intros ->. unfold point_eqb in T3. rewrite !Z.eqb_refl in T3. discriminate.
Qed.
