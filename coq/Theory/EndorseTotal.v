(** * EndorseTotal: from the cell map to the accepted fragments nothing can fail (C01, second
    part): every merge loop has enough fuel (M1), [Span::bounds] is only taken of non-empty
    spans (M2), [is_rect] / [is_rounded_rect] only unwrap what their selectors selected. *)
Require Import SB.Model.Base SB.Model.Unicode SB.Model.Geom SB.Model.Fragment SB.Model.Merge
  SB.Model.Property SB.Model.FragBuf SB.Model.Endorse SB.Theory.MergeTheory SB.Gen.CircleTables.
From Coq Require Import Arith.

Ltac merge_ok m l r H :=
  let U := fresh "U" in destruct (merge_recursive_ok m l) as [r [H U]].

Lemma mapM_ok {A B} (f : A -> res B) (P : A -> Prop) l :
  (forall x, P x -> exists y, f x = Ok y) -> Forall P l -> exists ys, mapM f l = Ok ys.
Proof.
  intros Hf. induction 1 as [|x t Px Ft IH]; cbn; [eauto|].
  destruct (Hf x Px) as [y ->]. destruct IH as [ys ->]. cbn. eauto.
Qed.
Lemma mapM_Forall2 {A B} (f : A -> res B) l : forall ys, mapM f l = Ok ys -> Forall2 (fun x y => f x = Ok y) l ys.
Proof.
  induction l as [|x t IH]; cbn; intros ys H.
  - inversion H; constructor.
  - destruct (f x) eqn:E; cbn in H; [|discriminate]. destruct (mapM f t) eqn:E2; cbn in H; [|discriminate].
    inversion H; subst. constructor; auto.
Qed.

(** ** the fragment buffer and the contact groups *)
Lemma add_entry_ok pb fb e : exists fb', add_entry pb (Ok fb) e = Ok fb'.
Proof.
  unfold add_entry; cbn [bind]. destruct e as [c p].
  destruct (property_fragments p (pb_env pb c)) as [|f0 fs0]; [|eauto].
  destruct (unicode_fragments_of (pch p)) as [ufs|]; [|eauto].
  merge_ok fragment_merge ufs r H. rewrite H; cbn. eauto.
Qed.
Lemma fragbuf_of_entries_ok pb order : forall fb, exists fb', fold_left (add_entry pb) order (Ok fb) = Ok fb'.
Proof.
  induction order as [|e t IH]; cbn [fold_left]; intros fb; [eauto|].
  destruct (add_entry_ok pb fb e) as [fb1 ->]. apply IH.
Qed.
Lemma fragbuf_of_span_ok s : exists fb, fragbuf_of_span s = Ok fb.
Proof.
  unfold fragbuf_of_span, fragbuf_of_entries. cbv zeta.
  destruct (fragbuf_of_entries_ok (propbuf_of_span s) (pb_entries (propbuf_of_span s)) []) as [fb ->]. cbn [bind]. eauto.
Qed.
Lemma contacts_of_span_ok s : exists cs, contacts_of_span s = Ok cs.
Proof.
  unfold contacts_of_span. destruct (fragbuf_of_span_ok s) as [fb ->]. cbn.
  unfold merge_fragment_spans. merge_ok fragspan_merge (abs_fragment_spans fb) m H. rewrite H; cbn.
  merge_ok contacts_merge (map (fun f => [f]) m) cs H2. rewrite H2. eauto.
Qed.

(** ** every fragment span carries a non-empty cell span; every contact group is non-empty *)
Definition fs_nonempty (f : fragspan) : Prop := fs_span f <> [].
Definition contacts_good (c : contacts) : Prop := c <> [] /\ Forall fs_nonempty c.

Lemma fb_update_inv (I : list fragspan -> Prop) c f fb :
  Forall (fun e => I (snd e)) fb -> (forall o, (forall v, o = Some v -> I v) -> I (f o)) ->
  Forall (fun e => I (snd e)) (fb_update c f fb).
Proof.
  intros F Hf. induction F as [|[k v] t Hv Ft IH]; cbn.
  - constructor; [|constructor]. apply Hf. intros; discriminate.
  - destruct (cell_cmp c k).
    + constructor; auto. cbn. apply Hf. intros v0 E; inversion E; subst; exact Hv.
    + constructor; [|constructor; auto]. apply Hf. intros; discriminate.
    + constructor; auto.
Qed.

Lemma ins_perm {A} (less : A -> A -> bool) x l : forall y, In y (fst (ins less x l)) -> y = x \/ In y l.
Proof.
  induction l as [|e t IH]; cbn; intros y H.
  - destruct H as [->|[]]; auto.
  - destruct (ins less x t) as [t' fl] eqn:E. cbn in IH.
    destruct fl.
    + destruct (less x e); cbn in H.
      * destruct H as [->|[->|H]]; auto. destruct t' as [|z t'']; cbn in H; [destruct H|].
        destruct (IH y (or_intror H)) as [->|Hy]; auto.
      * destruct H as [->|H]; auto. destruct (IH y H) as [->|Hy]; auto.
    + cbn in H. destruct H as [->|H]; auto. destruct (IH y H) as [->|Hy]; auto.
Qed.
Lemma isort_in {A} (less : A -> A -> bool) l : forall y, In y (isort less l) -> In y l.
Proof.
  unfold isort. assert (G : forall acc y, In y (fold_left (fun acc x => fst (ins less x acc)) l acc) -> In y acc \/ In y l).
  { induction l as [|x t IH]; cbn; intros acc y H; auto.
    destruct (IH _ _ H) as [H1|H1]; auto. destruct (ins_perm less x acc y H1) as [->|H2]; auto. }
  intros y H. destruct (G [] y H) as [[]|H1]; auto.
Qed.
Lemma sort_cell_Forall (P : fragspan -> Prop) v : Forall P v -> Forall P (sort_cell v).
Proof.
  rewrite !Forall_forall. intros F y H. apply F. eapply isort_in; eauto.
Qed.

Definition fb_good (fb : fragbuf) : Prop := Forall (fun e => Forall fs_nonempty (snd e)) fb.

Lemma add_fragments_good c ch fs fb : fb_good fb -> fb_good (add_fragments_to_cell c ch fs fb).
Proof.
  intros G. unfold add_fragments_to_cell. apply fb_update_inv; auto.
  intros o Ho. apply sort_cell_Forall.
  assert (N : Forall fs_nonempty (map (fun f => FS [(c, ch)] f) fs)).
  { apply Forall_forall. intros x Hx. apply in_map_iff in Hx. destruct Hx as [f [<- _]]. unfold fs_nonempty; cbn; discriminate. }
  destruct o as [ex|]; auto. apply Forall_app; split; auto.
Qed.
Lemma add_fragment_good c ch f fb : fb_good fb -> fb_good (add_fragment_to_cell c ch f fb).
Proof.
  intros G. unfold add_fragment_to_cell. apply fb_update_inv; auto.
  intros o Ho. apply sort_cell_Forall.
  assert (N : fs_nonempty (FS [(c, ch)] f)) by (unfold fs_nonempty; cbn; discriminate).
  destruct o as [ex|]; [|constructor; auto].
  destruct (mem fragspan_eqb (FS [(c, ch)] f) ex); auto. apply Forall_app; split; auto.
Qed.
Lemma add_entry_good pb fb e fb' : fb_good fb -> add_entry pb (Ok fb) e = Ok fb' -> fb_good fb'.
Proof.
  unfold add_entry; cbn [bind]. destruct e as [c p]. intros G.
  destruct (property_fragments p (pb_env pb c)) as [|f0 fs0].
  - destruct (unicode_fragments_of (pch p)) as [ufs|].
    + destruct (merge_recursive fragment_merge ufs); cbn; intros H; inversion H; subst. apply add_fragments_good; auto.
    + intros H; inversion H; subst. apply add_fragment_good; auto.
  - intros H; inversion H; subst. apply add_fragments_good; auto.
Qed.
Lemma fragbuf_of_entries_good pb order : forall fb fb', fb_good fb ->
  fold_left (add_entry pb) order (Ok fb) = Ok fb' -> fb_good fb'.
Proof.
  induction order as [|e t IH]; cbn [fold_left]; intros fb fb' G H.
  - inversion H; subst; auto.
  - destruct (add_entry_ok pb fb e) as [fb1 E]. rewrite E in H. eapply IH; [|exact H]. eapply add_entry_good; eauto.
Qed.
Lemma fragbuf_of_span_good s fb : fragbuf_of_span s = Ok fb -> fb_good fb.
Proof.
  unfold fragbuf_of_span, fragbuf_of_entries. cbv zeta.
  set (pb := propbuf_of_span s). clearbody pb.
  destruct (fragbuf_of_entries_ok pb (pb_entries pb) []) as [fb0 E]. rewrite E. cbn [bind].
  intros H; inversion H; subst; clear H.
  assert (G0 : fb_good fb0) by (eapply fragbuf_of_entries_good; [|exact E]; constructor).
  clear E. revert fb0 G0. induction s as [|e t IH]; cbn [fold_left]; intros fb0 G0; auto.
  apply IH. destruct (pb_get pb (fst e)); auto.
  destruct (unicode_fragments_of (snd e)); [apply add_fragments_good|apply add_fragment_good]; auto.
Qed.

Lemma abs_fragment_spans_good fb : fb_good fb -> Forall fs_nonempty (abs_fragment_spans fb).
Proof.
  unfold abs_fragment_spans. induction 1 as [|[c v] t Hv Ft IH]; cbn; [constructor|].
  apply Forall_app; split; auto. cbn in Hv. apply Forall_forall. intros x Hx.
  apply in_map_iff in Hx. destruct Hx as [f [<- Hf]]. rewrite Forall_forall in Hv. apply Hv in Hf. exact Hf.
Qed.
Lemma fragspan_merge_nonempty a b c : fragspan_merge a b = Some c -> fs_nonempty a -> fs_nonempty b -> fs_nonempty c.
Proof.
  unfold fragspan_merge, fs_nonempty. destruct (fragment_merge (fs_frag a) (fs_frag b)); intros H Ha Hb; inversion H; subst; cbn.
  destruct (fs_span a); [congruence|discriminate].
Qed.
Lemma contacts_merge_good a b c : contacts_merge a b = Some c -> contacts_good a -> contacts_good b -> contacts_good c.
Proof.
  unfold contacts_merge, contacts_good. destruct (contacts_is_contacting a b); intros H [Ha Fa] [Hb Fb]; inversion H; subst.
  split; [destruct a; [congruence|discriminate]|apply Forall_app; auto].
Qed.
Lemma contacts_of_span_good s cs : contacts_of_span s = Ok cs -> Forall contacts_good cs.
Proof.
  unfold contacts_of_span. destruct (fragbuf_of_span s) as [fb|] eqn:E; cbn; [|discriminate].
  unfold merge_fragment_spans. destruct (merge_recursive fragspan_merge (abs_fragment_spans fb)) as [m|] eqn:E2; cbn; [|discriminate].
  intros H. eapply (merge_recursive_inv contacts_merge contacts_good contacts_merge_good); [exact H|].
  assert (Fm : Forall fs_nonempty m).
  { eapply (merge_recursive_inv fragspan_merge fs_nonempty fragspan_merge_nonempty); [exact E2|].
    apply abs_fragment_spans_good. eapply fragbuf_of_span_good; eauto. }
  apply Forall_forall. intros x Hx. apply in_map_iff in Hx. destruct Hx as [f [<- Hf]].
  rewrite Forall_forall in Fm. split; [discriminate|constructor; auto].
Qed.
Lemma contacts_span_nonempty c : contacts_good c -> contacts_span c <> [].
Proof.
  intros [N F]. destruct c as [|f t]; [congruence|]. inversion F; subst. unfold contacts_span; cbn.
  match goal with H : fs_nonempty f |- _ => unfold fs_nonempty in H; destruct (fs_span f); [congruence|discriminate] end.
Qed.

(** ** rectangles: the selectors return indices of lines / arcs *)
Lemma index_from_nth {A} (l : list A) : forall n i x, In (i, x) (index_from n l) -> (n <= i)%nat /\ nth_error l (i - n) = Some x.
Proof.
  induction l as [|y t IH]; cbn; intros n i x H; [destruct H|].
  destruct H as [H|H].
  - inversion H; subst. rewrite Nat.sub_diag. cbn. auto.
  - apply IH in H. destruct H as [H1 H2]. split; [lia|]. replace (i - n)%nat with (S (i - S n)) by lia. exact H2.
Qed.
Lemma enumerate_nth {A} (l : list A) i x : In (i, x) (enumerate l) -> nth_error l i = Some x.
Proof. intros H. apply index_from_nth in H. destruct H as [_ H]. rewrite Nat.sub_0_r in H. exact H. Qed.

Definition is_line_at (fs : list fragment) (i : nat) : Prop := exists l, nth_error fs i = Some (FLine l).
Definition pairs_lines (fs : list fragment) (ps : list (nat * nat)) : Prop :=
  Forall (fun p => is_line_at fs (fst p) /\ is_line_at fs (snd p)) ps.

Lemma frag_aabb_parallel_lines a b : frag_aabb_parallel a b = true -> (exists l, a = FLine l) /\ (exists l, b = FLine l).
Proof. destruct a, b; cbn; try discriminate. eauto. Qed.

Lemma parallel_aabb_group_lines fs : pairs_lines fs (parallel_aabb_group fs).
Proof.
  unfold parallel_aabb_group.
  assert (Inner : forall i f1, In (i, f1) (enumerate fs) -> forall idx2, incl idx2 (enumerate fs) -> forall ps, pairs_lines fs ps ->
            pairs_lines fs (fold_left (fun ps '(j, f2) =>
              if negb (Nat.eqb i j) && negb (pair_uses ps i) && negb (pair_uses ps j) && frag_aabb_parallel f1 f2
              then ps ++ [(i, j)] else ps) idx2 ps)).
  { intros i f1 Hi. induction idx2 as [|[j f2] t IH]; cbn [fold_left]; intros Inc ps Hps; auto.
    apply IH; [intros z Hz; apply Inc; right; exact Hz|].
    destruct (negb (Nat.eqb i j) && negb (pair_uses ps i) && negb (pair_uses ps j) && frag_aabb_parallel f1 f2) eqn:E; auto.
    apply andb_true_iff in E. destruct E as [_ E]. apply frag_aabb_parallel_lines in E. destruct E as [[l1 ->] [l2 ->]].
    apply Forall_app; split; auto. constructor; [|constructor]. cbn. split.
    - exists l1. apply enumerate_nth; exact Hi.
    - exists l2. apply enumerate_nth. apply Inc. left; reflexivity. }
  assert (Outer : forall idx1, incl idx1 (enumerate fs) -> forall ps, pairs_lines fs ps ->
            pairs_lines fs (fold_left (fun ps '(i, f1) =>
              fold_left (fun ps '(j, f2) =>
                if negb (Nat.eqb i j) && negb (pair_uses ps i) && negb (pair_uses ps j) && frag_aabb_parallel f1 f2
                then ps ++ [(i, j)] else ps) (enumerate fs) ps) idx1 ps)).
  { induction idx1 as [|[i f1] t IH]; cbn [fold_left]; intros Inc ps Hps; auto.
    apply IH; [intros z Hz; apply Inc; right; exact Hz|].
    apply (Inner i f1); auto. apply Inc; left; reflexivity. apply incl_refl. }
  apply Outer; [apply incl_refl|constructor].
Qed.

Lemma as_line_some fs i : is_line_at fs i -> exists l, as_line fs i = Some l.
Proof. intros [l H]. unfold as_line. rewrite H. eauto. Qed.

Lemma is_rect_ok fs : exists b, is_rect fs = Ok b.
Proof.
  unfold is_rect. destruct (Nat.eqb (length fs) 4); [|eauto].
  pose proof (parallel_aabb_group_lines fs) as P.
  destruct (parallel_aabb_group fs) as [|[a1 a2] [|[b1 b2] [|? ?]]]; eauto.
  inversion P as [|? ? [Ha1 Ha2] P2]; subst. inversion P2 as [|? ? [Hb1 Hb2] _]; subst. cbn in *.
  destruct (as_line_some _ _ Ha1) as [? ->]. destruct (as_line_some _ _ Hb1) as [? ->].
  destruct (as_line_some _ _ Ha2) as [? ->]. destruct (as_line_some _ _ Hb2) as [? ->]. eauto.
Qed.

Lemma right_angle_arcs_arcs fs : Forall (fun i => exists a, nth_error fs i = Some (FArc a)) (right_angle_arcs fs).
Proof.
  unfold right_angle_arcs. apply Forall_forall. intros i Hi. apply in_flat_map in Hi.
  destruct Hi as [[j f] [Hin Hi]]. destruct f; try (destruct Hi; fail).
  destruct (arc_is_right_angle a); [|destruct Hi]. destruct Hi as [<-|[]].
  exists a. apply enumerate_nth; exact Hin.
Qed.

Lemma is_rounded_rect_ok fs : exists b, is_rounded_rect fs = Ok b /\ (fst b = true -> snd b <> None).
Proof.
  unfold is_rounded_rect. destruct (Nat.eqb (length fs) 8); [|exists (false, None); split; [reflexivity|discriminate]].
  pose proof (parallel_aabb_group_lines fs) as P. pose proof (right_angle_arcs_arcs fs) as R.
  destruct (parallel_aabb_group fs) as [|[a1 a2] [|[b1 b2] [|? ?]]];
    try (exists (false, None); split; [reflexivity|discriminate]).
  destruct (right_angle_arcs fs) as [|r0 [|r1 [|r2 [|r3 [|? ?]]]]];
    try (exists (false, None); split; [reflexivity|discriminate]).
  inversion R as [|? ? [ar Har] _]; subst. rewrite Har.
  inversion P as [|? ? [Ha1 Ha2] P2]; subst. inversion P2 as [|? ? [Hb1 Hb2] _]; subst. cbn in *.
  destruct (as_line_some _ _ Ha1) as [? ->]. destruct (as_line_some _ _ Hb1) as [? ->].
  destruct (as_line_some _ _ Ha2) as [? ->]. destruct (as_line_some _ _ Hb2) as [? ->].
  eexists; split; [reflexivity|]. cbn. discriminate.
Qed.

Lemma endorse_rounded_rect_ok fs : exists r, endorse_rounded_rect fs = Ok r.
Proof.
  unfold endorse_rounded_rect.
  destruct (is_rounded_rect_ok fs) as [[b2 o] [-> N]]. cbn [bind fst snd] in *.
  destruct b2; [|eauto]. destruct o; [eauto|]. exfalso; apply N; reflexivity.
Qed.
Lemma contacts_endorse_rect_ok c : exists r, contacts_endorse_rect c = Ok r.
Proof.
  unfold contacts_endorse_rect, endorse_rect. cbv zeta.
  destruct (is_rect_ok (map fs_frag c)) as [b ->]. cbn [bind].
  destruct b; cbn [bind].
  - destruct (bounding_rect (map fs_frag c) None); [eauto|apply endorse_rounded_rect_ok].
  - apply endorse_rounded_rect_ok.
Qed.

Lemma endorse_rects_ok cs : exists r, endorse_rects cs = Ok r /\ incl (snd r) cs.
Proof.
  induction cs as [|c t IH]; cbn [endorse_rects].
  - exists ([], []). split; [reflexivity|apply incl_refl].
  - destruct (contacts_endorse_rect_ok c) as [r ->]. cbn. destruct IH as [[acc rej] [-> I]]. cbn in *.
    destruct r; eexists; (split; [reflexivity|]); cbn.
    + intros z Hz; right; apply I; exact Hz.
    + intros z [<-|Hz]; [left; reflexivity|right; apply I; exact Hz].
Qed.

(** ** circles and arcs: [bounds] of a non-empty span exists *)
Lemma endorse_to_arcs_and_circles_ok s : s <> [] -> exists r, endorse_to_arcs_and_circles s = Ok r.
Proof.
  intros N. unfold endorse_to_arcs_and_circles. destruct s as [|[c z] t]; [congruence|]. cbn [span_bounds].
  destruct (endorse_circle_span _) as [[? ?]|]; [eauto|].
  destruct (endorse_arc_span three_arc_span _) as [[? ?]|]; [eauto|].
  destruct (endorse_arc_span half_arc_span _) as [[? ?]|]; [eauto|].
  destruct (endorse_arc_span quarter_arc_span _) as [[? ?]|]; eauto.
Qed.

Lemma span_merge_nonempty a b c : span_merge a b = Some c -> a <> [] -> b <> [] -> c <> [].
Proof.
  unfold span_merge. destruct (span_can_merge a b); intros H Ha Hb; inversion H; subst.
  destruct a; [congruence|discriminate].
Qed.

Lemma re_endorse_ok rej : Forall contacts_good rej -> exists r, re_endorse rej = Ok r.
Proof.
  intros G. unfold re_endorse.
  destruct (merge_recursive_ok span_merge (map contacts_span rej)) as [spans [E _]]. rewrite E; cbn.
  assert (F : Forall (fun s => s <> []) spans).
  { eapply (merge_recursive_inv span_merge (fun s => s <> []) span_merge_nonempty); [exact E|].
    apply Forall_forall. intros x Hx. apply in_map_iff in Hx. destruct Hx as [c [<- Hc]].
    apply contacts_span_nonempty. rewrite Forall_forall in G; auto. }
  destruct (mapM_ok endorse_to_arcs_and_circles (fun s => s <> []) spans endorse_to_arcs_and_circles_ok F) as [rs ->].
  cbn. eauto.
Qed.

Lemma span_endorse_ok s : s <> [] -> exists r, span_endorse s = Ok r.
Proof.
  intros N. unfold span_endorse.
  destruct (endorse_to_arcs_and_circles_ok s N) as [[acc1 un] ->]. cbn.
  destruct (contacts_of_span_ok un) as [cs E]. rewrite E; cbn.
  destruct (endorse_rects_ok cs) as [[acc2 rej] [-> I]]. cbn in *.
  destruct (re_endorse_ok rej) as [[acc3 rejspans] ->]; [|cbn; eauto].
  pose proof (contacts_of_span_good un cs E) as G. rewrite Forall_forall in *. intros x Hx. apply G, I, Hx.
Qed.

Theorem endorse_cells_ok cells : exists r, endorse_cells cells = Ok r.
Proof.
  unfold endorse_cells, spans_of_cells.
  destruct (merge_recursive_ok span_merge (map (fun e => [e]) cells)) as [spans [E _]]. rewrite E; cbn.
  assert (F : Forall (fun s => s <> []) spans).
  { eapply (merge_recursive_inv span_merge (fun s => s <> []) span_merge_nonempty); [exact E|].
    apply Forall_forall. intros x Hx. apply in_map_iff in Hx. destruct Hx as [c [<- Hc]]. discriminate. }
  match goal with |- context [mapM ?f spans] =>
    destruct (mapM_ok f (fun s => s <> []) spans) as [rs ->]; [|exact F|cbn; eauto] end.
  intros s Ns. destruct (span_endorse_ok s Ns) as [[acc rejspans] ->]. cbn.
  destruct (mapM_ok contacts_of_span (fun _ => True) rejspans) as [css ->]; [intros; apply contacts_of_span_ok|apply Forall_forall; auto|].
  cbn. eauto.
Qed.
