(** * ExtentTheory: how far a table fragment reaches outside its own cell (C12, T1 sweep).
    Re-run whenever the tables are regenerated from the source. *)
Require Import SB.Model.Base SB.Model.Unicode SB.Model.Geom SB.Model.Fragment SB.Model.Property
  SB.Model.FragBuf SB.Gen.AsciiMap SB.Gen.UnicodeMap.

(** ** a sound box around every fragment (arcs enlarged by an upper bound of their sagitta) *)
(** The arc from [s] to [e] with radius [r] bulges to one side of its chord only: with y pointing
    down and the sweep flag set, the centre lies where [cross (e - s) (centre - s) > 0] and the
    arc on the other side, i.e. towards [(dy, -dx)]; without the flag towards [(-dy, dx)].  Its
    height over the chord is [h = r - sqrt (r^2 - c^2/4)] (a half circle when [r < c/2], as SVG
    enlarges the radius).  [Z.sqrt] is the floor square root, so every bound below is an upper
    bound.  Along the arc the tangent turns from the chord direction rotated by [-alpha] to
    [+alpha], [sin alpha = c / 2r]. *)
(** an upper bound of twice the height of the arc over its chord *)
Definition sagitta2_ub (a : arc) : Z :=
  let c2 := dist_sq (astart a) (aend a) in
  let r := aradius a in
  2 * r - Z.sqrt (4 * r * r - c2).
Definition arc_extent (a : arc) : Z * Z * Z * Z :=
  let '(lo, hi) := seg_bounds (astart a) (aend a) in
  if amajor a then
    (* a major arc stays within its circle; when the chord is the diagonal of an r x r square the
       centre is the corner of that square on the side given by the flags *)
    let dx := px (aend a) - px (astart a) in
    let dy := py (aend a) - py (astart a) in
    let r := aradius a in
    if (Z.abs dx =? r) && (Z.abs dy =? r) then
      let first := Bool.eqb (negb (asweep a)) (0 <? dx * dy) in   (* cross (e - s) (centre - s) > 0 wanted iff not sweep (major) *)
      let cxx := if first then px (astart a) else px (aend a) in
      let cyy := if first then py (aend a) else py (astart a) in
      (cxx - r, cyy - r, cxx + r, cyy + r)
    else (px lo - 2 * r, py lo - 2 * r, px hi + 2 * r, py hi + 2 * r)
  else if 4 * aradius a * aradius a <? dist_sq (astart a) (aend a) then
    (* radius shorter than half the chord: a half circle around the mid point of the chord *)
    let rr := Z.sqrt (dist_sq (astart a) (aend a)) / 2 + 1 in
    ((px lo + px hi) / 2 - rr, (py lo + py hi) / 2 - rr, (px lo + px hi) / 2 + 1 + rr, (py lo + py hi) / 2 + 1 + rr)
  else
    let dx := px (aend a) - px (astart a) in
    let dy := py (aend a) - py (astart a) in
    let cf := Z.max 1 (Z.sqrt (dist_sq (astart a) (aend a))) in
    let h2 := sagitta2_ub a in
    let nx := if asweep a then dy else - dy in
    let ny := if asweep a then - dx else dx in
    let c2 := dist_sq (astart a) (aend a) in
    (* the arc has a left/right-most point of its own only if a vertical tangent occurs on it:
       |cos phi| < sin alpha, i.e. 2 r |dx| < c^2; likewise for top/bottom with |dy| *)
    let ex := if 2 * aradius a * Z.abs dx <? c2 then (h2 * Z.abs nx + 2 * cf - 1) / (2 * cf) else 0 in
    let ey := if 2 * aradius a * Z.abs dy <? c2 then (h2 * Z.abs ny + 2 * cf - 1) / (2 * cf) else 0 in
    ((if nx <? 0 then px lo - ex else px lo), (if ny <? 0 then py lo - ey else py lo),
     (if 0 <? nx then px hi + ex else px hi), (if 0 <? ny then py hi + ey else py hi)).
Definition extent (f : fragment) : Z * Z * Z * Z :=
  match f with
  | FArc a => arc_extent a
  | _ => let '(lo, hi) := bounds f in (px lo, py lo, px hi, py hi)
  end.

(** ** "this condition can only hold if a neighbour in one of the directions [ds] exists" *)
Definition dir_eqb (a b : dir8) : bool :=
  match a, b with
  | DTopLeft, DTopLeft | DTop, DTop | DTopRight, DTopRight | DLeft, DLeft | DRight, DRight
  | DBottomLeft, DBottomLeft | DBottom, DBottom | DBottomRight, DBottomRight => true
  | _, _ => false
  end.
Fixpoint implies_present (ds : list dir8) (c : cond) : bool :=
  match c with
  | CTrue => false
  | CIs d ch => existsb (dir_eqb d) ds && negb (ch =? 32)
  | COverlap d _ _ _ => existsb (dir_eqb d) ds
  | CArcsTo d _ _ => existsb (dir_eqb d) ds
  | CNot _ => false
  | CAnd c1 c2 => implies_present ds c1 || implies_present ds c2
  | COr c1 c2 => implies_present ds c1 && implies_present ds c2
  end.

Lemma dir_eqb_eq a b : dir_eqb a b = true -> a = b.
Proof. destruct a, b; cbn; congruence. Qed.

(** a neighbour "exists" when its property is not the empty one *)
Definition present (p : property) : Prop := p <> empty_property.

Lemma implies_present_sound ds c env : implies_present ds c = true -> eval env c = true ->
  exists d, In d ds /\ present (env d).
Proof.
  induction c as [|d ch|d lvl a b|d a b|c IH|c1 IH1 c2 IH2|c1 IH1 c2 IH2]; cbn [implies_present eval]; intros H E; try discriminate.
  - apply andb_true_iff in H. destruct H as [H1 H2]. apply existsb_exists in H1. destruct H1 as [d' [Hin Hd]].
    apply dir_eqb_eq in Hd; subst d'. exists d. split; [exact Hin|]. intros Em. rewrite Em in E.
    change (pch empty_property) with 32 in E.
    apply negb_true_iff in H2. apply Z.eqb_eq in E. subst ch. discriminate.
  - apply existsb_exists in H. destruct H as [d' [Hin Hd]]. apply dir_eqb_eq in Hd; subst d'. exists d. split; [exact Hin|].
    intros Em. rewrite Em in E. discriminate.
  - apply existsb_exists in H. destruct H as [d' [Hin Hd]]. apply dir_eqb_eq in Hd; subst d'. exists d. split; [exact Hin|].
    intros Em. rewrite Em in E. discriminate.
  - apply andb_true_iff in E. destruct E as [E1 E2]. apply orb_true_iff in H. destruct H as [H|H]; auto.
  - apply andb_true_iff in H. destruct H as [H1 H2]. apply orb_true_iff in E. destruct E as [E|E]; auto.
Qed.

(** ** the sweep *)
Definition LEFTS := [DTopLeft; DLeft; DBottomLeft].
Definition TOPS := [DTopLeft; DTop; DTopRight].
(** a fragment emitted under condition [c]: at most one cell beyond its own cell in every
    direction, and to the left / to the top only if [c] proves a neighbour there *)
Definition extent_ok (c : cond) (f : fragment) : bool :=
  let '(x0, y0, x1, y1) := extent f in
  (- CW <=? x0) && (- CH <=? y0) && (x1 <=? 2 * CW) && (y1 <=? 2 * CH)
  && ((0 <=? x0) || implies_present LEFTS c) && ((0 <=? y0) || implies_present TOPS c).

Definition tables_extent_ok : bool :=
  forallb (fun p => forallb (fun cf => forallb (extent_ok (fst cf)) (snd cf)) (pbeh p)) ascii_properties
  && forallb (fun e => forallb (extent_ok CTrue) (snd e)) unicode_fragments.


Lemma tables_extent : tables_extent_ok = true.
Proof. vm_compute. reflexivity. Qed.

(** what the sweep says, entry by entry *)
Lemma ascii_extent p c fs f : In p ascii_properties -> In (c, fs) (pbeh p) -> In f fs -> extent_ok c f = true.
Proof.
  intros Hp Hc Hf. pose proof tables_extent as T. unfold tables_extent_ok in T. apply andb_true_iff in T. destruct T as [T _].
  rewrite forallb_forall in T. specialize (T p Hp). rewrite forallb_forall in T. specialize (T (c, fs) Hc). cbn [fst snd] in T.
  rewrite forallb_forall in T. auto.
Qed.
Lemma unicode_extent ch fs f : In (ch, fs) unicode_fragments -> In f fs -> extent_ok CTrue f = true.
Proof.
  intros H Hf. pose proof tables_extent as T. unfold tables_extent_ok in T. apply andb_true_iff in T. destruct T as [_ T].
  rewrite forallb_forall in T. specialize (T (ch, fs) H). cbn [snd] in T. rewrite forallb_forall in T. auto.
Qed.

(** a fragment that fires in an environment and reaches left of (above) its cell has a
    neighbour on that side *)
Theorem fired_fragment_has_neighbour p c fs f env :
  In p ascii_properties -> In (c, fs) (pbeh p) -> In f fs -> eval env c = true ->
  let '(x0, y0, x1, y1) := extent f in
  - CW <= x0 /\ - CH <= y0 /\ x1 <= 2 * CW /\ y1 <= 2 * CH
  /\ (x0 < 0 -> exists d, In d LEFTS /\ present (env d))
  /\ (y0 < 0 -> exists d, In d TOPS /\ present (env d)).
Proof.
  intros Hp Hc Hf E. pose proof (ascii_extent p c fs f Hp Hc Hf) as X. unfold extent_ok in X.
  destruct (extent f) as [[[x0 y0] x1] y1]. rewrite !andb_true_iff, !orb_true_iff, !Z.leb_le in X.
  destruct X as [[[[[X1 X2] X3] X4] X5] X6]. repeat split; try assumption.
  - intros L. destruct X5 as [X5|X5]; [lia|]. eapply implies_present_sound; eauto.
  - intros L. destruct X6 as [X6|X6]; [lia|]. eapply implies_present_sound; eauto.
Qed.

(** ** the catalogue of circles and arcs: each stays within the cells of its own drawing plus
    the one-cell margin to the right and below, and never reaches left of or above it *)
Require Import SB.Gen.CircleTables.
Definition span_w (s : span) : Z := zmax_list 0 (map (fun e => cx (fst e)) s) + 1.
Definition span_h (s : span) : Z := zmax_list 0 (map (fun e => cy (fst e)) s) + 1.
Definition within_drawing (ext : Z * Z * Z * Z) (s : span) : bool :=
  let '(x0, y0, x1, y1) := ext in
  (0 <=? x0) && (0 <=? y0) && (x1 <=? (span_w s + 1) * CW) && (y1 <=? (span_h s + 1) * CH).
Definition catalogue_extent_ok : bool :=
  forallb (fun e => within_drawing (extent (FCircle (fst e))) (snd e)) circles_span
  && forallb (fun e => within_drawing (arc_extent (fst e)) (snd e)) quarter_arc_span
  && forallb (fun e => within_drawing (arc_extent (fst e)) (snd e)) half_arc_span
  && forallb (fun e => within_drawing (arc_extent (fst e)) (snd e)) three_arc_span.

Lemma catalogue_extent : catalogue_extent_ok = true.
Proof. vm_compute. reflexivity. Qed.
