(** * TagSweep: a [{a}] tag inside the inner of two nested boxes gives its name to the inner rectangle only (C16,
    "the innermost such shape"), through the whole model from the cells to the (fragment, class names) list the
    document is made of: recognition, then the enclosure pass over ALL accepted fragments in their emitted order.
    TagTheory proves that one insertion goes to an innermost node of the tree built so far; this sweep adds that
    the order in which the pass meets the fragments builds the nesting before it meets the tag.  Also: the tag
    outside both boxes stays text and names nothing.  Finite sweep, the ranges are in the statement. *)
Require Import SB.Model.Base SB.Model.Unicode SB.Model.Geom SB.Model.Fragment SB.Model.Merge SB.Model.Property
  SB.Model.FragBuf SB.Model.Endorse SB.Model.Text SB.Model.Tree SB.Theory.ShiftTheory SB.Theory.BoxDefs.

Definition TAG : list Z := [123; 97; 125].        (* {a} *)
Definition tag_cells (x y : Z) : list (cell * Z) := map (fun '(i, ch) => (C (x + Z.of_nat i) y, ch)) (enumerate TAG).
(** outer box with interior (wi + ox + mx) x (hi + oy + my), the inner box (interior wi x hi) with its corner at interior
    offset (ox, oy); the cell map sorted as the BTreeMap keeps it *)
Record tcase := TC { so : bstyle; si : bstyle; wi : nat; hi : nat; ox : nat; oy : nat; tx : nat; ty : nat }.
Definition wo (k : tcase) : nat := (wi k + 2 + ox k + 1)%nat.
Definition ho (k : tcase) : nat := (hi k + 2 + oy k + 1)%nat.
Definition inner_at (k : tcase) : Z * Z := (1 + Z.of_nat (ox k), 1 + Z.of_nat (oy k)).
Definition cell_leb (a b : cell * Z) : bool :=
  (cy (fst a) <? cy (fst b)) || ((cy (fst a) =? cy (fst b)) && (cx (fst a) <=? cx (fst b))).
Fixpoint insert_cell (e : cell * Z) (l : list (cell * Z)) : list (cell * Z) :=
  match l with [] => [e] | h :: t => if cell_leb e h then e :: l else h :: insert_cell e t end.
Definition sort_cells (l : list (cell * Z)) : list (cell * Z) := fold_right insert_cell [] l.
Definition nested_cells (k : tcase) (inside : bool) : list (cell * Z) :=
  let '(ix, iy) := inner_at k in
  sort_cells (box_cells (so k) (wo k) (ho k)
              ++ map (shift_cc ix iy) (box_cells (si k) (wi k) (hi k))
              ++ (if inside then tag_cells (ix + 1 + Z.of_nat (tx k)) (iy + 1 + Z.of_nat (ty k))
                  else tag_cells (Z.of_nat (wo k) + 3) 1)).
(** what the document is made of: the accepted fragments through the enclosure pass, flattened *)
Definition tagged_fragments (cells : list (cell * Z)) : res (list (fragment * list (list Z)) * nat) :=
  do r <- endorse_cells cells;
  let '(acc, groups) := r in
  do trees <- enclose_fragments (map fs_frag acc);
  Ok (flat_map flatten_tree trees, List.length groups).
Definition is_tag_text (f : fragment) : bool :=
  match f with FCellText t => zs_eqb (ctcontent t) TAG | _ => false end.
Definition rect_at (f : fragment) (x y : Z) : bool :=
  match f with FRect r => (px (rstart r) =? x * 40 + 20) && (py (rstart r) =? y * 80 + 40) | _ => false end.
Definition names_a (tags : list (list Z)) : bool := list_eqb zs_eqb tags [[97]].
Definition inside_chk (k : tcase) : bool :=
  let '(ix, iy) := inner_at k in
  match tagged_fragments (nested_cells k true) with
  | Ok ([(f1, t1); (f2, t2)], O) =>
      (* two rectangles and nothing else: the outer one without names, the inner one named a; the tag is not rendered *)
      (rect_at f1 0 0 && rect_at f2 ix iy && list_eqb zs_eqb t1 [] && names_a t2)
  | _ => false
  end.
Definition outside_chk (k : tcase) : bool :=
  let '(ix, iy) := inner_at k in
  match tagged_fragments (nested_cells k false) with
  | Ok ([(f1, t1); (f2, t2); (f3, t3)], O) =>
      rect_at f1 0 0 && rect_at f2 ix iy && is_tag_text f3
      && list_eqb zs_eqb t1 [] && list_eqb zs_eqb t2 [] && list_eqb zs_eqb t3 []
  | _ => false
  end.
(** the tag next to the outer box but outside it: to its left on an interior row, above it, below it (one blank cell away): three fragments
    again, nothing named, the tag shown as text *)
Definition around_cells (k : tcase) (where_ : nat) : list (cell * Z) :=
  let '(ix, iy) := inner_at k in
  let W := Z.of_nat (wo k) + 2 in let H := Z.of_nat (ho k) + 2 in
  (* everything moved 5 columns right and 2 rows down to make room *)
  let moved := map (shift_cc 5 2) (box_cells (so k) (wo k) (ho k) ++ map (shift_cc ix iy) (box_cells (si k) (wi k) (hi k))) in
  sort_cells (moved ++ match where_ with
                       | O => tag_cells 0 (2 + iy + 1)              (* left of the outer box, on a row of the inner box *)
                       | S O => tag_cells (5 + ix + 1) 0              (* above, within the columns of the inner box *)
                       | _ => tag_cells (5 + ix + 1) (2 + H + 1)     (* below *)
                       end).
Definition around_chk (k : tcase) : bool :=
  let '(ix, iy) := inner_at k in
  forallb (fun w =>
    match tagged_fragments (around_cells k w) with
    | Ok (l, O) =>
        Nat.eqb (List.length l) 3
        && Nat.eqb (List.length (filter (fun p => is_tag_text (fst p)) l)) 1
        && Nat.eqb (List.length (filter (fun p => match fst p with FRect _ => true | _ => false end) l)) 2
        && forallb (fun p => list_eqb zs_eqb (snd p) []) l
    | _ => false
    end) [0; 1; 2]%nat.
Definition sharp := BS 43 43 43 43 45 124 None false false.
Definition rounded := BS 46 46 39 39 45 124 (Some 20) false false.
Definition tcases : list tcase :=
  flat_map (fun so => flat_map (fun si => flat_map (fun wi => flat_map (fun hi => flat_map (fun ox => flat_map (fun oy =>
    flat_map (fun tx => map (fun ty => TC so si wi hi ox oy tx ty) (seq 0 hi)) (seq 0 (wi - 2)))
    [0; 1]%nat) [1; 2]%nat) [1; 2]%nat) [3; 4]%nat) [sharp; rounded]) [sharp; rounded].
Lemma tag_sweep_ok : forallb (fun k => inside_chk k && outside_chk k && around_chk k) tcases = true.
Proof. vm_cast_no_check (eq_refl true). Qed.
Theorem nested_tag k : In k tcases -> inside_chk k = true /\ outside_chk k = true /\ around_chk k = true.
Proof.
  intro H. pose proof (proj1 (forallb_forall _ _) tag_sweep_ok k H) as T. cbv beta in T.
  apply andb_prop in T. destruct T as [T A]. apply andb_prop in T. destruct T as [I O]. repeat split; assumption.
Qed.
