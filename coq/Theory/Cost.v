(** * Cost: the merge loop makes at most (n + 1) * n^2 calls of its merge function (C01, the
    polynomial time clause, for the model).  The counting functions below follow the
    definitions of Model/Merge.v step by step and return, next to the result, the number of
    times [merge] was applied; their results are those of the uncounted functions. *)
Require Import SB.Model.Base SB.Model.Merge SB.Theory.MergeTheory.
From Coq Require Import Arith.

Section Cost.
Context {A : Type} (merge : A -> A -> option A).

Fixpoint tmr_c (groups : list A) (item : A) : option (list A) * nat :=
  match groups with
  | [] => (None, 0%nat)
  | g :: gs =>
      match tmr_c gs item with
      | (Some gs', k) => (Some (g :: gs'), k)
      | (None, k) => match merge g item with
                     | Some m => (Some (m :: gs), S k)
                     | None => (None, S k)
                     end
      end
  end.
Definition step_c (st : list A * nat) (item : A) : list A * nat :=
  match tmr_c (fst st) item with
  | (Some gs, k) => (gs, (snd st + k)%nat)
  | (None, k) => (fst st ++ [item], (snd st + k)%nat)
  end.
Definition second_pass_c (items : list A) : list A * nat := fold_left step_c items ([], 0%nat).
Fixpoint merge_rec_c (fuel : nat) (items : list A) : option (list A) * nat :=
  match fuel with
  | O => (None, 0%nat)
  | S f => let '(m, k) := second_pass_c items in
           if (length m <? length items)%nat then let '(r, k') := merge_rec_c f m in (r, (k + k')%nat) else (Some m, k)
  end.

(** the counted functions compute what the uncounted ones compute *)
Lemma tmr_c_fst gs x : fst (tmr_c gs x) = try_merge_rev merge gs x.
Proof.
  induction gs as [|g t IH]; cbn [tmr_c try_merge_rev]; [reflexivity|].
  destruct (tmr_c t x) as [[r|] k]; cbn [fst] in IH; rewrite <- IH; [reflexivity|]. destruct (merge g x); reflexivity.
Qed.
Lemma step_c_fst st x : fst (step_c st x) = step merge (fst st) x.
Proof. unfold step_c, step. rewrite <- tmr_c_fst. destruct (tmr_c (fst st) x) as [[r|] k]; reflexivity. Qed.
Lemma fold_step_c_fst items : forall st, fst (fold_left step_c items st) = fold_left (step merge) items (fst st).
Proof. induction items as [|x t IH]; intros st; cbn [fold_left]; [reflexivity|]. rewrite IH, step_c_fst. reflexivity. Qed.
Lemma second_pass_c_fst items : fst (second_pass_c items) = second_pass merge items.
Proof. unfold second_pass_c, second_pass. apply (fold_step_c_fst items ([], 0%nat)). Qed.
Lemma merge_rec_c_fst fuel : forall items, fst (merge_rec_c fuel items) = merge_rec merge fuel items.
Proof.
  induction fuel as [|f IH]; intros items; cbn [merge_rec_c merge_rec]; [reflexivity|].
  pose proof (second_pass_c_fst items) as E. destruct (second_pass_c items) as [m k]. cbn [fst] in E. subst m.
  destruct (length (second_pass merge items) <? length items)%nat; [|reflexivity].
  specialize (IH (second_pass merge items)). destruct (merge_rec_c f (second_pass merge items)) as [r k']. exact IH.
Qed.

(** counting *)
Lemma tmr_c_cost gs x : (snd (tmr_c gs x) <= length gs)%nat.
Proof.
  induction gs as [|g t IH]; cbn [tmr_c length]; [apply le_n|].
  destruct (tmr_c t x) as [[r|] k]; cbn [snd] in *; [lia|]. destruct (merge g x); cbn [snd]; lia.
Qed.
Lemma fold_step_c_cost items : forall st,
  (snd (fold_left step_c items st) <= snd st + length items * (length (fst st) + length items))%nat
  /\ (length (fst (fold_left step_c items st)) <= length (fst st) + length items)%nat.
Proof.
  induction items as [|x t IH]; intros st; cbn [fold_left length]; [split; lia|].
  destruct (IH (step_c st x)) as [C L].
  assert (L1 : (length (fst (step_c st x)) <= S (length (fst st)))%nat).
  { rewrite step_c_fst. pose proof (step_length merge (fst st) x) as H. lia. }
  assert (C1 : (snd (step_c st x) <= snd st + length (fst st))%nat).
  { unfold step_c. pose proof (tmr_c_cost (fst st) x) as H. destruct (tmr_c (fst st) x) as [[r|] k]; cbn [snd] in *; lia. }
  split; [|lia]. nia.
Qed.
Lemma second_pass_c_cost items : (snd (second_pass_c items) <= length items * length items)%nat.
Proof. unfold second_pass_c. destruct (fold_step_c_cost items ([], 0%nat)) as [C _]. cbn [fst snd length] in C. lia. Qed.

Lemma merge_rec_c_cost fuel : forall items, (snd (merge_rec_c fuel items) <= fuel * (length items * length items))%nat.
Proof.
  induction fuel as [|f IH]; intros items; cbn [merge_rec_c]; [cbn; lia|].
  pose proof (second_pass_c_cost items) as C. pose proof (second_pass_c_fst items) as E.
  destruct (second_pass_c items) as [m k]. cbn [fst snd] in *. subst m.
  destruct (Nat.ltb_spec (length (second_pass merge items)) (length items)) as [Lt|Ge]; [|cbn [snd]; lia].
  specialize (IH (second_pass merge items)). destruct (merge_rec_c f (second_pass merge items)) as [r k']. cbn [snd] in *.
  assert (length (second_pass merge items) * length (second_pass merge items) <= length items * length items)%nat by nia. nia.
Qed.

(** the whole loop: at most (n + 1) * n^2 applications of [merge] *)
Theorem merge_recursive_cost items :
  fst (merge_rec_c (S (length items)) items) = merge_rec merge (S (length items)) items
  /\ (snd (merge_rec_c (S (length items)) items) <= S (length items) * (length items * length items))%nat.
Proof. split; [apply merge_rec_c_fst|apply merge_rec_c_cost]. Qed.
End Cost.
