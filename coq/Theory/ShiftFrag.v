(** * ShiftFrag: fragments under translation by whole cells (C06, second part). *)
Require Import SB.Model.Base SB.Model.Unicode SB.Model.Geom SB.Model.Fragment SB.Model.Merge
  SB.Model.Property SB.Model.FragBuf SB.Theory.MergeTheory SB.Theory.ShiftTheory.

Section Shift.
Context (k n : Z).
Notation sp := (shift_point k n).
Notation sc := (shift_cell k n).

Definition shift_line (l : line) : line := Line (sp (lstart l)) (sp (lend l)) (lbroken l).
Definition shift_frag (f : fragment) : fragment :=
  match f with
  | FLine l => FLine (shift_line l)
  | FMarkerLine m => FMarkerLine (MarkerLine (shift_line (mlline m)) (mlstart m) (mlend m))
  | FCircle c => FCircle (Circle (sp (ccenter c)) (cradius c) (cfilled c))
  | FArc a => FArc (Arc (sp (astart a)) (sp (aend a)) (aradius a) (amajor a) (asweep a))
  | FPolygon p => FPolygon (Polygon (map sp (ppoints p)) (pfilled p) (ptags p))
  | FRect r => FRect (Rect (sp (rstart r)) (sp (rend r)) (rfilled r) (rradius r) (rbroken r))
  | FCellText t => FCellText (CellText (sc (ctstart t)) (ctcontent t))
  end.

(** ** points *)
Lemma point_cmp_shift a b : point_cmp (sp a) (sp b) = point_cmp a b.
Proof.
  unfold point_cmp, shift_point; cbn. rewrite !(Z.add_comm _ (k * CW)), !(Z.add_comm _ (n * CH)), !Z.add_compare_mono_l. reflexivity.
Qed.
Lemma point_eqb_shift a b : point_eqb (sp a) (sp b) = point_eqb a b.
Proof. unfold point_eqb, shift_point; cbn. f_equal; apply Bool.eq_iff_eq_true; rewrite !Z.eqb_eq; lia. Qed.
Lemma point_min_shift a b : point_min (sp a) (sp b) = sp (point_min a b).
Proof. unfold point_min. rewrite point_cmp_shift. destruct (is_lt (point_cmp b a)); reflexivity. Qed.
Lemma point_max_shift a b : point_max (sp a) (sp b) = sp (point_max a b).
Proof. unfold point_max. rewrite point_cmp_shift. destruct (is_lt (point_cmp b a)); reflexivity. Qed.
Lemma cross_shift a b c : cross (sp a) (sp b) (sp c) = cross a b c.
Proof. unfold cross, shift_point; cbn. ring. Qed.
Lemma dist_sq_shift a b : dist_sq (sp a) (sp b) = dist_sq a b.
Proof. unfold dist_sq, shift_point; cbn. ring. Qed.
Lemma mk_line_shift a b br : mk_line (sp a) (sp b) br = shift_line (mk_line a b br).
Proof. unfold mk_line. rewrite point_cmp_shift. destruct (is_lt (point_cmp b a)); reflexivity. Qed.

(** ** line predicates *)
Lemma line_contains_shift l p : line_contains (shift_line l) (sp p) = line_contains l p.
Proof.
  unfold line_contains, shift_line; cbn [lstart lend]. rewrite cross_shift. unfold shift_point; cbn [px py].
  rewrite !Z.add_min_distr_r, !Z.add_max_distr_r.
  f_equal; [f_equal; [f_equal; [f_equal|]|]|]; apply Bool.eq_iff_eq_true; rewrite !Z.leb_le; lia.
Qed.
Lemma line_is_touching_shift a b : line_is_touching (shift_line a) (shift_line b) = line_is_touching a b.
Proof.
  unfold line_is_touching, touching_line.
  change (lstart (shift_line b)) with (sp (lstart b)). change (lend (shift_line b)) with (sp (lend b)).
  change (lstart (shift_line a)) with (sp (lstart a)). change (lend (shift_line a)) with (sp (lend a)).
  rewrite !line_contains_shift. reflexivity.
Qed.
Lemma is_collinear_shift a b c : is_collinear (sp a) (sp b) (sp c) = is_collinear a b c.
Proof. unfold is_collinear. rewrite cross_shift. reflexivity. Qed.
Lemma line_can_merge_shift a b : line_can_merge (shift_line a) (shift_line b) = line_can_merge a b.
Proof.
  unfold line_can_merge. rewrite line_is_touching_shift.
  change (lstart (shift_line b)) with (sp (lstart b)). change (lend (shift_line b)) with (sp (lend b)).
  change (lstart (shift_line a)) with (sp (lstart a)). change (lend (shift_line a)) with (sp (lend a)).
  rewrite !is_collinear_shift. reflexivity.
Qed.
Lemma line_merge_shift a b : line_merge (shift_line a) (shift_line b) = option_map shift_line (line_merge a b).
Proof.
  unfold line_merge. rewrite line_can_merge_shift. destruct (line_can_merge a b); [|reflexivity]. cbn [option_map].
  change (lstart (shift_line b)) with (sp (lstart b)). change (lend (shift_line b)) with (sp (lend b)).
  change (lstart (shift_line a)) with (sp (lstart a)). change (lend (shift_line a)) with (sp (lend a)).
  rewrite point_min_shift, point_max_shift, mk_line_shift. reflexivity.
Qed.
Lemma heading_shift l : heading (shift_line l) = heading l.
Proof.
  unfold heading, shift_line; cbn [lstart lend]. unfold shift_point; cbn [px py].
  replace (px (lend l) + k * CW - (px (lstart l) + k * CW)) with (px (lend l) - px (lstart l)) by ring.
  replace (py (lend l) + n * CH - (py (lstart l) + n * CH)) with (py (lend l) - py (lstart l)) by ring.
  reflexivity.
Qed.
Lemma merge_circle_shift l c :
  merge_circle (shift_line l) (Circle (sp (ccenter c)) (cradius c) (cfilled c)) = option_map shift_frag (merge_circle l c).
Proof.
  unfold merge_circle. rewrite heading_shift. cbn [ccenter cradius cfilled].
  change (lstart (shift_line l)) with (sp (lstart l)). change (lend (shift_line l)) with (sp (lend l)).
  rewrite !dist_sq_shift. change (lbroken (shift_line l)) with (lbroken l).
  destruct ((cradius c <=? 30) && ((dist_sq (lstart l) (ccenter c) <=? threshold_sq (heading l)) || (dist_sq (lend l) (ccenter c) <=? threshold_sq (heading l)))); [|reflexivity].
  cbn [option_map shift_frag]. destruct (dist_sq (lend l) (ccenter c) <=? threshold_sq (heading l)); reflexivity.
Qed.

(** ** cell text *)
Lemma celltext_can_merge_shift a b :
  celltext_can_merge (CellText (sc (ctstart a)) (ctcontent a)) (CellText (sc (ctstart b)) (ctcontent b)) = celltext_can_merge a b.
Proof.
  unfold celltext_can_merge, shift_cell; cbn [ctstart ctcontent cx cy].
  f_equal; [|f_equal]; apply Bool.eq_iff_eq_true; rewrite !Z.eqb_eq; lia.
Qed.
Lemma celltext_merge_shift a b :
  celltext_merge (CellText (sc (ctstart a)) (ctcontent a)) (CellText (sc (ctstart b)) (ctcontent b))
  = option_map (fun t => CellText (sc (ctstart t)) (ctcontent t)) (celltext_merge a b).
Proof.
  unfold celltext_merge. rewrite celltext_can_merge_shift. destruct (celltext_can_merge a b); [|reflexivity].
  cbn [ctstart ctcontent]. unfold shift_cell at 1 2; cbn [cx].
  replace (cx (ctstart a) + k <? cx (ctstart b) + k) with (cx (ctstart a) <? cx (ctstart b))
    by (apply Bool.eq_iff_eq_true; rewrite !Z.ltb_lt; lia).
  destruct (cx (ctstart a) <? cx (ctstart b)); reflexivity.
Qed.

(** ** [Fragment::merge] and [is_contacting] *)
Theorem fragment_merge_shift a b : fragment_merge (shift_frag a) (shift_frag b) = option_map shift_frag (fragment_merge a b).
Proof.
  destruct a, b; cbn [shift_frag fragment_merge]; try reflexivity.
  - rewrite line_merge_shift. destruct (line_merge l l0); reflexivity.
  - apply merge_circle_shift.
  - apply merge_circle_shift.
  - rewrite celltext_merge_shift. destruct (celltext_merge t t0); reflexivity.
Qed.

Lemma ends_touch_shift a b c d : ends_touch (sp a) (sp b) (sp c) (sp d) = ends_touch a b c d.
Proof. unfold ends_touch. rewrite !point_eqb_shift. reflexivity. Qed.

Theorem is_contacting_shift a b : is_contacting (shift_frag a) (shift_frag b) = is_contacting a b.
Proof.
  destruct a, b; cbn [shift_frag is_contacting]; try reflexivity.
  - apply line_is_touching_shift.
  - unfold line_is_touching_circle; cbn [ccenter cradius]. change (lstart (shift_line l)) with (sp (lstart l)). change (lend (shift_line l)) with (sp (lend l)).
    rewrite !dist_sq_shift. reflexivity.
  - unfold line_is_touching_arc; cbn [astart aend]. apply ends_touch_shift.
  - unfold line_is_touching_circle; cbn [ccenter cradius]. change (lstart (shift_line l)) with (sp (lstart l)). change (lend (shift_line l)) with (sp (lend l)).
    rewrite !dist_sq_shift. reflexivity.
  - unfold line_is_touching_arc; cbn [astart aend]. apply ends_touch_shift.
  - unfold arc_is_touching; cbn [astart aend]. apply ends_touch_shift.
  - unfold celltext_contacting, shift_cell; cbn [ctstart ctcontent cx cy].
    f_equal; [f_equal; [f_equal|]|]; apply Bool.eq_iff_eq_true; rewrite ?Z.eqb_eq, ?Z.leb_le; lia.
Qed.
End Shift.
