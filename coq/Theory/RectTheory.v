(** * RectTheory: a rectangle is endorsed only for four lines that are the four edges of their
    bounding box (C05 soundness, C03). *)
Require Import SB.Model.Base SB.Model.Unicode SB.Model.Geom SB.Model.Fragment SB.Model.Merge
  SB.Model.Property SB.Model.FragBuf SB.Model.Endorse.

Definition edge_of (ls : list line) (x1 y1 x2 y2 : Z) : Prop :=
  exists l, In l ls /\ lstart l = P x1 y1 /\ lend l = P x2 y2.

Lemma line_is_spec l x1 y1 x2 y2 : line_is l x1 y1 x2 y2 = true -> lstart l = P x1 y1 /\ lend l = P x2 y2.
Proof.
  unfold line_is. rewrite !andb_true_iff, !Z.eqb_eq. intros [[[H1 H2] H3] H4].
  destruct l as [[sx sy] [ex ey] b]; cbn in *. subst. split; reflexivity.
Qed.

(** what [is_outline_of_bounds] establishes: a non-degenerate box whose top, bottom, left and
    right edges are each one of the given lines *)
Theorem outline_spec : forall ls, is_outline_of_bounds ls = true ->
  exists mn mx, px mn < px mx /\ py mn < py mx
    /\ edge_of ls (px mn) (py mn) (px mx) (py mn) /\ edge_of ls (px mn) (py mx) (px mx) (py mx)
    /\ edge_of ls (px mn) (py mn) (px mn) (py mx) /\ edge_of ls (px mx) (py mn) (px mx) (py mx).
Proof.
  intros ls. unfold is_outline_of_bounds. destruct (flat_map (fun l => [lstart l; lend l]) ls) as [|p t]; [discriminate|].
  set (mn := pmin_list p (p :: t)). set (mx := pmax_list p (p :: t)).
  rewrite !andb_true_iff, !Z.ltb_lt. intros [[[[[H1 H2] H3] H4] H5] H6].
  exists mn, mx. repeat split; try assumption.
  - apply existsb_exists in H3. destruct H3 as [l [Hin Hl]]. exists l. split; [exact Hin|apply line_is_spec; exact Hl].
  - apply existsb_exists in H4. destruct H4 as [l [Hin Hl]]. exists l. split; [exact Hin|apply line_is_spec; exact Hl].
  - apply existsb_exists in H5. destruct H5 as [l [Hin Hl]]. exists l. split; [exact Hin|apply line_is_spec; exact Hl].
  - apply existsb_exists in H6. destruct H6 as [l [Hin Hl]]. exists l. split; [exact Hin|apply line_is_spec; exact Hl].
Qed.

(** [is_rect] says yes only for four fragments, four of which (by index) are lines forming the
    outline of their bounding box *)
Theorem is_rect_sound fs : is_rect fs = Ok true ->
  length fs = 4%nat /\
  exists a1 a2 b1 b2 la1 la2 lb1 lb2,
    nth_error fs a1 = Some (FLine la1) /\ nth_error fs a2 = Some (FLine la2)
    /\ nth_error fs b1 = Some (FLine lb1) /\ nth_error fs b2 = Some (FLine lb2)
    /\ is_outline_of_bounds [la1; la2; lb1; lb2] = true.
Proof.
  unfold is_rect. destruct (Nat.eqb (length fs) 4) eqn:L; [|discriminate]. apply Nat.eqb_eq in L.
  destruct (parallel_aabb_group fs) as [|[a1 a2] [|[b1 b2] [|? ?]]]; try discriminate.
  unfold as_line.
  destruct (nth_error fs a1) as [[la1| | | | | |]|] eqn:E1; try discriminate.
  destruct (nth_error fs b1) as [[lb1| | | | | |]|] eqn:E2; try discriminate.
  destruct (nth_error fs a2) as [[la2| | | | | |]|] eqn:E3; try discriminate.
  destruct (nth_error fs b2) as [[lb2| | | | | |]|] eqn:E4; try discriminate.
  intros H. apply (f_equal (fun r => match r with Ok b => b | Err _ => false end)) in H. cbv beta iota in H.
  rewrite !andb_true_iff in H. destruct H as [_ O].
  split; [exact L|]. exists a1, a2, b1, b2, la1, la2, lb1, lb2. repeat split; assumption.
Qed.

