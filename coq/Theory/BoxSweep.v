(** * BoxSweep: every box of the standard styles up to 16 x 8 interior cells is recognised as
    exactly one rectangle with the expected position, size, corner radius and dash class
    (C05 completeness; finite sweep over the model, the bound is in the statement; re-run
    whenever the tables are regenerated).  With the translation theorem (C06) and the
    restriction theorem (C10): anywhere on the page and next to any separated content. *)
Require Import SB.Model.Base SB.Model.Unicode SB.Model.Geom SB.Model.Fragment SB.Model.Merge SB.Model.Property
  SB.Model.FragBuf SB.Model.Endorse SB.Theory.ShiftTheory SB.Theory.ShiftFrag SB.Theory.ShiftBuf SB.Theory.ShiftEndorse SB.Theory.SepTheory SB.Theory.SepOrder.
Require Export SB.Theory.BoxDefs.

Definition chk (s : bstyle) (w h : nat) : bool :=
  match endorse_cells (box_cells s w h) with
  | Ok ([FS _ (FRect r)], []) => rect_same r (expected s w h)
  | _ => false
  end.

Lemma sweep_ok :
  forallb (fun s => forallb (fun w => forallb (fun h => chk s w h) (seq 0 (S HMAX))) (seq (wmin s) (S WMAX - wmin s))) styles = true.
Proof. vm_cast_no_check (eq_refl true). Qed.      (* evaluated once, by the kernel's virtual machine, at Qed *)

Theorem box_recognised s w h : In s styles -> (wmin s <= w <= WMAX)%nat -> (h <= HMAX)%nat ->
  exists sp, endorse_cells (box_cells s w h) = Ok ([FS sp (FRect (expected s w h))], []).
Proof.
  intros Hs Hw Hh.
  assert (Iw : In w (seq (wmin s) (S WMAX - wmin s))) by (apply in_seq; unfold WMAX in *; lia).
  assert (Ih : In h (seq 0 (S HMAX))) by (apply in_seq; unfold HMAX in *; lia).
  pose proof (proj1 (forallb_forall _ _) (proj1 (forallb_forall _ _) (proj1 (forallb_forall _ _) sweep_ok s Hs) w Iw) h Ih) as C.
  cbv beta in C.
  unfold chk in C. destruct (endorse_cells (box_cells s w h)) as [[acc groups]|]; [|discriminate C].
  destruct acc as [|[sp f] rest]; [discriminate C|]. destruct rest as [|x t].
  - destruct f; try discriminate C. destruct groups; [|discriminate C].
    apply rect_same_eq in C. subst. exists sp. reflexivity.
  - destruct f; discriminate C.
Qed.

(** what a separated part of a drawing yields is what it yields alone, moved *)
Theorem separated_part_result (inA : cell -> bool) cells part (k n : Z) acc groups r :
  separated inA cells -> filter (fun e => inA (fst e)) cells = map (shift_cc k n) part ->
  endorse_cells cells = Ok (acc, groups) -> endorse_cells part = Ok r ->
  (filter (fsside inA) acc, filter (cside inA) groups) = shift_ec k n r.
Proof.
  intros Sep F E Er. pose proof (endorse_cells_of_side inA cells acc groups Sep E) as R.
  rewrite F, (endorse_cells_shift k n part), Er in R. cbn [map_res] in R. inversion R. reflexivity.
Qed.

(** a box of these styles and sizes, anywhere, next to anything that does not touch it: exactly
    one rectangle comes from its cells, the expected one moved, and no contact group *)
Theorem box_recognised_in_context s w h (k n : Z) (inA : cell -> bool) cells acc groups :
  In s styles -> (wmin s <= w <= WMAX)%nat -> (h <= HMAX)%nat ->
  separated inA cells -> filter (fun e => inA (fst e)) cells = map (shift_cc k n) (box_cells s w h) ->
  endorse_cells cells = Ok (acc, groups) ->
  exists sp, filter (fsside inA) acc = [FS (shift_span k n sp) (shift_frag k n (FRect (expected s w h)))] /\ filter (cside inA) groups = [].
Proof.
  intros Hs Hw Hh Sep F E. destruct (box_recognised s w h Hs Hw Hh) as [sp Er].
  pose proof (separated_part_result inA cells _ k n acc groups _ Sep F E Er) as R. cbn [shift_ec fst snd map] in R.
  inversion R as [[R1 R2]]. exists sp. split; [rewrite R1; reflexivity|reflexivity].
Qed.
