(** * QuoteTheory: a quoted segment is lifted out verbatim and blanked by exactly the columns
    it occupies (C15). *)
Require Import SB.Model.Base SB.Model.Unicode SB.Model.Geom SB.Model.Text SB.Theory.TextTotal SB.Theory.LineTheory.
From Coq Require Import Arith.

Definition quote_free (l : list Z) : Prop := Forall (fun c => c <> 34) l.
Definition plain (l : list Z) : Prop := Forall (fun c => c <> 34 /\ c <> 92) l.

Lemma skip_nq_free A rest pos : quote_free A ->
  skip_nq (A ++ 34 :: rest) pos = (34 :: rest, (pos + length A)%nat).
Proof.
  intros F. revert pos. induction F as [|c t Hc Ft IH]; intros pos; cbn [app skip_nq length].
  - change (34 =? 34) with true. cbv iota. f_equal. lia.
  - replace (c =? 34) with false by (symmetry; apply Z.eqb_neq; exact Hc). rewrite IH. f_equal. lia.
Qed.
Lemma skip_nq_all A pos : quote_free A -> skip_nq A pos = ([], (pos + length A)%nat).
Proof.
  intros F. revert pos. induction F as [|c t Hc Ft IH]; intros pos; cbn [skip_nq length]; [f_equal; lia|].
  replace (c =? 34) with false by (symmetry; apply Z.eqb_neq; exact Hc). rewrite IH. f_equal. lia.
Qed.
Lemma char_strings_plain B rest pos : plain B ->
  char_strings (B ++ 34 :: rest) pos = (34 :: rest, (pos + length B)%nat).
Proof.
  intros F. revert pos. induction F as [|c t [Hq Hb] Ft IH]; intros pos.
  - cbn [app length]. destruct rest as [|d r]; [rewrite char_strings_cons1|rewrite char_strings_cons2]; cbn; f_equal; lia.
  - cbn [app length].
    assert (E : exists d u, t ++ 34 :: rest = d :: u) by (destruct t; cbn; eauto). destruct E as [d [u E]].
    rewrite E, char_strings_cons2, <- E.
    replace (c =? 92) with false by (symmetry; apply Z.eqb_neq; exact Hb). cbn [andb].
    replace (c =? 34) with false by (symmetry; apply Z.eqb_neq; exact Hq). rewrite IH. f_equal. lia.
Qed.

Lemma slice_mid {X} (p m s : list X) : slice (p ++ m ++ s) (length p) (length p + length m) = Some m.
Proof.
  unfold slice. rewrite !app_length.
  destruct (Nat.leb_spec (length p) (length p + length m)); [|lia].
  destruct (Nat.leb_spec (length p + length m) (length p + (length m + length s))); [|lia]. cbn [andb].
  rewrite skipn_app, skipn_all, Nat.sub_diag. cbn [app skipn].
  replace (length p + length m - length p)%nat with (length m) by lia.
  rewrite firstn_app, firstn_all, Nat.sub_diag. cbn [firstn]. rewrite app_nil_r. reflexivity.
Qed.
Lemma slice_from_end {X} (p s : list X) : slice_from (p ++ s) (length p) = Some s.
Proof.
  unfold slice_from. rewrite app_length. destruct (Nat.leb_spec (length p) (length p + length s)); [|lia].
  rewrite skipn_app, skipn_all, Nat.sub_diag. reflexivity.
Qed.

(** one quoted segment on a row: [A "B" D] *)
Theorem escape_line_one_segment y A B D :
  quote_free A -> plain B -> quote_free D ->
  escape_line y (A ++ 34 :: B ++ 34 :: D) =
  Ok ([(C (Z.of_nat (length A)) y, B)], A ++ repeatZ 32 (Z.to_nat (escaped_columns B + 2)) ++ D).
Proof.
  intros FA FB FD. unfold escape_line, line_parse.
  set (row := A ++ 34 :: B ++ 34 :: D).
  assert (ES : escape_string row 0 = Some ((length A, S (length A + length B)), [], length row)).
  { unfold escape_string, row. rewrite (skip_nq_free A _ 0 FA). cbn [Nat.add]. change (34 =? 34) with true. cbv iota.
    rewrite (char_strings_plain B D (S (length A)) FB). change (34 =? 34) with true. cbv iota.
    rewrite (skip_nq_all D _ FD).
    assert (LR : length (A ++ 34 :: B ++ 34 :: D) = (S (S (length A + length B)) + length D)%nat)
      by (rewrite !app_length; cbn [length]; rewrite app_length; cbn [length]; lia).
    rewrite LR. apply f_equal. repeat match goal with |- (_, _) = (_, _) => f_equal end; lia. }
  fold (lp row 0). rewrite lp_unfold, ES. rewrite lp_unfold. cbn [escape_string skip_nq option_map bind].
  cbn [escape_segments].
  assert (S1 : slice row (S (length A)) (S (length A + length B)) = Some B).
  { pose proof (slice_mid (A ++ [34]) B (34 :: D)) as H. rewrite <- app_assoc in H. cbn [app] in H.
    rewrite app_length in H. cbn [length] in H.
    replace (length A + 1)%nat with (S (length A)) in H by lia.
    replace (S (length A) + length B)%nat with (S (length A + length B)) in H by lia. exact H. }
  assert (S2 : slice row 0 (length A) = Some A).
  { pose proof (slice_mid [] A (34 :: B ++ 34 :: D)) as H. cbn [app length Nat.add] in H. exact H. }
  assert (S3 : slice_from row (S (S (length A + length B))) = Some D).
  { pose proof (slice_from_end (A ++ 34 :: B ++ [34]) D) as H.
    rewrite <- app_assoc in H. cbn [app] in H. rewrite <- app_assoc in H. cbn [app] in H.
    rewrite app_length in H. cbn [length] in H. rewrite app_length in H. cbn [length] in H.
    replace (length A + S (length B + 1))%nat with (S (S (length A + length B))) in H by lia. exact H. }
  rewrite S1, S2, S3. reflexivity.
Qed.

(** ** the blank run has exactly the width of the quoted region *)
Definition ec_state (st : Z * Z) (c : Z) : Z * Z :=
  let '(cols, fil) := st in
  if (c =? 0) && (0 <? fil) then (cols, fil - 1) else (cols + char_cols c, char_cols c - 1).

Lemma repeatZ_length {X} (x : X) n : length (repeatZ x n) = n.
Proof. induction n; cbn; congruence. Qed.

Lemma fillers_spec c : forall st, snd st = 0 ->
  fold_left ec_state (c :: fillers c) st = (fst st + Z.of_nat (length (c :: fillers c)), 0).
Proof.
  intros [cols fil] H. cbn [snd fst] in *. subst fil. cbn [fold_left ec_state].
  replace ((c =? 0) && (0 <? 0)) with false by (rewrite andb_false_r; reflexivity).
  unfold fillers, char_cols. destruct (char_width c) as [w|] eqn:W.
  - (* w - 1 NULs follow; each is consumed as a filler *)
    assert (G : forall n cols0 k, 0 <= k -> Z.of_nat n <= k ->
              fold_left ec_state (repeatZ 0 n) (cols0, k) = (cols0, k - Z.of_nat n)).
    { induction n as [|n IH]; intros cols0 k Hk Hn; cbn [repeatZ fold_left ec_state]; [f_equal; lia|].
      change (0 =? 0) with true. cbn [andb]. destruct (Z.ltb_spec 0 k); [|lia].
      rewrite IH by lia. f_equal. lia. }
    destruct (Z.le_gt_cases w 1) as [Hw|Hw].
    + replace (Z.to_nat (w - 1)) with 0%nat by lia. cbn [repeatZ fold_left length]. f_equal; lia.
    + rewrite G by lia. cbn [length]. rewrite repeatZ_length. f_equal; lia.
  - cbn [fold_left length]. f_equal.
Qed.

Lemma fold_left_ext {X Y} (f g : X -> Y -> X) : (forall a b, f a b = g a b) -> forall l a, fold_left f l a = fold_left g l a.
Proof. intros H. induction l as [|b t IH]; intros a; cbn; [reflexivity|]. rewrite H. apply IH. Qed.
Lemma escaped_columns_fold seg : escaped_columns seg = fst (fold_left ec_state seg (0, 0)).
Proof. unfold escaped_columns. f_equal. apply fold_left_ext. intros [cols fil] c. reflexivity. Qed.

Lemma row_of_line_fold l : forall st, snd st = 0 ->
  fold_left ec_state (row_of_line l) st = (fst st + Z.of_nat (length (row_of_line l)), 0).
Proof.
  induction l as [|c t IH]; intros st H.
  - cbn. destruct st; cbn in *; subst. f_equal. lia.
  - unfold row_of_line. cbn [flat_map]. fold (row_of_line t). rewrite fold_left_app, (fillers_spec c st H), IH by reflexivity.
    cbn [fst]. rewrite app_length. f_equal. lia.
Qed.

(** for the row of any line, the blank run that replaces a quoted region is as long as the
    region: nothing to its right is displaced, double-width characters included *)
Theorem escaped_columns_row l : escaped_columns (row_of_line l) = Z.of_nat (length (row_of_line l)).
Proof. rewrite escaped_columns_fold, (row_of_line_fold l (0, 0) eq_refl). reflexivity. Qed.

Lemma row_of_line_quote_free l : quote_free l -> quote_free (row_of_line l).
Proof.
  induction 1 as [|c t Hc Ft IH]; [constructor|]. unfold row_of_line; cbn [flat_map]. constructor; [exact Hc|].
  apply Forall_app; split; [|exact IH]. unfold fillers. destruct (char_width c); [|constructor].
  generalize (Z.to_nat (z - 1)). intros n. induction n; cbn; constructor; [discriminate|assumption].
Qed.
Lemma row_of_line_plain l : plain l -> plain (row_of_line l).
Proof.
  induction 1 as [|c t Hc Ft IH]; [constructor|]. unfold row_of_line; cbn [flat_map]. constructor; [exact Hc|].
  apply Forall_app; split; [|exact IH]. unfold fillers. destruct (char_width c); [|constructor].
  generalize (Z.to_nat (z - 1)). intros n. induction n; cbn; constructor; [split; discriminate|assumption].
Qed.

(** the quote character takes one column and has no filler *)
Lemma quote_row : row_of_line [34] = [34].
Proof. vm_compute. reflexivity. Qed.

(** C15 at the level of a line of text: [pre "body" post] *)
Theorem quoted_line y pre body post :
  quote_free pre -> plain body -> quote_free post ->
  escape_line y (row_of_line (pre ++ 34 :: body ++ 34 :: post)) =
  Ok ([(C (Z.of_nat (length (row_of_line pre))) y, row_of_line body)],
      row_of_line pre ++ repeatZ 32 (length (row_of_line body) + 2) ++ row_of_line post).
Proof.
  intros Fp Fb Fq.
  replace (pre ++ 34 :: body ++ 34 :: post) with (pre ++ [34] ++ body ++ [34] ++ post) by reflexivity.
  rewrite !row_of_line_app, quote_row. cbn [app].
  rewrite (escape_line_one_segment y (row_of_line pre) (row_of_line body) (row_of_line post)
             (row_of_line_quote_free _ Fp) (row_of_line_plain _ Fb) (row_of_line_quote_free _ Fq)).
  rewrite escaped_columns_row. repeat f_equal. lia.
Qed.

(** the cells outside the quoted region are those of the line with the region, quotes
    included, overwritten by spaces of the same number of columns *)
Theorem quoted_line_cells y pre body post :
  quote_free pre -> plain body -> quote_free post ->
  match escape_line y (row_of_line (pre ++ 34 :: body ++ 34 :: post)) with
  | Ok (texts, out) =>
      cells_of_row y 0 out
      = cells_of_row y 0 (row_of_line (pre ++ repeatZ 32 (length (row_of_line body) + 2) ++ post))
  | Err _ => False
  end.
Proof.
  intros Fp Fb Fq. rewrite (quoted_line y pre body post Fp Fb Fq).
  rewrite !row_of_line_app. f_equal. f_equal. f_equal.
  generalize (length (row_of_line body) + 2)%nat. intros n. induction n as [|n IH]; [reflexivity|].
  cbn [repeatZ]. change (row_of_line (32 :: repeatZ 32 n)) with (row_of_line [32] ++ row_of_line (repeatZ 32 n)).
  rewrite <- IH. vm_compute (row_of_line [32]). reflexivity.
Qed.
