(** * SwitchTheory: the switches and entry points are consistent and leave geometry alone (C18). *)
Require Import SB.Model.Base SB.Model.Unicode SB.Model.Geom SB.Model.Text SB.Model.Tree SB.Model.Svg SB.Model.Lib
  SB.Model.Endorse SB.Model.FragBuf SB.Theory.Total.
From Coq Require Import QArith String.
From Coq Require Import List.
Import ListNotations.
#[global] Open Scope Z_scope.

Definition root_attrs (w h : Q) : list attr :=
  [sattr "xmlns" "http://www.w3.org/2000/svg"; Lib.num "width" w; Lib.num "height" h; sattr "class" "svgbob"].

(** the children that the three switches control, in their fixed order *)
Definition switch_nodes (st : settings) (legend : list Z) (w h : Q) : list node :=
  (if include_styles st then [style_node st legend] else [])
  ++ (if include_defs st then [defs_node] else [])
  ++ (if include_backdrop st then [backdrop_node w h] else []).

(** the drawing itself: depends on the settings only through the scale *)
Definition drawing_nodes (s : Q) (frags : list fragment) (groups : list (list fragment)) : res (list node) :=
  do fnodes <- fragment_nodes s frags;
  Ok (fnodes ++ map (fun g => Elem (zs "g") [] (map (fragment_node s) g)) groups).

Lemma doc_emit_shape frags groups legend st w h :
  doc_emit frags groups legend st w h =
  match drawing_nodes (scale st) frags groups with
  | Ok body => Ok (Elem (zs "svg") (root_attrs w h) (switch_nodes st legend w h ++ body))
  | Err e => Err e
  end.
Proof.
  unfold doc_emit, drawing_nodes, switch_nodes, root_attrs.
  destruct (fragment_nodes (scale st) frags); cbn [bind]; [|reflexivity].
  rewrite <- !app_assoc. reflexivity.
Qed.

(** two settings values with the same scale give the same drawing nodes, whatever their
    switches, colours, fonts and stroke width are *)
Lemma doc_emit_same_drawing frags groups legend st1 st2 w1 h1 w2 h2 :
  scale st1 = scale st2 ->
  exists body,
    doc_emit frags groups legend st1 w1 h1 = Ok (Elem (zs "svg") (root_attrs w1 h1) (switch_nodes st1 legend w1 h1 ++ body))
    /\ doc_emit frags groups legend st2 w2 h2 = Ok (Elem (zs "svg") (root_attrs w2 h2) (switch_nodes st2 legend w2 h2 ++ body)).
Proof.
  intros E. rewrite !doc_emit_shape, <- E.
  destruct (fragment_nodes_ok (scale st1) frags) as [ns Hn].
  unfold drawing_nodes. rewrite Hn. cbn [bind]. eexists. split; reflexivity.
Qed.

(** colour, font, font size and stroke settings occur only in the style element *)
Definition same_but_style (a b : settings) : Prop :=
  scale a = scale b /\ include_backdrop a = include_backdrop b /\ include_styles a = include_styles b
  /\ include_defs a = include_defs b.

Lemma doc_emit_style_only frags groups legend a b w h :
  same_but_style a b ->
  exists body,
    doc_emit frags groups legend a w h =
      Ok (Elem (zs "svg") (root_attrs w h)
            ((if include_styles a then [style_node a legend] else [])
             ++ (if include_defs a then [defs_node] else []) ++ (if include_backdrop a then [backdrop_node w h] else []) ++ body))
    /\ doc_emit frags groups legend b w h =
      Ok (Elem (zs "svg") (root_attrs w h)
            ((if include_styles a then [style_node b legend] else [])
             ++ (if include_defs a then [defs_node] else []) ++ (if include_backdrop a then [backdrop_node w h] else []) ++ body)).
Proof.
  intros [E1 [E2 [E3 E4]]].
  destruct (doc_emit_same_drawing frags groups legend a b w h w h E1) as [body [H1 H2]].
  exists body. rewrite H1, H2. unfold switch_nodes. rewrite <- E2, <- E3, <- E4, <- !app_assoc. split; reflexivity.
Qed.

(** the override entry point differs from the plain one exactly in the size given to the
    root and to the backdrop *)
Lemma doc_of_override cb st w h w' h' :
  match doc_of cb st w h, doc_of cb st w' h' with
  | Ok (Elem t1 a1 k1), Ok (Elem t2 a2 k2) =>
      exists body, t1 = t2 /\ a1 = root_attrs w h /\ a2 = root_attrs w' h'
                   /\ k1 = switch_nodes st (legend_css (cb_css cb)) w h ++ body
                   /\ k2 = switch_nodes st (legend_css (cb_css cb)) w' h' ++ body
  | _, _ => False
  end.
Proof.
  unfold doc_of. destruct (fragments_of_ok cb) as [[frags groups] ->]. cbn [bind].
  destruct (doc_emit_same_drawing frags groups (legend_css (cb_css cb)) st st w h w' h' eq_refl) as [body [-> ->]].
  exists body. repeat split; reflexivity.
Qed.
