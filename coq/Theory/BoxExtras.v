(** * BoxExtras: boxes with plain text inside and boxes whose sides contain dashed stretches (C05), through the whole
    recognition of the model; finite sweeps with the ranges in the statements. *)
Require Import SB.Model.Base SB.Model.Unicode SB.Model.Geom SB.Model.Fragment SB.Model.Merge SB.Model.Property
  SB.Model.FragBuf SB.Model.Endorse SB.Theory.BoxDefs SB.Theory.TagSweep.

(** ** a two-letter label at every interior position (also flush against the walls): the rectangle and the label, nothing else *)
Definition label_cells (x y : Z) : list (cell * Z) := [(C x y, 97); (C (x + 1) y, 98)].
Definition label_chk (s : bstyle) (w h : nat) (x y : nat) : bool :=
  match endorse_cells (sort_cells (box_cells s w h ++ label_cells (Z.of_nat x) (Z.of_nat y))) with
  | Ok ([FS _ (FRect r); FS _ (FCellText t)], []) =>
      rect_same r (expected s w h) && cell_eqb (ctstart t) (C (Z.of_nat x) (Z.of_nat y)) && zs_eqb (ctcontent t) [97; 98]
  | _ => false
  end.
Lemma label_sweep_ok :
  forallb (fun s => forallb (fun w => forallb (fun h => forallb (fun x => forallb (fun y => label_chk s w h x y)
     (seq 1 h)) (seq 1 (w - 1))) [1; 2]%nat) [2; 3; 4; 5]%nat) styles = true.
Proof. vm_cast_no_check (eq_refl true). Qed.
Theorem box_with_label s w h x y : In s styles -> In w [2; 3; 4; 5]%nat -> In h [1; 2]%nat -> (1 <= x < w)%nat -> (1 <= y <= h)%nat ->
  label_chk s w h x y = true.
Proof.
  intros Hs Hw Hh Hx Hy.
  assert (Ix : In x (seq 1 (w - 1))) by (apply in_seq; lia).
  assert (Iy : In y (seq 1 h)) by (apply in_seq; lia).
  exact (proj1 (forallb_forall _ _) (proj1 (forallb_forall _ _) (proj1 (forallb_forall _ _) (proj1 (forallb_forall _ _) (proj1 (forallb_forall _ _) label_sweep_ok s Hs) w Hw) h Hh) x Ix) y Iy).
Qed.

(** ** dashed stretches in the sides of a sharp box: rows a..b of the left, the right or both sides written with ':' or '!' *)
Definition sharp_box := BS 43 43 43 43 45 124 None false false.
Inductive which := OnLeft | OnRight | OnBoth.
Definition stretch_cells (w h : nat) (side : which) (ch : Z) (a b : nat) : list (cell * Z) :=
  map (fun e => let '(c, k) := e in
                let on_rows := (Z.of_nat a <=? cy c) && (cy c <=? Z.of_nat b) in
                let on_left := cx c =? 0 in let on_right := cx c =? Z.of_nat w + 1 in
                let hit := match side with OnLeft => on_left | OnRight => on_right | OnBoth => on_left || on_right end in
                if on_rows && hit && (k =? 124) then (c, ch) else e) (box_cells sharp_box w h).
Definition stretch_chk (w h : nat) (side : which) (ch : Z) (a b : nat) : bool :=
  match endorse_cells (stretch_cells w h side ch a b) with
  | Ok ([FS _ (FRect r)], []) => rect_same r (mk_rect (P 20 40) (P ((Z.of_nat w + 1) * 40 + 20) ((Z.of_nat h + 1) * 80 + 40)) false None true)
  | _ => false
  end.
Definition sides := [OnLeft; OnRight; OnBoth].
Lemma stretch_sweep_ok :
  forallb (fun w => forallb (fun h => forallb (fun side => forallb (fun ch => forallb (fun a => forallb (fun b => stretch_chk w h side ch a b)
     (seq a (h - a + 1))) (seq 1 h)) [58; 33]) sides) [2; 3; 4; 5]%nat) [1; 3]%nat = true.
Proof. vm_cast_no_check (eq_refl true). Qed.
Theorem box_with_dashed_stretch w h side ch a b :
  In w [1; 3]%nat -> In h [2; 3; 4; 5]%nat -> In ch [58; 33] -> (1 <= a <= b)%nat -> (b <= h)%nat -> stretch_chk w h side ch a b = true.
Proof.
  intros Hw Hh Hc Ha Hb.
  assert (Is : In side sides) by (destruct side; cbn; tauto).
  assert (Ia : In a (seq 1 h)) by (apply in_seq; lia).
  assert (Ib : In b (seq a (h - a + 1))) by (apply in_seq; lia).
  exact (proj1 (forallb_forall _ _) (proj1 (forallb_forall _ _) (proj1 (forallb_forall _ _) (proj1 (forallb_forall _ _) (proj1 (forallb_forall _ _) (proj1 (forallb_forall _ _) stretch_sweep_ok w Hw) h Hh) side Is) ch Hc) a Ia) b Ib).
Qed.
