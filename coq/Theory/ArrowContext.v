(** * ArrowContext: the arrows and bullets of ArrowSweep / BulletSweep anywhere on the page, next to anything that does
    not touch them (with the separation theorems of C10 and the translation theorems of C06). *)
Require Import SB.Model.Base SB.Model.Unicode SB.Model.Geom SB.Model.Fragment SB.Model.Merge SB.Model.Property
  SB.Model.FragBuf SB.Model.Endorse SB.Theory.ArrowTheory SB.Theory.BoxSweep SB.Theory.ArrowDefs SB.Theory.ArrowSweep SB.Theory.BulletSweep.

Require Import SB.Theory.ShiftTheory SB.Theory.ShiftFrag SB.Theory.ShiftBuf SB.Theory.ShiftEndorse SB.Theory.SepTheory SB.Theory.SepOrder.
Theorem arrow_recognised_in_context k L (dx dy : Z) (inA : cell -> bool) cells acc groups :
  In k acases -> (1 <= L <= AMAX)%nat ->
  separated inA cells -> filter (fun e => inA (fst e)) cells = map (shift_cc dx dy) (arrow_cells k L) ->
  endorse_cells cells = Ok (acc, groups) ->
  exists f g l p, map fs_frag (filter (fsside inA) acc) = [shift_frag dx dy (fs_frag f); shift_frag dx dy (fs_frag g)]
    /\ filter (cside inA) groups = []
    /\ ((fs_frag f = FLine l /\ fs_frag g = FPolygon p) \/ (fs_frag f = FPolygon p /\ fs_frag g = FLine l))
    /\ arrow_pair_ok k L l p = true.
Proof.
  intros Hk HL Sep F E. destruct (arrow_recognised k L Hk HL) as [f [g [l [p [Er [Ek Ok1]]]]]].
  pose proof (separated_part_result inA cells _ dx dy acc groups _ Sep F E Er) as R. cbn [shift_ec fst snd map] in R.
  inversion R as [[R1 R2]]. exists f, g, l, p. split; [rewrite R1; reflexivity|]. split; [reflexivity|]. split; assumption.
Qed.
