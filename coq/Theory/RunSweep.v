(** * RunSweep: a straight run of up to 40 line characters is recognised as one line spanning the
    whole run (two for '='), dashed for the dashed characters, and nothing else (C09, first
    clause, through the whole pipeline of the model; finite sweep, the bound is in the
    statement; re-run whenever the tables are regenerated).  With C06 and C10: anywhere, next to
    anything that does not touch it.  (For every length, merging a chain of unit segments gives
    the hull: LineMergeTheory; the sweep adds the step from the characters to those segments.) *)
Require Import SB.Model.Base SB.Model.Unicode SB.Model.Geom SB.Model.Fragment SB.Model.Merge SB.Model.Property
  SB.Model.FragBuf SB.Model.Endorse SB.Theory.ShiftTheory SB.Theory.ShiftFrag SB.Theory.ShiftBuf SB.Theory.ShiftEndorse
  SB.Theory.SepTheory SB.Theory.SepOrder SB.Theory.BoxSweep.

Inductive rdir := RH | RV | RD1 | RD2.     (* horizontal, vertical, diagonal down-right, diagonal down-left *)
Record rkind := RK { rch : Z; rd : rdir; roffs : list Z; rbrk : bool; rmin : nat }.
(** [roffs]: for a horizontal run the heights of its lines in the cell, for a vertical run their
    columns; unused for diagonals.  [rmin]: the shortest run that is drawn as a line. *)
Definition run_cells (k : rkind) (L : nat) : list (cell * Z) :=
  match rd k with
  | RH => map (fun x => (C x 0, rch k)) (seqZ 0 L)
  | RV => map (fun y => (C 0 y, rch k)) (seqZ 0 L)
  | RD1 => map (fun i => (C i i, rch k)) (seqZ 0 L)
  | RD2 => map (fun i => (C (Z.of_nat L - 1 - i) i, rch k)) (seqZ 0 L)
  end.
Definition run_lines (k : rkind) (L : nat) : list fragment :=
  let n := Z.of_nat L in
  match rd k with
  | RH => map (fun y => FLine (Line (P 0 y) (P (n * 40) y) (rbrk k))) (roffs k)
  | RV => map (fun x => FLine (Line (P x 0) (P x (n * 80)) (rbrk k))) (roffs k)
  | RD1 => [FLine (Line (P 0 0) (P (n * 40) (n * 80)) (rbrk k))]
  | RD2 => [FLine (Line (P (n * 40) 0) (P 0 (n * 80)) (rbrk k))]
  end.
Definition line_frag_eqb (a b : fragment) : bool :=
  match a, b with
  | FLine x, FLine y => point_eqb (lstart x) (lstart y) && point_eqb (lend x) (lend y) && Bool.eqb (lbroken x) (lbroken y)
  | _, _ => false
  end.
Lemma line_frag_eqb_eq a b : line_frag_eqb a b = true -> a = b.
Proof.
  destruct a as [[s1 e1 b1]| | | | | |], b as [[s2 e2 b2]| | | | | |]; cbn; try discriminate.
  rewrite !andb_true_iff. intros [[H1 H2] H3].
  assert (PE : forall p q, point_eqb p q = true -> p = q).
  { intros [x y] [x' y']. unfold point_eqb; cbn. rewrite andb_true_iff, !Z.eqb_eq. intros [-> ->]. reflexivity. }
  apply PE in H1. apply PE in H2. apply Bool.eqb_prop in H3. subst. reflexivity.
Qed.
Fixpoint frags_same (a b : list fragment) : bool :=
  match a, b with
  | [], [] => true
  | x :: t, y :: u => line_frag_eqb x y && frags_same t u
  | _, _ => false
  end.
Lemma frags_same_eq a : forall b, frags_same a b = true -> a = b.
Proof.
  induction a as [|x t IH]; intros [|y u]; cbn; try discriminate; [reflexivity|].
  rewrite andb_true_iff. intros [H1 H2]. apply line_frag_eqb_eq in H1. apply IH in H2. subst. reflexivity.
Qed.
Definition run_chk (k : rkind) (L : nat) : bool :=
  match endorse_cells (run_cells k L) with
  | Ok (acc, []) => frags_same (map fs_frag acc) (run_lines k L)
  | _ => false
  end.
Definition kinds : list rkind :=
  [RK 45 RH [40] false 1; RK 95 RH [80] false 1; RK 126 RH [40] true 1; RK 61 RH [30; 50] false 1;
   RK 124 RV [20] false 1; RK 58 RV [20] true 2; RK 33 RV [20] true 2;
   RK 92 RD1 [] false 1; RK 47 RD2 [] false 1;
   RK 9472 RH [40] false 1; RK 9474 RV [20] false 1].
Definition LMAX := 40%nat.
Lemma run_sweep_ok :
  forallb (fun k => forallb (fun L => run_chk k L) (seq (rmin k) (S LMAX - rmin k))) kinds = true.
Proof. vm_cast_no_check (eq_refl true). Qed.

Theorem run_recognised k L : In k kinds -> (rmin k <= L <= LMAX)%nat ->
  exists acc, endorse_cells (run_cells k L) = Ok (acc, []) /\ map fs_frag acc = run_lines k L.
Proof.
  intros Hk HL.
  assert (IL : In L (seq (rmin k) (S LMAX - rmin k))) by (apply in_seq; unfold LMAX in *; lia).
  pose proof (proj1 (forallb_forall _ _) (proj1 (forallb_forall _ _) run_sweep_ok k Hk) L IL) as C. cbv beta in C.
  unfold run_chk in C. destruct (endorse_cells (run_cells k L)) as [[acc groups]|]; [|discriminate C].
  destruct groups; [|discriminate C]. apply frags_same_eq in C. exists acc. split; [reflexivity|exact C].
Qed.

(** anywhere, next to anything that does not touch the run: exactly these lines, moved, come from
    its cells *)
Theorem run_recognised_in_context k L (dx dy : Z) (inA : cell -> bool) cells acc groups :
  In k kinds -> (rmin k <= L <= LMAX)%nat ->
  separated inA cells -> filter (fun e => inA (fst e)) cells = map (shift_cc dx dy) (run_cells k L) ->
  endorse_cells cells = Ok (acc, groups) ->
  map fs_frag (filter (fsside inA) acc) = map (shift_frag dx dy) (run_lines k L) /\ filter (cside inA) groups = [].
Proof.
  intros Hk HL Sep F E. destruct (run_recognised k L Hk HL) as [acc0 [Er Ef]].
  pose proof (separated_part_result inA cells _ dx dy acc groups _ Sep F E Er) as R. cbn [shift_ec fst snd map] in R.
  inversion R as [[R1 R2]]. split; [|reflexivity]. rewrite R1, <- Ef, !map_map. reflexivity.
Qed.
