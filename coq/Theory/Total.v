(** * Total: every entry point of the model returns a document (C01). *)
Require Import SB.Model.Base SB.Model.Unicode SB.Model.Geom SB.Model.Fragment SB.Model.Merge SB.Model.Text
  SB.Model.FragBuf SB.Model.Endorse SB.Model.Tree SB.Model.Svg SB.Model.Lib
  SB.Theory.MergeTheory SB.Theory.TextTotal SB.Theory.EndorseTotal.
From Coq Require Import QArith.

Lemma fragment_nodes_ok s fs : exists ns, fragment_nodes s fs = Ok ns.
Proof.
  unfold fragment_nodes, enclose_fragments.
  destruct (merge_recursive_ok enclose_deep_first (map (fun f => FT f [] []) fs)) as [r [-> _]]. cbn [bind]. eauto.
Qed.

Lemma doc_emit_ok frags groups legend st w h : exists d, doc_emit frags groups legend st w h = Ok d.
Proof.
  unfold doc_emit. destruct (fragment_nodes_ok (scale st) frags) as [ns ->]. cbn [bind]. eauto.
Qed.

Lemma fragments_of_ok cb : exists r, fragments_of cb = Ok r.
Proof.
  unfold fragments_of. destruct (endorse_cells_ok (cb_cells cb)) as [[acc groups] ->]. cbn [bind]. eauto.
Qed.

Lemma doc_of_ok cb st w h : exists d, doc_of cb st w h = Ok d.
Proof.
  unfold doc_of. destruct (fragments_of_ok cb) as [[frags groups] ->]. cbn [bind]. apply doc_emit_ok.
Qed.

Theorem doc_ok input st : exists d, doc input st = Ok d.
Proof.
  unfold doc. destruct (cellbuffer_from_ok input) as [cb ->]. cbn [bind].
  destruct (canvas_size st (cb_cells cb)) as [w h]. apply doc_of_ok.
Qed.

Theorem to_svg_with_settings_ok input st : exists out, to_svg_with_settings input st = Ok out.
Proof. unfold to_svg_with_settings. destruct (doc_ok input st) as [d ->]. cbn [bind]. eauto. Qed.
Theorem to_svg_string_pretty_ok input : exists out, to_svg_string_pretty input = Ok out.
Proof. apply to_svg_with_settings_ok. Qed.
Theorem to_svg_ok input : exists out, to_svg input = Ok out.
Proof. apply to_svg_string_pretty_ok. Qed.
Theorem to_svg_string_compressed_ok input : exists out, to_svg_string_compressed input = Ok out.
Proof. unfold to_svg_string_compressed. destruct (doc_ok input default_settings) as [d ->]. cbn [bind]. eauto. Qed.
Theorem to_svg_with_override_size_ok input st w h : exists out, to_svg_with_override_size input st w h = Ok out.
Proof.
  unfold to_svg_with_override_size. destruct (cellbuffer_from_ok input) as [cb ->]. cbn [bind].
  destruct (doc_of_ok cb st (Qred w) (Qred h)) as [d ->]. cbn [bind]. eauto.
Qed.
