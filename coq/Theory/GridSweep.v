(** * GridSweep: for every small grid of '-', '|', '+', blanks (and a label character) the strokes
    that the whole recognition of the model produces (lines, and the outlines of rectangles) are
    exactly the union of the per-character strokes of the specification of C03, and nothing but
    lines, rectangles and text is produced (finite sweep over the regenerated tables; the shapes
    swept are in the statement).  DashBarPlus proves the per-cell statement for every
    neighbourhood; this adds grouping, merging, contact groups, rectangle recognition and the
    re-reading of what is left after it, on all grids of these shapes. *)
Require Import SB.Model.Base SB.Model.Unicode SB.Model.Geom SB.Model.Fragment SB.Model.Merge SB.Model.Property
  SB.Model.FragBuf SB.Model.Endorse SB.Model.Text SB.Theory.DashBarPlus.

(** strokes in absolute ticks, as half-cell atoms *)
Definition line_atoms (l : line) : option (list atom) :=
  let a := lstart l in let b := lend l in
  if lbroken l then None
  else if (py a =? py b) && (px a mod 20 =? 0) && (px b mod 20 =? 0) && (px a <=? px b)
  then Some (h_atoms (px a) (Z.to_nat ((px b - px a) / 20)) (py a))
  else if (px a =? px b) && (py a mod 40 =? 0) && (py b mod 40 =? 0) && (py a <=? py b)
  then Some (v_atoms (px a) (py a) (Z.to_nat ((py b - py a) / 40)))
  else None.
Definition strokes (f : fragment) : option (list atom) :=
  match f with
  | FLine l => line_atoms l
  | FRect r =>
      if rbroken r || rfilled r then None else
      match rradius r with Some _ => None | None =>
        let a := rstart r in let b := rend r in
        match line_atoms (Line a (P (px b) (py a)) false), line_atoms (Line (P (px a) (py b)) b false),
              line_atoms (Line a (P (px a) (py b)) false), line_atoms (Line (P (px b) (py a)) b false) with
        | Some t, Some bo, Some le, Some ri => Some (t ++ bo ++ le ++ ri)
        | _, _, _, _ => None
        end
      end
  | FCellText _ => Some []
  | _ => None
  end.
Fixpoint all_strokes (fs : list fragment) : option (list atom) :=
  match fs with
  | [] => Some []
  | f :: t => match strokes f, all_strokes t with Some a, Some b => Some (a ++ b) | _, _ => None end
  end.

(** a grid: rows of characters, 0 for a blank *)
Definition grid := list (list Z).
Definition grid_cells (g : grid) : list (cell * Z) :=
  flat_map (fun '(y, row) => flat_map (fun '(x, ch) => if ch =? 0 then [] else [(C (Z.of_nat x) (Z.of_nat y), ch)]) (enumerate row)) (enumerate g).
Definition grid_at (g : grid) (x y : Z) : Z :=
  if (x <? 0) || (y <? 0) then 0 else nth (Z.to_nat x) (nth (Z.to_nat y) g []) 0.
Definition drawing (ch : Z) : Z := if (ch =? DASH) || (ch =? BAR) || (ch =? PLUS) then ch else 0.   (* a label is nothing to its neighbours *)
Definition shift_atom (dx dy : Z) (a : atom) : atom := match a with AH x y => AH (x + dx) (y + dy) | AV x y => AV (x + dx) (y + dy) end.
Definition spec_of_grid (g : grid) : list atom :=
  flat_map (fun '(c, ch) =>
              let nb := fun d => drawing (grid_at g (cx c + cx (dir8_offset d)) (cy c + cy (dir8_offset d))) in
              map (shift_atom (cx c * 40) (cy c * 80)) (spec_atoms ch nb)) (grid_cells g).
(** the grid as input text: rows joined by line feeds, a blank is a space; the text stage of the model (legend search,
    lines, columns, quoted segments, cells) reads exactly the cells of the grid *)
Fixpoint join_rows (rows : list (list Z)) : list Z :=
  match rows with [] => [] | [r] => r | r :: t => r ++ 10 :: join_rows t end.
Definition text_of_grid (g : grid) : list Z := join_rows (map (map (fun c => if c =? 0 then 32 else c)) g).
Definition cell_char_eqb (a b : cell * Z) : bool := cell_eqb (fst a) (fst b) && (snd a =? snd b).
Lemma cell_char_eqb_eq l : forall m, list_eqb cell_char_eqb l m = true -> l = m.
Proof.
  induction l as [|[[x y] c] l IH]; intros [|[[x' y'] c'] m] H; cbn in H; try discriminate; [reflexivity|].
  apply andb_prop in H. destruct H as [H1 H2]. unfold cell_char_eqb, cell_eqb in H1. cbn in H1.
  apply andb_prop in H1. destruct H1 as [H1 H3]. apply andb_prop in H1. destruct H1 as [H1 H4].
  apply Z.eqb_eq in H1, H3, H4. subst. f_equal. apply IH. exact H2.
Qed.
Definition grid_text_ok (g : grid) : bool :=
  match cellbuffer_from (text_of_grid g) with
  | Ok (CellBuffer cells [] []) => list_eqb cell_char_eqb cells (grid_cells g)
  | _ => false
  end.
Definition grid_ok (g : grid) : bool :=
  grid_text_ok g &&
  match endorse_cells (grid_cells g) with
  | Ok (acc, groups) =>
      match all_strokes (map fs_frag acc ++ flat_map (map fs_frag) groups) with
      | Some got => same_atoms got (spec_of_grid g)
      | None => false
      end
  | Err _ => false
  end.

(** all grids of a shape over an alphabet *)
Fixpoint rows_over (alpha : list Z) (w : nat) : list (list Z) :=
  match w with O => [[]] | S k => flat_map (fun r => map (fun c => c :: r) alpha) (rows_over alpha k) end.
Fixpoint grids_over (alpha : list Z) (w h : nat) : list grid :=
  match h with O => [[]] | S k => flat_map (fun g => map (fun r => r :: g) (rows_over alpha w)) (grids_over alpha w k) end.
Definition DRAW := [0; DASH; BAR; PLUS].
Definition WITH_LABEL := [0; DASH; BAR; PLUS; 97].

Lemma grid_sweep_ok :
  forallb grid_ok (grids_over WITH_LABEL 2 2) && forallb grid_ok (grids_over DRAW 4 1) && forallb grid_ok (grids_over DRAW 1 4) = true.
Proof. vm_cast_no_check (eq_refl true). Qed.

Definition in_shape (alpha : list Z) (w h : nat) (g : grid) : Prop :=
  List.length g = h /\ Forall (fun r => List.length r = w /\ Forall (fun c => In c alpha) r) g.
Lemma rows_over_all alpha w r : List.length r = w -> Forall (fun c => In c alpha) r -> In r (rows_over alpha w).
Proof.
  revert r; induction w as [|w IH]; intros r L A.
  - destruct r; [left; reflexivity | discriminate].
  - destruct r as [|c r]; [discriminate|]. inversion A; subst. cbn [rows_over]. apply in_flat_map. exists r. split.
    + apply IH; [cbn in L; lia | assumption].
    + apply in_map_iff. exists c. split; [reflexivity | assumption].
Qed.
Lemma grids_over_all alpha w h g : in_shape alpha w h g -> In g (grids_over alpha w h).
Proof.
  revert g; induction h as [|h IH]; intros g [L A].
  - destruct g; [left; reflexivity | discriminate].
  - destruct g as [|r g]; [discriminate|]. inversion A as [|? ? [Lr Ar] A']; subst. cbn [grids_over]. apply in_flat_map. exists g. split.
    + apply IH. split; [cbn in L; lia | assumption].
    + apply in_map_iff. exists r. split; [reflexivity | apply rows_over_all; [reflexivity || assumption | assumption]].
Qed.

(** the statement for a grid: the recognition succeeds, produces only lines, plain rectangles and text, and the
    strokes are those of the per-character specification *)
Definition grid_strokes_as_specified (g : grid) : Prop :=
  exists acc groups got, cellbuffer_from (text_of_grid g) = Ok (CellBuffer (grid_cells g) [] [])
    /\ endorse_cells (grid_cells g) = Ok (acc, groups)
    /\ all_strokes (map fs_frag acc ++ flat_map (map fs_frag) groups) = Some got
    /\ same_atoms got (spec_of_grid g) = true.
Lemma grid_ok_spec g : grid_ok g = true -> grid_strokes_as_specified g.
Proof.
  unfold grid_ok, grid_strokes_as_specified. intro H. apply andb_prop in H. destruct H as [T H].
  assert (TT : cellbuffer_from (text_of_grid g) = Ok (CellBuffer (grid_cells g) [] [])).
  { unfold grid_text_ok in T. destruct (cellbuffer_from (text_of_grid g)) as [[cells css esc]|]; [|discriminate].
    destruct css; [|discriminate]. destruct esc; [|discriminate]. apply cell_char_eqb_eq in T. subst. reflexivity. }
  destruct (endorse_cells (grid_cells g)) as [[acc groups]|]; [|discriminate].
  destruct (all_strokes _) as [got|] eqn:E; [|discriminate]. exists acc, groups, got. auto.
Qed.
Theorem small_grids_as_specified g :
  in_shape WITH_LABEL 2 2 g \/ in_shape DRAW 4 1 g \/ in_shape DRAW 1 4 g -> grid_strokes_as_specified g.
Proof.
  pose proof grid_sweep_ok as S. apply andb_prop in S. destruct S as [S S3]. apply andb_prop in S. destruct S as [S1 S2].
  intros [H|[H|H]]; apply grid_ok_spec.
  - exact (proj1 (forallb_forall _ _) S1 g (grids_over_all _ _ _ _ H)).
  - exact (proj1 (forallb_forall _ _) S2 g (grids_over_all _ _ _ _ H)).
  - exact (proj1 (forallb_forall _ _) S3 g (grids_over_all _ _ _ _ H)).
Qed.
