(** * LegendTheory: the legend grammar reads back every legend written in the documented
    form (C16, legend clause; also the CRLF / trailing-blank clause of C17). *)
Require Import SB.Model.Base SB.Model.Unicode SB.Model.Geom SB.Model.Text.
From Coq Require Import Arith.

Definition is_ident (name : list Z) : Prop :=
  match name with
  | [] => False
  | c :: t => alpha_or_underscore c = true /\ Forall (fun x => alphanum_or_underscore x = true) t
  end.
Definition no_brace (decl : list Z) : Prop := Forall (fun c => not_brace c = true) decl.
Definition eol_ok (eol : list Z) : Prop := eol = [10] \/ eol = [13; 10].
Definition blank_run (b : list Z) : Prop := Forall (fun c => is_blank c = true) b.

(** one entry as the documentation writes it: [name = {declarations}], then optional blanks *)
Definition entry_src (e : list Z * list Z) (trail : list Z) : list Z :=
  fst e ++ [32; 61; 32; 123] ++ snd e ++ [125] ++ trail.

Lemma take_skip_while f l rest : Forall (fun c => f c = true) l -> (match rest with c :: _ => f c = false | [] => True end) ->
  take_while f (l ++ rest) = l /\ skip_while f (l ++ rest) = rest.
Proof.
  intros F R. induction F as [|c t Hc Ft IH]; cbn [app take_while skip_while].
  - destruct rest as [|c r]; [split; reflexivity|]. cbn. rewrite R. split; reflexivity.
  - rewrite Hc. destruct IH as [-> ->]. split; reflexivity.
Qed.

Lemma p_ident_ok name rest : is_ident name -> (match rest with c :: _ => alphanum_or_underscore c = false | [] => True end) ->
  p_ident (name ++ rest) = Some (name, rest).
Proof.
  intros I R. destruct name as [|c t]; [destruct I|]. destruct I as [Hc Ft].
  cbn [app p_ident]. rewrite Hc. destruct (take_skip_while alphanum_or_underscore t rest Ft R) as [-> ->]. reflexivity.
Qed.

Lemma p_css_styles_ok decl rest : no_brace decl -> p_css_styles (123 :: decl ++ 125 :: rest) = Some (decl, rest).
Proof.
  intros N. unfold p_css_styles. cbn [p_sym]. change (123 =? 123) with true. cbv iota.
  destruct (take_skip_while not_brace decl (125 :: rest) N eq_refl) as [-> ->]. cbn [p_sym].
  change (125 =? 125) with true. reflexivity.
Qed.

Lemma p_space_blanks b rest : blank_run b -> (match rest with c :: _ => is_blank c = false | [] => True end) ->
  p_space (b ++ rest) = rest.
Proof. intros B R. unfold p_space. apply (take_skip_while is_blank b rest B R). Qed.

Lemma p_space_sp rest : p_space (32 :: rest) = p_space rest.
Proof. reflexivity. Qed.
Lemma p_space_nonblank c rest : is_blank c = false -> p_space (c :: rest) = c :: rest.
Proof. intros H. unfold p_space. cbn [skip_while]. rewrite H. reflexivity. Qed.

Lemma p_class_and_style_ok e trail rest : is_ident (fst e) -> no_brace (snd e) ->
  p_class_and_style (entry_src e trail ++ rest) = Some (e, trail ++ rest).
Proof.
  intros I N. destruct e as [name decl]. unfold p_class_and_style, entry_src. cbn [fst snd] in *.
  rewrite <- !app_assoc. rewrite (p_ident_ok name _ I) by reflexivity.
  cbn [app]. rewrite p_space_sp, (p_space_nonblank 61) by reflexivity.
  cbn [p_sym]. change (61 =? 61) with true. cbv iota.
  rewrite p_space_sp, (p_space_nonblank 123) by reflexivity.
  rewrite (p_css_styles_ok decl (trail ++ rest) N). reflexivity.
Qed.

(** the entries after the first, each preceded by [eol] *)
Fixpoint more_src (eol : list Z) (es : list ((list Z * list Z) * list Z)) : list Z :=
  match es with
  | [] => []
  | (e, trail) :: t => eol ++ entry_src e trail ++ more_src eol t
  end.

Definition starts_clean (rest : list Z) : Prop :=
  (* what follows the legend must not look like a separator followed by an entry *)
  p_new_line (p_space rest) = None \/ (exists r, p_new_line (p_space rest) = Some r /\ p_class_and_style r = None).

Lemma p_new_line_eol eol rest : eol_ok eol -> p_new_line (eol ++ rest) = Some rest.
Proof. intros [->| ->]; cbn [app p_new_line]; [destruct rest|]; reflexivity. Qed.

Lemma blank_then_eol b eol rest : blank_run b -> eol_ok eol -> p_space (b ++ eol ++ rest) = eol ++ rest.
Proof. intros B [->| ->]; apply p_space_blanks; auto; reflexivity. Qed.

Lemma p_more_styles_ok eol : eol_ok eol -> forall es fuel trail0 rest,
  (length es <= fuel)%nat -> blank_run trail0 ->
  Forall (fun et => is_ident (fst (fst et)) /\ no_brace (snd (fst et)) /\ blank_run (snd et)) es ->
  (forall last_trail, blank_run last_trail -> p_more_styles (fuel - length es) (last_trail ++ rest) = []) ->
  p_more_styles fuel (trail0 ++ more_src eol es ++ rest) = map fst es.
Proof.
  intros E. induction es as [|[e trail] t IH]; intros fuel trail0 rest L B F Clean.
  - cbn [more_src app map length] in *. rewrite Nat.sub_0_r in Clean. apply Clean; exact B.
  - inversion F as [|? ? [I [N Bt]] Ft]; subst. cbn [fst snd] in *.
    destruct fuel as [|fuel]; [cbn in L; lia|]. cbn [p_more_styles more_src map].
    rewrite <- !app_assoc. rewrite (blank_then_eol trail0 eol _ B E), (p_new_line_eol eol _ E).
    rewrite (p_class_and_style_ok e trail _ I N). f_equal.
    apply IH; auto. cbn [length] in L; lia.
Qed.

Lemma more_src_length eol es : eol_ok eol -> (length es <= length (more_src eol es))%nat.
Proof.
  intros E. induction es as [|[e tr] t IH]; cbn [more_src length]; [lia|].
  rewrite !app_length. destruct E as [->| ->]; cbn [length]; lia.
Qed.

(** the header as the grammar accepts it: blanks, '#', blanks, "Legend:", blanks, line end *)
Definition header_src (b1 b2 b3 eol : list Z) : list Z := b1 ++ [35] ++ b2 ++ LEGEND ++ b3 ++ eol.

Lemma p_tag_ok tg rest : p_tag tg (tg ++ rest) = Some rest.
Proof. induction tg as [|c t IH]; cbn [app p_tag]; [reflexivity|]. rewrite Z.eqb_refl. exact IH. Qed.

Lemma header_ok b1 b2 b3 eol rest : blank_run b1 -> blank_run b2 -> blank_run b3 -> eol_ok eol ->
  parse_css_legend (header_src b1 b2 b3 eol ++ rest) = Some (p_css_style_list rest).
Proof.
  intros B1 B2 B3 E. unfold parse_css_legend, header_src. rewrite <- !app_assoc.
  rewrite (p_space_blanks b1 _ B1) by reflexivity. cbn [app p_sym]. change (35 =? 35) with true. cbv iota.
  rewrite (p_space_blanks b2 _ B2) by reflexivity. rewrite p_tag_ok.
  rewrite (blank_then_eol b3 eol rest B3 E), (p_new_line_eol eol rest E). reflexivity.
Qed.

(** every legend written as header, entries one per line (LF or CRLF, blanks allowed after the
    closing brace), read back as exactly its entries, in order *)
Theorem legend_roundtrip b1 b2 b3 eol e0 t0 es :
  blank_run b1 -> blank_run b2 -> blank_run b3 -> eol_ok eol ->
  is_ident (fst e0) -> no_brace (snd e0) -> blank_run t0 ->
  Forall (fun et => is_ident (fst (fst et)) /\ no_brace (snd (fst et)) /\ blank_run (snd et)) es ->
  parse_css_legend (header_src b1 b2 b3 eol ++ entry_src e0 t0 ++ more_src eol es) = Some (e0 :: map fst es).
Proof.
  intros B1 B2 B3 E I N T0 F. rewrite (header_ok b1 b2 b3 eol _ B1 B2 B3 E). f_equal.
  unfold p_css_style_list.
  pose proof (p_class_and_style_ok e0 t0 (more_src eol es) I N) as H. rewrite H. f_equal.
  pose proof (p_more_styles_ok eol E es (length (t0 ++ more_src eol es)) t0 [] ) as P. rewrite !app_nil_r in P. apply P; auto.
  - rewrite app_length. pose proof (more_src_length eol es E). lia.
  - intros lt Blt. destruct (length (t0 ++ more_src eol es) - length es)%nat; [reflexivity|].
    cbn [p_more_styles]. rewrite app_nil_r.
    pose proof (p_space_blanks lt [] Blt Logic.I) as Q. rewrite app_nil_r in Q. rewrite Q. reflexivity.
Qed.

(** a header with no entry after it: an empty legend *)
Theorem legend_empty b1 b2 b3 eol : blank_run b1 -> blank_run b2 -> blank_run b3 -> eol_ok eol ->
  parse_css_legend (header_src b1 b2 b3 eol) = Some [].
Proof.
  intros B1 B2 B3 E. pose proof (header_ok b1 b2 b3 eol [] B1 B2 B3 E) as H. rewrite app_nil_r in H. rewrite H. reflexivity.
Qed.

(** ** the drawing before the legend is all that is drawn *)
Lemma find_sub_eq pat s before :
  find_sub pat s before =
  if prefix_of pat s then Some (rev before, s)
  else match s with c :: t => find_sub pat t (c :: before) | [] => None end.
Proof. destruct s; reflexivity. Qed.
Lemma prefix_of_self pat rest : prefix_of pat (pat ++ rest) = true.
Proof. induction pat as [|p q IH]; cbn; [reflexivity|]. rewrite Z.eqb_refl. exact IH. Qed.

Lemma find_sub_first pat before rest acc :
  (forall i, (i < length before)%nat -> prefix_of pat (skipn i (before ++ pat ++ rest)) = false) ->
  find_sub pat (before ++ pat ++ rest) acc = Some (rev acc ++ before, pat ++ rest).
Proof.
  revert acc. induction before as [|c t IH]; intros acc H.
  - cbn [app]. rewrite find_sub_eq, prefix_of_self, app_nil_r. reflexivity.
  - cbn [app]. pose proof (H 0%nat ltac:(cbn; lia)) as H0. cbn [skipn app] in H0.
    rewrite find_sub_eq, H0, IH.
    + cbn [rev]. rewrite <- app_assoc. reflexivity.
    + intros i Hi. apply (H (S i)). cbn [length]. lia.
Qed.

Lemma no_hash_no_header before rest :
  Forall (fun c => c <> 35) before ->
  forall i, (i < length before)%nat -> prefix_of LEGEND_MARK (skipn i (before ++ LEGEND_MARK ++ rest)) = false.
Proof.
  intros F. induction F as [|c t Hc Ft IH]; intros i Hi; [cbn in Hi; lia|].
  destruct i as [|i].
  - cbn [skipn app]. unfold LEGEND_MARK at 1. cbn [prefix_of].
    replace (c =? 35) with false by (symmetry; apply Z.eqb_neq; exact Hc). reflexivity.
  - cbn [skipn app]. apply IH. cbn [length] in Hi. lia.
Qed.

(** ** the legend is read with CRLF taken as LF (repair F13) *)
Definition cr_free (l : list Z) : Prop := Forall (fun c => c <> 13) l.
Lemma uncrlf_aux_free a : cr_free a -> forall rest, uncrlf_aux false (a ++ rest) = a ++ uncrlf_aux false rest.
Proof.
  induction 1 as [|c t Hc Ft IH]; intros rest; cbn [app uncrlf_aux]; [reflexivity|].
  replace (c =? 13) with false by (symmetry; apply Z.eqb_neq; exact Hc). destruct (Z.eqb_spec c 10) as [->|N]; rewrite IH; reflexivity.
Qed.
Lemma uncrlf_free a : cr_free a -> uncrlf a = a.
Proof. intros F. unfold uncrlf. rewrite <- (app_nil_r a) at 1. rewrite (uncrlf_aux_free a F []). cbn [uncrlf_aux]. apply app_nil_r. Qed.
Lemma uncrlf_eol rest : uncrlf_aux false ([13; 10] ++ rest) = [10] ++ uncrlf_aux false rest.
Proof. reflexivity. Qed.
Lemma uncrlf_eol_ok eol rest : eol_ok eol -> uncrlf_aux false (eol ++ rest) = [10] ++ uncrlf_aux false rest.
Proof. intros [-> | ->]; reflexivity. Qed.

Lemma cr_free_app a b : cr_free a -> cr_free b -> cr_free (a ++ b).
Proof. intros; apply Forall_app; split; assumption. Qed.
Lemma ident_cr_free n : is_ident n -> cr_free n.
Proof.
  destruct n as [|c t]; [intros []|]. intros [Hc Ft]. constructor.
  - intros ->. vm_compute in Hc. discriminate.
  - eapply Forall_impl; [|exact Ft]. cbn. intros x Hx ->. vm_compute in Hx. discriminate.
Qed.
Lemma blank_cr_free b : blank_run b -> cr_free b.
Proof. intros F. eapply Forall_impl; [|exact F]. cbn. intros x Hx ->. vm_compute in Hx. discriminate. Qed.
Lemma entry_cr_free e t : is_ident (fst e) -> cr_free (snd e) -> blank_run t -> cr_free (entry_src e t).
Proof.
  intros I D T. unfold entry_src. repeat apply cr_free_app; try (apply ident_cr_free; exact I); try exact D; try (apply blank_cr_free; exact T);
    repeat constructor; discriminate.
Qed.
Lemma uncrlf_more eol es : eol_ok eol ->
  Forall (fun et => is_ident (fst (fst et)) /\ cr_free (snd (fst et)) /\ blank_run (snd et)) es ->
  uncrlf_aux false (more_src eol es) = more_src [10] es.
Proof.
  intros E F. induction F as [|[e t] r [I [D T]] Fr IH]; cbn [more_src]; [reflexivity|].
  rewrite (uncrlf_eol_ok eol _ E). cbn [fst snd] in *. rewrite (uncrlf_aux_free _ (entry_cr_free e t I D T)), IH. reflexivity.
Qed.

(** with the drawing [before] (no '#') followed by a legend in the documented form, with either
    line end, the cell buffer is the one of [before] alone and its styles are the entries *)
Theorem cellbuffer_with_legend before eol e0 t0 es :
  Forall (fun c => c <> 35) before -> eol_ok eol ->
  is_ident (fst e0) -> no_brace (snd e0) -> cr_free (snd e0) -> blank_run t0 ->
  Forall (fun et => is_ident (fst (fst et)) /\ no_brace (snd (fst et)) /\ blank_run (snd et)) es ->
  Forall (fun et => cr_free (snd (fst et))) es ->
  cellbuffer_from (before ++ header_src [] [32] [] eol ++ entry_src e0 t0 ++ more_src eol es)
  = cellbuffer_of_text before (e0 :: map fst es).
Proof.
  intros Fb E I N D0 T0 F FD. unfold cellbuffer_from.
  assert (Hsplit : header_src [] [32] [] eol ++ entry_src e0 t0 ++ more_src eol es
                   = LEGEND_MARK ++ (eol ++ entry_src e0 t0 ++ more_src eol es)).
  { unfold header_src, LEGEND_MARK, LEGEND. cbn [app]. reflexivity. }
  rewrite Hsplit.
  rewrite (find_sub_first LEGEND_MARK before _ [] (no_hash_no_header before _ Fb)). cbn [rev app].
  assert (U : uncrlf (LEGEND_MARK ++ eol ++ entry_src e0 t0 ++ more_src eol es)
              = header_src [] [32] [] [10] ++ entry_src e0 t0 ++ more_src [10] es).
  { unfold uncrlf. rewrite (uncrlf_aux_free LEGEND_MARK) by (unfold LEGEND_MARK; repeat constructor; discriminate).
    rewrite (uncrlf_eol_ok eol _ E). rewrite (uncrlf_aux_free _ (entry_cr_free e0 t0 I D0 T0)).
    rewrite (uncrlf_more eol es E).
    - unfold header_src, LEGEND_MARK, LEGEND. cbn [app]. reflexivity.
    - apply Forall_forall. intros et Het. rewrite Forall_forall in F, FD. destruct (F et Het) as [A [_ B]]. repeat split; auto. }
  rewrite U.
  rewrite (legend_roundtrip [] [32] [] [10] e0 t0 es); auto; try constructor; try reflexivity; constructor.
Qed.
