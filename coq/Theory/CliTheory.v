(** * CliTheory: the command-line tool writes what the library computes and reports success
    truthfully (C19), for every option set and every environment. *)
Require Import SB.Model.Base SB.Model.Unicode SB.Model.Geom SB.Model.Svg SB.Model.Lib SB.Model.Cli SB.Theory.Total.
From Coq Require Import QArith.
From Coq Require Import List.
Import ListNotations.
#[global] Open Scope Z_scope.

(** the conversion cannot fail (C01), so [run] never crashes because of it *)
Lemma conv_ok bob st : exists svg, to_svg_with_settings bob st = Ok svg.
Proof. apply to_svg_with_settings_ok. Qed.

Theorem run_exit_zero e o out diag ws :
  run e o = Exit 0 out diag ws ->
  diag = false /\
  exists bob st svg, read_input e o = InText bob /\ settings_of e o = Some st /\ to_svg_with_settings bob st = Ok svg
    /\ ((o_output o = None /\ out = svg ++ [10] /\ ws = [])
        \/ (exists f, o_output o = Some f /\ can_write e f = true /\ out = [] /\ ws = [(f, svg)])).
Proof.
  unfold run. destruct (read_input e o) as [bob| |] eqn:RI; try discriminate.
  destruct (settings_of e o) as [st|] eqn:SO; [|discriminate].
  destruct (conv_ok bob st) as [svg Hs]. rewrite Hs.
  destruct (o_output o) as [f|] eqn:OO.
  - destruct (can_write e f) eqn:CW; [|discriminate]. intros H; inversion H; subst. split; [reflexivity|].
    exists bob, st, svg. repeat split; auto. right. exists f. repeat split; auto.
  - intros H; inversion H; subst. split; [reflexivity|]. exists bob, st, svg. repeat split; auto.
Qed.

Theorem run_exit_nonzero e o code out diag ws :
  run e o = Exit code out diag ws -> code <> 0 -> out = [] /\ ws = [] /\ diag = true.
Proof.
  unfold run. destruct (read_input e o) as [bob| |] eqn:RI; try discriminate.
  - destruct (settings_of e o) as [st|] eqn:SO.
    + destruct (conv_ok bob st) as [svg Hs]. rewrite Hs. destruct (o_output o) as [f|].
      * destruct (can_write e f); intros H; inversion H; subst; intros N; [congruence|auto].
      * intros H; inversion H; subst; intros N; congruence.
    + intros H; inversion H; subst; auto.
  - intros H; inversion H; subst; auto.
Qed.

(** success exactly when the input was readable, every supplied number parsed and the output
    could be written *)
Theorem run_succeeds_iff e o :
  (exists out ws, run e o = Exit 0 out false ws) <->
  (exists bob, read_input e o = InText bob) /\ (exists st, settings_of e o = Some st)
  /\ (forall f, o_output o = Some f -> can_write e f = true).
Proof.
  split.
  - intros [out [ws H]]. apply run_exit_zero in H. destruct H as [_ [bob [st [svg [H1 [H2 [H3 H4]]]]]]].
    split; [eauto|split; [eauto|]]. intros f Hf. destruct H4 as [[H4 _]|[f' [H4 [H5 _]]]]; congruence.
  - intros [[bob H1] [[st H2] H3]]. unfold run. rewrite H1, H2. destruct (conv_ok bob st) as [svg Hs]. rewrite Hs.
    destruct (o_output o) as [f|]; [rewrite (H3 f eq_refl)|]; eauto.
Qed.

(** ** build *)
Lemma build_loop_spec e out ext l ws n : build_loop e out ext l = Some (ws, n) ->
  length ws = length (filter (fun en => matching ext en && match convert_file e out en with FileOk _ => true | _ => false end) l)
  /\ n = length (filter (fun en => matching ext en && match convert_file e out en with FileFailed => true | _ => false end) l)
  /\ (forall w, In w ws -> exists en svg, In en l /\ matching ext en = true /\ e_content en = ReadText (fst (svg : list Z * list Z))
                                     /\ to_svg_with_settings (fst svg) default_settings = Ok (snd w) /\ fst w = out (e_name en)).
Proof.
  revert ws n. induction l as [|en t IH]; cbn [build_loop filter]; intros ws n H.
  - inversion H; subst. repeat split; auto. intros w [].
  - destruct (matching ext en) eqn:M; cbn [andb].
    + destruct (convert_file e out en) as [w| |] eqn:CF; [| |discriminate].
      * destruct (build_loop e out ext t) as [[ws' n']|]; cbn [option_map] in H; [|discriminate]. inversion H; subst.
        destruct (IH ws' n eq_refl) as [H1 [H2 H3]]. cbn [length fst snd]. repeat split; auto.
        intros w0 [<-|Hin].
        -- unfold convert_file in CF. destruct (e_content en) as [s| |] eqn:EC; try discriminate.
           destruct (to_svg_with_settings s default_settings) as [svg|] eqn:TS; [|discriminate].
           destruct (can_write e (out (e_name en))); [|discriminate]. inversion CF; subst.
           exists en, (s, svg). cbn [fst snd]. repeat split; auto. left; reflexivity.
        -- destruct (H3 w0 Hin) as [en' [svg [Hi R]]]. exists en', svg. split; [right; exact Hi|exact R].
      * destruct (build_loop e out ext t) as [[ws' n']|]; cbn [option_map] in H; [|discriminate]. inversion H; subst.
        destruct (IH ws n' eq_refl) as [H1 [H2 H3]]. cbn [length fst snd]. repeat split; auto.
        intros w0 Hin. destruct (H3 w0 Hin) as [en' [svg [Hi R]]]. exists en', svg. split; [right; exact Hi|exact R].
    + destruct (IH ws n H) as [H1 [H2 H3]]. repeat split; auto.
      intros w0 Hin. destruct (H3 w0 Hin) as [en' [svg [Hi R]]]. exists en', svg. split; [right; exact Hi|exact R].
Qed.

Theorem build_exit_zero_iff e dir out ext l :
  (exists ws, build e dir out ext l = Exit 0 [] false ws) <->
  dir = true /\ exists ws, build_loop e out ext l = Some (ws, 0%nat).
Proof.
  unfold build. destruct dir; cbn [negb].
  - destruct (build_loop e out ext l) as [[ws [|n]]|]; split.
    + intros _. split; [reflexivity|eauto].
    + intros _. eauto.
    + intros [ws' H]; discriminate.
    + intros [_ [ws' H]]; discriminate.
    + intros [ws' H]; discriminate.
    + intros [_ [ws' H]]; discriminate.
  - split; [intros [ws H]; discriminate|intros [H _]; discriminate].
Qed.
